package main

// Rules for the connection loop and the serializer (C01).

import (
	"fmt"
	"go/ast"
	"go/constant"
	"go/token"
	"go/types"
	"strings"

	"golang.org/x/tools/go/ssa"
)

type cxnAnchors struct {
	queueFn   *ssa.Function // sends a state-change event on the connection's channel
	readFn    *ssa.Function // the wait-state handler: called from the run loop, reaches the socket read
	rawReadFn *ssa.Function // contains the call of net.Conn.Read (the handler itself or a helper of it)
	writeFn   *ssa.Function // calls net.Conn.Write (the per-command goroutine)
	writeCall ssa.CallInstruction
	writes    []ssa.CallInstruction // every net.Conn.Write in connection code
	runFn     *ssa.Function         // the state machine loop (receives from the channel)
	waitState int64                 // state constant under which readFn is called
	dispState int64                 // state constant under which the dispatch function is called
	parseFn   *ssa.Function         // creates the deserializer
	errs      []string
	fInbound  *types.Var
}

// followsDispatch: a call that reaches the command dispatcher dominates the instruction in its function, or the function
// is a helper called (only) from such a place.
func (c *Ctx) followsDispatch(in ssa.CallInstruction) bool {
	hs := c.M.Locks().handlerDynSites
	reachesDispatch := func(g *ssa.Function) bool {
		if g == nil || !c.InPkg(g) {
			return false
		}
		for site := range hs {
			if site.Parent() == g || c.M.Reach(g)[site.Parent()] {
				return true
			}
		}
		return false
	}
	var check func(at ssa.Instruction, depth int) bool
	check = func(at ssa.Instruction, depth int) bool {
		fn := at.Parent()
		for _, in2 := range instrsOf(fn) {
			if c2, ok := in2.(*ssa.Call); ok && in2 != at && reachesDispatch(c2.Call.StaticCallee()) && instrDominates(in2, at) {
				return true
			}
		}
		if depth < 2 {
			if node := c.CG.Nodes[fn]; node != nil && len(node.In) > 0 {
				all := true
				for _, e := range node.In {
					if !check(e.Site, depth+1) {
						all = false
					}
				}
				return all
			}
		}
		return false
	}
	return check(in, 0)
}

func isConnMethod(c ssa.CallInstruction, name string) bool {
	cc := c.Common()
	if !cc.IsInvoke() || cc.Method.Name() != name {
		return false
	}
	n, ok := cc.Value.Type().(*types.Named)
	return ok && n.Obj().Pkg() != nil && n.Obj().Pkg().Path() == "net" && n.Obj().Name() == "Conn"
}

func (c *Ctx) cxn() *cxnAnchors {
	a := &cxnAnchors{waitState: -1, dispState: -1}
	a.fInbound = c.Field("clientCxn", "inbound")
	fCh := c.Field("clientCxn", "csceCh")
	if a.fInbound == nil || fCh == nil {
		a.errs = append(a.errs, "clientCxn.inbound / csceCh not found")
		return a
	}
	for _, fn := range c.SrcFuncs() {
		recvCxn := fn.Signature.Recv() != nil && c.isPkgType(fn.Signature.Recv().Type(), "clientCxn")
		for _, in := range instrsOf(fn) {
			switch x := in.(type) {
			case *ssa.Send:
				if _, f := loadedField(x.Chan); f == fCh && recvCxn {
					a.queueFn = fn
				}
			case *ssa.UnOp:
				if x.Op == token.ARROW {
					if _, f := loadedField(x.X); f == fCh {
						a.runFn = fn
					}
				}
			case ssa.CallInstruction:
				if isConnMethod(x, "Read") && (recvCxn || enclosingRecv(c, fn)) {
					a.readFn = fn
					a.rawReadFn = fn
				}
				if isConnMethod(x, "Write") && enclosingRecv(c, fn) {
					a.writes = append(a.writes, x)
					// the reply writer is the write that follows a dispatch of the command in the same function (or whose
					// function is only reached after one); any other write is judged by the single-writer clause
					if a.writeFn == nil || c.followsDispatch(x) {
						a.writeFn, a.writeCall = fn, x
					}
				}
				if call, ok := in.(*ssa.Call); ok {
					if g := call.Call.StaticCallee(); g != nil && g.Signature.Results().Len() == 1 && c.isPkgType(g.Signature.Results().At(0).Type(), "respDeserializer") && recvCxn {
						a.parseFn = fn
					}
				}
			}
		}
	}
	// the loop that receives the events may hand each of them to a step method (`for cc.step(<-cc.csceCh) {}`): the state
	// machine is then that method
	if a.runFn != nil {
		for _, in := range instrsOf(a.runFn) {
			call, ok := in.(*ssa.Call)
			if !ok {
				continue
			}
			g := call.Call.StaticCallee()
			if g == nil || !c.InPkg(g) || g.Signature.Recv() == nil || !c.isPkgType(g.Signature.Recv().Type(), "clientCxn") {
				continue
			}
			takesEvent := false
			for _, arg := range call.Call.Args {
				if u, ok := arg.(*ssa.UnOp); ok && u.Op == token.ARROW {
					if _, f := loadedField(u.X); f == fCh {
						takesEvent = true
					}
				}
			}
			if takesEvent {
				a.runFn = g
			}
		}
	}
	if a.parseFn == nil && a.runFn != nil {
		// the parser may be made by a helper type that holds the pending bytes (`cc.inbound.nextCommand()`): the function
		// the run loop reaches that creates the deserializer
		reach := c.M.Reach(a.runFn)
		var cands []*ssa.Function
		for f := range reach {
			for _, in := range instrsOf(f) {
				if call, ok := in.(*ssa.Call); ok {
					if g := call.Call.StaticCallee(); g != nil && g.Signature.Results().Len() == 1 && c.isPkgType(g.Signature.Results().At(0).Type(), "respDeserializer") {
						cands = append(cands, f)
					}
				}
			}
		}
		if len(cands) == 1 {
			a.parseFn = cands[0]
		}
	}
	for name, f := range map[string]*ssa.Function{"state-change sender": a.queueFn, "socket reader": a.readFn, "reply writer": a.writeFn, "state machine loop": a.runFn, "request parser": a.parseFn} {
		if f == nil {
			a.errs = append(a.errs, name+" not found")
		}
	}
	if len(a.errs) > 0 {
		return a
	}
	// the wait-state handler is the function the run loop calls that reaches the raw socket read (the read may have
	// been moved into a helper of the handler)
	if a.runFn != nil && a.rawReadFn != nil {
		for _, in := range instrsOf(a.runFn) {
			if call, ok := in.(*ssa.Call); ok {
				if g := call.Call.StaticCallee(); g != nil && g != a.rawReadFn && c.InPkg(g) && c.M.Reach(g)[a.rawReadFn] {
					a.readFn = g
				}
			}
		}
	}
	// state constants: in the run loop, the comparison that guards the call of readFn / of the function that starts writeFn
	// the dispatch-state handler is the function that starts (with `go`) the goroutine that writes the reply — the
	// write itself may sit in the goroutine's body or in a helper it calls
	var dispatchStarter *ssa.Function
	if a.writeFn.Parent() != nil {
		dispatchStarter = a.writeFn.Parent()
	}
	for _, fn := range c.SrcFuncs() {
		for _, in := range instrsOf(fn) {
			g, ok := in.(*ssa.Go)
			if !ok {
				continue
			}
			for _, t := range c.Callees(g) {
				if t == a.writeFn || (c.InPkg(t) && c.M.Reach(t)[a.writeFn]) {
					if enclosingRecv(c, fn) {
						dispatchStarter = fn
					}
				}
			}
		}
	}
	for _, in := range instrsOf(a.runFn) {
		call, ok := in.(*ssa.Call)
		if !ok {
			continue
		}
		g := call.Call.StaticCallee()
		if g == nil || (g != a.readFn && g != dispatchStarter) {
			continue
		}
		// find the dominating `state == K` true edge
		for _, d := range a.runFn.Blocks {
			ifi, ok := d.Instrs[len(d.Instrs)-1].(*ssa.If)
			if !ok {
				continue
			}
			bo, ok := ifi.Cond.(*ssa.BinOp)
			if !ok || bo.Op != token.EQL {
				continue
			}
			k, isC := constInt(bo.Y)
			if !isC {
				continue
			}
			s := d.Succs[0]
			if len(s.Preds) == 1 && (s == call.Block() || s.Dominates(call.Block())) {
				if g == a.readFn {
					a.waitState = k
				} else {
					a.dispState = k
				}
			}
		}
	}
	if a.waitState < 0 || a.dispState < 0 {
		// the state machine may be a table: a package-level map literal from state constants to methods
		c.stateTable(a, dispatchStarter)
	}
	if a.waitState < 0 || a.dispState < 0 {
		a.errs = append(a.errs, "state constants of the wait / dispatch states not found in the run loop")
	}
	return a
}

func enclosingRecv(c *Ctx, fn *ssa.Function) bool {
	for f := fn; f != nil; f = f.Parent() {
		if f.Signature.Recv() != nil && c.isPkgType(f.Signature.Recv().Type(), "clientCxn") {
			return true
		}
	}
	return false
}

// queueCalls: calls to the state-change sender with a constant state argument.
func (a *cxnAnchors) queueCalls(fn *ssa.Function, state int64) []*ssa.Call {
	var out []*ssa.Call
	for _, in := range instrsOf(fn) {
		call, ok := in.(*ssa.Call)
		if !ok {
			continue
		}
		if st, _, ok := a.queuedState(call); ok && st == state {
			out = append(out, call)
		}
	}
	return out
}

// queuedState: the call queues a state change with a constant state — directly, or through a thin wrapper that does
// nothing but forward to the sender with its own constant (`cc.thenWaitForCommand()`, `cc.thenDispatchCommand(cmd)`).
// data is the event data as seen at this call site (nil when the wrapper passes the constant nil).
func (a *cxnAnchors) queuedState(call *ssa.Call) (state int64, data ssa.Value, ok bool) {
	g := call.Call.StaticCallee()
	if g == nil {
		return 0, nil, false
	}
	if g == a.queueFn {
		if len(call.Call.Args) < 2 {
			return 0, nil, false
		}
		k, isC := constInt(call.Call.Args[1])
		if !isC {
			return 0, nil, false
		}
		if len(call.Call.Args) >= 3 {
			data = call.Call.Args[2]
		}
		return k, data, true
	}
	if len(g.Blocks) != 1 {
		return 0, nil, false // a wrapper has no branches
	}
	var inner *ssa.Call
	for _, in := range g.Blocks[0].Instrs {
		if c2, isCall := in.(*ssa.Call); isCall {
			if inner != nil || c2.Call.StaticCallee() != a.queueFn {
				return 0, nil, false
			}
			inner = c2
		}
	}
	if inner == nil || len(inner.Call.Args) < 2 {
		return 0, nil, false
	}
	k, isC := constInt(inner.Call.Args[1])
	if !isC {
		return 0, nil, false
	}
	if len(inner.Call.Args) >= 3 {
		d := inner.Call.Args[2]
		if mi, isMi := d.(*ssa.MakeInterface); isMi {
			d = mi.X
		}
		for i, p := range g.Params {
			if d == ssa.Value(p) && i < len(call.Call.Args) {
				data = call.Call.Args[i]
			}
		}
	}
	return k, data, true
}

const textRearm = "R-C01-rearm: one command in flight per connection, replies in request order: the goroutine that runs a command performs exactly one socket write per path and re-arms the wait-for-command state only after that write succeeded; the socket is read only under the wait state; no function both hands a command to the dispatcher and re-arms the read on one path"

func ruleC01Rearm(c *Ctx) {
	c.S.Rule("R-C01-rearm", textRearm, 4)
	a := c.cxn()
	for _, e := range a.errs {
		c.S.Undecided("R-C01-rearm", "anchors:"+e, "-", e)
	}
	if len(a.errs) > 0 {
		return
	}
	w := a.writeFn
	wi := a.writeCall.(ssa.Instruction)
	// the write may live in a helper of the command goroutine that reports success (bool / error): then the goroutine
	// function is the caller and the call of the helper stands for the write
	var helperOK func(v ssa.Value, blk *ssa.BasicBlock) bool // does block blk lie on the success side of the helper's result v?
	if len(a.queueCalls(w, a.waitState)) == 0 {
		if node := c.CG.Nodes[w]; node != nil && len(node.In) == 1 && c.writeReportsSuccess(w, a.writeCall) {
			site := node.In[0].Site
			if call, ok := site.(*ssa.Call); ok {
				helper := w
				w, wi = node.In[0].Caller.Func, call
				helperOK = func(v ssa.Value, blk *ssa.BasicBlock) bool {
					for _, b := range w.Blocks {
						ifi, ok := b.Instrs[len(b.Instrs)-1].(*ssa.If)
						if !ok {
							continue
						}
						succ := -1
						switch helper.Signature.Results().At(0).Type().String() {
						case "bool":
							if ifi.Cond == v {
								succ = 0
							} else if u, ok := ifi.Cond.(*ssa.UnOp); ok && u.Op == token.NOT && u.X == v {
								succ = 1
							}
						case "error":
							if bo, ok := ifi.Cond.(*ssa.BinOp); ok && (bo.X == v || bo.Y == v) && (isNilConst(bo.X) || isNilConst(bo.Y)) {
								succ = 1
								if bo.Op == token.EQL {
									succ = 0
								}
							}
						}
						if succ >= 0 {
							s2 := b.Succs[succ]
							if len(s2.Preds) == 1 && (s2 == blk || s2.Dominates(blk)) {
								return true
							}
						}
					}
					return false
				}
			}
		}
	}
	// (1) re-arm calls in the writer are dominated by the write and by its nil-error edge
	rearms := a.queueCalls(w, a.waitState)
	if len(rearms) == 0 {
		c.S.Bad("R-C01-rearm", fnName(w)+":rearm", c.Pos(w.Pos()), "the command goroutine never re-arms the wait-for-command state: the connection would serve one command only")
	}
	for i, r := range rearms {
		key := fmt.Sprintf("%s:rearm#%d", fnName(w), i+1)
		okDom := instrDominates(wi, r)
		okErr := false
		if helperOK != nil {
			okErr = helperOK(wi.(ssa.Value), r.Block())
		}
		if wv, isVal := wi.(ssa.Value); isVal {
			for _, rr := range referrers(wv) {
				ex, isEx := rr.(*ssa.Extract)
				if !isEx || ex.Index != 1 {
					continue
				}
				if s := nonNilSucc(ex.Block(), ex); s != nil {
					// the nil side
					nilSide := ex.Block().Succs[0]
					if nilSide == s {
						nilSide = ex.Block().Succs[1]
					}
					if len(nilSide.Preds) == 1 && (nilSide == r.Block() || nilSide.Dominates(r.Block())) {
						okErr = true
					}
				}
			}
		}
		switch {
		case !okDom:
			c.S.Bad("R-C01-rearm", key, c.Pos(r.Pos()), "the next read is armed on a path that has not written the reply yet: a pipelined command can be dispatched (and answered) before the previous reply is on the wire")
		case !okErr:
			c.S.Bad("R-C01-rearm", key, c.Pos(r.Pos()), "the next read is armed without checking that the reply was written")
		default:
			c.S.OK("R-C01-rearm", key, c.Pos(r.Pos()), "re-arm dominated by the reply write and its nil-error edge")
		}
	}
	// (2) exactly one write per path
	isRawWrite := func(in ssa.Instruction) bool {
		call, ok := in.(ssa.CallInstruction)
		return ok && isConnMethod(call, "Write")
	}
	isWrite := func(in ssa.Instruction) bool {
		if isRawWrite(in) {
			return true
		}
		// a helper of the goroutine that writes on every path
		if call, ok := in.(*ssa.Call); ok {
			if g := call.Call.StaticCallee(); g != nil && c.InPkg(g) {
				return c.mustPass(g, isRawWrite, 0)
			}
		}
		return false
	}
	nWrites := 0
	for _, in := range instrsOf(w) {
		if isWrite(in) {
			nWrites++
		}
	}
	cm := &CoverModel{m: c.M, mm: c.M.Muts(), isEvent: isWrite, always: map[*ssa.Function]bool{}}
	key := fnName(w) + ":one-write"
	switch {
	case cm.exitReachableWithoutE(w, w.Blocks[0], 0):
		c.S.Bad("R-C01-rearm", key, c.Pos(w.Pos()), "some path of the command goroutine returns without writing a reply: the command goes unanswered")
	case nWrites != 1 || blockInCycle(wi.Block()):
		c.S.Bad("R-C01-rearm", key, c.Pos(c.InstrPos(wi)), fmt.Sprintf("the command goroutine can write more than once per command (%d write sites%s)", nWrites, map[bool]string{true: ", in a loop", false: ""}[blockInCycle(wi.Block())]))
	default:
		c.S.OK("R-C01-rearm", key, c.Pos(c.InstrPos(wi)), "every path performs exactly one socket write")
	}
	// (3) the socket is read only from the run loop under the wait state
	nRead := 0
	for _, fn := range c.SrcFuncs() {
		for _, in := range instrsOf(fn) {
			call, ok := in.(*ssa.Call)
			if !ok || call.Call.StaticCallee() != a.readFn {
				continue
			}
			nRead++
			key := fmt.Sprintf("%s:calls-reader#%d", fnName(fn), nRead)
			if fn == a.runFn || fn.Synthetic != "" {
				c.S.OK("R-C01-rearm", key, c.Pos(call.Pos()), fmt.Sprintf("reader entered from the run loop under state %d", a.waitState))
			} else {
				c.S.Bad("R-C01-rearm", key, c.Pos(call.Pos()), fmt.Sprintf("%s reads the socket outside the state machine: two readers can consume the request stream", fnName(fn)))
			}
		}
	}
	if a.rawReadFn != a.readFn {
		inHandler := map[*ssa.Function]bool{}
		for _, f := range c.helperClosure(a.readFn, 3) {
			inHandler[f] = true
		}
		for _, fn := range c.SrcFuncs() {
			for _, in := range instrsOf(fn) {
				call, ok := in.(*ssa.Call)
				if !ok || call.Call.StaticCallee() != a.rawReadFn {
					continue
				}
				nRead++
				key := fmt.Sprintf("%s:calls-reader#%d", fnName(fn), nRead)
				if inHandler[fn] {
					c.S.OK("R-C01-rearm", key, c.Pos(call.Pos()), "the socket read helper is called from the wait-state handler only")
				} else {
					c.S.Bad("R-C01-rearm", key, c.Pos(call.Pos()), fmt.Sprintf("%s reads the socket outside the wait-state handler: two readers can consume the request stream", fnName(fn)))
				}
			}
		}
	}
	// (4) no function both dispatches a command and re-arms the read on one path
	for _, fn := range c.SrcFuncs() {
		ds, rs := a.queueCalls(fn, a.dispState), a.queueCalls(fn, a.waitState)
		if len(ds) == 0 {
			continue
		}
		bad := false
		for _, d := range ds {
			for _, r := range rs {
				if reachableFrom(d.Block(), nil)[r.Block()] && (d.Block() != r.Block() || instrIndex(r) > instrIndex(d)) ||
					reachableFrom(r.Block(), nil)[d.Block()] && (d.Block() != r.Block() || instrIndex(d) > instrIndex(r)) {
					bad = true
				}
			}
		}
		key := fnName(fn) + ":dispatch-xor-rearm"
		if bad {
			c.S.Bad("R-C01-rearm", key, c.Pos(ds[0].Pos()), fmt.Sprintf("%s hands a command to the dispatcher and arms the next read on the same path: two commands of one connection can run concurrently and their replies can swap", fnName(fn)))
		} else {
			c.S.OK("R-C01-rearm", key, c.Pos(ds[0].Pos()), "dispatching and re-arming are on exclusive paths")
		}
	}
}

const textConsume = "R-C01-consume: the request buffer is consumed by exactly the length the parser reported for the very value that is dispatched, and is otherwise only appended to or re-sliced from its front; the parser object is function-local (never stored in a field or global), so the reply depends on the concatenated bytes, not on how they were cut into reads"

func ruleC01Consume(c *Ctx) {
	c.S.Rule("R-C01-consume", textConsume, 3)
	a := c.cxn()
	if len(a.errs) > 0 {
		c.S.Undecided("R-C01-consume", "anchors", "-", strings.Join(a.errs, "; "))
		return
	}
	// stores to inbound
	for _, fn := range c.SrcFuncs() {
		n := 0
		for _, in := range instrsOf(fn) {
			st, ok := isStoreTo(in, a.fInbound)
			if !ok {
				continue
			}
			n++
			key := fmt.Sprintf("%s:inbound-store#%d", fnName(fn), n)
			switch v := st.Val.(type) {
			case *ssa.Slice:
				if _, f := loadedField(v.X); f == a.fInbound {
					// front re-slice: low = parsed length, no high
					if v.Low == nil || v.High != nil {
						c.S.Bad("R-C01-consume", key, c.Pos(st.Pos()), "the request buffer is cut at its end or not from a parsed length")
						continue
					}
					if c.lengthOfDispatched(a, fn, v.Low) {
						c.S.OK("R-C01-consume", key, c.Pos(st.Pos()), "buffer advanced by the length returned together with the dispatched value")
					} else {
						c.S.Bad("R-C01-consume", key, c.Pos(st.Pos()), "the buffer is advanced by a length that is not the one the parser returned for the value being dispatched: bytes of the next command are dropped or re-parsed")
					}
				} else if freshBuffer(v.X) || freshSliceEverywhere(c, v.X, 0) {
					c.S.OK("R-C01-consume", key, c.Pos(st.Pos()), "first chunk: slice of the read buffer")
				} else if mk, isMk := v.X.(*ssa.MakeSlice); isMk {
					_ = mk
					c.S.OK("R-C01-consume", key, c.Pos(st.Pos()), "first chunk: slice of the read buffer")
				} else {
					c.S.Bad("R-C01-consume", key, c.Pos(st.Pos()), "the request buffer is replaced by something that is neither its own tail nor the bytes just read")
				}
			case *ssa.Call:
				b, isB := v.Call.Value.(*ssa.Builtin)
				if isB && b.Name() == "append" {
					if _, f := loadedField(v.Call.Args[0]); f == a.fInbound {
						c.S.OK("R-C01-consume", key, c.Pos(st.Pos()), "append of the bytes just read")
						continue
					}
				}
				c.S.Bad("R-C01-consume", key, c.Pos(st.Pos()), "the request buffer is assigned a value that is not append(buffer, newBytes...)")
			case *ssa.Const:
				c.S.Bad("R-C01-consume", key, c.Pos(st.Pos()), "the request buffer is reset: bytes of pipelined commands already received are dropped")
			default:
				c.S.Bad("R-C01-consume", key, c.Pos(st.Pos()), "unrecognised update of the request buffer")
			}
		}
	}
	// parser object is function-local
	n := 0
	for _, fn := range c.SrcFuncs() {
		for _, in := range instrsOf(fn) {
			st, ok := in.(*ssa.Store)
			if !ok || !c.isPkgType(st.Val.Type(), "respDeserializer") {
				continue
			}
			if _, isPtr := st.Val.Type().Underlying().(*types.Pointer); !isPtr {
				continue
			}
			switch st.Addr.(type) {
			case *ssa.FieldAddr, *ssa.Global:
				n++
				c.S.Bad("R-C01-consume", fmt.Sprintf("%s:parser-kept#%d", fnName(fn), n), c.Pos(st.Pos()), "a request parser object is kept in a field/global across reads: parse state then depends on how the bytes were split into TCP segments")
			}
		}
	}
	if n == 0 {
		c.S.OK("R-C01-consume", "parser-local", c.Pos(a.parseFn.Pos()), "no *respDeserializer is stored in a field or global; the parser is rebuilt over the accumulated buffer")
	}
}

// freshSliceEverywhere: a buffer that is newly allocated for this use — in this function, or (a parameter) at every
// static call site. A buffer kept in a field and reused across reads is not fresh: the pending input would alias it.
func freshSliceEverywhere(c *Ctx, v ssa.Value, depth int) bool {
	if depth > 3 {
		return false
	}
	switch x := v.(type) {
	case *ssa.MakeSlice, *ssa.Alloc:
		return true
	case *ssa.Slice:
		return freshSliceEverywhere(c, x.X, depth)
	case *ssa.Parameter:
		fn := x.Parent()
		idx := -1
		for i, q := range fn.Params {
			if q == x {
				idx = i
			}
		}
		node := c.CG.Nodes[fn]
		if node == nil || idx < 0 || len(node.In) == 0 {
			return false
		}
		for _, e := range node.In {
			cc := e.Site.Common()
			if cc.IsInvoke() || idx >= len(cc.Args) || !freshSliceEverywhere(c, cc.Args[idx], depth+1) {
				return false
			}
		}
		return true
	}
	return false
}

// freshBuffer: a slice of a buffer allocated in this function (make / array literal).
func freshBuffer(v ssa.Value) bool {
	for i := 0; i < 4; i++ {
		switch x := v.(type) {
		case *ssa.Alloc, *ssa.MakeSlice:
			return true
		case *ssa.Slice:
			v = x.X
		default:
			return isFresh(v)
		}
	}
	return false
}

// lengthOfDispatched: `low` is the length result of the same parse call(s) whose value result is queued for dispatch.
func (c *Ctx) lengthOfDispatched(a *cxnAnchors, fn *ssa.Function, low ssa.Value) bool {
	// the cut was moved into a helper that receives the length: judge the argument at every call site
	if p, ok := low.(*ssa.Parameter); ok && p.Parent() == fn {
		idx := -1
		for i, q := range fn.Params {
			if q == p {
				idx = i
			}
		}
		node := c.CG.Nodes[fn]
		if node == nil || idx < 0 || len(node.In) == 0 {
			return false
		}
		for _, e := range node.In {
			cc := e.Site.Common()
			if cc.IsInvoke() || idx >= len(cc.Args) || !c.lengthOfDispatched(a, e.Caller.Func, cc.Args[idx]) {
				return false
			}
		}
		return true
	}
	// parse calls in fn
	calls := map[*ssa.Call]bool{}
	for _, in := range instrsOf(fn) {
		if call, ok := in.(*ssa.Call); ok && call.Call.StaticCallee() == a.parseFn {
			calls[call] = true
		}
	}
	if len(calls) == 0 {
		return false
	}
	src := func(v ssa.Value, idx int) map[*ssa.Call]bool {
		out := map[*ssa.Call]bool{}
		seen := map[ssa.Value]bool{}
		var walk func(v ssa.Value)
		walk = func(v ssa.Value) {
			if seen[v] {
				return
			}
			seen[v] = true
			switch x := v.(type) {
			case *ssa.Extract:
				if call, ok := x.Tuple.(*ssa.Call); ok && calls[call] && x.Index == idx {
					out[call] = true
				} else if !ok {
					walk(x.Tuple)
				} else {
					out[nil] = true
				}
			case *ssa.Phi:
				for _, e := range x.Edges {
					walk(e)
				}
			case *ssa.MakeInterface:
				walk(x.X)
			case *ssa.Convert:
				walk(x.X)
			case *ssa.ChangeType:
				walk(x.X)
			case *ssa.Field:
				// the parser's results travel in one struct (`next := cc.parseCommand(); next.length / next.value`)
				walk(x.X)
			case *ssa.Call:
				if calls[x] {
					out[x] = true
				} else {
					out[nil] = true
				}
			case *ssa.UnOp:
				// the struct kept in a local variable, or a field of it read through its address
				switch a2 := x.X.(type) {
				case *ssa.Alloc:
					n := 0
					for _, r := range referrers(a2) {
						if st, ok := r.(*ssa.Store); ok && st.Addr == ssa.Value(a2) {
							n++
							walk(st.Val)
						}
					}
					if n == 0 {
						out[nil] = true
					}
				case *ssa.FieldAddr:
					if al, ok := a2.X.(*ssa.Alloc); ok {
						n := 0
						for _, r := range referrers(al) {
							if st, ok := r.(*ssa.Store); ok && st.Addr == ssa.Value(al) {
								n++
								walk(st.Val)
							}
						}
						if n == 0 {
							out[nil] = true
						}
					} else {
						out[nil] = true
					}
				default:
					out[nil] = true
				}
			default:
				out[nil] = true
			}
		}
		walk(v)
		return out
	}
	lenSrc := src(low, 1)
	if lenSrc[nil] || len(lenSrc) == 0 {
		return false
	}
	// value queued for dispatch
	ds := a.queueCalls(fn, a.dispState)
	if len(ds) == 0 {
		return false
	}
	for _, d := range ds {
		_, data, _ := a.queuedState(d)
		if data == nil {
			return false
		}
		valSrc := src(data, 0)
		if valSrc[nil] || len(valSrc) != len(lenSrc) {
			return false
		}
		for k := range valSrc {
			if !lenSrc[k] {
				return false
			}
		}
	}
	return true
}

const textLenPrefix = "R-C01-lenprefix: in every length-prefixed emitter ($ bulk, ! blob error, = verbatim) the number written is len() of the very value written as payload"

func ruleC01LenPrefix(c *Ctx) {
	c.S.Rule("R-C01-lenprefix", textLenPrefix, 1)
	// the serializer: the type switch over a reply's data that returns nothing (it writes), and what it reaches
	scope := map[*ssa.Function]bool{}
	for _, sw := range c.respDataSwitches() {
		if !isSerializerFn(sw.fn) {
			continue
		}
		scope[sw.fn] = true
		for f := range c.M.Reach(sw.fn) {
			if c.InPkg(f) {
				scope[f] = true
			}
		}
	}
	if len(scope) == 0 {
		c.S.Undecided("R-C01-lenprefix", "serializer", "-", "the serializer (a type switch over respValue.data that writes) was not found")
		return
	}
	isBlob := func(t types.Type) bool {
		switch u := t.Underlying().(type) {
		case *types.Basic:
			return u.Kind() == types.String
		case *types.Slice:
			b, ok := u.Elem().Underlying().(*types.Basic)
			return ok && b.Kind() == types.Byte
		}
		return false
	}
	// strip conversions between string / []byte / named string types
	var base func(v ssa.Value) ssa.Value
	base = func(v ssa.Value) ssa.Value {
		for i := 0; i < 6; i++ {
			switch x := v.(type) {
			case *ssa.Convert:
				v = x.X
			case *ssa.ChangeType:
				v = x.X
			case *ssa.MakeInterface:
				v = x.X
			default:
				return v
			}
		}
		return v
	}
	// is the value rendered as text / written by this function?
	arith := false
	flowsToOutput := func(fn *ssa.Function, v ssa.Value) bool {
		seen := map[ssa.Value]bool{}
		var rec func(x ssa.Value, d int) bool
		rec = func(x ssa.Value, d int) bool {
			if seen[x] || d > 8 {
				return false
			}
			seen[x] = true
			for _, r := range referrers(x) {
				switch u := r.(type) {
				case *ssa.Convert:
					if rec(u, d+1) {
						return true
					}
				case *ssa.ChangeType:
					if rec(u, d+1) {
						return true
					}
				case *ssa.MakeInterface:
					if rec(u, d+1) {
						return true
					}
				case *ssa.BinOp:
					if b, isBasic := u.Type().Underlying().(*types.Basic); isBasic && b.Info()&types.IsInteger != 0 {
						if rec(u, d+1) {
							arith = true // the length is adjusted arithmetically before it is rendered
							return true
						}
						continue
					}
					if u.Op == token.ADD && rec(u, d+1) {
						return true
					}
				case *ssa.Store:
					// element of a varargs array
					if ia, ok := u.Addr.(*ssa.IndexAddr); ok && u.Val == x {
						if al, ok := ia.X.(*ssa.Alloc); ok {
							for _, r2 := range referrers(al) {
								if sl, ok := r2.(*ssa.Slice); ok {
									for _, r3 := range referrers(sl) {
										if _, ok := r3.(ssa.CallInstruction); ok {
											return true
										}
									}
								}
							}
						}
					}
				case ssa.CallInstruction:
					name := fullCalleeName(u)
					if u.Common().IsInvoke() {
						name = u.Common().Method.Name()
					}
					if strings.Contains(name, "Write") || strings.HasPrefix(name, "strconv.") || strings.HasPrefix(name, "fmt.") {
						if strings.HasPrefix(name, "strconv.") {
							if v2, ok := u.(ssa.Value); ok && rec(v2, d+1) {
								return true
							}
							continue
						}
						return true
					}
					// a package helper that writes its argument (one that hands back a value transforms it: what is written
					// then is that result, whose length is another matter)
					if g := u.Common().StaticCallee(); g != nil && c.InPkg(g) && scope[g] {
						hasBlobResult := false
						for i := 0; i < g.Signature.Results().Len(); i++ {
							if isBlob(g.Signature.Results().At(i).Type()) {
								hasBlobResult = true
							}
						}
						if !hasBlobResult {
							return true
						}
					}
				}
			}
			return false
		}
		return rec(v, 0)
	}
	n := 0
	for fn := range scope {
		if len(fn.Blocks) == 0 {
			continue
		}
		k := 0
		for _, in := range instrsOf(fn) {
			lc, ok := in.(*ssa.Call)
			if !ok {
				continue
			}
			b, ok := lc.Call.Value.(*ssa.Builtin)
			if !ok || b.Name() != "len" || !isBlob(lc.Call.Args[0].Type()) {
				continue
			}
			arith = false
			if !flowsToOutput(fn, lc) {
				continue // a length used for something else (a comparison, an allocation)
			}
			adjusted := arith
			n++
			k++
			key := fmt.Sprintf("%s:len-prefix#%d", fnName(fn), k)
			payload := base(lc.Call.Args[0])
			written := false
			// the same value (modulo conversions) reaches the output of this function
			cands := []ssa.Value{payload}
			for _, r := range referrers(payload) {
				if v2, ok := r.(ssa.Value); ok {
					switch r.(type) {
					case *ssa.Convert, *ssa.ChangeType:
						cands = append(cands, v2)
					}
				}
			}
			for _, cv := range cands {
				for _, r := range referrers(cv) {
					if r == ssa.Instruction(lc) {
						continue
					}
					switch u := r.(type) {
					case *ssa.Call:
						if bb, ok := u.Call.Value.(*ssa.Builtin); ok && bb.Name() == "len" {
							continue
						}
					}
				}
				if flowsToOutputExcept(cv, lc, flowsToOutput, fn) {
					written = true
				}
			}
			if adjusted {
				c.S.Bad("R-C01-lenprefix", key, c.Pos(lc.Pos()), fmt.Sprintf("%s renders a length that is computed from len() by arithmetic: the prefix is not the length of the payload written", fnName(fn)))
			} else if written {
				c.S.OK("R-C01-lenprefix", key, c.Pos(lc.Pos()), "the rendered length is len() of a value this function also writes")
			} else {
				c.S.Bad("R-C01-lenprefix", key, c.Pos(lc.Pos()), fmt.Sprintf("%s renders len() of a value that it does not write itself: the length in front of a payload is not the length of that payload, and the client mis-frames every following reply", fnName(fn)))
			}
		}
	}
	if n < 1 {
		c.S.Undecided("R-C01-lenprefix", "emitters", "-", "no rendered payload length found in the serializer")
	}
}

// flowsToOutputExcept: v reaches the output through some use other than the len() call itself.
func flowsToOutputExcept(v ssa.Value, lenCall *ssa.Call, flows func(*ssa.Function, ssa.Value) bool, fn *ssa.Function) bool {
	for _, r := range referrers(v) {
		if r == ssa.Instruction(lenCall) {
			continue
		}
		switch u := r.(type) {
		case *ssa.Call:
			if b, ok := u.Call.Value.(*ssa.Builtin); ok && b.Name() == "len" {
				continue
			}
			name := fullCalleeName(u)
			if u.Call.IsInvoke() {
				name = u.Call.Method.Name()
			}
			if strings.Contains(name, "Write") || strings.HasPrefix(name, "fmt.") {
				return true // handed to a writer
			}
			if g := u.Call.StaticCallee(); g != nil && g.Pkg == fn.Pkg && g.Signature.Results().Len() == 0 {
				return true // handed to a package helper that emits it
			}
		case *ssa.Convert, *ssa.ChangeType, *ssa.MakeInterface, *ssa.BinOp:
			if flows(fn, u.(ssa.Value)) {
				return true
			}
		case *ssa.Store:
			if flows(fn, v) {
				return true
			}
		}
	}
	return false
}

const textLine = "R-C01-line: simple-string and error replies are line-oriented: the emitter that writes them strips or replaces CR and LF (centrally), or no reply of those kinds embeds bytes taken from the request"

func ruleC01Line(c *Ctx) {
	c.S.Rule("R-C01-line", textLine, 1)
	// the line emitter: called from the serializer's type switch for respSimpleString / respErrorString cases
	var emit *ssa.Function
	for _, sw := range c.respDataSwitches() {
		if !isSerializerFn(sw.fn) {
			continue
		}
		for _, in := range instrsOf(sw.fn) {
			call, ok := in.(*ssa.Call)
			if !ok || call.Call.StaticCallee() == nil {
				continue
			}
			// argument built by concatenating "+"/"-" with the string
			for _, a := range call.Call.Args {
				if bo, ok := a.(*ssa.BinOp); ok && bo.Op == token.ADD {
					if s, ok := constString(bo.X); ok && (s == "+" || s == "-") {
						emit = call.Call.StaticCallee()
					}
				}
			}
		}
	}
	if emit == nil {
		// the function the serializer calls in its cases for the line-oriented kinds (simple string, error)
		for _, sw := range c.respDataSwitches() {
			if !isSerializerFn(sw.fn) {
				continue
			}
			for _, in := range instrsOf(sw.fn) {
				ta, ok := in.(*ssa.TypeAssert)
				if !ok || !ta.CommaOk {
					continue
				}
				tn := typeString(ta.AssertedType)
				if tn != "respSimpleString" && tn != "respErrorString" {
					continue
				}
				// the block entered when the assertion holds
				var caseBlk *ssa.BasicBlock
				for _, r := range referrers(ta) {
					if ex, ok := r.(*ssa.Extract); ok && ex.Index == 1 {
						for _, r2 := range referrers(ex) {
							if ifi, ok := r2.(*ssa.If); ok {
								caseBlk = ifi.Block().Succs[0]
							}
						}
					}
				}
				if caseBlk == nil {
					continue
				}
				for _, b := range sw.fn.Blocks {
					if b != caseBlk && !caseBlk.Dominates(b) {
						continue
					}
					for _, in2 := range b.Instrs {
						if call, ok := in2.(*ssa.Call); ok {
							if g := call.Call.StaticCallee(); g != nil && c.InPkg(g) && emit == nil {
								for _, p := range g.Params {
									if bt, ok := p.Type().Underlying().(*types.Basic); ok && bt.Kind() == types.String {
										emit = g
									}
								}
							}
						}
					}
				}
			}
		}
	}
	if emit == nil {
		// serialisation by method dispatch: the function the writing methods of the two line-oriented kinds call
		for _, fn := range c.SrcFuncs() {
			if fn.Signature.Recv() == nil || fn.Signature.Results().Len() != 0 {
				continue
			}
			if !(c.isPkgType(fn.Signature.Recv().Type(), "respSimpleString") || c.isPkgType(fn.Signature.Recv().Type(), "respErrorString")) {
				continue
			}
			writes := false
			for _, p := range fn.Params {
				if strings.HasSuffix(p.Type().String(), "strings.Builder") {
					writes = true
				}
			}
			if !writes {
				continue
			}
			for _, in := range instrsOf(fn) {
				if call, ok := in.(*ssa.Call); ok {
					if g := call.Call.StaticCallee(); g != nil && c.InPkg(g) && emit == nil {
						for _, p := range g.Params {
							if bt, ok := p.Type().Underlying().(*types.Basic); ok && bt.Kind() == types.String {
								emit = g
							}
						}
					}
				}
			}
		}
	}
	if emit == nil {
		c.S.Undecided("R-C01-line", "emitter", "-", "line emitter for simple/error strings not found")
		return
	}
	emitInstrs := func() []ssa.Instruction {
		var out []ssa.Instruction
		for _, f := range c.helperClosure(emit, 2) {
			out = append(out, instrsOf(f)...)
		}
		return out
	}()
	// central sanitiser: the emitter's string parameter passes through a strings function with both \r and \n
	sanitised := false
	var hasCR, hasLF bool
	for _, in := range emitInstrs {
		call, ok := in.(*ssa.Call)
		if !ok {
			continue
		}
		name := fullCalleeName(call)
		if !(strings.HasPrefix(name, "strings.") || strings.HasPrefix(name, "(*strings.Replacer)")) {
			continue
		}
		for _, a := range call.Call.Args {
			if s, ok := constString(a); ok {
				if strings.Contains(s, "\r") {
					hasCR = true
				}
				if strings.Contains(s, "\n") {
					hasLF = true
				}
			}
			// varargs of NewReplacer
			if sl, ok := a.(*ssa.Slice); ok {
				if al, ok := sl.X.(*ssa.Alloc); ok {
					for _, rr := range referrers(al) {
						if ia, ok := rr.(*ssa.IndexAddr); ok {
							for _, r3 := range referrers(ia) {
								if st, ok := r3.(*ssa.Store); ok {
									if s, ok := constString(st.Val); ok {
										if strings.Contains(s, "\r") {
											hasCR = true
										}
										if strings.Contains(s, "\n") {
											hasLF = true
										}
									}
								}
							}
						}
					}
				}
			}
		}
	}
	// a package-level *strings.Replacer built from "\r"/"\n" pairs, applied in the emitter
	for _, in := range emitInstrs {
		call, ok := in.(*ssa.Call)
		if !ok || fullCalleeName(call) != "(*strings.Replacer).Replace" || len(call.Call.Args) == 0 {
			continue
		}
		u, ok := call.Call.Args[0].(*ssa.UnOp)
		if !ok {
			continue
		}
		g, ok := u.X.(*ssa.Global)
		if !ok {
			continue
		}
		for _, ifn := range c.SrcFuncs() {
			if ifn.Name() != "init" {
				continue
			}
			for _, in2 := range instrsOf(ifn) {
				st, ok := in2.(*ssa.Store)
				if !ok || st.Addr != ssa.Value(g) {
					continue
				}
				nc, ok := st.Val.(*ssa.Call)
				if !ok || fullCalleeName(nc) != "strings.NewReplacer" {
					continue
				}
				for _, a := range nc.Call.Args {
					if sl, ok := a.(*ssa.Slice); ok {
						if al, ok := sl.X.(*ssa.Alloc); ok {
							for _, rr := range referrers(al) {
								if ia, ok := rr.(*ssa.IndexAddr); ok {
									for _, r3 := range referrers(ia) {
										if st2, ok := r3.(*ssa.Store); ok {
											if sv, ok := constString(st2.Val); ok {
												hasCR = hasCR || strings.Contains(sv, "\r")
												hasLF = hasLF || strings.Contains(sv, "\n")
											}
										}
									}
								}
							}
						}
					}
				}
			}
		}
	}
	// a strings.Map with a closure that tests '\r' and '\n'
	for _, in := range emitInstrs {
		if mc, ok := in.(*ssa.MakeClosure); ok {
			for _, in2 := range instrsOf(mc.Fn.(*ssa.Function)) {
				if bo, ok := in2.(*ssa.BinOp); ok {
					for _, v := range []ssa.Value{bo.X, bo.Y} {
						if k, isC := constInt(v); isC {
							if k == '\r' {
								hasCR = true
							}
							if k == '\n' {
								hasLF = true
							}
						}
					}
				}
			}
		}
	}
	sanitised = hasCR && hasLF
	if sanitised {
		// the sanitiser must be unconditional: the raw text parameter reaches the output only through it
		if raw := rawTextReachesOutput(c, emit, -1, 0); raw != "" {
			c.S.Bad("R-C01-line", fnName(emit)+":sanitises", c.Pos(emit.Pos()), "the line emitter has a sanitiser for CR/LF, but the raw text can reach the output without passing it ("+raw+"): a reply line can carry a line break taken from the request")
			return
		}
		c.S.OK("R-C01-line", fnName(emit)+":sanitises", c.Pos(emit.Pos()), "the line emitter removes/replaces both CR and LF before writing, on every path")
		return
	}
	// otherwise: request-derived text must not flow into a simple/error string
	isStr := func(t types.Type) bool {
		if _, isTuple := t.(*types.Tuple); isTuple {
			return true
		}
		b, ok := t.Underlying().(*types.Basic)
		return ok && b.Kind() == types.String
	}
	fName := c.Field("cmdContext", "cmdName")
	fTok := c.Field("cmdContext", "cmdToken")
	t := c.txn()
	req := c.runTaint(func(v ssa.Value) bool {
		call, ok := v.(*ssa.Call)
		if !ok || call.Call.StaticCallee() == nil {
			// type assertions of handler args to string
			if ta, ok := v.(*ssa.TypeAssert); ok && isStr(ta.AssertedType) {
				if _, isLookup := ta.X.(*ssa.Lookup); isLookup {
					return true
				}
			}
			return false
		}
		g := call.Call.StaticCallee()
		// toString()/String() on a respValue (client data in prepare and handlers)
		if g.Signature.Recv() != nil && c.isPkgType(g.Signature.Recv().Type(), "respValue") && (g.Name() == "toString" || g.Name() == "String") {
			return true
		}
		return false
	}, isStr)
	// propagate through Sprintf / concatenation / ToLower manually: a value is request-derived if any operand is
	derived := map[ssa.Value]bool{}
	for v := range req.tainted {
		derived[v] = true
	}
	for changed := true; changed; {
		changed = false
		for _, fn := range c.SrcFuncs() {
			for _, in := range instrsOf(fn) {
				v, ok := in.(ssa.Value)
				if !ok || derived[v] {
					continue
				}
				hit := false
				switch x := in.(type) {
				case *ssa.BinOp:
					hit = x.Op == token.ADD && (derived[x.X] || derived[x.Y])
				case *ssa.Phi:
					for _, e := range x.Edges {
						hit = hit || derived[e]
					}
				case *ssa.Extract:
					hit = derived[x.Tuple]
				case *ssa.Call:
					name := fullCalleeName(x)
					if name == "fmt.Sprintf" || strings.HasPrefix(name, "strings.To") || name == "(*strings.Builder).String" {
						for _, a := range x.Call.Args {
							if derived[a] {
								hit = true
							}
							if sl, ok := a.(*ssa.Slice); ok {
								if al, ok := sl.X.(*ssa.Alloc); ok {
									for _, rr := range referrers(al) {
										if ia, ok := rr.(*ssa.IndexAddr); ok {
											for _, r3 := range referrers(ia) {
												if st, ok := r3.(*ssa.Store); ok && derived[stripValue(st.Val)] {
													hit = true
												}
											}
										}
									}
								}
							}
						}
					}
				case *ssa.UnOp:
					if x.Op == token.MUL {
						if al, ok := x.X.(*ssa.Alloc); ok {
							for _, rr := range referrers(al) {
								if st, ok := rr.(*ssa.Store); ok && st.Addr == al && derived[st.Val] {
									hit = true
								}
							}
						}
						// validated names are clean
						if _, f := loadedField(x); f == fName || f == fTok {
							hit = false
						}
					}
				}
				if hit && isStr(v.Type()) {
					derived[v] = true
					changed = true
				}
			}
		}
	}
	_ = t
	n := 0
	for _, fn := range c.SrcFuncs() {
		for _, in := range instrsOf(fn) {
			ct, ok := in.(*ssa.ChangeType)
			if !ok {
				continue
			}
			tn := typeName(ct.Type())
			if tn != "respErrorString" && tn != "respSimpleString" {
				continue
			}
			if !derived[ct.X] {
				continue
			}
			n++
			c.S.Bad("R-C01-line", fmt.Sprintf("%s:%s#%d", fnName(fn), tn, n), c.Pos(ct.Pos()), fmt.Sprintf("%s builds a %s from bytes of the request and the line emitter does not strip CR/LF: a client can inject extra RESP frames into its own reply stream (e.g. a command name containing \\r\\n)", fnName(fn), tn))
		}
	}
	if n == 0 {
		c.S.OK("R-C01-line", "no-request-bytes", c.Pos(emit.Pos()), "no simple/error string is built from request bytes")
	}
}

// sanitiserFn: g returns, on every path, the result of a strings / Replacer call (it is a CR/LF sanitiser or another
// text transformer): what it returns is not the raw parameter.
func sanitiserFn(g *ssa.Function) bool {
	if len(g.Blocks) == 0 || g.Signature.Results().Len() != 1 {
		return false
	}
	n := 0
	for _, b := range g.Blocks {
		ret, ok := b.Instrs[len(b.Instrs)-1].(*ssa.Return)
		if !ok {
			continue
		}
		n++
		call, ok := ret.Results[0].(*ssa.Call)
		if !ok {
			return false
		}
		name := fullCalleeName(call)
		if !(strings.HasPrefix(name, "strings.") || strings.HasPrefix(name, "(*strings.Replacer)")) {
			return false
		}
	}
	return n > 0
}

// rawTextReachesOutput: a string parameter of the emitter (all of them for paramIdx < 0) flows into something that is
// written without passing a call of the strings package / a Replacer (the sanitiser), following package helpers the text
// is handed to. Returns a description of the offending flow, "" if none.
func rawTextReachesOutput(c *Ctx, emit *ssa.Function, paramIdx int, depth int) string {
	if depth > 3 || len(emit.Blocks) == 0 {
		return ""
	}
	isStr := func(t types.Type) bool {
		b, ok := t.Underlying().(*types.Basic)
		return ok && b.Kind() == types.String
	}
	raw := map[ssa.Value]bool{}
	var work []ssa.Value
	for i, p := range emit.Params {
		if isStr(p.Type()) && (paramIdx < 0 || paramIdx == i) {
			raw[p] = true
			work = append(work, p)
		}
	}
	for len(work) > 0 {
		v := work[len(work)-1]
		work = work[:len(work)-1]
		for _, r := range referrers(v) {
			switch u := r.(type) {
			case *ssa.Phi, *ssa.Convert, *ssa.ChangeType, *ssa.MakeInterface, *ssa.Slice:
				uv := u.(ssa.Value)
				if !raw[uv] {
					raw[uv] = true
					work = append(work, uv)
				}
			case *ssa.BinOp:
				if u.Op == token.ADD && !raw[u] {
					raw[u] = true
					work = append(work, u)
				}
			case *ssa.Store:
				if ia, ok := u.Addr.(*ssa.IndexAddr); ok && u.Val == v {
					if _, isAl := ia.X.(*ssa.Alloc); isAl {
						return "as an operand of a formatting call at " + emit.Prog.Fset.Position(u.Pos()).String()
					}
				}
				if al, ok := u.Addr.(*ssa.Alloc); ok && u.Val == v {
					for _, r2 := range referrers(al) {
						if ld, ok := r2.(*ssa.UnOp); ok && !raw[ld] {
							raw[ld] = true
							work = append(work, ld)
						}
					}
				}
			case ssa.CallInstruction:
				name := fullCalleeName(u)
				if u.Common().IsInvoke() {
					name = u.Common().Method.Name()
				}
				if strings.HasPrefix(name, "strings.") || strings.HasPrefix(name, "(*strings.Replacer)") {
					continue
				}
				if strings.Contains(name, "Write") || strings.HasPrefix(name, "fmt.") {
					return "written directly at " + emit.Prog.Fset.Position(u.Pos()).String()
				}
				if g := u.Common().StaticCallee(); g != nil && c.InPkg(g) {
					if sanitiserFn(g) {
						continue
					}
					for ai, a := range u.Common().Args {
						if a == v {
							if d := rawTextReachesOutput(c, g, ai, depth+1); d != "" {
								return d
							}
						}
					}
				}
			}
		}
	}
	return ""
}

func oldRawTextReachesOutputUnused() {}

const textFrame = "R-C01-frame: (bounds) every position the wire parser records in its own state (an int field of the parser set to a computed value) is computed under a dominating test against len(content) — a frame is never reported complete beyond the bytes that have arrived, whatever the split of the stream; (parse-after-read) the socket read does not sit in a loop that collects several reads before parsing: complete commands already in the buffer are parsed (and answered) before the connection blocks in the next read"

func ruleC01Frame(c *Ctx) {
	c.S.Rule("R-C01-frame", textFrame, 3)
	a := c.cxn()
	if len(a.errs) > 0 {
		c.S.Undecided("R-C01-frame", "anchors", "-", strings.Join(a.errs, "; "))
		return
	}
	nt := c.NamedType("respDeserializer")
	if nt == nil {
		c.S.Undecided("R-C01-frame", "parser-type", "-", "respDeserializer not found")
		return
	}
	st, _ := nt.Underlying().(*types.Struct)
	var fContent *types.Var
	intFields := map[*types.Var]bool{}
	for i := 0; st != nil && i < st.NumFields(); i++ {
		f := st.Field(i)
		switch u := f.Type().Underlying().(type) {
		case *types.Slice:
			if b, ok := u.Elem().Underlying().(*types.Basic); ok && b.Kind() == types.Byte {
				fContent = f
			}
		case *types.Basic:
			if u.Kind() == types.String && fContent == nil {
				fContent = f
			}
			if u.Kind() == types.Int {
				intFields[f] = true
			}
		}
	}
	// positions kept in a small struct of the parser (`next lineMark{start int; known bool}`): its int fields are position
	// fields too, and its methods are judged like the parser's own
	nestedTypes := map[*types.Named]bool{}
	for i := 0; st != nil && i < st.NumFields(); i++ {
		if n2, ok := st.Field(i).Type().(*types.Named); ok && n2.Obj().Pkg() == c.Pkg.Types {
			if st2, ok := n2.Underlying().(*types.Struct); ok {
				nestedTypes[n2] = true
				for j := 0; j < st2.NumFields(); j++ {
					if b, ok := st2.Field(j).Type().Underlying().(*types.Basic); ok && b.Kind() == types.Int {
						intFields[st2.Field(j)] = true
					}
				}
			}
		}
	}
	isParserMethod := func(fn *ssa.Function) bool {
		if fn.Signature.Recv() == nil {
			return false
		}
		if c.isPkgType(fn.Signature.Recv().Type(), "respDeserializer") {
			return true
		}
		if n2, ok := deref(fn.Signature.Recv().Type()).(*types.Named); ok && nestedTypes[n2] {
			return true
		}
		return false
	}
	// a value that is a copy of a position field: a load, or the result of a method that returns such a load
	var isPosCopy func(v ssa.Value, d int) bool
	isPosCopy = func(v ssa.Value, d int) bool {
		if d > 3 {
			return false
		}
		if _, f := loadedField(v); f != nil && intFields[f] {
			return true
		}
		var call *ssa.Call
		idx := 0
		switch x := v.(type) {
		case *ssa.Call:
			call = x
		case *ssa.Extract:
			call, _ = x.Tuple.(*ssa.Call)
			idx = x.Index
		}
		if call == nil {
			return false
		}
		g := call.Call.StaticCallee()
		if g == nil || !c.InPkg(g) || !isParserMethod(g) {
			return false
		}
		n := 0
		for _, b := range g.Blocks {
			if ret, ok := b.Instrs[len(b.Instrs)-1].(*ssa.Return); ok && idx < len(ret.Results) {
				n++
				if !isPosCopy(ret.Results[idx], d+1) {
					return false
				}
			}
		}
		return n > 0
	}
	if fContent == nil || len(intFields) == 0 {
		c.S.Undecided("R-C01-frame", "parser-fields", "-", "the parser's content / position fields were not found")
		return
	}
	// does v involve len(content)?
	var involvesLen func(v ssa.Value, d int) bool
	involvesLen = func(v ssa.Value, d int) bool {
		if d > 8 || v == nil {
			return false
		}
		switch x := v.(type) {
		case *ssa.Call:
			if b, ok := x.Call.Value.(*ssa.Builtin); ok && b.Name() == "len" {
				_, f := loadedField(x.Call.Args[0])
				return f == fContent
			}
			// a predicate or accessor of the parser that compares with / computes from len(content): hasBytes(n), remaining()
			if g := x.Call.StaticCallee(); g != nil && c.InPkg(g) && g.Signature.Results().Len() == 1 {
				for _, b := range g.Blocks {
					if ret, ok := b.Instrs[len(b.Instrs)-1].(*ssa.Return); ok && involvesLen(ret.Results[0], d+1) {
						return true
					}
				}
			}
		case *ssa.UnOp:
			if x.Op == token.NOT {
				return involvesLen(x.X, d+1)
			}
			if al, ok := x.X.(*ssa.Alloc); ok {
				for _, r := range referrers(al) {
					if s2, ok := r.(*ssa.Store); ok && s2.Addr == ssa.Value(al) && involvesLen(s2.Val, d+1) {
						return true
					}
				}
			}
		case *ssa.BinOp:
			return involvesLen(x.X, d+1) || involvesLen(x.Y, d+1)
		case *ssa.Convert:
			return involvesLen(x.X, d+1)
		case *ssa.Phi:
			for _, e := range x.Edges {
				if involvesLen(e, d+1) {
					return true
				}
			}
		}
		return false
	}
	n := 0
	for _, fn := range c.SrcFuncs() {
		if !isParserMethod(fn) {
			continue
		}
		k := 0
		for _, in := range instrsOf(fn) {
			s2, ok := in.(*ssa.Store)
			if !ok {
				continue
			}
			fa, ok := s2.Addr.(*ssa.FieldAddr)
			if !ok || !intFields[fieldOf(fa)] {
				continue
			}
			if _, isC := s2.Val.(*ssa.Const); isC {
				continue
			}
			// copied from another position field of the parser (already checked when it was set)
			if isPosCopy(s2.Val, 0) {
				continue
			}
			// a counter (x = x + 1 on the same field) is not a position into the content
			if bo, ok := s2.Val.(*ssa.BinOp); ok {
				if _, f := loadedField(bo.X); f == fieldOf(fa) {
					if _, isC := bo.Y.(*ssa.Const); isC {
						continue
					}
				}
			}
			k++
			n++
			key := fmt.Sprintf("%s:%s#%d", fnName(fn), fieldOf(fa).Name(), k)
			if fromContentSearch(c, s2.Val, fContent, 0) {
				c.S.OK("R-C01-frame", key, c.Pos(s2.Pos()), "the position is the result of a search inside the content (found index plus the length of what was found)")
				continue
			}
			guardedAt := func(blk *ssa.BasicBlock) bool {
				for _, b := range blk.Parent().Blocks {
					ifi, ok := b.Instrs[len(b.Instrs)-1].(*ssa.If)
					if !ok || !b.Dominates(blk) || b == blk {
						continue
					}
					if involvesLen(ifi.Cond, 0) {
						return true
					}
				}
				return false
			}
			guarded := guardedAt(s2.Block())
			// a setter (`rememberNextLine(pos)`): the position is judged where it is computed, at every call
			if p, isParam := s2.Val.(*ssa.Parameter); isParam && !guarded {
				idx := -1
				for i, q := range fn.Params {
					if q == p {
						idx = i
					}
				}
				if node := c.CG.Nodes[fn]; node != nil && idx >= 0 && len(node.In) > 0 {
					all := true
					for _, e := range node.In {
						args := e.Site.Common().Args
						if e.Site.Common().IsInvoke() || idx >= len(args) {
							all = false
							continue
						}
						a2 := args[idx]
						_, cf := loadedField(a2)
						_, isConst := a2.(*ssa.Const)
						if !(isConst || (cf != nil && intFields[cf]) || fromContentSearch(c, a2, fContent, 0) || guardedAt(e.Site.Block())) {
							all = false
						}
					}
					guarded = all
				}
			}
			if guarded {
				c.S.OK("R-C01-frame", key, c.Pos(s2.Pos()), "set under a dominating test against len(content)")
			} else {
				c.S.Bad("R-C01-frame", key, c.Pos(s2.Pos()), fmt.Sprintf("%s records a position in the parser (%s) that was not checked against the number of bytes that have arrived: a frame cut at the wrong place is reported complete and the connection loop slices beyond its buffer", fnName(fn), fieldOf(fa).Name()))
			}
		}
	}
	if n == 0 {
		c.S.Undecided("R-C01-frame", "positions", "-", "no computed position store found in the parser")
	}
	// parse-after-read
	for _, fn := range c.helperClosure(a.readFn, 3) {
		for _, in := range instrsOf(fn) {
			call, ok := in.(ssa.CallInstruction)
			if !ok || !isConnMethod(call, "Read") {
				continue
			}
			key := fnName(fn) + ":read-not-looped"
			blk := in.Block()
			if !blockInCycle(blk) {
				c.S.OK("R-C01-frame", key, c.Pos(c.InstrPos(in)), "one socket read per visit of the wait state, followed by a parse")
				continue
			}
			// the cycle through the read must contain a parse
			parses := false
			for _, b := range fn.Blocks {
				if !(plainReachAvoid(blk, b, nil) && plainReachAvoid(b, blk, nil)) {
					continue
				}
				for _, in2 := range b.Instrs {
					if c2, ok := in2.(*ssa.Call); ok {
						if g := c2.Call.StaticCallee(); g != nil && (g == a.parseFn || c.M.Reach(g)[a.parseFn]) {
							parses = true
						}
					}
				}
			}
			if parses {
				c.S.OK("R-C01-frame", key, c.Pos(c.InstrPos(in)), "the read loop parses between reads")
			} else {
				c.S.Bad("R-C01-frame", key, c.Pos(c.InstrPos(in)), fmt.Sprintf("%s reads the socket in a loop without parsing in between: when a read happens to fill the buffer exactly, complete commands wait unanswered until the client sends more", fnName(fn)))
			}
		}
	}
}

// stateTable: state constants and handlers from a package-level `map[stateType]handlerType{ K: (*T).method, … }`.
func (c *Ctx) stateTable(a *cxnAnchors, dispatchStarter *ssa.Function) {
	for _, f := range c.Pkg.Syntax {
		for _, d := range f.Decls {
			gd, ok := d.(*ast.GenDecl)
			if !ok || gd.Tok != token.VAR {
				continue
			}
			for _, sp := range gd.Specs {
				vs := sp.(*ast.ValueSpec)
				for _, v := range vs.Values {
					cl, ok := v.(*ast.CompositeLit)
					if !ok {
						continue
					}
					for _, el := range cl.Elts {
						kv, ok := el.(*ast.KeyValueExpr)
						if !ok {
							continue
						}
						tv, ok := c.Pkg.TypesInfo.Types[kv.Key]
						if !ok || tv.Value == nil {
							continue
						}
						k, exact := constant.Int64Val(constant.ToInt(tv.Value))
						if !exact {
							continue
						}
						// value: (*T).method or a function identifier
						var id *ast.Ident
						switch x := kv.Value.(type) {
						case *ast.SelectorExpr:
							id = x.Sel
						case *ast.Ident:
							id = x
						}
						if id == nil {
							continue
						}
						fo, ok := c.Pkg.TypesInfo.Uses[id].(*types.Func)
						if !ok {
							continue
						}
						fn := c.SSA.FuncValue(fo)
						if fn == nil {
							continue
						}
						if a.rawReadFn != nil && (fn == a.rawReadFn || c.M.Reach(fn)[a.rawReadFn]) {
							a.waitState, a.readFn = k, fn
						}
						if dispatchStarter != nil && (fn == dispatchStarter || c.M.Reach(fn)[dispatchStarter]) && fn != a.readFn {
							a.dispState = k
						}
					}
				}
			}
		}
	}
}

// writeReportsSuccess: helper w contains the socket write `wc` and returns a single bool/error whose success value
// (true / nil) is returned only on the nil-error side of that write.
func (c *Ctx) writeReportsSuccess(w *ssa.Function, wc ssa.CallInstruction) bool {
	res := w.Signature.Results()
	if res.Len() != 1 {
		return false
	}
	kind := res.At(0).Type().String()
	if kind != "bool" && kind != "error" {
		return false
	}
	wv, ok := wc.(ssa.Value)
	if !ok {
		return false
	}
	// nil-error side of the write
	var okSide *ssa.BasicBlock
	for _, rr := range referrers(wv) {
		ex, isEx := rr.(*ssa.Extract)
		if !isEx || ex.Index != 1 {
			continue
		}
		if s := nonNilSucc(ex.Block(), ex); s != nil {
			okSide = ex.Block().Succs[0]
			if okSide == s {
				okSide = ex.Block().Succs[1]
			}
		}
	}
	if okSide == nil || len(okSide.Preds) != 1 {
		return false
	}
	found := false
	for _, b := range w.Blocks {
		ret, isRet := b.Instrs[len(b.Instrs)-1].(*ssa.Return)
		if !isRet {
			continue
		}
		for _, leaf := range phiLeaves(ret.Results[0], map[ssa.Value]bool{}) {
			k, isC := leaf.(*ssa.Const)
			if !isC {
				return false
			}
			success := (kind == "bool" && k.Value != nil && k.Value.String() == "true") || (kind == "error" && k.IsNil())
			if !success {
				continue
			}
			found = true
			if _, isPhi := ret.Results[0].(*ssa.Phi); isPhi {
				// the edge that carries the success constant must come from the ok side
				phi := ret.Results[0].(*ssa.Phi)
				for i, e := range phi.Edges {
					if e == leaf {
						pr := phi.Block().Preds[i]
						if !(pr == okSide || okSide.Dominates(pr)) {
							return false
						}
					}
				}
			} else if !(b == okSide || okSide.Dominates(b)) {
				return false
			}
		}
	}
	return found
}

// fromContentSearch: v is (an offset plus) the result of bytes.Index*/IndexByte on a slice of the parser's content,
// possibly returned by a helper of the parser: such a position lies inside the bytes that have arrived.
func fromContentSearch(c *Ctx, v ssa.Value, fContent *types.Var, depth int) bool {
	if depth > 6 || v == nil {
		return false
	}
	switch x := v.(type) {
	case *ssa.BinOp:
		if x.Op == token.ADD {
			return fromContentSearch(c, x.X, fContent, depth+1) || fromContentSearch(c, x.Y, fContent, depth+1)
		}
	case *ssa.Convert:
		return fromContentSearch(c, x.X, fContent, depth+1)
	case *ssa.Phi:
		for _, e := range x.Edges {
			if k, isC := e.(*ssa.Const); isC && k.Value != nil {
				continue
			}
			if !fromContentSearch(c, e, fContent, depth+1) {
				return false
			}
		}
		return true
	case *ssa.Extract:
		if call, ok := x.Tuple.(*ssa.Call); ok {
			if g := call.Call.StaticCallee(); g != nil && c.InPkg(g) {
				okAll, n := true, 0
				for _, b := range g.Blocks {
					if ret, ok := b.Instrs[len(b.Instrs)-1].(*ssa.Return); ok && x.Index < len(ret.Results) {
						r := ret.Results[x.Index]
						if k, isC := r.(*ssa.Const); isC && k.Value != nil {
							continue // the "not found" return
						}
						n++
						if !fromContentSearch(c, r, fContent, depth+1) {
							okAll = false
						}
					}
				}
				return okAll && n > 0
			}
		}
	case *ssa.Call:
		name := fullCalleeName(x)
		if (strings.HasPrefix(name, "bytes.Index") || strings.HasPrefix(name, "strings.Index")) && len(x.Call.Args) > 0 {
			a := x.Call.Args[0]
			for i := 0; i < 3; i++ {
				if sl, ok := a.(*ssa.Slice); ok {
					a = sl.X
				}
			}
			_, f := loadedField(a)
			return f == fContent
		}
		if g := x.Call.StaticCallee(); g != nil && c.InPkg(g) && g.Signature.Results().Len() == 1 {
			for _, b := range g.Blocks {
				if ret, ok := b.Instrs[len(b.Instrs)-1].(*ssa.Return); ok {
					if !fromContentSearch(c, ret.Results[0], fContent, depth+1) {
						return false
					}
				}
			}
			return true
		}
	}
	return false
}

const textSingleWriter = "R-C01-single-writer: the only place that writes to a connection's socket is the reply writer of the per-command goroutine, after the command was dispatched: a second writer (an error line sent from the reader when input looks malformed, a keep-alive) puts bytes on the wire that belong to no command, before or between the replies of the commands that are still being read"

func ruleC01SingleWriter(c *Ctx) {
	c.S.Rule("R-C01-single-writer", textSingleWriter, 1)
	a := c.cxn()
	if len(a.errs) > 0 {
		c.S.Undecided("R-C01-single-writer", "anchors", "-", strings.Join(a.errs, "; "))
		return
	}
	for i, w := range a.writes {
		key := fmt.Sprintf("%s:write#%d", fnName(w.Parent()), i+1)
		if w == a.writeCall || c.followsDispatch(w) {
			c.S.OK("R-C01-single-writer", key, c.Pos(w.Pos()), "writes the reply of the command that was just dispatched")
		} else {
			c.S.Bad("R-C01-single-writer", key, c.Pos(w.Pos()), fmt.Sprintf("%s writes to the socket outside the reply path (no dispatch of a command precedes it): the client receives a line that answers no command, e.g. while a request is still arriving in pieces", fnName(w.Parent())))
		}
	}
}

// isSerializerFn: a method whose type switch over a reply's data puts the reply on the wire: it returns nothing (it
// writes into a builder it was given) or the bytes (append style)
func isSerializerFn(fn *ssa.Function) bool {
	if fn.Signature.Recv() == nil {
		return false
	}
	res := fn.Signature.Results()
	if res.Len() == 0 {
		return true
	}
	if res.Len() != 1 {
		return false
	}
	sl, ok := res.At(0).Type().Underlying().(*types.Slice)
	if !ok {
		return false
	}
	b, ok := sl.Elem().Underlying().(*types.Basic)
	return ok && b.Kind() == types.Byte
}
