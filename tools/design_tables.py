#!/usr/bin/env python3
"""Regenerates the generated tables of DESIGN.md (between <!-- X:BEGIN --> and <!-- X:END --> markers)."""
import json, os, re, subprocess, collections, glob
env = dict(os.environ, GOFLAGS='-mod=mod', GOPROXY='off', GOSUMDB='off', GOTOOLCHAIN='local')
D = '/verif/DESIGN.md'
s = open(D).read()

def put(tag, body):
    global s
    a, b = f'<!-- {tag}:BEGIN -->', f'<!-- {tag}:END -->'
    i, j = s.index(a) + len(a), s.index(b)
    s = s[:i] + '\n' + body.rstrip() + '\n' + s[j:]

# matrix
out = subprocess.run(['/verif/bin/rdcheck', 'all', '-v', '-list', ':'], cwd='/verif', env=env, capture_output=True, text=True).stdout
m = collections.defaultdict(dict); cur = collections.Counter(); props = []
for l in out.splitlines():
    mm = re.match(r'^   (ok|known|VIOLATED|UNDECIDED)\s+(\S+?):', l)
    if mm:
        cur[mm.group(2)] += 1; continue
    mm = re.match(r'^(C\d+): obligations=(\d+)', l)
    if mm:
        props.append(mm.group(1))
        for r, n in cur.items(): m[r][mm.group(1)] = n
        cur = collections.Counter()
rows = ['| rule | ' + ' | '.join(props) + ' |', '|---|' + '---|' * len(props)]
for r in sorted(m):
    rows.append(f'| {r} | ' + ' | '.join(str(m[r].get(p, '')) for p in props) + ' |')
put('MATRIX', '\n'.join(rows))

k = json.load(open('/verif/known_findings.json'))
rows = ['| property | commit | what failed |', '|---|---|---|']
for f in k['fixed']:
    rows.append(f"| {f['property']} | {f['commit']} | {f['what']} |")
put('FIXED', '\n'.join(rows))
rows = ['| properties | obligation key | failing input / history |', '|---|---|---|']
for f in k['findings']:
    rows.append(f"| {','.join(f['properties'])} | `{f['key']}` | {f['what']} |")
put('KNOWN', '\n'.join(rows))

rows = ['| seed | what was changed (one line) | needs | detected by (property: rules) |', '|---|---|---|---|']
n = caught = own = 0
for d in sorted(glob.glob('/verif/seeded/*')):
    mp = d + '/meta.json'
    if not os.path.exists(mp): continue
    meta = json.load(open(mp)); n += 1
    cb = meta.get('caught_by', {})
    if cb: caught += 1
    if meta.get('property') in cb: own += 1
    det = '; '.join(f"{p}: {', '.join(v.get('rules', []))}" for p, v in sorted(cb.items())) or '**not detected**'
    rows.append(f"| {os.path.basename(d)} | {meta.get('summary', '')} | {meta.get('needs', '')} | {det} |")
rows.append('')
rows.append(f'{n} seeded changes; {caught} detected by at least one check, {own} by the check of the property they were written against.')
put('SEEDS', '\n'.join(rows))
open(D, 'w').write(s)
print('tables written:', n, 'seeds,', caught, 'caught,', own, 'by own property')
