package main

// R-overflow-signs: an overflow test written with sign tests is decided over the sign domain.
//
// For s = a + b on int64 (two's complement), whether the addition overflowed is a function of the signs of a, b and s:
//     a > 0, b > 0, s < 0            overflow         (s = 0 cannot happen)
//     a < 0, b < 0, s >= 0           overflow         (MinInt64 + MinInt64 = 0 !)
//     everything else                no overflow
// A piece of code that branches only on comparisons of a, b and s with 0 is therefore completely described by what it
// does for each of the 19 feasible sign combinations. The rule walks the branches that follow the addition once per
// combination (conditions are evaluated in the sign domain; `&&`/`||` are control flow in SSA, boolean phis are resolved
// along the walk) up to the first block that does something else, the outcome of that combination. If some outcome is
// reached only by overflowing combinations — the code evidently is an overflow test — then every overflowing
// combination has to reach such an outcome. Nothing is executed and no solver is involved: the domain has 19 elements.

import (
	"fmt"
	"go/token"
	"go/types"
	"sort"
	"strings"

	"golang.org/x/tools/go/ssa"
)

const textOverflowSigns = "R-overflow-signs: where the branches that follow a signed 64-bit addition s = a + b compare only a, b and s with zero, and some outcome is reached by overflowing sign combinations alone (the code is an overflow test), every overflowing combination — a>0,b>0,s<0 and a<0,b<0,s>=0, the latter including s = 0 (MinInt64+MinInt64) — reaches such an outcome; decided by enumerating the 19 feasible sign combinations"

type signCombo struct{ a, b, s int } // -1, 0, +1

func (sc signCombo) overflow() bool {
	return (sc.a > 0 && sc.b > 0 && sc.s < 0) || (sc.a < 0 && sc.b < 0 && sc.s >= 0)
}

func (sc signCombo) String() string {
	n := func(x int, name string) string {
		switch {
		case x < 0:
			return name + "<0"
		case x > 0:
			return name + ">0"
		}
		return name + "=0"
	}
	return n(sc.a, "a") + "," + n(sc.b, "b") + "," + n(sc.s, "sum")
}

func feasibleSignCombos() []signCombo {
	var out []signCombo
	for _, a := range []int{-1, 0, 1} {
		for _, b := range []int{-1, 0, 1} {
			for _, s := range []int{-1, 0, 1} {
				ok := true
				switch {
				case a == 0:
					ok = s == b
				case b == 0:
					ok = s == a
				case a > 0 && b > 0:
					ok = s != 0 // the true sum is at least 2; wrapped it is at most -2
				}
				if ok {
					out = append(out, signCombo{a, b, s})
				}
			}
		}
	}
	return out
}

func ruleOverflowSigns(c *Ctx) {
	c.S.Rule("R-overflow-signs", textOverflowSigns, 0)
	n := 0
	for _, fn := range c.SrcFuncs() {
		k := 0
		for _, in := range instrsOf(fn) {
			add, ok := in.(*ssa.BinOp)
			if !ok || add.Op != token.ADD {
				continue
			}
			bt, ok := add.Type().Underlying().(*types.Basic)
			if !ok || bt.Kind() != types.Int64 {
				continue
			}
			if _, isC := add.X.(*ssa.Const); isC {
				continue
			}
			if _, isC := add.Y.(*ssa.Const); isC {
				continue
			}
			// sign of v under a combination (only for a, b, s themselves)
			// v is operand op of the addition: the same value, or another load of the local cell the operand was loaded
			// from (a named result) — the walk only passes blocks that store nothing, and the block of the addition is
			// checked for stores to the cell after the operand was read
			isOperand := func(v, op ssa.Value) bool {
				if sameValue(v, op) {
					return true
				}
				uv, ok1 := v.(*ssa.UnOp)
				uo, ok2 := op.(*ssa.UnOp)
				if !ok1 || !ok2 || uv.Op != token.MUL || uo.Op != token.MUL || uv.X != uo.X {
					return false
				}
				al, ok := uo.X.(*ssa.Alloc)
				if !ok || uo.Block() != add.Block() {
					return false
				}
				for _, in2 := range add.Block().Instrs[instrIndex(uo):] {
					if st, ok := in2.(*ssa.Store); ok && st.Addr == ssa.Value(al) {
						return false
					}
					if _, isCall := in2.(*ssa.Call); isCall && al.Heap {
						return false
					}
				}
				return true
			}
			signOf := func(v ssa.Value, sc signCombo) (int, bool) {
				switch {
				case v == ssa.Value(add):
					return sc.s, true
				case isOperand(v, add.X) && !isOperand(v, add.Y):
					return sc.a, true
				case isOperand(v, add.Y) && !isOperand(v, add.X):
					return sc.b, true
				}
				return 0, false
			}
			usesSum := false
			var eval func(v ssa.Value, sc signCombo, cur, pred *ssa.BasicBlock, d int) (bool, bool)
			eval = func(v ssa.Value, sc signCombo, cur, pred *ssa.BasicBlock, d int) (bool, bool) {
				if d > 6 {
					return false, false
				}
				switch x := v.(type) {
				case *ssa.Const:
					if x.Value != nil && (x.Value.String() == "true" || x.Value.String() == "false") {
						return x.Value.String() == "true", true
					}
				case *ssa.UnOp:
					if x.Op == token.NOT {
						t, ok := eval(x.X, sc, cur, pred, d+1)
						return !t, ok
					}
				case *ssa.Phi:
					if x.Block() == cur && pred != nil {
						for i, p := range cur.Preds {
							if p == pred {
								return eval(x.Edges[i], sc, cur, pred, d+1)
							}
						}
					}
				case *ssa.BinOp:
					switch x.Op {
					case token.EQL, token.NEQ, token.LSS, token.LEQ, token.GTR, token.GEQ:
						// boolean (in)equality of two decided conditions
						if bt, isB := x.X.Type().Underlying().(*types.Basic); isB && bt.Kind() == types.Bool && (x.Op == token.EQL || x.Op == token.NEQ) {
							l, ok1 := eval(x.X, sc, cur, pred, d+1)
							r, ok2 := eval(x.Y, sc, cur, pred, d+1)
							if ok1 && ok2 {
								return (l == r) == (x.Op == token.EQL), true
							}
							return false, false
						}
						var sg int
						var okS bool
						op := x.Op
						if z, isC := constInt(x.Y); isC && z == 0 {
							sg, okS = signOf(x.X, sc)
							if x.X == ssa.Value(add) {
								usesSum = true
							}
						} else if z, isC := constInt(x.X); isC && z == 0 {
							sg, okS = signOf(x.Y, sc)
							if x.Y == ssa.Value(add) {
								usesSum = true
							}
							switch op { // 0 op v  ==  v op' 0
							case token.LSS:
								op = token.GTR
							case token.GTR:
								op = token.LSS
							case token.LEQ:
								op = token.GEQ
							case token.GEQ:
								op = token.LEQ
							}
						}
						if !okS {
							return false, false
						}
						switch op {
						case token.EQL:
							return sg == 0, true
						case token.NEQ:
							return sg != 0, true
						case token.LSS:
							return sg < 0, true
						case token.LEQ:
							return sg <= 0, true
						case token.GTR:
							return sg > 0, true
						case token.GEQ:
							return sg >= 0, true
						}
					}
				}
				return false, false
			}
			// pure decision block: nothing but comparisons/negations/phis before the terminator
			pure := func(b *ssa.BasicBlock) bool {
				for _, in2 := range b.Instrs[:len(b.Instrs)-1] {
					switch x := in2.(type) {
					case *ssa.Phi, *ssa.DebugRef:
					case *ssa.BinOp:
						switch x.Op {
						case token.EQL, token.NEQ, token.LSS, token.LEQ, token.GTR, token.GEQ:
						default:
							return false
						}
					case *ssa.UnOp:
						// negations, and loads (a named result kept in a cell is read again for every test; nothing is
						// stored in a decision block, so it is still the operand of the addition)
						if x.Op != token.NOT && x.Op != token.MUL {
							return false
						}
					case *ssa.FieldAddr:
					default:
						return false
					}
				}
				return true
			}
			outcome := func(sc signCombo) string {
				cur := add.Block()
				var pred *ssa.BasicBlock
				for step := 0; step < 64; step++ {
					if cur != add.Block() && !pure(cur) {
						break
					}
					last := cur.Instrs[len(cur.Instrs)-1]
					switch t := last.(type) {
					case *ssa.If:
						tv, ok := eval(t.Cond, sc, cur, pred, 0)
						if !ok {
							return fmt.Sprintf("b%d", cur.Index)
						}
						nxt := cur.Succs[1]
						if tv {
							nxt = cur.Succs[0]
						}
						pred, cur = cur, nxt
						continue
					case *ssa.Jump:
						if cur == add.Block() {
							return fmt.Sprintf("b%d", cur.Index)
						}
						pred, cur = cur, cur.Succs[0]
						continue
					}
					break
				}
				if pred != nil && len(cur.Instrs) > 0 {
					if _, isPhi := cur.Instrs[0].(*ssa.Phi); isPhi {
						return fmt.Sprintf("b%d<-b%d", cur.Index, pred.Index)
					}
				}
				return fmt.Sprintf("b%d", cur.Index)
			}
			reach := map[string][]signCombo{}
			for _, sc := range feasibleSignCombos() {
				o := outcome(sc)
				reach[o] = append(reach[o], sc)
			}
			if !usesSum || len(reach) < 2 {
				continue // the branches after this addition do not test the sign of the sum
			}
			pureOverflow := map[string]bool{}
			for o, scs := range reach {
				all := true
				for _, sc := range scs {
					if !sc.overflow() {
						all = false
					}
				}
				if all {
					pureOverflow[o] = true
				}
			}
			if len(pureOverflow) == 0 {
				continue // sign tests for another purpose
			}
			k++
			n++
			key := fmt.Sprintf("%s:add#%d", fnName(fn), k)
			var escaped []string
			for o, scs := range reach {
				if pureOverflow[o] {
					continue
				}
				for _, sc := range scs {
					if sc.overflow() {
						escaped = append(escaped, sc.String())
					}
				}
			}
			sort.Strings(escaped)
			if len(escaped) > 0 {
				c.S.Bad("R-overflow-signs", key, c.Pos(add.Pos()), fmt.Sprintf("%s tests the addition for overflow by the signs of the operands and of the sum, but the overflowing combination(s) %s take the same way as sums that did not overflow: the wrapped result is stored as if it were correct (a<0, b<0, sum=0 is MinInt64+MinInt64)", fnName(fn), strings.Join(escaped, "; ")))
			} else {
				c.S.OK("R-overflow-signs", key, c.Pos(add.Pos()), "all 19 sign combinations enumerated: the overflowing ones, and only they, reach the overflow outcome")
			}
		}
	}
	if n == 0 {
		// neither form of the test anywhere: the rules have lost their anchors (or the tests were removed)
		idiom := 0
		for _, o := range c.S.obs {
			if o.Rule == "R-overflow-idiom" && o.Config == c.S.config {
				idiom++
			}
		}
		if idiom == 0 {
			c.S.Undecided("R-overflow-signs", "none", "-", "no signed-overflow test of either form (comparison with the other addend / sign tests) found after any 64-bit addition")
		} else {
			c.S.Trivial("R-overflow-signs", "none", "-", "no overflow test written with sign tests in this tree (the comparison idiom is covered by R-overflow-idiom)")
		}
	}
}

// ---------------------------------------------------------------- R-overflow-checked

const textOverflowChecked = "R-overflow-checked: a signed 64-bit addition of two numbers that both come from outside (a stored counter parsed from text, an increment from the command line) is tested for overflow before its result is used as a value: the sum takes part in a comparison with one of its addends (the idiom of R-overflow-idiom) or in a sign test together with them (R-overflow-signs). Index and size arithmetic is not meant (A8 bounds it); only sums of int64 type"

func ruleOverflowChecked(c *Ctx) {
	c.S.Rule("R-overflow-checked", textOverflowChecked, 1)
	m := c.a8()
	n := 0
	for _, fn := range c.SrcFuncs() {
		if a8OutOfScope(c, fn) != "" {
			continue
		}
		k := 0
		for _, in := range instrsOf(fn) {
			add, ok := in.(*ssa.BinOp)
			if !ok || add.Op != token.ADD {
				continue
			}
			bt, ok := add.Type().Underlying().(*types.Basic)
			if !ok || bt.Kind() != types.Int64 {
				continue
			}
			if !m.tainted[add.X] || !m.tainted[add.Y] {
				continue
			}
			if _, isC := add.X.(*ssa.Const); isC {
				continue
			}
			if _, isC := add.Y.(*ssa.Const); isC {
				continue
			}
			k++
			n++
			key := fmt.Sprintf("%s:sum#%d", fnName(fn), k)
			// is the sum compared with an addend, or sign-tested?
			tested := false
			var uses func(v ssa.Value, d int)
			uses = func(v ssa.Value, d int) {
				if d > 3 {
					return
				}
				for _, r := range referrers(v) {
					switch x := r.(type) {
					case *ssa.BinOp:
						switch x.Op {
						case token.LSS, token.LEQ, token.GTR, token.GEQ:
							other := x.Y
							if x.Y == v {
								other = x.X
							}
							if sameValue(other, add.X) || sameValue(other, add.Y) {
								tested = true
							}
							if z, isC := constInt(other); isC && z == 0 {
								tested = true // a sign test of the sum: judged exactly by R-overflow-signs
							}
						}
					case *ssa.Store:
						// kept in a local and read again
						if al, ok := x.Addr.(*ssa.Alloc); ok && x.Val == v {
							for _, r2 := range referrers(al) {
								if ld, ok := r2.(*ssa.UnOp); ok && ld.Op == token.MUL {
									uses(ld, d+1)
								}
							}
						}
					case *ssa.Phi:
						uses(x, d+1)
					}
				}
			}
			uses(add, 0)
			if tested {
				c.S.OK("R-overflow-checked", key, c.Pos(add.Pos()), "the sum is tested against its addends")
			} else {
				c.S.Bad("R-overflow-checked", key, c.Pos(add.Pos()), fmt.Sprintf("%s adds two 64-bit numbers that both come from outside (stored value, command argument) and uses the sum without an overflow test: a counter near the end of the range wraps around silently", fnName(fn)))
			}
		}
	}
	// negation: -x overflows for the smallest int64; a negated outside number needs a dominating comparison of x with that
	// constant (DECRBY k -9223372036854775808 must be refused, not turned into INCRBY by the same amount)
	for _, fn := range c.SrcFuncs() {
		if a8OutOfScope(c, fn) != "" {
			continue
		}
		k := 0
		for _, in := range instrsOf(fn) {
			neg, ok := in.(*ssa.UnOp)
			if !ok || neg.Op != token.SUB {
				continue
			}
			bt, ok := neg.Type().Underlying().(*types.Basic)
			if !ok || bt.Kind() != types.Int64 || !m.tainted[neg.X] {
				continue
			}
			k++
			n++
			key := fmt.Sprintf("%s:negation#%d", fnName(fn), k)
			guarded := false
			for _, d := range fn.Blocks {
				ifi, ok := d.Instrs[len(d.Instrs)-1].(*ssa.If)
				if !ok {
					continue
				}
				bo, ok := ifi.Cond.(*ssa.BinOp)
				if !ok {
					continue
				}
				for _, pair := range [][2]ssa.Value{{bo.X, bo.Y}, {bo.Y, bo.X}} {
					if !sameValue(a8root(pair[0]), a8root(neg.X)) {
						continue
					}
					if kc, isC := constInt(pair[1]); isC && kc <= -9223372036854775807 {
						for _, s := range d.Succs {
							if len(s.Preds) == 1 && (s == neg.Block() || s.Dominates(neg.Block())) {
								guarded = true
							}
						}
					}
				}
			}
			if guarded {
				c.S.OK("R-overflow-checked", key, c.Pos(neg.Pos()), "the operand is compared with the smallest int64 before it is negated")
			} else {
				c.S.Bad("R-overflow-checked", key, c.Pos(neg.Pos()), fmt.Sprintf("%s negates a 64-bit number that comes from the command line without excluding the smallest int64: its negation is itself, so the command runs with the wrong sign instead of being refused", fnName(fn)))
			}
		}
	}
	if n == 0 {
		c.S.Trivial("R-overflow-checked", "none", "-", "no 64-bit addition of two outside numbers")
	}
}
