#!/usr/bin/env python3
"""Creates hand-specified behaviour-preserving refactorings of /repo's current tree as selftest/benign/<name>.diff
(each built in a scratch copy, must compile). Development tool; the refactoring agents' variants are stored alongside."""
import subprocess, tempfile, shutil, os, re, sys
ENV = dict(os.environ, GOFLAGS='-mod=mod', GOPROXY='off', GOSUMDB='off', GOTOOLCHAIN='local')
OUT = '/verif/selftest/benign'

def variant(name, edits):
    d = tempfile.mkdtemp(prefix='benign.', dir='/tmp')
    try:
        subprocess.run(['rsync', '-a', '--exclude', '.git', '/repo/', d + '/b/'], check=True)
        subprocess.run(['rsync', '-a', '--exclude', '.git', '/repo/', d + '/a/'], check=True)
        for f, fn in edits.items():
            p = d + '/b/' + f
            s = open(p).read()
            s2 = fn(s)
            assert s2 != s, (name, f, 'no change')
            open(p, 'w').write(s2)
        r = subprocess.run(['go', 'build', './...'], cwd=d + '/b', env=ENV, capture_output=True, text=True)
        if r.returncode != 0:
            print(name, 'DOES NOT BUILD', r.stderr[:300]); return
        subprocess.run(['gofmt', '-l', '.'], cwd=d + '/b')
        diff = subprocess.run(['diff', '-ruN', 'a', 'b', '-x', '*.db*'], cwd=d, capture_output=True, text=True).stdout
        open(f'{OUT}/{name}.diff', 'w').write(diff)
        print(name, len(diff.splitlines()), 'lines')
    finally:
        shutil.rmtree(d)

def rep(old, new, count=1):
    def f(s):
        assert s.count(old) >= 1, old[:60]
        return s.replace(old, new, count)
    return f

def chain(*fs):
    def f(s):
        for g in fs: s = g(s)
        return s
    return f

# 1. expire(): if-else chain -> switch
variant('expire-switch', {'dataStoreCommands.go': rep('''	if nx {
		if sk.expiresAt.Before(maxTime) {
			output.data = respInt(0)
			return
		}
	} else if xx {
		if !sk.expiresAt.Before(maxTime) {
			output.data = respInt(0)
			return
		}
	} else if gt {
		if !expiration.After(sk.expiresAt) {
			output.data = respInt(0)
			return
		}
	} else if lt {
		if !expiration.Before(sk.expiresAt) {
			output.data = respInt(0)
			return
		}
	}
''', '''	refuse := false
	switch {
	case nx:
		refuse = sk.expiresAt.Before(maxTime)
	case xx:
		refuse = !sk.expiresAt.Before(maxTime)
	case gt:
		refuse = !expiration.After(sk.expiresAt)
	case lt:
		refuse = !expiration.Before(sk.expiresAt)
	}
	if refuse {
		output.data = respInt(0)
		return
	}
''')})

# 2. removeUnlocked: extract the unlink into a helper method of storeList
variant('unlink-helper', {'dataStoreCommands.go': rep('''func (dsc *dataStoreCommand) removeUnlocked(keyName string, list *storeList, item *listItem) {
	if item.prev != nil {
		item.prev.next = item.next
	} else {
		list.head = item.next
	}
	if item.next != nil {
		item.next.prev = item.prev
	} else {
		list.tail = item.prev
	}
	list.count--
''', '''// takes item out of the chain and adjusts the ends and the count
func (list *storeList) unlink(item *listItem) {
	before, after := item.prev, item.next
	if before == nil {
		list.head = after
	} else {
		before.next = after
	}
	if after == nil {
		list.tail = before
	} else {
		after.prev = before
	}
	list.count--
}

func (dsc *dataStoreCommand) removeUnlocked(keyName string, list *storeList, item *listItem) {
	list.unlink(item)
''')})

# 3. setMove: rename locals, early-return style preserved
variant('setmove-rename', {'dataStoreCommands.go': chain(
    rep('''	ssk, objExists := dsc.getKeyObjectUnlocked(source)
	if !objExists {
		output.data = respInt(0)
		return
	}

	ss := ssk.getSet()
	if ss == nil {''', '''	srcKey, found := dsc.getKeyObjectUnlocked(source)
	if !found {
		output.data = respInt(0)
		return
	}

	ss := srcKey.getSet()
	if ss == nil {'''))})

# 4. diffWorker: range loop -> index loop
variant('diffworker-indexloop', {'dataStoreCommands.go': rep('''	for _, keyName := range keyNames {
		sk2, objExists := dsc.getKeyObjectUnlocked(keyName)
		if !objExists {
			continue
		}
		m2 := sk2.getSet()''', '''	for n := 0; n < len(keyNames); n++ {
		keyName := keyNames[n]
		sk2, objExists := dsc.getKeyObjectUnlocked(keyName)
		if !objExists {
			continue
		}
		m2 := sk2.getSet()''')})

# 5. persist(): explicit unlock instead of defer
def persist_explicit(s):
    i = s.index('func (dsc *dataStoreCommand) persist(keyName string)')
    j = s.index('\n}\n', i) + 3
    body = s[i:j]
    assert 'defer dsc.unlock()' in body
    nb = body.replace('	defer dsc.unlock()\n', '')
    nb = nb.replace('\t\treturn\n', '\t\tdsc.unlock()\n\t\treturn\n')
    # final return
    k = nb.rindex('\treturn\n}')
    nb = nb[:k] + '\tdsc.unlock()\n' + nb[k:]
    return s[:i] + nb + s[j:]
variant('persist-explicit-unlock', {'dataStoreCommands.go': persist_explicit})

# 6. dispatcher: local alias for the handler table lookup and reordered independent statements
variant('dispatch-locals', {'cmdDispatcher.go': rep('''	l := ctx.l
	cmdToken := ctx.cmdToken

	// invoke the handler
	handler := cd.handlers[cmdToken]
	if handler == nil {''', '''	cmdToken := ctx.cmdToken
	l := ctx.l

	// invoke the handler
	table := cd.handlers
	handler, known := table[cmdToken]
	if !known || handler == nil {''')})

# 7. lpushUnlocked: build the item with assignments instead of a literal, pointer variable
variant('lpush-pointer-item', {'dataStoreCommands.go': rep('''	item := listItem{
		next:    list.head,
		element: element,
	}
	if list.head == nil {
		list.tail = &item
	} else {
		list.head.prev = &item
	}
	list.head = &item
	list.count++''', '''	item := &listItem{element: element}
	oldHead := list.head
	item.next = oldHead
	if oldHead == nil {
		list.tail = item
	} else {
		oldHead.prev = item
	}
	list.head = item
	list.count++''')})

# 8. setOperationStore: guard written the other way round
variant('store-nonempty-neq', {'dataStoreCommands.go': rep('''	if d.count == 0 {
		// an empty result deletes the destination; a set never exists without members
		dsc.ds.data.remove(destination)
		output.data = respInt(0)
		return
	}

	newSk := dsc.ds.newStoreKeyUnlocked(destination)
	newSk.flags = FLAG_KEY_TYPE_SET
	newSk.payload = d
	newSk.expiresAt = maxTime

	output.data = respInt(d.count)
	return''', '''	if d.count != 0 {
		newSk := dsc.ds.newStoreKeyUnlocked(destination)
		newSk.flags = FLAG_KEY_TYPE_SET
		newSk.payload = d
		newSk.expiresAt = maxTime
	} else {
		// an empty result deletes the destination; a set never exists without members
		dsc.ds.data.remove(destination)
	}

	output.data = respInt(d.count)
	return''')})

# 9. blocking handlers: timeout conversion through a shared helper
def timeout_helper(s):
    n = s.count('timeoutNs := int64(timeout * float64(time.Second))')
    assert n == 4, n
    s = s.replace('timeoutNs := int64(timeout * float64(time.Second))', 'timeoutNs := secondsToNs(timeout)')
    s += '''
// converts a timeout argument in (fractional) seconds to nanoseconds
func secondsToNs(seconds float64) int64 {
	return int64(seconds * float64(time.Second))
}
'''
    return s
variant('timeout-helper', {'redisList.go': timeout_helper})

# 10. RequestTermination: order of the two releases swapped, helper for the listener
variant('termination-reordered', {'test-server.go': rep('''	if eng.server != nil {
		// the only way to stop the blocking listen is to close its connection
		eng.server.Close()
		eng.server = nil
	}

	if eng.cancelFn != nil {
		eng.cancelFn()
		eng.cancelFn = nil
	}''', '''	if cancel := eng.cancelFn; cancel != nil {
		eng.cancelFn = nil
		cancel()
	}

	if listener := eng.server; listener != nil {
		// the only way to stop the blocking listen is to close its connection
		eng.server = nil
		listener.Close()
	}''')})
