# what is claimed right now (edited as checks become clean on the unchanged tree)
T = "custom static analysis over go/types + go/ssa + VTA call graph"
NOTE = ("trusted base: go/types, go/ssa and the VTA call graph of golang.org/x/tools v0.29.0; the lock-class abstraction (classes, not instances); "
        "the frozen guarded-by / role tables in the checker; anchors (type and field names) must resolve or the check fails. "
        "The check decides the named structural clauses for every site/path of the current source; it does not execute the emulator and does not decide reply values.")
def L(txt):
    return "structural necessary condition decided exhaustively over all sites/paths of the current source (level other): " + txt
CLAIMED = {
 "C06": {"technique": T + ": forward must-pass path rule (A4-empty) + handler/grammar agreement (A7)",
         "text": L("no site that can shrink a list/hash/set reaches the end of its critical section without the emptiness test that removes the key; options of keyspace commands are producible by the grammar"), "note": NOTE},
 "C07": {"technique": T + ": who-may-call / filter rule over keyspace readers (A6)",
         "text": L("every read of the keyspace goes through the expiry filter, an expiry-testing iteration, or the snapshot writer"), "note": NOTE},
 "C08": {"technique": T + ": interprocedural lockset (guarded-by) for the database class + lock-balanced (may-held at return)",
         "text": L("every access to database state holds the database mutex on every call path from every root; no function leaks the mutex"), "note": NOTE},
 "C09": {"technique": T + ": must-pass-through, dominance and reachability rules on the MULTI/EXEC code",
         "text": L("reset on every EXEC/DISCARD exit, queue-only while MULTI, replay under the exclusive hold, inert error branches, abort mark, no non-re-entrant lock in replayable handlers"), "note": NOTE},
 "C10": {"technique": T + ": mutation-site coverage path rule (A4-version)",
         "text": L("every mutation site of database state is accompanied on every path by a new version id or the removal of the key"), "note": NOTE},
 "C13": {"technique": T + ": abstract interpretation of handlers against the command grammar read from the embedded spec (A7)",
         "text": L("every panicking type assertion on command arguments and every panicking key-switch default is unreachable for every command token"), "note": NOTE},
 "C16": {"technique": T + ": interprocedural lockset, atomic/immutable/confinement modes, taint of registry values, append-alias and payload-byte rules (A1)",
         "text": L("every access to a shared field in the guarded-by table is protected according to its mode on every call path"), "note": NOTE},
 "C19": {"technique": T + ": mutation-site coverage path rule (A4-dirty)",
         "text": L("every mutation site of database state marks the database dirty on every path inside its critical section"), "note": NOTE},
}

CLAIMED.update({
 "C01": {"technique": T + ": dominance / must-pass-through rules on the connection state machine, value-provenance rule on the request buffer, format/operand agreement in the serializer, taint of request bytes into line replies",
         "text": L("one write then re-arm, consume exactly the parsed length, no parser state across reads, length prefixes are len(payload), line replies are CR/LF free"), "note": NOTE},
 "C02": {"technique": T + ": taint of the client's command spelling, idiom operand check, phase-order reachability, handler/grammar agreement (A7), effect classification (A5-readonly)",
         "text": L("command identity from the normalised token, overflow idiom operands, MSETNX check-before-write, argument agreement for the string family"), "note": NOTE},
 "C03": {"technique": T + ": alias-after-detach rule, path coverage rules (A4-empty, A4-nonempty-create), constructor field-set agreement, edge-sensitive nilness of typed accessors, A7",
         "text": L("no push onto a possibly detached list, no empty list left behind, complete list constructors, WRONGTYPE discipline, argument agreement for the list family"), "note": NOTE},
 "C04": {"technique": T + ": sibling-parameter use, idiom operand check, path coverage rules (A4-empty, A4-nonempty-create), nilness, A7",
         "text": L("HSETNX's option reaches the store, HINCRBY overflow idiom, no empty hash left behind, WRONGTYPE discipline, argument agreement for the hash family"), "note": NOTE},
 "C05": {"technique": T + ": effect classification over the call graph (A5-readonly), path coverage rules, nilness, A7",
         "text": L("read-only set commands (the algebra) reach no mutation site, no empty set left behind, WRONGTYPE discipline, argument agreement for the set family"), "note": NOTE},
 "C14": {"technique": T + ": single-writer / insert-guard rule on the database table, dominance rule on SELECT, binding rule in prepare, confinement taint (A1 modes)",
         "text": L("database objects are never dropped or replaced, SELECT only under validity, commands bound to their connection's database, session state confined"), "note": NOTE},
 "C15": {"technique": T + ": producer/consumer type-set agreement over MakeInterface sites and type switches, closure of the down-converter, dominance rule in the dispatcher, guard rule on HELLO",
         "text": L("type switches over reply/request values are exhaustive, the down-converter yields only RESP2 kinds and is applied on the RESP2 branch, protocol version restricted to 2/3"), "note": NOTE},
})
CLAIMED["C06"]["technique"] = T + ": path coverage rules (A4-empty, A4-nonempty-create), flag/payload type agreement, constructor agreement, edge-sensitive nilness, A7"
CLAIMED["C10"]["technique"] = T + ": mutation-site coverage path rule (A4-version), expiry filter (A6), must-pass reset rule"
CLAIMED["C13"]["technique"] = T + ": abstract interpretation of handlers against the command grammar (A7), nilness of typed accessors, payload agreement, may-held lock leak and non-re-entrant acquisition reachability"
CLAIMED["C19"]["technique"] = T + ": mutation-site coverage path rule (A4-dirty), saver-loop provenance, writer/loader record agreement, create/close/rename ordering"

CLAIMED.update({
 "C11": {"technique": T + ": dominance / cyclic-path rules on the block-wake protocol, ordering rule in the waking release wrapper, release-wrapper rule for list inserters",
         "text": L("register→retry→wait, re-register after a failed retry, disposal on all exits, wake before unlock through a buffered channel, every inserter releases through the waking wrapper"), "note": NOTE},
 "C12": {"technique": T + ": select-arm provenance, capture/release must-pass rule, multi-guard dominance, call-graph reachability from close paths",
         "text": L("the wait has exactly the mailbox/timer/wake arms, capture is always released, no waiting under EXEC, unblock reply depends on the unblock result, closing reaches the unblock"), "note": NOTE},
 "C20": {"technique": T + ": call-graph reachability from the lifecycle API, process-exit reachability, run-time writes to package-level state, dead retry loop",
         "text": L("termination reaches the connections, no process exit on environment errors, no per-process shared registries, live retry loop — all four currently known findings; the check reports any new instance"), "note": NOTE},
})

PENDING = {}

# --- additions after the second round of rules (see DESIGN.md §5.1)
CLAIMED["C02"]["technique"] += ", failure-after-change control-flow rule with callee summaries (A4-inert)"
CLAIMED["C02"]["text"] += "; no failure point reachable after a change point in the string family (failed commands inert)"
CLAIMED["C03"]["technique"] = T + ": path-by-path shape abstract interpretation of the doubly linked list (R-list-shape), use-after-detach rule, alias-after-detach rule, failure-after-change rule (A4-inert), path coverage rules (A4-empty, A4-nonempty-create), constructor agreement, nilness, A7"
CLAIMED["C03"]["text"] = L("every function that writes list links leaves the written heap well formed on every path (back links, ends, count), no read of a detached node, no push onto a detached list, failed list commands inert, no empty list left behind, WRONGTYPE discipline, argument agreement")
CLAIMED["C04"]["technique"] += ", failure-after-change rule (A4-inert)"
CLAIMED["C04"]["text"] += "; failed hash commands inert"
CLAIMED["C05"]["technique"] = T + ": interprocedural ownership (freshness) of installed payloads (R-payload-own), early-exit classification of operand loops, count-guard dominance for computed results, key-name comparison rule for member moves, effect classification (A5-readonly), A4-inert, path coverage rules, nilness, A7"
CLAIMED["C05"]["text"] = L("a STORE form installs a new object never shared with an operand, an empty result deletes the destination, workers leave the operand loop early only for failure or the absorbing empty set, SMOVE compares source and destination, the algebra reaches no mutation site, failed commands inert, no empty set left behind")
CLAIMED["C06"]["technique"] += ", expiry filter (A6), failure-after-change rule (A4-inert), payload ownership and non-empty install rules"
CLAIMED["C06"]["text"] = L("no empty aggregate left behind or installed, type flag and payload agree, failed commands inert on every path, keyspace commands see only unexpired keys, payload objects are never shared between keys, options of keyspace commands are producible by the grammar")
CLAIMED["C08"]["technique"] += ", one critical section per command (A3), payload-byte immutability, one lock object per database (table/SELECT rules)"
CLAIMED["C08"]["text"] = L("every access to database state holds the database mutex on every call path from every root; no function leaks it; one critical section per command; published byte payloads are never written in place; one database object (and mutex) per index")
CLAIMED["C09"]["technique"] += ", slice of skip conditions against the guarded-by table (R-C09-replay-unconditional)"
CLAIMED["C09"]["text"] += "; no branch that can skip a replayed command reads state another goroutine can change"
CLAIMED["C11"]["technique"] += ", dominance of the wake over every return of the wrapper"
CLAIMED["C11"]["text"] += "; the wake is unconditional (also when the pusher owns the exclusive lock)"
CLAIMED["C12"]["technique"] += ", clock-provenance of the timer duration, sibling agreement of the timeout conversion"
CLAIMED["C12"]["text"] += "; the timer is armed with a remaining time; all blocking commands convert the timeout identically"
CLAIMED["C14"]["technique"] += ", range-check / loop-bound agreement for enumerations of the table"
CLAIMED["C14"]["text"] += "; every enumeration of the database table covers all admitted indexes"
CLAIMED["C15"]["text"] += "; no helper returns its input collection unconverted"
CLAIMED["C19"]["technique"] += ", enumeration completeness of the database table"
CLAIMED["C20"]["technique"] += ", loop-exit rule for termination arms, must-pass release rule in RequestTermination"
CLAIMED["C20"]["text"] = L("termination reaches the connections, no process exit on environment errors, no per-process shared registries, live retry loop (currently known findings; any new instance is reported); a goroutine's termination arm never flows back into its loop; RequestTermination releases listener and cancel function on every path")

# --- additions after the third batch of seeded changes and the robustness rounds (DESIGN.md §5.1b, §5.1c)
CLAIMED["C01"]["technique"] += ", linear-form bound proof for every index/slice of the wire parser (R-C13-parser-bounds), parse-after-read rule, unconditional-sanitiser rule on the line emitter, data-flow rule on rendered length prefixes"
CLAIMED["C01"]["text"] += "; every access of the wire parser into its buffer is within bounds by a dominating comparison with the same linear form; the CR/LF sanitiser is unconditional"
CLAIMED["C02"]["technique"] += ", status value-set data flow (no change after a failed status), sign-domain enumeration of overflow tests (R-overflow-signs), fixed-notation rule for float text (R-float-text)"
CLAIMED["C02"]["text"] += "; an overflow test written with sign tests separates exactly the overflowing sign combinations; floats become text in fixed notation"
CLAIMED["C03"]["technique"] += ", helpers executed inside their callers and loops unrolled in the shape interpretation"
CLAIMED["C04"]["technique"] += ", sign-domain enumeration of overflow tests, fixed-notation rule for float text, storage-writer closure of the dictionary (R-dict-readers-pure)"
CLAIMED["C04"]["text"] += "; only insert/remove primitives write the dictionary's storage; HINCRBY's overflow test and HINCRBYFLOAT's text as for the string family"
CLAIMED["C05"]["technique"] += ", storage-writer closure of the dictionary (R-dict-readers-pure)"
CLAIMED["C06"]["technique"] += ", producer rule for the key-type flag, same-key ordering rule (R-same-key-order), storage-writer closure of the dictionary"
CLAIMED["C06"]["text"] += "; the key type stored next to a payload is a constant, a copied flag or the loader's — never a value taken from a request; RENAME k k never removes after storing"
CLAIMED["C07"]["technique"] = T + ": who-may-call / filter rule over keyspace readers incl. removal results (A6), deadline-with-payload rule for replacements (R-replace-clears-ttl), path-restricted deadline provenance for changes in place (R-inplace-keeps-ttl)"
CLAIMED["C07"]["text"] = L("every read of the keyspace goes through the expiry filter, an expiry-testing iteration, or the snapshot writer; a replaced payload comes with a store of the deadline; a value computed from the key's previous value keeps the previous deadline")
CLAIMED["C08"]["technique"] += ", scoped-acquirer summaries (functions that return their release function)"
CLAIMED["C09"]["technique"] += ", no-release-in-replay-loop rule"
CLAIMED["C10"]["technique"] += ", counter-provenance rule for version ids (R-C10-fresh-id), watch-entry database provenance (R-C10-watch-db)"
CLAIMED["C10"]["text"] += "; a version id is the object counter read after its increment for this assignment; the database consulted for a watch entry comes from the entry"
CLAIMED["C11"]["technique"] += ", unlink-before-send dominance rule (R-C11-unlink-all)"
CLAIMED["C11"]["text"] += "; a wake signal is sent only after the waiter was unlinked from all its queues"
CLAIMED["C12"]["technique"] += ", mailbox-post guard rule, compare-and-swap discipline of the capture state (R-C12-state-cas), deadline-after-dispatch rule"
CLAIMED["C12"]["text"] += "; unblock requests are posted only in the captured state; the capture state changes only by CompareAndSwap between named states or by its transient owner; a write deadline is taken after the command ran"
CLAIMED["C13"]["technique"] += ", edge-sensitive bound analysis of client-controlled integers incl. binary payloads and length-1 clamps (A8), length-before-index rule, validate-every-element loop rule, linear-form bound proof of the wire parser, hashability-by-construction of parser map keys (R-C13-hashkey), producer rule for the key-type flag"
CLAIMED["C13"]["text"] += "; every size/index/shift derived from a client integer is bounded on the side that matters; every key the parser puts into an interface-keyed map is hashable by construction; no key-type flag comes from a request"
CLAIMED["C14"]["technique"] += ", watch-entry database provenance"
CLAIMED["C15"]["technique"] += " decided by an integer value-set analysis, cannot-fail-after-switch rule, fixed-notation rule for doubles"
CLAIMED["C15"]["text"] += "; HELLO cannot fail after it stored the version; doubles become text in fixed notation"
CLAIMED["C16"]["technique"] += ", common-lock inference for package-level variables outside the table (A1-unlisted-global)"
CLAIMED["C16"]["text"] += "; package-level variables outside the table that connection code writes have one lock class in common at every access"
CLAIMED["C19"]["technique"] += ", start-up scan rules (error-before-entry in the directory walk, no dereference of a single-result table read), final-name-never-removed and dirty-cleared-after-success clauses"
CLAIMED["C19"]["text"] += "; the saver ranges over the whole table, writer and loader agree on the record stream, the snapshot is written to a temporary file, closed, then renamed; the start-up scan survives a missing directory and stray files"
CLAIMED["C20"]["technique"] += ", WaitGroup accounting rule for goroutines, callback-outside-lock rule"
CLAIMED["C20"]["text"] += "; a goroutine counted by the WaitGroup never waits on it and signals Done first; user callbacks are not invoked under an API mutex"

# --- additions after the third robustness round and the fourth batch of seeded changes (DESIGN.md §5.1d)
CLAIMED["C01"]["technique"] += ", single-writer rule for the socket, pool-escape rule (an object put back into a sync.Pool is not also returned)"
CLAIMED["C01"]["text"] += "; the only writer of a connection's socket is the reply writer after dispatch; a pooled buffer is not returned to the caller after it was put back"
CLAIMED["C02"]["technique"] += ", tested-before-use rule for int64 sums and negations of outside numbers (R-overflow-checked)"
CLAIMED["C02"]["text"] += "; an int64 sum or negation of numbers that come from outside is tested for overflow before it is used"
CLAIMED["C04"]["technique"] += ", tested-before-use rule for int64 sums (R-overflow-checked)"
CLAIMED["C05"]["technique"] += ", iterate-while-modifying rule for dictionaries (R-dict-iterate-modify)"
CLAIMED["C05"]["text"] += "; a dictionary is not removed from or stored into inside a loop driven by an iterator over it"
CLAIMED["C06"]["technique"] += ", producer/consumer agreement of dictionary value types per kind of dictionary (R-dict-value-agree), iterate-while-modifying rule"
CLAIMED["C06"]["text"] += "; a type assertion on a value taken out of a dictionary asserts a type the producers store in dictionaries of that kind"
CLAIMED["C09"]["technique"] += ", before-and-after inertness of the error branches of the transaction control commands"
CLAIMED["C10"]["technique"] += ", monotonic-counter clause"
CLAIMED["C10"]["text"] += "; the version counter is only ever incremented"
CLAIMED["C11"]["technique"] += ", all-paths disposal of the wake signal, structural identification of the blocking worker (select arm on the wake channel, registration call, attempt call)"
CLAIMED["C12"]["technique"] += ", all-paths reset of the once-per-capture flag (R-C12-pending-reset)"
CLAIMED["C12"]["text"] += "; the flag that limits unblock requests to one per capture is cleared on every path that ends the capture"
CLAIMED["C13"]["technique"] += ", producer/consumer agreement of dictionary value types (R-dict-value-agree), edge-wise index-below-length proof for the pattern matcher (R-C13-index-var)"
CLAIMED["C13"]["text"] += "; no type assertion on a dictionary value can fail for the kind of dictionary it is applied to; every variable index of the glob matcher is below the length on every way into the access"
CLAIMED["C14"]["technique"] += ", constant-initial-database clause"
CLAIMED["C14"]["text"] += "; a new connection starts on database 0"
CLAIMED["C15"]["technique"] += ", constant-default-version and from-this-request clauses for HELLO, all-returns down-conversion rule (also replies produced by the hook)"
CLAIMED["C15"]["text"] += "; a new connection speaks RESP2; every reply that leaves the dispatcher for a RESP2 connection passes the down-conversion"
CLAIMED["C16"]["technique"] += ", pool-escape rule; names resolved through a recorded schema of types, fields, package variables and functions (renames do not move anchors)"
CLAIMED["C20"]["technique"] += ", bounded-wait clause for goroutines the termination WaitGroup counts"
CLAIMED["C20"]["text"] += "; a goroutine counted by the termination WaitGroup never waits for a blocking command's wake-up unless termination ends blocked commands"
CLAIMED["C03"]["technique"] += ", edge-sensitive bound analysis of client-controlled counts and positions in the list family (A8, incl. increments)"
CLAIMED["C03"]["text"] += "; every count, index or range position a list command derives from its arguments is bounded before it sizes, indexes or is incremented"
CLAIMED["C14"]["technique"] += ", describe-the-given-connection rule for the CLIENT LIST renderer"
CLAIMED["C14"]["text"] += "; the renderer of a CLIENT LIST line reads the connection it was given"
for _p in ("C01", "C02", "C06"):
    CLAIMED[_p]["technique"] += ", who-may-convert rule: client text is never decoded as UTF-8 (R-bytes-opaque)"
    CLAIMED[_p]["text"] += "; client text is never converted to []rune, ranged over as a string or measured with unicode/utf8"
CLAIMED["C07"]["technique"] += ", clock-provenance rule for absolute deadlines (R-C07-absolute-deadline), freshness of every aggregate a STORE form fills (R-store-replaces)"
CLAIMED["C07"]["text"] += "; an absolute deadline is the argument, nothing derived from the clock is added; a STORE form fills only aggregates it created for the result"
CLAIMED["C06"]["technique"] += ", freshness of every aggregate a STORE form fills (R-store-replaces)"
CLAIMED["C05"]["technique"] += ", every-operand-examined clause of the operand-loop rule"
CLAIMED["C05"]["text"] += "; a set-algebra worker answers only after it has looked at every operand (a wrong-typed key behind a missing one is WRONGTYPE)"
CLAIMED["C15"]["technique"] += ", case-to-kind rule in the down-converter (boolean to integer, verbatim string to bulk string)"
CLAIMED["C15"]["text"] += "; the down-converter turns a boolean into 0/1 and a verbatim string into a bulk string of its text"
for _p in ("C06", "C19"):
    CLAIMED[_p]["technique"] += ", path-wise non-nil proof for byte slices stored as string values (R-string-payload-nonnil)"
    CLAIMED[_p]["text"] += "; a byte slice stored as a string value is never nil (nil reads as another type)"
CLAIMED["C06"]["technique"] += ", defined-on-every-path rule for the key fields of sort comparators (R-sort-keys-defined)"
CLAIMED["C06"]["text"] += "; the fields a sort comparator reads are written on every path to the sort"

# --- additions after the fourth refactoring round and the fifth batch of seeded changes (DESIGN.md §5.1e)
CLAIMED["C01"]["technique"] += ", constant-format rule, parser-leaves-bytes-untouched rule (who-may-call over the wire parser's closure), dropped-reply rule, ends-only-on-read-error rule for the wait state"
CLAIMED["C01"]["text"] += "; every fmt format is a constant; the wire parser applies no trimming/replacing function to request bytes; no computed reply is discarded; the wait state ends a connection only on the error side of the socket read"
CLAIMED["C02"]["technique"] += ", base-10 rule for integer parsing"
CLAIMED["C02"]["text"] += "; integers in client or stored text are parsed in base 10"
CLAIMED["C04"]["technique"] += ", base-10 rule, key-comparison rule for dictionary primitives"
CLAIMED["C04"]["text"] += "; every dictionary primitive that uses the bucket finder compares the found entry's key"
CLAIMED["C05"]["technique"] += ", key-comparison rule for dictionary primitives, pattern-applied rule for scan functions"
CLAIMED["C05"]["text"] += "; a function that is given a MATCH pattern keeps no walked entry without having passed the pattern on"
CLAIMED["C06"]["technique"] += ", copy-carries-flags-and-deadline rule, wrong-type-reported rule on the nil side of typed accessors, pattern-applied rule"
CLAIMED["C06"]["text"] += "; the copy of a key object takes flags and deadline from its source; the nil side of a typed accessor reports the wrong type on every path"
CLAIMED["C07"]["technique"] += ", accept-only-live rule for iteration callbacks, copy-carries-deadline rule"
CLAIMED["C07"]["text"] += "; an iteration callback accepts an entry only on the not-expired side of the expiry test"
CLAIMED["C09"]["technique"] += ", one-reply-per-replayed-command must-pass rule, own-command-object rule (a new command object locks only a database proven different), watch-check-inside-the-replay-section rule"
CLAIMED["C09"]["text"] += "; every path of the replay loop stores the command's reply; a handler locks through a new command object only for another database; the lock is held from the watch check to the replay"
CLAIMED["C10"]["technique"] += ", name-and-aggregate agreement rule, bump-needs-change rule, parallel-index rule"
CLAIMED["C10"]["text"] += "; the key name passed with an aggregate is the name it was obtained under; a version bump comes with a change; results are paired with the slice they were computed from"
CLAIMED["C11"]["technique"] += ", register-all rule (whole list, no early exit), deferred-call-sees-current-value rule (syntactic)"
CLAIMED["C11"]["text"] += "; a multi-key command registers on every key; a deferred leave acts on the current registration"
CLAIMED["C12"]["technique"] += ", transient-state-left rule, dropped-reply rule, deferred-call-sees-current-value rule"
CLAIMED["C12"]["text"] += "; a transient capture state is written again on every path; the reply of the blocking wrapper is used"
CLAIMED["C13"]["technique"] += ", constant-format rule, own-command-object rule, HasPrefix-established lengths for argument-text parsers"
CLAIMED["C14"]["technique"] += ", unnarrowed-index rule for SELECT (per platform word size), flush-on-every-path rule"
CLAIMED["C14"]["text"] += "; the index SELECT validates is not narrowed first; a flush replaces the dictionary on every path"
CLAIMED["C19"]["technique"] += ", error-examined rule in the snapshot replacement, saver-returns-only-through-the-cancel-arm rule, cancellation-blind final save rule"
CLAIMED["C19"]["text"] += "; no error of the write/close/rename sequence is dropped; the saver goroutine ends only in the arm that makes the final save; the save path does not look at the cancellation of its lane"
CLAIMED["C20"]["technique"] += ", API-acts-on-own-instance rule, no-plain-send rule for counted goroutines, saver rules"
CLAIMED["C20"]["text"] += "; the termination API reaches no package-level registry; a counted goroutine has no plain channel send"

# --- additions after the sixth batch of seeded changes (DESIGN.md §5.1f)
CLAIMED["C01"]["technique"] += ", projection rule for String methods of text-carrying reply types (R-stringer-identity), constructor of the connection's parser included in the bytes-untouched rule"
CLAIMED["C01"]["text"] += "; the String method fmt uses for a text reply returns the receiver's own bytes; the connection creates its parser through a constructor that does not rewrite the buffer"
CLAIMED["C02"]["technique"] += ", finite-sum rule for float counters (R-float-finite), allocated-in-the-iteration rule for payloads stored in a loop (R-payload-distinct-backing), per-item-value rule for loops that build a result (R-loop-element-fresh), typed-accessor-before-any-reply rule (R-type-before-reply)"
CLAIMED["C02"]["text"] += "; a float sum is tested with IsInf/IsNaN before it is stored; values stored by one MSET do not share a backing array; a value appended per item is not carried over from the previous item; an existing key is asked for its type before anything is answered"
CLAIMED["C03"]["technique"] += ", negation sink of the bound analysis (the operand cannot be the smallest integer), three-fold unrolling in the list-shape interpreter, emptied-aggregate-removes-its-own-key rule, memo-invalidation rule for list headers"
CLAIMED["C03"]["text"] += "; a count or index from the command line is negated only where the smallest integer is excluded; a key removed because its list became empty is the key that list was looked up under"
CLAIMED["C04"]["technique"] += ", complete-bucket-scan rule (R-dict-scan-complete), emptied-aggregate-removes-its-own-key rule, typed-accessor-before-any-reply rule, per-item-value rule, finite-sum rule"
CLAIMED["C04"]["text"] += "; a counting loop over the dictionary's buckets covers the whole array; HMGET appends a value computed for that field; HRANDFIELD asks for the type before it answers for an existing key"
CLAIMED["C05"]["technique"] += ", complete-bucket-scan rule, emptied-aggregate-removes-its-own-key rule (R-empty-removes-own-key), SMOVE reply and single-operand clauses, typed-accessor-before-any-reply rule"
CLAIMED["C05"]["text"] += "; SMOVE removes the source key (not another) when the source became empty and answers 1 after the removal; the intersection of one set is that set"
CLAIMED["C06"]["technique"] += ", complete-bucket-scan rule, emptied-aggregate-removes-its-own-key rule, typed-accessor-before-any-reply rule, own-storage rule for payloads stored in a loop"
CLAIMED["C06"]["text"] += "; the shrink decision of the keyspace dictionary looks at every bucket pair; a copied list of three or more elements has correct back links (three unrollings)"
CLAIMED["C07"]["technique"] += ", GETEX-needs-an-option rule, clock-read-at-execution rule for relative deadlines (R-C07-deadline-base), who-may-call rule for the function that re-files a key object under another name (R-C07-mover-callers), conditions-dominate-mutations rule (R-options-before-change)"
CLAIMED["C07"]["text"] += "; GETEX without option changes no deadline; a relative deadline is added to a clock reading of the executing command, not to a time stored in the context; only RENAME/RENAMENX carry a deadline to another name; EXPIRE tests NX/XX/GT/LT before it changes anything"
CLAIMED["C08"]["technique"] += ", new-command-object-per-command rule (R-token-fresh), shared-lock-reaches-no-mutation rule (R-shared-lock-readonly), no-escape rule for containers that share storage with database fields (R-guarded-backing-escape)"
CLAIMED["C08"]["text"] += "; the command object whose id the re-entrant lock compares is created per command; nothing under a shared (reader) lock mutates; a function that closes its own critical section returns no slice backed by a database field"
CLAIMED["C09"]["technique"] += ", queue-starts-empty rule (new slice, or kept storage emptied wherever a transaction ends)"
CLAIMED["C09"]["text"] += "; the queue MULTI installs is empty"
CLAIMED["C11"]["technique"] += ", deleted-entry-is-the-emptied-queue's rule for the wait table, wake-count-is-a-length rule"
CLAIMED["C11"]["text"] += "; the wait-table entry deleted when a queue empties is read through the registration that was unlinked; the number of waiters to wake is a length or kept count, never a command-line number"
CLAIMED["C13"]["technique"] += ", negation sink of the bound analysis"
CLAIMED["C14"]["technique"] += ", file-named-by-table-key rule for the saver (R-C19-file-index)"
CLAIMED["C14"]["text"] += "; a database's snapshot file is named by the key of the map step that yields that database"
CLAIMED["C15"]["technique"] += ", accepted-version-is-stored path rule for HELLO, RESP2-kinds-only rule for replies built around the handler call (R-C15-unconverted-safe), projection rule for the scalar cases of the down-converter (R-stringer-identity)"
CLAIMED["C15"]["text"] += "; a version HELLO compared equal to 2 or 3 is stored before the handler returns; replies that bypass the down-converter are RESP2 kinds; a verbatim string is converted to its text, not to its wire form"
CLAIMED["C16"]["technique"] += ", state-machine-goroutine-touches-no-session-field clause of the confinement rule, pool rule through deferred closures, new-command-object-per-command rule, shared-lock and backing-array rules"
CLAIMED["C16"]["text"] += "; the goroutine that handles a connection's termination touches no session field a command goroutine owns"
CLAIMED["C19"]["technique"] += ", file-named-by-table-key rule, mark-after-replace ordering rule (R-C19-dirty-after-replace), new-target-per-record rule for the decoder (R-C19-decode-fresh), whole-string-parse rule for snapshot discovery (R-C19-discover-parse)"
CLAIMED["C19"]["text"] += "; a flush marks the NEW dictionary dirty; every Decode in the record loop writes into a variable declared in the loop; the index of a snapshot file is a whole-string strconv parse of its suffix with the error tested"
CLAIMED["C20"]["technique"] += ", Done-of-a-cancellable-lane rule, no-package-table-aliased-by-a-mutated-instance-field rule, listener-published-before-anything-else rule"
CLAIMED["C20"]["text"] += "; no goroutine waits on Done() of a lane derived without cancellation; no instance field that is modified holds a package-level map; between net.Listen and the store of the listener nothing of the package runs"

# --- additions after the seventh batch of seeded changes (DESIGN.md §5.1g)
CLAIMED["C01"]["technique"] += ", invalid-parse-returns-length-0 rule for the parser entry (R-C01-invalid-zero-length), transformers are not writers in the length-prefix rule"
CLAIMED["C01"]["text"] += "; the parser entry returns a non-zero length only behind the test of its validity result; a helper that hands back a transformed payload does not count as writing the payload whose length was rendered"
CLAIMED["C02"]["technique"] += ", append-onto-nil clause of the non-nil payload rule"
CLAIMED["C02"]["text"] += "; a string payload built by appending onto nil is non-nil only if something non-empty is appended"
CLAIMED["C03"]["technique"] += ", end-node precondition of the pop helpers at their call sites (R-list-pop-precondition), wrap-around clause for sums of two client numbers in the bound analysis"
CLAIMED["C03"]["text"] += "; a helper that takes a node off one end of a list is handed the node read from that end with no link write in between"
CLAIMED["C04"]["technique"] += ", shrink-by-the-proved-factor rule for the dictionary (R-dict-shrink-factor)"
CLAIMED["C04"]["text"] += "; the removal primitive shrinks the table to exactly len/2"
CLAIMED["C05"]["technique"] += ", shrink-factor rule, operand-determined-per-iteration rule (R-C05-operand-per-iteration), type-written-with-payload rule (R-payload-store-typed), destination-settled-on-every-path rule for STORE forms (R-store-dest-settled)"
CLAIMED["C05"]["text"] += "; no read-only set variable is carried round the operand loop; a payload goes into a looked-up key object only after its type was asked for or written; a STORE form removes or creates its destination on every non-error path"
CLAIMED["C06"]["technique"] += ", shrink-factor rule, type-written-with-payload rule, destination-settled rule, pop-helper precondition"
CLAIMED["C06"]["text"] += "; SORT … STORE removes or creates its destination on every non-error path; type flag and payload of an existing key object change together"
CLAIMED["C09"]["technique"] += ", rejection-keeps-the-mode rule for the queueing path (R-C09-reject-keeps-mode)"
CLAIMED["C09"]["text"] += "; nothing on the queueing path ends MULTI or replaces the watches"
CLAIMED["C13"]["technique"] += ", wrap-around clause for sums of two client numbers (A8)"
CLAIMED["C13"]["text"] += "; a sum of two client-controlled numbers bounds a slice only behind a comparison of the sum with an addend (or upper bounds on both)"
CLAIMED["C14"]["technique"] += ", remembered-snapshot invalidation rule for the database set (R-C14-table-cache), handlers-use-the-bound-database rule (R-C14-handler-bound-db)"
CLAIMED["C14"]["text"] += "; no handler code reads the connection's current-database field; a second container of databases is written wherever the table grows"
CLAIMED["C15"]["technique"] += ", compared-before-narrowed clause for HELLO"
CLAIMED["C15"]["text"] += "; the protocol version is compared with 2 and 3 as the client sent it, not after a narrowing conversion"
CLAIMED["C16"]["technique"] += ", added-field rule for the shared structures (R-C16-new-shared-field: one kind of writer goroutine, or every write under a mutex)"
CLAIMED["C16"]["text"] += "; a field added to a shared structure since the guarded-by table was confirmed has one kind of writer goroutine or is written under a mutex"
CLAIMED["C19"]["technique"] += ", cut-by-position clause of the discovery parse, no-path-no-walk rule (R-C19-discover-needs-path), remembered-snapshot invalidation rule"
CLAIMED["C19"]["text"] += "; the directory walk at start-up is dominated by the test of the persist path itself against the empty string; the index is parsed from the name cut off by position"
CLAIMED["C20"]["technique"] += ", add-then-go rule for the termination WaitGroup, no-path-no-walk rule"
CLAIMED["C20"]["text"] += "; every Add to the termination WaitGroup is followed by a go statement before the function adds again or returns"

CLAIMED["C16"]["technique"] += ", foreign-database-through-its-own-command-object rule (the one lock-instance question of the code base)"
CLAIMED["C16"]["text"] += "; a mutating method of the database type is called on the command object's own database, on the caller's, or on a database for which the function makes a command object"
CLAIMED["C08"]["technique"] += ", foreign-database-through-its-own-command-object rule"

# --- additions after the eighth batch of seeded changes (DESIGN.md §5.1h)
CLAIMED["C01"]["technique"] += ", made-with-length-then-appended rule for slices"
CLAIMED["C06"]["technique"] += ", made-with-length-then-appended rule for slices (key-name lists)"
CLAIMED["C06"]["text"] += "; a slice created with a length is filled by index, not appended to"
CLAIMED["C08"]["technique"] += ", package-state-under-a-package-lock rule"
CLAIMED["C10"]["technique"] += ", watch-only-inserts rule for the WATCH handler, bump-names-a-key rule"
CLAIMED["C10"]["text"] += "; WATCH inserts into the existing table; the name handed to the version helper is a key-name parameter"
CLAIMED["C12"]["technique"] += ", always-through-the-blocking-worker path rule for the five handlers, no-rounding rule for the deadline"
CLAIMED["C12"]["text"] += "; every non-error path of a blocking handler enters the blocking worker; no time is rounded or truncated inside it"
CLAIMED["C14"]["technique"] += ", each-round-flushes-the-round's-database rule for FLUSHALL"
CLAIMED["C14"]["text"] += "; in FLUSHALL's loop the handler's own command object is used only where the current database was compared equal to its own"
CLAIMED["C15"]["technique"] += ", children-pass-the-converter rule for the collection helpers, version-read-after-the-handler rule for the dispatcher, reported-version-read-after-the-switch rule for HELLO"
CLAIMED["C15"]["text"] += "; every child put into a flattened collection comes out of the down-converter; the dispatcher decides about the conversion with the version read after the handler returned; HELLO reports the version it switched to"
CLAIMED["C16"]["technique"] += ", goroutine-captures-no-reassigned-variable rule, package-state-under-a-package-lock rule, fresh-command-object-draws-its-own-id clause"
CLAIMED["C16"]["text"] += "; no goroutine literal captures a variable its starter assigns again; a package-level struct written field by field from connection code is written under a package-level mutex"
CLAIMED["C19"]["technique"] += ", walk-callback-returns-only-load-errors rule, header-count-is-the-element-count rule, payload-decoded-for-every-header rule, no-clock-on-the-save-path rule"
CLAIMED["C19"]["text"] += "; the start-up walk is ended only by a failed load; the header announces the dictionary's element count itself; the loader decodes the payload of every record whose header it decoded; the save path does not read the clock"
CLAIMED["C20"]["technique"] += ", constructor-does-not-load rule, no-clock-on-the-save-path rule"
CLAIMED["C20"]["text"] += "; the exported constructor does not reach the snapshot loader"
