package main

// A3 — number of separate database critical sections a function can open on one path (0, 1, 2=many).

import (
	"golang.org/x/tools/go/ssa"
)

type SectionModel struct {
	m   *Models
	sec map[*ssa.Function]int
	// witness: per function the call sites (in order found) at which a new section is opened
	wit map[*ssa.Function][]ssa.Instruction
}

var sectionModels = map[*Models]*SectionModel{}

func (m *Models) Sections() *SectionModel {
	if s, ok := sectionModels[m]; ok {
		return s
	}
	sm := &SectionModel{m: m, sec: map[*ssa.Function]int{}, wit: map[*ssa.Function][]ssa.Instruction{}}
	sectionModels[m] = sm
	lm := m.Locks()
	p := m.p
	if lm.DB < 0 {
		return sm
	}
	for changed := true; changed; {
		changed = false
		for _, fn := range p.SrcFuncs() {
			n, w := sm.count(fn, lm)
			if n != sm.sec[fn] {
				sm.sec[fn] = n
				sm.wit[fn] = w
				changed = true
			}
		}
	}
	return sm
}

func sat(n int) int {
	if n > 2 {
		return 2
	}
	return n
}

// count: max number of DB sections opened on a path through fn, entered with the lock not held.
func (sm *SectionModel) count(fn *ssa.Function, lm *LockModel) (int, []ssa.Instruction) {
	p := sm.m.p
	in := map[*ssa.BasicBlock]int{}
	seen := map[*ssa.BasicBlock]bool{fn.Blocks[0]: true}
	work := []*ssa.BasicBlock{fn.Blocks[0]}
	best := 0
	witSet := map[ssa.Instruction]bool{}
	var wit []ssa.Instruction
	for len(work) > 0 {
		b := work[0]
		work = work[1:]
		n := in[b]
		for _, ins := range b.Instrs {
			var c ssa.CallInstruction
			switch x := ins.(type) {
			case *ssa.Call:
				c = x
			default:
				continue
			}
			if !lm.Reachable(ins) {
				continue
			}
			held := lm.LocallyHeld(ins).has(lm.DB)
			add := 0
			if op, cls, _ := lm.lockOp(c); op > 0 && cls == lm.DB {
				if !held {
					add = 1
				}
			} else if op == 0 && !held {
				for _, g := range p.Callees(c) {
					if lm.handlerDynSites[c] {
						continue
					}
					if s := sm.sec[g]; s > add {
						add = s
					}
				}
			}
			if add > 0 {
				n = sat(n + add)
				if !witSet[ins] {
					witSet[ins] = true
					wit = append(wit, ins)
				}
			}
		}
		if len(b.Succs) == 0 {
			if n > best {
				best = n
			}
		}
		for _, s := range b.Succs {
			if !seen[s] || n > in[s] {
				seen[s] = true
				if n > in[s] {
					in[s] = n
				}
				work = append(work, s)
			}
		}
	}
	// deferred calls that open sections (rare) are ignored: a deferred unlock closes, never opens
	return best, wit
}
