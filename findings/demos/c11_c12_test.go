package redisemu

import (
	"strings"
	"testing"
	"time"
)

func TestDemoC11LostWakeupAfterSteal(t *testing.T) {
	s := startDemo(t, "")
	defer s.stop()
	a, b := s.dial(t), s.dial(t)
	a.send("BLPOP", "k", "0")
	time.Sleep(200 * time.Millisecond) // a is blocked and registered
	// wake a and steal the element inside one exclusive section
	b.do("MULTI")
	b.do("LPUSH", "k", "x")
	b.do("LPOP", "k")
	b.do("EXEC")
	time.Sleep(200 * time.Millisecond) // a woke up, found nothing, waits again
	b.do("LPUSH", "k", "y")
	r := a.read(1500 * time.Millisecond)
	if !strings.Contains(r, `"y"`) {
		t.Errorf("client blocked in BLPOP k was not served by a later LPUSH k y: %s (LLEN k = %s)", r, b.do("LLEN", "k"))
	}
}

func TestDemoC11SortStoreDoesNotWake(t *testing.T) {
	s := startDemo(t, "")
	defer s.stop()
	a, b := s.dial(t), s.dial(t)
	a.send("BLPOP", "dst", "0")
	time.Sleep(200 * time.Millisecond)
	b.do("RPUSH", "src", "1")
	b.do("SORT", "src", "STORE", "dst")
	r := a.read(1500 * time.Millisecond)
	if !strings.Contains(r, `"1"`) {
		t.Errorf("client blocked on dst stays blocked although SORT ... STORE dst made it non-empty: %s (LLEN dst = %s)", r, b.do("LLEN", "dst"))
	}
}

func TestDemoC12UnblockNotBlocked(t *testing.T) {
	s := startDemo(t, "")
	defer s.stop()
	c := s.dial(t)
	id := strings.TrimPrefix(c.do("CLIENT", "ID"), ":")
	expect(t, "CLIENT UNBLOCK of a client that is not blocked", c.do("CLIENT", "UNBLOCK", id), ":0")
}

func TestDemoC12ClosedClientKeepsCompeting(t *testing.T) {
	s := startDemo(t, "")
	defer s.stop()
	a, b := s.dial(t), s.dial(t)
	a.send("BLPOP", "k", "0")
	time.Sleep(200 * time.Millisecond)
	a.c.Close()
	time.Sleep(200 * time.Millisecond)
	b.do("LPUSH", "k", "x")
	time.Sleep(200 * time.Millisecond)
	expect(t, "LLEN k after pushing while only a closed connection was blocked on k", b.do("LLEN", "k"), ":1")
}
