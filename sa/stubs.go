package main

type Grammar struct{}

func dumpMore(p *Prog, m *Models, args []string) int { return 2 }

func runSelfTests(verifDir, root, prop string) map[string]any { return nil }

func cmdSelftest(args []string) int { return 0 }
