package main

import (
	"fmt"
	"sort"
	"strings"

	"golang.org/x/tools/go/ssa"
)

const textA1 = "guarded-by (lockset): every access to a field/global listed in the guarded-by table happens with its lock class held on every call path from every root (command handlers, goroutine entries, exported API); fresh (unpublished) objects are exempt"

// ruleA1 emits one obligation per guarded access site and one violated obligation per
// (root, access function, field, r/w) reachable without the lock. only selects lock classes.
func ruleA1(ruleID string, only func(lm *LockModel, cls int) bool) func(*Ctx) {
	return func(c *Ctx) {
		c.S.Rule(ruleID, textA1, 40)
		rm := c.M.Req()
		lm := rm.lm
		for _, e := range rm.gt.errs {
			c.S.Undecided(ruleID, "guard-table:"+e, "-", e)
		}
		for _, pr := range lm.problems {
			c.S.Undecided(ruleID, "lock-op:"+pr, "-", pr)
		}
		if lm.DB < 0 {
			c.S.Undecided(ruleID, "db-class", "-", "dataStore has no single mutex field")
			return
		}
		sel := func(cls int) bool {
			if cls == 31 {
				return only == nil || only(lm, -1)
			}
			return only == nil || only(lm, cls)
		}
		// violated: per root
		bad := map[*Access]bool{}
		seen := map[string]bool{}
		for _, r := range rm.roots {
			for _, k := range rm.sortedReq(r) {
				if !sel(k.cls) {
					continue
				}
				bad[k.acc] = true
				if rm.viaOtherRoot(r, k) {
					continue // reported at the root nearer to the access
				}
				key := fmt.Sprintf("%s:%s:%s:%s:%s", fnName(r), rm.className(k.cls), fnName(k.acc.Fn), k.acc.Name, k.acc.rw())
				if k.cls == 31 {
					key = fmt.Sprintf("%s:%s:%s:%s", rm.className(k.cls), fnName(k.acc.Fn), k.acc.Name, k.acc.rw())
				}
				if seen[key] {
					continue
				}
				seen[key] = true
				c.S.Bad(ruleID, key, c.Pos(c.InstrPos(k.acc.In)),
					fmt.Sprintf("%s (%s) reaches %s of %s without %s: %s", fnName(r), rm.rootWhy[r], k.acc.rw(), k.acc.Name, rm.className(k.cls), rm.chain(r, k)))
			}
		}
		// discharged: per access site that needs a selected class
		for _, fn := range c.SrcFuncs() {
			for _, a := range rm.accesses[fn] {
				g, ok := rm.gt.lookup(a)
				if !ok || !(g.mode == gLocked || g.mode == gWriteLocked && a.Write) || !sel(g.class) {
					continue
				}
				if bad[a] {
					continue
				}
				detail := "held locally"
				nontrivial := false
				if a.Base != nil && isFresh(a.Base) {
					detail = "object is fresh (not yet shared)"
				} else if g.class != 31 && !lm.LocallyHeld(a.In).has(g.class) {
					detail = "lock held by every caller on every path from every root"
					nontrivial = true
				}
				if nontrivial {
					c.S.OK(ruleID, rm.accKey(a), c.Pos(c.InstrPos(a.In)), detail)
				} else {
					c.S.Trivial(ruleID, rm.accKey(a), c.Pos(c.InstrPos(a.In)), detail)
				}
			}
		}
	}
}

func onlyDB(lm *LockModel, cls int) bool   { return cls == lm.DB }
func notDB(lm *LockModel, cls int) bool    { return cls != lm.DB }
func anyClass(lm *LockModel, cls int) bool { return true }

// ---------------------------------------------------------------- dump (development aid)

func cmdDump(args []string) int {
	if len(args) < 1 {
		usage()
	}
	root := "/repo"
	if len(args) > 1 {
		root = args[1]
	}
	p, err := Load(root, cfgDefault)
	if err != nil {
		fmt.Println("load error:", err)
		return 1
	}
	m := newModels(p)
	switch args[0] {
	case "locks":
		lm := m.Locks()
		fmt.Println("classes:", lm.names, "DB =", lm.DB)
		for f, c := range lm.tokenOf {
			fmt.Println("token:", f.Name(), "->", lm.names[c])
		}
		for _, fn := range p.SrcFuncs() {
			fl := lm.fl[fn]
			if fl.adds != 0 || fl.removes != 0 {
				fmt.Printf("%-60s adds=%s removes=%s\n", fnName(fn), lm.setString(fl.adds), lm.setString(fl.removes))
			}
		}
		fmt.Println("dispatch sites:", len(lm.handlerDynSites))
		fmt.Println("problems:", lm.problems)
	case "schema":
		dumpSchema(p)
	case "accesses":
		// statistics: per field, held sets at each access
		rm := m.Req()
		type row struct{ name, fn, held, pos, kind string }
		var rows []row
		for _, fn := range p.SrcFuncs() {
			for _, a := range rm.accesses[fn] {
				rows = append(rows, row{a.Name + ":" + a.rw(), fnName(fn), rm.lm.setString(rm.lm.LocallyHeld(a.In)), p.Pos(p.InstrPos(a.In)), a.Kind})
			}
		}
		sort.Slice(rows, func(i, j int) bool {
			if rows[i].name != rows[j].name {
				return rows[i].name < rows[j].name
			}
			return rows[i].pos < rows[j].pos
		})
		for _, r := range rows {
			fmt.Printf("%-40s %-12s %-28s %-50s %s\n", r.name, r.kind, r.held, r.fn, r.pos)
		}
	case "req":
		rm := m.Req()
		for _, r := range rm.roots {
			ks := rm.sortedReq(r)
			if len(ks) == 0 {
				continue
			}
			fmt.Printf("%s (%s)\n", fnName(r), rm.rootWhy[r])
			for _, k := range ks {
				fmt.Printf("    %s: %s\n", rm.className(k.cls), rm.chain(r, k))
			}
		}
	case "roots":
		rm := m.Req()
		for _, r := range rm.roots {
			fmt.Printf("%-60s %s\n", fnName(r), rm.rootWhy[r])
		}
		var dead []string
		for _, fn := range p.SrcFuncs() {
			if rm.callers[fn] == 0 && rm.rootWhy[fn] == "" {
				dead = append(dead, fnName(fn))
			}
		}
		fmt.Println("no callers, not roots:", strings.Join(dead, ", "))
	case "funcs":
		for _, fn := range p.SrcFuncs() {
			fmt.Println(fnName(fn), p.Pos(fn.Pos()), fn.Synthetic)
		}
	case "ssa":
		if len(args) < 3 {
			fmt.Println("dump ssa <root> <func>")
			return 2
		}
		fn := p.Fn(args[2])
		if fn == nil {
			fmt.Println("no such function")
			return 1
		}
		fn.WriteTo(os_stdout{})
	default:
		return dumpMore(p, m, args)
	}
	return 0
}

type os_stdout struct{}

func (os_stdout) Write(b []byte) (int, error) { fmt.Print(string(b)); return len(b), nil }

var _ = ssa.NewProgram

func dumpMore(p *Prog, m *Models, args []string) int {
	switch args[0] {
	case "keys":
		g, err := m.Grammar()
		if err != nil {
			fmt.Println(err)
			return 1
		}
		for _, tok := range args[2:] {
			fmt.Println("==", tok)
			var pr func(ind string, ks map[string]*ValDesc)
			pr = func(ind string, ks map[string]*ValDesc) {
				for _, k := range sortedKeys(ks) {
					fmt.Printf("%s%-40s %s\n", ind, k, ks[k])
					d := ks[k]
					if d.GoType == "[]any" && d.Elem != nil {
						d = d.Elem
					}
					if d.Block != nil {
						pr(ind+"    ", g.BlockKeys(tok, d.Block))
					}
				}
			}
			pr("  ", g.TopKeys(tok))
		}
		return 0
	case "sections":
		sm := m.Sections()
		toks, _ := m.HandlerTokens()
		hs, _ := m.Handlers()
		for _, t := range toks {
			if n := sm.sec[hs[t]]; n != 1 {
				fmt.Printf("%-28s %-22s sections=%d", t, fnName(hs[t]), n)
				for _, w := range sm.wit[hs[t]] {
					fmt.Printf("  %s", p.Pos(p.InstrPos(w)))
				}
				fmt.Println()
			}
		}
		return 0
	}
	return 2
}

const textBalanced = "lock-balanced: a function that acquires a lock class (directly or through a callee) does not return with that class possibly still held, unless it is an acquire wrapper (returns holding it on every path) — a leaked database lock stalls every other client"

// ruleLockBalanced: per function and class acquired inside it.
func ruleLockBalanced(only func(lm *LockModel, cls int) bool) func(*Ctx) {
	return func(c *Ctx) {
		c.S.Rule("lock-balanced", textBalanced, 60)
		lm := c.M.Locks()
		for _, fn := range c.SrcFuncs() {
			fl := lm.fl[fn]
			// classes this function acquires somewhere (locally or via callee)
			var acquired lockSet
			for _, in := range instrsOf(fn) {
				if st, ok := fl.at[in]; ok {
					acquired |= st.may
				}
			}
			acquired |= fl.mayExit
			for i, name := range lm.names {
				if !acquired.has(i) || (only != nil && !only(lm, i)) {
					continue
				}
				key := fnName(fn) + ":" + name
				switch {
				case fl.scoped && fl.scopedRel.has(i):
					c.S.Trivial("lock-balanced", key, c.Pos(fn.Pos()), "scoped acquirer: every path returns the function that releases what the path acquired; its callers are judged")
				case fl.adds.has(i):
					c.S.Trivial("lock-balanced", key, c.Pos(fn.Pos()), "acquire wrapper: returns holding the lock on every path")
				case fl.mayExit.has(i) && lm.leakInherited(c.Prog, fn, i):
					c.S.Trivial("lock-balanced", key, c.Pos(fn.Pos()), "returns holding the lock only because a callee does (reported at the callee)")
				case fl.mayExit.has(i):
					pos := fn.Pos()
					if r := fl.leakAt[i]; r != nil {
						pos = c.InstrPos(r)
					}
					c.S.Bad("lock-balanced", key, c.Pos(pos), fmt.Sprintf("%s can return with %s still held (acquired inside, not released on the path to this return)", fnName(fn), name))
				default:
					c.S.OK("lock-balanced", key, c.Pos(fn.Pos()), "released on every path to every return (including deferred releases)")
				}
			}
		}
	}
}

// leakInherited: some callee of fn may itself return holding class i without being an acquire wrapper.
func (lm *LockModel) leakInherited(p *Prog, fn *ssa.Function, i int) bool {
	for _, in := range instrsOf(fn) {
		c, ok := in.(ssa.CallInstruction)
		if !ok {
			continue
		}
		if _, isGo := in.(*ssa.Go); isGo {
			continue
		}
		for _, g := range p.Callees(c) {
			if fl := lm.fl[g]; fl != nil && g != fn && fl.mayExit.has(i) && !fl.adds.has(i) && !(fl.scoped && fl.scopedRel.has(i)) {
				return true
			}
		}
	}
	return false
}
