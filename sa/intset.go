package main

// Small integer value-set analysis: which integer values can an SSA value have at a given block? Used where a rule needs
// "the stored value is one of these constants" without prescribing how the code establishes it (if-chains, switch,
// a validating helper that returns the value). Abstract values are finite sets (up to 16 members) or intervals;
// branch conditions comparing the value (through conversions) with constants refine it edge by edge; phis and the
// results of package functions are followed. No solver: only comparisons with constants are understood.

import (
	"go/token"
	"math"
	"sort"

	"golang.org/x/tools/go/ssa"
)

type intSet struct {
	bottom bool // unreachable
	finite bool
	vals   map[int64]bool
	lo, hi int64 // interval when !finite
}

func isTop() intSet             { return intSet{lo: math.MinInt64, hi: math.MaxInt64} }
func isBottom() intSet          { return intSet{bottom: true} }
func isConstSet(k int64) intSet { return intSet{finite: true, vals: map[int64]bool{k: true}} }

func (a intSet) list() []int64 {
	var out []int64
	for k := range a.vals {
		out = append(out, k)
	}
	sort.Slice(out, func(i, j int) bool { return out[i] < out[j] })
	return out
}

func (a intSet) bounds() (int64, int64) {
	if a.finite {
		l := a.list()
		if len(l) == 0 {
			return 0, -1
		}
		return l[0], l[len(l)-1]
	}
	return a.lo, a.hi
}

func (a intSet) equal(b intSet) bool {
	if a.bottom != b.bottom || a.finite != b.finite {
		return false
	}
	if a.bottom {
		return true
	}
	if a.finite {
		if len(a.vals) != len(b.vals) {
			return false
		}
		for k := range a.vals {
			if !b.vals[k] {
				return false
			}
		}
		return true
	}
	return a.lo == b.lo && a.hi == b.hi
}

func (a intSet) join(b intSet) intSet {
	if a.bottom {
		return b
	}
	if b.bottom {
		return a
	}
	if a.finite && b.finite {
		out := intSet{finite: true, vals: map[int64]bool{}}
		for k := range a.vals {
			out.vals[k] = true
		}
		for k := range b.vals {
			out.vals[k] = true
		}
		if len(out.vals) <= 16 {
			return out
		}
	}
	al, ah := a.bounds()
	bl, bh := b.bounds()
	if bl < al {
		al = bl
	}
	if bh > ah {
		ah = bh
	}
	return intSet{lo: al, hi: ah}
}

// refine: the comparison (value op k) has the given truth.
func (a intSet) refine(op token.Token, k int64, truth bool) intSet {
	if a.bottom {
		return a
	}
	if !truth {
		switch op {
		case token.EQL:
			op = token.NEQ
		case token.NEQ:
			op = token.EQL
		case token.LSS:
			op = token.GEQ
		case token.GEQ:
			op = token.LSS
		case token.GTR:
			op = token.LEQ
		case token.LEQ:
			op = token.GTR
		default:
			return a
		}
	}
	holds := func(v int64) bool {
		switch op {
		case token.EQL:
			return v == k
		case token.NEQ:
			return v != k
		case token.LSS:
			return v < k
		case token.LEQ:
			return v <= k
		case token.GTR:
			return v > k
		case token.GEQ:
			return v >= k
		}
		return true
	}
	if a.finite {
		out := intSet{finite: true, vals: map[int64]bool{}}
		for v := range a.vals {
			if holds(v) {
				out.vals[v] = true
			}
		}
		if len(out.vals) == 0 {
			return isBottom()
		}
		return out
	}
	lo, hi := a.lo, a.hi
	switch op {
	case token.EQL:
		if k < lo || k > hi {
			return isBottom()
		}
		return isConstSet(k)
	case token.NEQ:
		if k == lo && lo < math.MaxInt64 {
			lo++
		}
		if k == hi && hi > math.MinInt64 {
			hi--
		}
	case token.LSS:
		if k == math.MinInt64 {
			return isBottom()
		}
		if k-1 < hi {
			hi = k - 1
		}
	case token.LEQ:
		if k < hi {
			hi = k
		}
	case token.GTR:
		if k == math.MaxInt64 {
			return isBottom()
		}
		if k+1 > lo {
			lo = k + 1
		}
	case token.GEQ:
		if k > lo {
			lo = k
		}
	}
	if lo > hi {
		return isBottom()
	}
	if hi-lo >= 0 && hi-lo < 16 {
		out := intSet{finite: true, vals: map[int64]bool{}}
		for v := lo; v <= hi; v++ {
			out.vals[v] = true
		}
		return out
	}
	return intSet{lo: lo, hi: hi}
}

// subsetOf: every possible value is one of ks (false for unreachable: callers decide what that means).
func (a intSet) subsetOf(ks ...int64) bool {
	if a.bottom || !a.finite {
		return false
	}
	for v := range a.vals {
		ok := false
		for _, k := range ks {
			if v == k {
				ok = true
			}
		}
		if !ok {
			return false
		}
	}
	return true
}

type intSetAnalysis struct {
	inPkg func(*ssa.Function) bool
	memo  map[string]intSet
	depth int
	prog  *Prog // optional: lets the analysis read package-level table literals
}

// sameIntValue: a is v seen through value-preserving conversions.
func sameIntValue(a, v ssa.Value) bool {
	return a == v || stripValue(a) == stripValue(v)
}

// base: the values v can have where it is defined.
func (ia *intSetAnalysis) base(v ssa.Value, depth int, use *ssa.BasicBlock) intSet {
	if depth > 4 {
		return isTop()
	}
	v = stripValue(v)
	switch x := v.(type) {
	case *ssa.Const:
		if k, ok := constInt(x); ok {
			return isConstSet(k)
		}
	case *ssa.Phi:
		out := isBottom()
		for i, e := range x.Edges {
			pred := x.Block().Preds[i]
			s := ia.at(e, pred, depth+1)
			s = ia.edge(s, e, pred, x.Block())
			out = out.join(s)
		}
		return out
	case *ssa.Extract:
		if call, ok := x.Tuple.(*ssa.Call); ok {
			return ia.resultAt(call, x.Index, depth+1, use)
		}
		// `proto, supported := table[ver]` on a package-level map literal of integer constants that is only read: one of
		// the literal's values where `supported` is known to be true, else also the zero value
		if lk, ok := x.Tuple.(*ssa.Lookup); ok && lk.CommaOk && x.Index == 0 && ia.prog != nil {
			if u, ok := lk.X.(*ssa.UnOp); ok {
				if g, ok := u.X.(*ssa.Global); ok {
					if vals, ok := ia.prog.intMapLiteralValues(g); ok {
						out := isBottom()
						for _, k := range vals {
							out = out.join(isConstSet(k))
						}
						known := false
						for _, r := range referrers(lk) {
							if e, ok := r.(*ssa.Extract); ok && e.Index == 1 && use != nil {
								for _, r2 := range referrers(e) {
									cond, neg := ssa.Value(e), false
									if un, ok := r2.(*ssa.UnOp); ok && un.Op == token.NOT {
										cond, neg = un, true
									}
									for _, r3 := range referrers(cond) {
										if ifi, ok := r3.(*ssa.If); ok {
											side := 0
											if neg {
												side = 1
											}
											sc := ifi.Block().Succs[side]
											if len(sc.Preds) == 1 && (sc == use || sc.Dominates(use)) {
												known = true
											}
										}
									}
								}
							}
						}
						if !known {
							out = out.join(isConstSet(0))
						}
						return out
					}
				}
			}
		}
	case *ssa.Call:
		return ia.result(x.Call.StaticCallee(), 0, depth+1)
	}
	return isTop()
}

// resultAt: the values result #i of the call can have where control is in block use: only the returns of the callee that
// agree with what the branches dominating use say about the *other* results of the same call (`ver, ok, err := f();
// if err != nil {…}; if ok { use(ver) }` leaves the returns with err == nil and ok == true).
func (ia *intSetAnalysis) resultAt(call *ssa.Call, i int, depth int, use *ssa.BasicBlock) intSet {
	g := call.Call.StaticCallee()
	if g == nil || g.Blocks == nil || ia.inPkg == nil || !ia.inPkg(g) || depth > 4 {
		return isTop()
	}
	// what is known about the other results at the use: +1 true / non-nil, -1 false / nil
	known := map[int]int{}
	if use != nil {
		truths := dominatingTruths(use)
		for _, r := range referrers(call) {
			ex, ok := r.(*ssa.Extract)
			if !ok || ex.Index == i {
				continue
			}
			if t, ok := truths[ex]; ok {
				if t {
					known[ex.Index] = 1
				} else {
					known[ex.Index] = -1
				}
			}
			for cond, t := range truths {
				bo, ok := cond.(*ssa.BinOp)
				if !ok || (bo.Op != token.EQL && bo.Op != token.NEQ) {
					continue
				}
				if (bo.X == ssa.Value(ex) && isNilConst(bo.Y)) || (bo.Y == ssa.Value(ex) && isNilConst(bo.X)) {
					nonNil := t == (bo.Op == token.NEQ)
					if nonNil {
						known[ex.Index] = 1
					} else {
						known[ex.Index] = -1
					}
				}
			}
		}
	}
	out := isBottom()
	n := 0
	for _, b := range g.Blocks {
		ret, ok := b.Instrs[len(b.Instrs)-1].(*ssa.Return)
		if !ok || i >= len(ret.Results) {
			continue
		}
		consistent := true
		for j, want := range known {
			if j >= len(ret.Results) {
				continue
			}
			have := 0
			switch rv := ret.Results[j].(type) {
			case *ssa.Const:
				switch {
				case rv.IsNil():
					have = -1
				case rv.Value != nil && rv.Value.String() == "true":
					have = 1
				case rv.Value != nil && rv.Value.String() == "false":
					have = -1
				}
			case *ssa.MakeInterface, *ssa.Alloc:
				have = 1
			case *ssa.UnOp:
				if _, isGlobal := rv.X.(*ssa.Global); isGlobal {
					have = 1 // a package-level sentinel (errors.New at initialisation)
				}
			}
			if have != 0 && have != want {
				consistent = false
			}
		}
		if !consistent {
			continue
		}
		n++
		out = out.join(ia.at(ret.Results[i], b, depth))
	}
	if n == 0 {
		return isBottom()
	}
	return out
}

// result: the values result #i of g can have.
func (ia *intSetAnalysis) result(g *ssa.Function, i int, depth int) intSet {
	if g == nil || g.Blocks == nil || ia.inPkg == nil || !ia.inPkg(g) || depth > 4 {
		return isTop()
	}
	out := isBottom()
	n := 0
	for _, b := range g.Blocks {
		ret, ok := b.Instrs[len(b.Instrs)-1].(*ssa.Return)
		if !ok || i >= len(ret.Results) {
			continue
		}
		n++
		out = out.join(ia.at(ret.Results[i], b, depth))
	}
	if n == 0 {
		return isTop()
	}
	return out
}

// edge: refinement of the set of v by the branch taken from a to b.
func (ia *intSetAnalysis) edge(s intSet, v ssa.Value, a, b *ssa.BasicBlock) intSet {
	ifi, ok := a.Instrs[len(a.Instrs)-1].(*ssa.If)
	if !ok || a.Succs[0] == a.Succs[1] {
		return s
	}
	truth := a.Succs[0] == b
	cond := ifi.Cond
	for {
		u, isU := cond.(*ssa.UnOp)
		if !isU || u.Op != token.NOT {
			break
		}
		cond, truth = u.X, !truth
	}
	bo, ok := cond.(*ssa.BinOp)
	if !ok {
		return s
	}
	if k, isC := constInt(bo.Y); isC && sameIntValue(bo.X, v) {
		return s.refine(bo.Op, k, truth)
	}
	if k, isC := constInt(bo.X); isC && sameIntValue(bo.Y, v) {
		// k op v  ==  v op' k
		op := bo.Op
		switch bo.Op {
		case token.LSS:
			op = token.GTR
		case token.GTR:
			op = token.LSS
		case token.LEQ:
			op = token.GEQ
		case token.GEQ:
			op = token.LEQ
		}
		return s.refine(op, k, truth)
	}
	return s
}

// at: the values v can have when control is at the end of block blk (forward data flow over the function of blk,
// starting from base(v) at v's definition, refined by the branches taken).
func (ia *intSetAnalysis) at(v ssa.Value, blk *ssa.BasicBlock, depth int) intSet {
	if k, ok := constInt(stripValue(v)); ok {
		return isConstSet(k)
	}
	fn := blk.Parent()
	start := fn.Blocks[0]
	if ins, ok := stripValue(v).(ssa.Instruction); ok && ins.Block() != nil && ins.Parent() == fn {
		start = ins.Block()
	}
	init := ia.base(v, depth, blk)
	state := map[*ssa.BasicBlock]intSet{start: init}
	work := []*ssa.BasicBlock{start}
	for iter := 0; len(work) > 0 && iter < 4000; iter++ {
		b := work[0]
		work = work[1:]
		cur := state[b]
		for _, s := range b.Succs {
			if s == start {
				continue
			}
			ns := ia.edge(cur, v, b, s)
			old, had := state[s]
			if had {
				ns = old.join(ns)
			}
			if !had || !old.equal(ns) {
				state[s] = ns
				work = append(work, s)
			}
		}
	}
	if s, ok := state[blk]; ok {
		return s
	}
	return isBottom()
}

// origins: the values v can stem from where control is in block use — phis are opened, results of package functions
// are followed into the returns that agree with what is known about the other results of the call (as in resultAt).
func (ia *intSetAnalysis) origins(v ssa.Value, use *ssa.BasicBlock, depth int) []ssa.Value {
	if depth > 6 {
		return []ssa.Value{v}
	}
	v = stripValue(v)
	switch x := v.(type) {
	case *ssa.Phi:
		var out []ssa.Value
		for i, e := range x.Edges {
			out = append(out, ia.origins(e, x.Block().Preds[i], depth+1)...)
		}
		return out
	case *ssa.Extract:
		call, ok := x.Tuple.(*ssa.Call)
		if !ok {
			break
		}
		g := call.Call.StaticCallee()
		if g == nil || g.Blocks == nil || ia.inPkg == nil || !ia.inPkg(g) {
			break
		}
		var out []ssa.Value
		for _, b := range g.Blocks {
			ret, ok := b.Instrs[len(b.Instrs)-1].(*ssa.Return)
			if !ok || x.Index >= len(ret.Results) {
				continue
			}
			out = append(out, ia.origins(ret.Results[x.Index], b, depth+1)...)
		}
		return out
	}
	return []ssa.Value{v}
}
