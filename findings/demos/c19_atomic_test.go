package redisemu

import (
	"os"
	"path/filepath"
	"testing"
)

// A save that dies in the middle must leave a file that loads as the previous or the new snapshot.
// The interruption is produced by a key whose type flag no branch of the writer handles (what RESTORE
// with a crafted DUMP payload stores): the writer panics after the header and some records were written.
func TestDemoC19InterruptedSave(t *testing.T) {
	dir, _ := os.MkdirTemp("", "rdatomic")
	defer os.RemoveAll(dir)
	file := filepath.Join(dir, "db.db0")
	ds := newDataStore()
	dsc := ds.newDataStoreCommand()
	dsc.setKey("a", "1", 0, maxTime)
	if err := ds.save(file); err != nil {
		t.Fatal(err)
	}
	dsc.setKey("b", "2", 0, maxTime)
	sk := ds.newStoreKeyUnlocked("zz")
	sk.flags, sk.expiresAt = 0, maxTime
	func() {
		defer func() { recover() }()
		ds.save(file)
	}()
	ds2 := newDataStore()
	err := ds2.load(file)
	if err != nil {
		t.Errorf("after an interrupted save the snapshot file no longer loads: %v", err)
		return
	}
	if _, ok := ds2.data.get("a"); !ok {
		t.Errorf("after an interrupted save key a (present in the previous and in the new snapshot) is gone")
	}
}
