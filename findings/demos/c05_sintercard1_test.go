package redisemu

import "testing"

// C05: SINTERCARD with one key is the cardinality of that set.
func TestDemoC05SintercardOneKey(t *testing.T) {
	s := startDemo(t, "")
	defer s.stop()
	c := s.dial(t)
	c.do("SADD", "s1", "a", "b", "c")
	expect(t, "SINTERCARD 1 s1", c.do("SINTERCARD", "1", "s1"), ":3")
	expect(t, "SINTERCARD 1 s1 LIMIT 2", c.do("SINTERCARD", "1", "s1", "LIMIT", "2"), ":2")
	expect(t, "SINTERCARD 1 nokey", c.do("SINTERCARD", "1", "nokey"), ":0")
	c.do("SADD", "s2", "a")
	expect(t, "SINTERCARD 2 s1 s2", c.do("SINTERCARD", "2", "s1", "s2"), ":1")
}
