package main

// Self-test battery: the checker is run against variants of the analysed tree in which one property-relevant
// construct is broken, and must report it. Variants come from two catalogues kept under /verif:
//
//   selftest/fix-<commit>.diff   the reverse of a "fix:" commit of /repo (re-introduces a defect the checker found)
//   seeded/<id>/patch.diff       a property-breaking change written independently of the checker
//
// Each variant is materialised in a fresh temporary directory outside /repo and /verif, analysed by a separate
// process (one variant per process), and the directory is removed at once. selftest/expected.json freezes, per
// variant and property, whether the check is expected to fire (and through which rules): a variant that is expected
// to fire and does not is printed as SELFTEST-MISS. The battery never changes the verdict on the analysed tree.

import (
	"encoding/json"
	"flag"
	"fmt"
	"io/fs"
	"os"
	"os/exec"
	"path/filepath"
	"regexp"
	"sort"
	"strings"
	"sync"
)

type stVariant struct {
	ID      string
	Patch   string // path of the diff
	Reverse bool
	Props   []string // properties this variant belongs to
	Benign  bool     // a behaviour-preserving change: must stay silent for every property
}

type stExpect struct {
	Fires bool     `json:"fires"`
	Rules []string `json:"rules,omitempty"`
	Note  string   `json:"note,omitempty"`
}

type stResult struct {
	Variant string
	Status  string // fired | silent | stale
	Rules   []string
	Keys    []string
	Detail  string
}

func loadVariants(verifDir string) []stVariant {
	var out []stVariant
	// reversed fixes
	kf, _ := loadKnown(verifDir)
	if kf != nil {
		for _, f := range kf.Fixed {
			// a hand-written re-introduction (forward patch) replaces a fix that no longer reverts cleanly
			p := filepath.Join(verifDir, "selftest", "reintro-"+f.Commit+".diff")
			rev := false
			if _, err := os.Stat(p); err != nil {
				p = filepath.Join(verifDir, "selftest", "fix-"+f.Commit+".diff")
				rev = true
				if _, err := os.Stat(p); err != nil {
					continue
				}
			}
			out = append(out, stVariant{ID: "revert-" + f.Commit, Patch: p, Reverse: rev, Props: strings.Split(f.Property, ",")})
		}
	}
	// seeded changes
	dirs, _ := filepath.Glob(filepath.Join(verifDir, "seeded", "*"))
	sort.Strings(dirs)
	for _, d := range dirs {
		p := filepath.Join(d, "patch.diff")
		if _, err := os.Stat(p); err != nil {
			continue
		}
		var meta struct {
			Property string                    `json:"property"`
			CaughtBy map[string]map[string]any `json:"caught_by"`
		}
		if b, err := os.ReadFile(filepath.Join(d, "meta.json")); err == nil {
			json.Unmarshal(b, &meta)
		}
		props := map[string]bool{}
		if meta.Property != "" {
			props[meta.Property] = true
		}
		for k := range meta.CaughtBy {
			props[k] = true
		}
		var ps []string
		for k := range props {
			ps = append(ps, k)
		}
		sort.Strings(ps)
		out = append(out, stVariant{ID: "seed-" + filepath.Base(d), Patch: p, Props: ps})
	}
	// behaviour-preserving refactorings: no check may fire on them (Props empty = every claimed property)
	bs, _ := filepath.Glob(filepath.Join(verifDir, "selftest", "benign", "*.diff"))
	sort.Strings(bs)
	for _, b := range bs {
		out = append(out, stVariant{ID: "benign-" + strings.TrimSuffix(filepath.Base(b), ".diff"), Patch: b, Benign: true})
	}
	// merge duplicates (one commit fixing several properties is listed once per property)
	byID := map[string]*stVariant{}
	var ids []string
	for i := range out {
		v := out[i]
		if o, ok := byID[v.ID]; ok {
			o.Props = append(o.Props, v.Props...)
			continue
		}
		byID[v.ID] = &out[i]
		ids = append(ids, v.ID)
	}
	var res []stVariant
	for _, id := range ids {
		res = append(res, *byID[id])
	}
	return res
}

func loadExpected(verifDir string) map[string]map[string]stExpect {
	m := map[string]map[string]stExpect{}
	if b, err := os.ReadFile(filepath.Join(verifDir, "selftest", "expected.json")); err == nil {
		json.Unmarshal(b, &m)
	}
	return m
}

func copyTree(src, dst string) error {
	return filepath.WalkDir(src, func(p string, d fs.DirEntry, err error) error {
		if err != nil {
			return err
		}
		rel, _ := filepath.Rel(src, p)
		if d.IsDir() {
			if d.Name() == ".git" {
				return filepath.SkipDir
			}
			return os.MkdirAll(filepath.Join(dst, rel), 0o755)
		}
		if !d.Type().IsRegular() {
			return nil
		}
		b, err := os.ReadFile(p)
		if err != nil {
			return err
		}
		return os.WriteFile(filepath.Join(dst, rel), b, 0o644)
	})
}

var reStLine = regexp.MustCompile(`^   (VIOLATED|UNDECIDED)\s+(\S+)`)
var reStSum = regexp.MustCompile(`^(C\d+): obligations=`)

// runVariant analyses one variant for the given properties; result per property.
func runVariant(verifDir, root string, v stVariant, props []string) map[string]stResult {
	res := map[string]stResult{}
	fail := func(status, detail string) map[string]stResult {
		for _, p := range props {
			res[p] = stResult{Variant: v.ID, Status: status, Detail: detail}
		}
		return res
	}
	dir, err := os.MkdirTemp("", "rdselftest.")
	if err != nil {
		return fail("stale", err.Error())
	}
	defer os.RemoveAll(dir)
	if err := copyTree(root, dir); err != nil {
		return fail("stale", err.Error())
	}
	args := []string{"apply", "--whitespace=nowarn"}
	if v.Reverse {
		args = append(args, "-R")
	}
	args = append(args, v.Patch)
	cmd := exec.Command("git", args...)
	cmd.Dir = dir
	cmd.Env = append(os.Environ(), "GIT_CEILING_DIRECTORIES="+filepath.Dir(dir))
	if out, err := cmd.CombinedOutput(); err != nil {
		return fail("stale", "the variant no longer applies to the analysed tree: "+firstLine(string(out)))
	}
	self, _ := os.Executable()
	c2 := exec.Command(self, "all", "-only", strings.Join(props, ","), "-root", dir)
	c2.Env = append(os.Environ(), "VERIF_DIR="+verifDir)
	out, _ := c2.CombinedOutput()
	if strings.Contains(string(out), "load error:") {
		return fail("stale", "the variant does not compile: "+firstLine(string(out)))
	}
	var cur []string
	seen := map[string]bool{}
	for _, line := range strings.Split(string(out), "\n") {
		if m := reStLine.FindStringSubmatch(line); m != nil {
			cur = append(cur, m[2])
			continue
		}
		if m := reStSum.FindStringSubmatch(line); m != nil {
			r := stResult{Variant: v.ID, Status: "silent"}
			if len(cur) > 0 {
				r.Status = "fired"
				rs := map[string]bool{}
				for _, k := range cur {
					rs[strings.SplitN(k, ":", 2)[0]] = true
				}
				for k := range rs {
					r.Rules = append(r.Rules, k)
				}
				sort.Strings(r.Rules)
				r.Keys = cur
				if len(r.Keys) > 3 {
					r.Keys = r.Keys[:3]
				}
			}
			res[m[1]] = r
			seen[m[1]] = true
			cur = nil
		}
	}
	for _, p := range props {
		if !seen[p] {
			res[p] = stResult{Variant: v.ID, Status: "stale", Detail: "no verdict printed: " + firstLine(string(out))}
		}
	}
	return res
}

func firstLine(s string) string {
	s = strings.TrimSpace(s)
	if i := strings.IndexByte(s, '\n'); i >= 0 {
		s = s[:i]
	}
	if len(s) > 200 {
		s = s[:200]
	}
	return s
}

func jobs() int {
	n := 4
	if v := os.Getenv("RDCHECK_JOBS"); v != "" {
		fmt.Sscanf(v, "%d", &n)
	}
	if n < 1 {
		n = 1
	}
	return n
}

// runBattery runs every variant that belongs to one of props ("" = all registered) and returns results[variant][prop].
var stAllProps bool

func runBattery(verifDir, root string, only string) map[string]map[string]stResult {
	vars := loadVariants(verifDir)
	results := map[string]map[string]stResult{}
	var mu sync.Mutex
	sem := make(chan struct{}, jobs())
	var wg sync.WaitGroup
	for _, v := range vars {
		var props []string
		if v.Benign {
			if only != "" {
				props = []string{only}
			} else {
				for p := range registry {
					props = append(props, p)
				}
				sort.Strings(props)
			}
			v.Props = nil
		} else if stAllProps {
			for p := range registry {
				props = append(props, p)
			}
			sort.Strings(props)
			v.Props = nil
		}
		for _, p := range v.Props {
			if registry[p] == nil {
				continue
			}
			if only == "" || p == only {
				props = append(props, p)
			}
		}
		if len(props) == 0 {
			continue
		}
		wg.Add(1)
		go func(v stVariant, props []string) {
			defer wg.Done()
			sem <- struct{}{}
			defer func() { <-sem }()
			r := runVariant(verifDir, root, v, props)
			mu.Lock()
			results[v.ID] = r
			mu.Unlock()
		}(v, props)
	}
	wg.Wait()
	return results
}

func runSelfTests(verifDir, root, prop string) map[string]any {
	exp := loadExpected(verifDir)
	res := runBattery(verifDir, root, prop)
	var ids []string
	for id := range res {
		ids = append(ids, id)
	}
	sort.Strings(ids)
	fired, silentOK, stale, benignSilent := 0, 0, 0, 0
	var missed, knownMissed, staleL, firedL, extra, falseAlarms []string
	for _, id := range ids {
		r := res[id][prop]
		e, has := exp[id][prop]
		switch r.Status {
		case "stale":
			stale++
			staleL = append(staleL, id+": "+r.Detail)
		case "fired":
			if strings.HasPrefix(id, "benign-") {
				falseAlarms = append(falseAlarms, fmt.Sprintf("%s via %s (%s)", id, strings.Join(r.Rules, ","), strings.Join(r.Keys, " ")))
				fmt.Printf("SELFTEST-FALSE-ALARM property=%s variant=%s rules=%s\n", prop, id, strings.Join(r.Rules, ","))
				continue
			}
			fired++
			firedL = append(firedL, fmt.Sprintf("%s via %s", id, strings.Join(r.Rules, ",")))
			if has && !e.Fires {
				extra = append(extra, id)
			}
		case "silent":
			if strings.HasPrefix(id, "benign-") {
				benignSilent++
				continue
			}
			if has && e.Fires {
				missed = append(missed, id)
				fmt.Printf("SELFTEST-MISS property=%s variant=%s expected rules=%s\n", prop, id, strings.Join(e.Rules, ","))
			} else {
				silentOK++
				knownMissed = append(knownMissed, id+noteOf(e))
			}
		}
	}
	fmt.Printf("selftest property=%s variants=%d fired=%d not-detected(recorded)=%d missed=%d stale=%d benign-silent=%d false-alarms=%d\n", prop, len(ids), fired, silentOK, len(missed), stale, benignSilent, len(falseAlarms))
	return map[string]any{
		"variants":               len(ids),
		"fired":                  fired,
		"fired_list":             nonNil(firedL),
		"missed":                 nonNil(missed),
		"recorded_not_detected":  nonNil(knownMissed),
		"newly_detected":         nonNil(extra),
		"stale":                  nonNil(staleL),
		"benign_variants_silent": benignSilent,
		"false_alarms":           nonNil(falseAlarms),
		"method":                 "each variant (reverse of a fix: commit, or an independently written property-breaking patch) is applied to a temporary copy of the analysed tree and analysed by a separate rdcheck process; expectations are frozen in selftest/expected.json",
	}
}

func noteOf(e stExpect) string {
	if e.Note != "" {
		return " (" + e.Note + ")"
	}
	return ""
}

func nonNil(s []string) []string {
	if s == nil {
		return []string{}
	}
	return s
}

// cmdSelftest runs the whole battery; -record rewrites selftest/expected.json from what was observed (a
// development action, never done by a registered check).
func cmdSelftest(args []string) int {
	fl := flag.NewFlagSet("selftest", flag.ExitOnError)
	root := fl.String("root", "/repo", "repository root")
	prop := fl.String("property", "", "only this property")
	record := fl.Bool("record", false, "rewrite selftest/expected.json from the observed results")
	allp := fl.Bool("allprops", false, "run every variant against every claimed property (development)")
	quiet := fl.Bool("fired-only", false, "print only firing pairs")
	fl.Parse(args)
	stAllProps = *allp
	vd := verifDir()
	exp := loadExpected(vd)
	res := runBattery(vd, *root, *prop)
	var ids []string
	for id := range res {
		ids = append(ids, id)
	}
	sort.Strings(ids)
	rc := 0
	for _, id := range ids {
		var ps []string
		for p := range res[id] {
			ps = append(ps, p)
		}
		sort.Strings(ps)
		for _, p := range ps {
			r := res[id][p]
			e, has := exp[id][p]
			tag := ""
			if has && e.Fires && r.Status == "silent" {
				tag = "  <-- SELFTEST-MISS"
				rc = 1
			}
			if has && !e.Fires && r.Status == "fired" {
				tag = "  (newly detected)"
			}
			if strings.HasPrefix(id, "benign-") {
				tag = ""
				if r.Status == "fired" {
					tag = "  <-- FALSE ALARM " + strings.Join(r.Keys, " ")
					rc = 1
				}
			}
			if *quiet && r.Status != "fired" {
				continue
			}
			fmt.Printf("%-22s %-4s %-7s %s %s%s\n", id, p, r.Status, strings.Join(r.Rules, ","), r.Detail, tag)
			if *record && r.Status != "stale" && !strings.HasPrefix(id, "benign-") {
				if exp[id] == nil {
					exp[id] = map[string]stExpect{}
				}
				exp[id][p] = stExpect{Fires: r.Status == "fired", Rules: r.Rules, Note: e.Note}
			}
		}
	}
	if *record {
		b, _ := json.MarshalIndent(exp, "", " ")
		os.MkdirAll(filepath.Join(vd, "selftest"), 0o755)
		os.WriteFile(filepath.Join(vd, "selftest", "expected.json"), append(b, '\n'), 0o644)
	}
	return rc
}
