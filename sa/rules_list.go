package main

// Shape rules for the doubly linked list behind the list commands (C03).
//
// R-list-shape: every function that stores a link field (listItem.next/prev, storeList.head/tail) is executed
// abstractly, path by path, on a symbolic heap that is assumed well formed on entry; at every exit the part of the
// heap the function has written must be well formed again:
//     x.next = y (y != nil)  =>  y.prev = x          x.prev = y (y != nil)  =>  y.next = x
//     list.head = h (h != nil) => h.prev = nil       list.tail = t (t != nil) => t.next = nil
// Element order, "nothing lost" and LRANGE/LINDEX walking from either end all rest on this invariant; the tests walk
// short lists in one direction. No solver is involved: values are symbolic names, branch conditions are only
// nil-tests, distinct symbolic nodes are assumed distinct.
//
// R-list-unlinked-use: after a call that detaches a node (a function that stores nil into both link fields of a
// parameter), the caller does not read that node's link fields again.

import (
	"fmt"
	"go/token"
	"go/types"
	"sort"
	"strings"

	"golang.org/x/tools/go/ssa"
)

const textListShape = "R-list-shape: on every path through every function that writes listItem.next/prev or storeList.head/tail, starting from a well-formed doubly linked list, the written part of the heap is well formed at the exit: x.next=y => y.prev=x, x.prev=y => y.next=x, head.prev=nil, tail.next=nil (symbolic path-by-path execution over nil-tests; loops are cut at the back edge with the invariant as loop invariant)"

type shVal struct {
	id    string // symbolic name; "nil" for the nil constant
	fresh bool   // allocated in this function: unknown fields are zero
}

type shKey struct {
	base  string
	field string
}

type shState struct {
	field        map[shKey]string // current field values
	stored       map[shKey]bool   // written by this function (dirty)
	cells        map[ssa.Value]string
	isNil        map[string]bool
	nonNil       map[string]bool
	fresh        map[string]bool
	phi          map[*ssa.Phi]string
	vals         map[ssa.Value]string
	n            *int
	delta        int                    // net change of storeList.count on this path
	countUnknown bool                   // count was set to something other than count±1
	rets         map[*ssa.Call][]string // results of calls executed inline
	unlinked     map[string]bool        // nodes some link of which was redirected away by this function
	countTested  bool                   // this path has branched on the element count
}

func (s *shState) clone() *shState {
	c := &shState{field: map[shKey]string{}, stored: map[shKey]bool{}, cells: map[ssa.Value]string{}, isNil: map[string]bool{},
		nonNil: map[string]bool{}, fresh: map[string]bool{}, phi: map[*ssa.Phi]string{}, vals: map[ssa.Value]string{}, n: s.n,
		delta: s.delta, countUnknown: s.countUnknown, rets: map[*ssa.Call][]string{}, countTested: s.countTested}
	for k, v := range s.rets {
		c.rets[k] = v
	}
	if s.unlinked != nil {
		c.unlinked = map[string]bool{}
		for k, v := range s.unlinked {
			c.unlinked[k] = v
		}
	}
	for k, v := range s.field {
		c.field[k] = v
	}
	for k, v := range s.stored {
		c.stored[k] = v
	}
	for k, v := range s.cells {
		c.cells[k] = v
	}
	for k, v := range s.isNil {
		c.isNil[k] = v
	}
	for k, v := range s.nonNil {
		c.nonNil[k] = v
	}
	for k, v := range s.fresh {
		c.fresh[k] = v
	}
	for k, v := range s.phi {
		c.phi[k] = v
	}
	for k, v := range s.vals {
		c.vals[k] = v
	}
	return c
}

type shapeChecker struct {
	c         *Ctx
	fn        *ssa.Function
	fNext     *types.Var
	fPrev     *types.Var
	fHead     *types.Var
	fTail     *types.Var
	fCount    *types.Var
	problems  map[string]string // key -> detail
	hasLoop   bool
	isNode    map[string]bool
	paths     int
	cut       bool
	usesCount bool                   // some branch tests storeList.count (a relation the shape domain does not have)
	unroll    int                    // how often a block may be entered on one path
	inline    map[*ssa.Function]bool // helpers executed inside their callers (they rely on what the call site passes)
	budget    int
}

func (sc *shapeChecker) linkField(f *types.Var) string {
	switch f {
	case sc.fNext:
		return "next"
	case sc.fPrev:
		return "prev"
	case sc.fHead:
		return "head"
	case sc.fTail:
		return "tail"
	}
	return ""
}

func shortID(id string) string {
	if i := strings.Index(id, "#"); i >= 0 {
		id = id[:i]
	}
	if i := strings.Index(id, "@"); i >= 0 {
		id = id[:i]
	}
	return id
}

func opposite(f string) string {
	switch f {
	case "next":
		return "prev"
	case "prev":
		return "next"
	}
	return ""
}

// value returns the symbolic id of v in state s.
func (sc *shapeChecker) value(s *shState, v ssa.Value) string {
	if id, ok := s.vals[v]; ok {
		return id
	}
	if fa, ok := v.(*ssa.FieldAddr); ok {
		if f := fieldOf(fa); f != nil && f.Embedded() {
			return sc.value(s, fa.X) // &item.listLinks is the item (links kept in an embedded helper struct)
		}
		if lf := sc.linkField(fieldOf(fa)); lf != "" {
			return "slot|" + sc.value(s, fa.X) + "|" + lf // the address of a link, handed around (`*list.nextSlot(prev) = item`)
		}
	}
	switch x := v.(type) {
	case *ssa.Const:
		if x.IsNil() {
			return "nil"
		}
		return "const"
	case *ssa.Parameter:
		return x.Name()
	case *ssa.Alloc:
		id := "&" + x.Comment + "@" + x.Name()
		if p, ok := x.Type().Underlying().(*types.Pointer); ok && sc.c.isPkgType(p.Elem(), "listItem") {
			sc.isNode[id] = true
		}
		s.fresh[id] = true
		s.nonNil[id] = true
		return id
	case *ssa.Phi:
		if id, ok := s.phi[x]; ok {
			return id
		}
	case *ssa.FreeVar:
		return "free:" + x.Name()
	case *ssa.ChangeType:
		return sc.value(s, x.X)
	}
	if ins, ok := v.(ssa.Instruction); ok && ins.Parent() != nil && ins.Parent() != sc.fn {
		return "v:" + ins.Parent().Name() + "." + v.Name()
	}
	return "v:" + v.Name()
}

// storeLink: base.f = nv, with the bookkeeping of a link store.
func (sc *shapeChecker) storeLink(s *shState, base, f, nv string) {
	k := shKey{base, f}
	if nv != "nil" && (f == "next" || f == "prev") {
		// re-linking: the old neighbour (if any) still points here and must be dealt with
		sc.load(s, k.base, f)
	}
	if s.countTested {
		sc.usesCount = true // a link is written on a path that was chosen by a test of the element count
	}
	if old, had := s.field[k]; had && old != nv && old != "nil" {
		if s.unlinked == nil {
			s.unlinked = map[string]bool{}
		}
		s.unlinked[old] = true // this link pointed to `old` and no longer does
	}
	s.field[k] = nv
	s.stored[k] = true
}

func (sc *shapeChecker) setNil(s *shState, id string, isNil bool) bool {
	if id == "nil" {
		return isNil
	}
	if isNil {
		if s.nonNil[id] {
			return false
		}
		s.isNil[id] = true
	} else {
		if s.isNil[id] {
			return false
		}
		s.nonNil[id] = true
	}
	return true
}

func (sc *shapeChecker) known(s *shState, id string) (isNil, nonNil bool) {
	if id == "nil" {
		return true, false
	}
	return s.isNil[id], s.nonNil[id]
}

// load reads base.field, creating the initial symbolic value (and the facts well-formedness gives about it).
func (sc *shapeChecker) load(s *shState, base, field string) string {
	k := shKey{base, field}
	if v, ok := s.field[k]; ok {
		return v
	}
	if s.fresh[base] {
		s.field[k] = "nil"
		return "nil"
	}
	*s.n++
	v := fmt.Sprintf("%s.%s#%d", base, field, *s.n)
	s.field[k] = v
	// initial well-formedness: the neighbour points back; the head has no predecessor, the tail no successor
	set := func(b, f, val string) {
		if _, ok := s.field[shKey{b, f}]; !ok {
			s.field[shKey{b, f}] = val
		}
	}
	switch field {
	case "next":
		set(v, "prev", base)
	case "prev":
		set(v, "next", base)
	case "head":
		set(v, "prev", "nil")
	case "tail":
		set(v, "next", "nil")
	}
	return v
}

func (sc *shapeChecker) step(s *shState, in ssa.Instruction) {
	switch x := in.(type) {
	case *ssa.Alloc:
		// every execution of an allocation yields a new object (a loop body entered twice makes two nodes)
		*s.n++
		id := fmt.Sprintf("&%s@%s#%d", x.Comment, x.Name(), *s.n)
		if p, ok := x.Type().Underlying().(*types.Pointer); ok && sc.c.isPkgType(p.Elem(), "listItem") {
			sc.isNode[id] = true
		}
		s.fresh[id] = true
		s.nonNil[id] = true
		s.vals[x] = id
		delete(s.cells, x)
	case *ssa.Extract:
		if call, ok := x.Tuple.(*ssa.Call); ok {
			if r, ok := s.rets[call]; ok && x.Index < len(r) {
				s.vals[x] = r[x.Index]
			}
		}
	case *ssa.UnOp:
		if x.Op != token.MUL {
			return
		}
		switch a := x.X.(type) {
		case *ssa.FieldAddr:
			if f := sc.linkField(fieldOf(a)); f != "" {
				s.vals[x] = sc.load(s, sc.value(s, a.X), f)
			}
		case *ssa.Alloc:
			if id, ok := s.cells[a]; ok {
				s.vals[x] = id
			}
		}
	case *ssa.Store:
		switch a := x.Addr.(type) {
		case *ssa.FieldAddr:
			if fieldOf(a) == sc.fCount && sc.fCount != nil {
				d, ok := 0, false
				if bo, isBo := x.Val.(*ssa.BinOp); isBo && (bo.Op == token.ADD || bo.Op == token.SUB) {
					if c1, isC := bo.Y.(*ssa.Const); isC && c1.Value != nil && c1.Int64() == 1 {
						if u, isU := bo.X.(*ssa.UnOp); isU {
							if fa2, isFa := u.X.(*ssa.FieldAddr); isFa && fieldOf(fa2) == sc.fCount {
								ok = true
								d = 1
								if bo.Op == token.SUB {
									d = -1
								}
							}
						}
					}
				}
				if ok {
					s.delta += d
				} else {
					s.countUnknown = true
				}
			}
			// `item.listLinks = listLinks{next: a, prev: b}`: a struct holding link fields is copied as a whole
			if ef := fieldOf(a); ef != nil && ef.Embedded() {
				if ld, ok := x.Val.(*ssa.UnOp); ok && ld.Op == token.MUL {
					if est, ok := deref(ef.Type()).Underlying().(*types.Struct); ok {
						dst, src := sc.value(s, a.X), sc.value(s, ld.X)
						for j := 0; j < est.NumFields(); j++ {
							if lf := sc.linkField(est.Field(j)); lf != "" {
								nv, had := s.field[shKey{src, lf}]
								if !had {
									nv = "nil"
								}
								k := shKey{dst, lf}
								if old, hadOld := s.field[k]; hadOld && old != nv && old != "nil" {
									if s.unlinked == nil {
										s.unlinked = map[string]bool{}
									}
									s.unlinked[old] = true
								}
								s.field[k] = nv
								s.stored[k] = true
								if _, isTmp := ld.X.(*ssa.Alloc); isTmp {
									// the temporary the literal was built in is not a node
									delete(s.field, shKey{src, lf})
									delete(s.stored, shKey{src, lf})
								}
							}
						}
					}
				} else if k0, ok := x.Val.(*ssa.Const); ok && k0.Value == nil {
					// `*links = listLinks{}`: both links cleared at once
					if est, ok := deref(ef.Type()).Underlying().(*types.Struct); ok {
						dst := sc.value(s, a.X)
						for j := 0; j < est.NumFields(); j++ {
							if lf := sc.linkField(est.Field(j)); lf != "" {
								k := shKey{dst, lf}
								if old, hadOld := s.field[k]; hadOld && old != "nil" {
									if s.unlinked == nil {
										s.unlinked = map[string]bool{}
									}
									s.unlinked[old] = true
								}
								s.field[k] = "nil"
								s.stored[k] = true
							}
						}
					}
				}
			}
			if f := sc.linkField(fieldOf(a)); f != "" {
				sc.storeLink(s, sc.value(s, a.X), f, sc.value(s, x.Val))
			}
		case *ssa.Alloc:
			if _, isPtr := a.Type().Underlying().(*types.Pointer).Elem().Underlying().(*types.Pointer); isPtr {
				s.cells[a] = sc.value(s, x.Val)
			}
		}
		// a store through the address of a link that a helper handed back
		if _, isFa := x.Addr.(*ssa.FieldAddr); !isFa {
			if _, isAl := x.Addr.(*ssa.Alloc); !isAl {
				if id := sc.value(s, x.Addr); strings.HasPrefix(id, "slot|") {
					parts := strings.SplitN(id, "|", 3)
					if len(parts) == 3 {
						sc.storeLink(s, parts[1], parts[2], sc.value(s, x.Val))
					}
				}
			}
		}
		// `*links = listLinks{}` through a pointer (the receiver of a detach method): both links cleared
		if k0, ok := x.Val.(*ssa.Const); ok && k0.Value == nil {
			if st, ok := x.Val.Type().Underlying().(*types.Struct); ok {
				if _, isFa := x.Addr.(*ssa.FieldAddr); !isFa {
					dst := sc.value(s, x.Addr)
					for j := 0; j < st.NumFields(); j++ {
						if lf := sc.linkField(st.Field(j)); lf != "" {
							k := shKey{dst, lf}
							if old, hadOld := s.field[k]; hadOld && old != "nil" {
								if s.unlinked == nil {
									s.unlinked = map[string]bool{}
								}
								s.unlinked[old] = true
							}
							s.field[k] = "nil"
							s.stored[k] = true
						}
					}
				}
			}
		}
		// a node copied as a whole (`newItem := listItem{…}` builds a temporary and copies it): the links go with it
		if ld, ok := x.Val.(*ssa.UnOp); ok && ld.Op == token.MUL {
			if st, ok := x.Val.Type().Underlying().(*types.Struct); ok {
				if fa, isFa := x.Addr.(*ssa.FieldAddr); !isFa || !fieldOf(fa).Embedded() {
					var links []string
					var collect func(t *types.Struct, depth int)
					collect = func(t *types.Struct, depth int) {
						for j := 0; j < t.NumFields() && depth < 2; j++ {
							if lf := sc.linkField(t.Field(j)); lf != "" {
								links = append(links, lf)
							} else if t.Field(j).Embedded() {
								if et, ok := deref(t.Field(j).Type()).Underlying().(*types.Struct); ok {
									collect(et, depth+1)
								}
							}
						}
					}
					collect(st, 0)
					if len(links) > 0 {
						dst, src := sc.value(s, x.Addr), sc.value(s, ld.X)
						for _, lf := range links {
							nv, had := s.field[shKey{src, lf}]
							if !had {
								nv = "nil"
							}
							s.field[shKey{dst, lf}] = nv
							s.stored[shKey{dst, lf}] = true
						}
					}
				}
			}
		}
	case *ssa.Call:
		// a callee that itself writes links is judged on its own; here its effect on the nodes is unknown:
		// forget what is known about the fields of its pointer arguments
		g := x.Call.StaticCallee()
		if g != nil && sc.c.InPkg(g) && sc.writesLinks(g) {
			s.countUnknown = true // the callee adjusts the count for what it links or unlinks; it is judged on its own
			for _, a := range x.Call.Args {
				id := sc.value(s, a)
				for k := range s.field {
					if k.base == id {
						delete(s.field, k)
						delete(s.stored, k)
					}
				}
			}
		}
	}
}

var writesLinksMemo = map[*ssa.Function]bool{}

func (sc *shapeChecker) writesLinks(fn *ssa.Function) bool {
	if v, ok := writesLinksMemo[fn]; ok {
		return v
	}
	writesLinksMemo[fn] = false
	r := false
	for _, in := range instrsOf(fn) {
		if st, ok := in.(*ssa.Store); ok {
			if fa, ok := st.Addr.(*ssa.FieldAddr); ok && sc.linkField(fieldOf(fa)) != "" {
				r = true
			}
			// a store through the address of a link obtained from a helper (`*list.nextSlot(prev) = item`)
			if _, isAl := st.Addr.(*ssa.Alloc); !isAl {
				if _, isFa := st.Addr.(*ssa.FieldAddr); !isFa {
					if pt, ok := st.Addr.Type().Underlying().(*types.Pointer); ok {
						if sc.c.isPkgType(pt.Elem(), "listItem") {
							if _, isPP := pt.Elem().Underlying().(*types.Pointer); isPP {
								r = true
							}
						}
					}
				}
			}
			// a struct that holds the links written as a whole (`*links = listLinks{}`)
			if t, ok := st.Val.Type().Underlying().(*types.Struct); ok {
				for j := 0; j < t.NumFields(); j++ {
					if sc.linkField(t.Field(j)) != "" {
						r = true
					}
				}
			}
		}
	}
	writesLinksMemo[fn] = r
	return r
}

// pointedTo: some known link (of a base that is not nil on this path) has the node as its value.
func (sc *shapeChecker) pointedTo(s *shState, id string) bool {
	for k, v := range s.field {
		if v != id {
			continue
		}
		if n, _ := sc.known(s, k.base); n {
			continue
		}
		return true
	}
	return false
}

// isListNode: the id denotes a list node (parameter or loaded value of type *listItem, or a fresh node), not a list header.
func (sc *shapeChecker) nodeParam(id string) bool {
	for _, p := range sc.fn.Params {
		if p.Name() == id {
			if pt, ok := p.Type().(*types.Pointer); ok && sc.c.isPkgType(pt.Elem(), "listItem") {
				return true
			}
		}
	}
	return false
}

// check verifies the invariant on the written part of the heap.
func (sc *shapeChecker) check(s *shState, where string) {
	if len(s.stored) == 0 {
		return
	}
	var keys []shKey
	for k := range s.field {
		keys = append(keys, k)
	}
	sort.Slice(keys, func(i, j int) bool {
		if keys[i].base != keys[j].base {
			return keys[i].base < keys[j].base
		}
		return keys[i].field < keys[j].field
	})
	short := shortID
	for _, k := range keys {
		y := s.field[k]
		if isNil, _ := sc.known(s, y); isNil {
			continue
		}
		if baseNil, _ := sc.known(s, k.base); baseNil {
			continue // a fact about the neighbour of a node that turned out to be nil on this path
		}
		if (k.field == "next" || k.field == "prev") && !s.stored[k] && sc.nodeParam(k.base) && !sc.pointedTo(s, k.base) {
			continue // a node *parameter* nothing points to any more was taken out of the list by this function: its own stale links are not part of the list (a neighbour that becomes unreachable is a lost node and is reported)
		}
		var needField, needVal string
		switch k.field {
		case "next", "prev":
			needField, needVal = opposite(k.field), k.base
		case "head":
			needField, needVal = "prev", "nil"
		case "tail":
			needField, needVal = "next", "nil"
		}
		got, ok := s.field[shKey{y, needField}]
		if !ok && s.fresh[y] {
			got, ok = "nil", true
		}
		good := ok && got == needVal
		if ok && needVal == "nil" {
			n, _ := sc.known(s, got)
			good = n
		}
		if good {
			continue
		}
		_, nn := sc.known(s, y)
		cond := ""
		if !nn {
			cond = " (when " + short(y) + " is not nil)"
		}
		have := "is left unchanged"
		if ok {
			have = "is " + short(got)
		}
		key := fmt.Sprintf("%s.%s", short(k.base), k.field)
		if _, dup := sc.problems[key]; !dup {
			sc.problems[key] = fmt.Sprintf("on a path to %s: %s.%s = %s holds, but %s.%s %s, it must be %s%s", where, short(k.base), k.field, short(y), short(y), needField, have, short(needVal), cond)
		}
	}
}

// checkEnds: head is nil exactly when tail is nil (checked when either end was written).
func (sc *shapeChecker) checkEnds(s *shState, where string, underConstruction bool) {
	bases := map[string]bool{}
	for k := range s.stored {
		if k.field == "head" || k.field == "tail" {
			bases[k.base] = true
		}
	}
	for b := range bases {
		if underConstruction && s.fresh[b] {
			continue
		}
		h := sc.load(s, b, "head")
		t := sc.load(s, b, "tail")
		hn, hnn := sc.known(s, h)
		tn, tnn := sc.known(s, t)
		// an end that this path has set to nil obliges the other end to be nil as well (stored nil, or known nil)
		if s.stored[shKey{b, "head"}] && hn && !tn {
			tnn = true
		}
		if s.stored[shKey{b, "tail"}] && tn && !hn {
			hnn = true
		}
		if (hn && tnn) || (hnn && tn) {
			key := shortID(b) + ".head/tail"
			if _, dup := sc.problems[key]; !dup {
				sc.problems[key] = fmt.Sprintf("on a path to %s: one end of %s is nil and the other is not (head nil=%v, tail nil=%v): the list is empty from one side only", where, shortID(b), hn, tn)
			}
		}
	}
}

// checkCount: count changes by the number of nodes linked in minus the number of nodes detached.
func (sc *shapeChecker) checkCount(s *shState, where string) {
	if s.countUnknown || sc.fCount == nil || sc.hasLoop {
		return
	}
	ins := map[string]bool{}
	for k := range s.stored {
		v := s.field[k]
		if s.fresh[v] && sc.isNode[v] {
			ins[v] = true
		}
	}
	// only fresh list nodes count (a fresh list header is not a node)
	// a node parameter is detached when its links were both set to nil, or when nothing points to it any more although
	// the function changed links or ends of the list
	rem := 0
	for _, p := range sc.fn.Params {
		id := p.Name()
		if !sc.nodeParam(id) {
			continue
		}
		if s.stored[shKey{id, "next"}] && s.stored[shKey{id, "prev"}] && s.field[shKey{id, "next"}] == "nil" && s.field[shKey{id, "prev"}] == "nil" {
			rem++
		} else if len(s.stored) > 0 && !sc.pointedTo(s, id) && !sc.isPivot(s, id) &&
			(s.stored[shKey{id, "next"}] || s.stored[shKey{id, "prev"}] || s.unlinked[id]) {
			// taken out: this function wrote the node's own links or redirected a link that pointed to it (a node that
			// is only read — the element visited while another list is built — stays where it is)
			rem++
		}
	}
	want := len(ins) - rem
	if s.delta != want {
		if _, dup := sc.problems["count"]; !dup {
			sc.problems["count"] = fmt.Sprintf("on a path to %s: %d node(s) linked in and %d detached, but count changes by %+d (LLEN and every index computation depend on it)", where, len(ins), rem, s.delta)
		}
	}
}

// isPivot: the node parameter got a fresh neighbour (an insertion next to it): it stays in the list even if the
// function never learnt who points to it.
func (sc *shapeChecker) isPivot(s *shState, id string) bool {
	for _, f := range []string{"next", "prev"} {
		if v, ok := s.field[shKey{id, f}]; ok && s.fresh[v] {
			return true
		}
	}
	for k, v := range s.field {
		if v == id && s.fresh[k.base] {
			return true
		}
	}
	return false
}

// shFrame: one activation in the symbolic execution — the function under judgement, or a helper executed inside it.
type shFrame struct {
	fn     *ssa.Function
	onPath map[*ssa.BasicBlock]int
	depth  int
	call   *ssa.Call
	up     *shFrame
	resume func(s *shState) // continues the caller after the call (nil for the function under judgement)
}

func (fr *shFrame) active(g *ssa.Function) bool {
	for f := fr; f != nil; f = f.up {
		if f.fn == g {
			return true
		}
	}
	return false
}

func (sc *shapeChecker) run() {
	n := 0
	if sc.unroll == 0 {
		sc.unroll = 2
	}
	if sc.budget == 0 {
		sc.budget = 6000
	}
	s0 := &shState{field: map[shKey]string{}, stored: map[shKey]bool{}, cells: map[ssa.Value]string{}, isNil: map[string]bool{},
		nonNil: map[string]bool{}, fresh: map[string]bool{}, phi: map[*ssa.Phi]string{}, vals: map[ssa.Value]string{}, n: &n, rets: map[*ssa.Call][]string{}}
	if sc.fn.Signature.Recv() != nil && len(sc.fn.Params) > 0 {
		s0.nonNil[sc.fn.Params[0].Name()] = true
	}
	root := &shFrame{fn: sc.fn, onPath: map[*ssa.BasicBlock]int{}}
	sc.enter(root, sc.fn.Blocks[0], nil, s0)
}

// enter: control reaches block b from block `from`.
func (sc *shapeChecker) enter(fr *shFrame, b, from *ssa.BasicBlock, s *shState) {
	if sc.paths > sc.budget {
		sc.cut = true
		return
	}
	if fr.onPath[b] >= sc.unroll {
		// back edge after the last unrolling: the invariant must hold as loop invariant (a list header made by this
		// very function is still under construction: its ends are judged where the function returns)
		sc.paths++
		sc.check(s, "the next loop iteration")
		sc.checkEnds(s, "the next loop iteration", true)
		sc.hasLoop = true
		return
	}
	if fr.onPath[b] > 0 {
		sc.hasLoop = true
	}
	fr.onPath[b]++
	defer func() { fr.onPath[b]-- }()
	if from != nil {
		idx := -1
		for i, p := range b.Preds {
			if p == from {
				idx = i
			}
		}
		newPhi := map[*ssa.Phi]string{}
		for _, in := range b.Instrs {
			p, ok := in.(*ssa.Phi)
			if !ok {
				break
			}
			if idx >= 0 {
				newPhi[p] = sc.value(s, p.Edges[idx])
			}
		}
		for p, v := range newPhi {
			s.phi[p] = v
			delete(s.vals, p)
		}
	}
	sc.execFrom(fr, b, 0, s)
}

// execFrom executes the instructions of b from index idx on; a call of a helper in sc.inline is executed inside.
func (sc *shapeChecker) execFrom(fr *shFrame, b *ssa.BasicBlock, idx int, s *shState) {
	for i := idx; i < len(b.Instrs)-1; i++ {
		in := b.Instrs[i]
		if call, ok := in.(*ssa.Call); ok {
			if g := call.Call.StaticCallee(); g != nil && sc.inline[g] && g.Blocks != nil && fr.depth < 3 && !fr.active(g) {
				for k, p := range g.Params {
					if k < len(call.Call.Args) {
						s.vals[p] = sc.value(s, call.Call.Args[k])
					}
				}
				next := i + 1
				sub := &shFrame{fn: g, onPath: map[*ssa.BasicBlock]int{}, depth: fr.depth + 1, call: call, up: fr}
				sub.resume = func(s2 *shState) { sc.execFrom(fr, b, next, s2) }
				sc.enter(sub, g.Blocks[0], nil, s)
				return
			}
		}
		sc.step(s, in)
	}
	switch t := b.Instrs[len(b.Instrs)-1].(type) {
	case *ssa.Return:
		if fr.resume != nil {
			var r []string
			for _, v := range t.Results {
				r = append(r, sc.value(s, v))
			}
			s.rets[fr.call] = r
			if len(r) == 1 {
				s.vals[fr.call] = r[0]
			}
			fr.resume(s)
			return
		}
		sc.paths++
		sc.check(s, "a return")
		sc.checkEnds(s, "a return", false)
		sc.checkCount(s, "a return")
	case *ssa.If:
		if bo, ok := t.Cond.(*ssa.BinOp); ok {
			for _, o := range []ssa.Value{bo.X, bo.Y} {
				if _, f := loadedField(o); f != nil && f == sc.fCount && sc.bothSidesWriteLinks(b) {
					s.countTested = true // the count selects which links are written (not merely whether anything is done)
				}
			}
		}
		var id string
		eq := false
		isNilTest := false
		if bo, ok := t.Cond.(*ssa.BinOp); ok && (bo.Op == token.EQL || bo.Op == token.NEQ) {
			eq = bo.Op == token.EQL
			if isNilConst(bo.Y) {
				id, isNilTest = sc.value(s, bo.X), true
			} else if isNilConst(bo.X) {
				id, isNilTest = sc.value(s, bo.Y), true
			}
		}
		for i, succ := range b.Succs {
			ns := s.clone()
			if isNilTest {
				// succ 0 is the true branch
				nilHere := (i == 0) == eq
				if !sc.setNil(ns, id, nilHere) {
					continue // infeasible
				}
				sc.headTail(ns, id, nilHere)
			}
			sc.enter(fr, succ, b, ns)
		}
	case *ssa.Jump:
		sc.enter(fr, b.Succs[0], b, s)
	case *ssa.Panic:
	default:
		for _, succ := range b.Succs {
			sc.enter(fr, succ, b, s.clone())
		}
	}
}

// bothSidesWriteLinks: from both successors of the branch at the end of b a link store (or a call of a link-writing
// function) is reachable without coming back to b.
func (sc *shapeChecker) bothSidesWriteLinks(b *ssa.BasicBlock) bool {
	if len(b.Succs) != 2 {
		return false
	}
	writes := func(x *ssa.BasicBlock) bool {
		for _, in := range x.Instrs {
			switch v := in.(type) {
			case *ssa.Store:
				if fa, ok := v.Addr.(*ssa.FieldAddr); ok && sc.linkField(fieldOf(fa)) != "" {
					return true
				}
			case *ssa.Call:
				if g := v.Call.StaticCallee(); g != nil && sc.c.InPkg(g) && sc.writesLinks(g) {
					return true
				}
			}
		}
		return false
	}
	for _, s0 := range b.Succs {
		found := false
		seen := map[*ssa.BasicBlock]bool{b: true}
		work := []*ssa.BasicBlock{s0}
		for len(work) > 0 && !found {
			x := work[len(work)-1]
			work = work[:len(work)-1]
			if seen[x] {
				continue
			}
			seen[x] = true
			if writes(x) {
				found = true
			}
			work = append(work, x.Succs...)
		}
		if !found {
			return false
		}
	}
	return true
}

// headTail: in a well-formed list head is nil exactly when tail is nil; applies to initial (unwritten) values only.
func (sc *shapeChecker) headTail(s *shState, id string, isNil bool) {
	for k, v := range s.field {
		if v != id || s.stored[k] || (k.field != "head" && k.field != "tail") {
			continue
		}
		other := "tail"
		if k.field == "tail" {
			other = "head"
		}
		ok := shKey{k.base, other}
		if s.stored[ok] {
			continue
		}
		ov := sc.load(s, k.base, other)
		sc.setNil(s, ov, isNil)
	}
}

func ruleListShape(c *Ctx) {
	c.S.Rule("R-list-shape", textListShape, 5)
	sc0 := &shapeChecker{c: c, fNext: c.Field("listItem", "next"), fPrev: c.Field("listItem", "prev"), fHead: c.Field("storeList", "head"), fTail: c.Field("storeList", "tail"), fCount: c.Field("storeList", "count")}
	if sc0.fNext == nil || sc0.fPrev == nil || sc0.fHead == nil || sc0.fTail == nil {
		c.S.Undecided("R-list-shape", "anchors", "-", "listItem.next/prev or storeList.head/tail not found")
		return
	}
	judge := func(fn *ssa.Function, inline map[*ssa.Function]bool) *shapeChecker {
		var sc *shapeChecker
		for _, unroll := range []int{3, 2, 1} {
			sc = &shapeChecker{c: c, fn: fn, fNext: sc0.fNext, fPrev: sc0.fPrev, fHead: sc0.fHead, fTail: sc0.fTail, fCount: sc0.fCount,
				problems: map[string]string{}, isNode: map[string]bool{}, unroll: unroll, inline: inline}
			sc.run()
			if !sc.cut {
				break
			}
		}
		if sc.hasLoop {
			delete(sc.problems, "count") // builders set count after/inside the loop; R-ctor-agree covers the field set
		}
		return sc
	}
	// static call sites of every function; a function that is also used as a value can be called from anywhere
	callers := map[*ssa.Function][]*ssa.Function{}
	escapes := map[*ssa.Function]bool{}
	for _, fn := range c.SrcFuncs() {
		for _, in := range instrsOf(fn) {
			var ops []*ssa.Value
			for _, op := range in.Operands(ops) {
				if g, ok := (*op).(*ssa.Function); ok {
					if call, isCall := in.(ssa.CallInstruction); isCall && call.Common().Value == ssa.Value(g) && !call.Common().IsInvoke() {
						if _, plain := in.(*ssa.Call); plain {
							callers[g] = append(callers[g], fn)
							continue
						}
					}
					escapes[g] = true
				}
			}
		}
	}
	// round 0: every function that writes links, on its own. A helper that fails on its own and is only ever called
	// directly relies on what its call sites pass (a node that is new, two nodes that are neighbours): it is executed
	// inside each of its callers instead, and those callers are judged (repeated for helpers of helpers).
	inline := map[*ssa.Function]bool{}
	// functions that hand back the address of a link (`func (l *storeList) nextSlot(prev *listItem) **listItem`) are
	// always executed inside their callers: which link it is depends on the argument
	for _, fn := range c.SrcFuncs() {
		if fn.Signature.Results().Len() == 1 {
			if pt, ok := fn.Signature.Results().At(0).Type().Underlying().(*types.Pointer); ok {
				if _, isPP := pt.Elem().Underlying().(*types.Pointer); isPP && c.isPkgType(pt.Elem(), "listItem") {
					inline[fn] = true
				}
			}
		}
	}
	results := map[*ssa.Function]*shapeChecker{}
	for round := 0; round < 4; round++ {
		todo := map[*ssa.Function]bool{}
		for _, fn := range c.SrcFuncs() {
			if fn.Blocks == nil || inline[fn] {
				continue
			}
			if sc0.writesLinks(fn) && results[fn] == nil {
				todo[fn] = true
			}
			for g := range inline {
				for _, f := range callers[g] {
					if f == fn {
						todo[fn] = true
					}
				}
			}
		}
		grew := false
		for fn := range todo {
			results[fn] = judge(fn, inline)
		}
		for fn, sc := range results {
			if inline[fn] || len(sc.problems) == 0 || sc.cut {
				continue
			}
			if len(callers[fn]) > 0 && !escapes[fn] && round < 3 {
				inline[fn] = true
				grew = true
			}
		}
		if !grew {
			break
		}
	}
	var fns []*ssa.Function
	for fn := range results {
		fns = append(fns, fn)
	}
	sort.Slice(fns, func(i, j int) bool { return fnName(fns[i]) < fnName(fns[j]) })
	for _, fn := range fns {
		sc := results[fn]
		if inline[fn] {
			var cs []string
			seen := map[string]bool{}
			for _, f := range callers[fn] {
				if !seen[fnName(f)] {
					seen[fnName(f)] = true
					cs = append(cs, fnName(f))
				}
			}
			sort.Strings(cs)
			c.S.OK("R-list-shape", fnName(fn)+":judged-in-callers", c.Pos(fn.Pos()), "relies on what its call sites pass; executed inside each caller: "+strings.Join(cs, ", "))
			continue
		}
		if sc.cut {
			c.S.Undecided("R-list-shape", fnName(fn)+":paths", c.Pos(fn.Pos()), fmt.Sprintf("more than %d paths: not explored completely", sc.budget))
			continue
		}
		if len(sc.problems) == 0 {
			c.S.OK("R-list-shape", fnName(fn)+":well-formed-at-exit", c.Pos(fn.Pos()), fmt.Sprintf("%d path(s) executed symbolically; every written link has its counterpart", sc.paths))
			continue
		}
		if sc.usesCount {
			// the function (or a helper executed inside it) decides by the element count which links to write
			// (`if list.count == 1 { head, tail = nil, nil }`): that the count equals the number of linked nodes is an
			// invariant the shape domain does not carry, so nothing is concluded here — neither way
			c.S.Trivial("R-list-shape", fnName(fn)+":branches-on-count", c.Pos(fn.Pos()), "the link updates depend on a test of the element count; not decided by the shape interpretation")
			continue
		}
		var ks []string
		for k := range sc.problems {
			ks = append(ks, k)
		}
		sort.Strings(ks)
		for _, k := range ks {
			c.S.Bad("R-list-shape", fnName(fn)+":"+k, c.Pos(fn.Pos()), fnName(fn)+": "+sc.problems[k])
		}
	}
}

const textUnlinkedUse = "R-list-unlinked-use: a node handed to a function that detaches it (stores nil into both of its link fields) is not followed afterwards: no read of its next/prev is reachable from the call before the variable is redefined — a loop that advances through the removed node stops (or walks a stale chain)"

func ruleListUnlinkedUse(c *Ctx) {
	c.S.Rule("R-list-unlinked-use", textUnlinkedUse, 3)
	fNext, fPrev := c.Field("listItem", "next"), c.Field("listItem", "prev")
	if fNext == nil || fPrev == nil {
		c.S.Undecided("R-list-unlinked-use", "anchors", "-", "listItem.next/prev not found")
		return
	}
	// detaching functions: parameter index whose next and prev both get nil stored
	detach := map[*ssa.Function]map[int]bool{}
	for _, fn := range c.SrcFuncs() {
		got := map[int]map[*types.Var]bool{}
		for _, in := range instrsOf(fn) {
			st, ok := in.(*ssa.Store)
			if !ok {
				continue
			}
			// `*links = listLinks{}`: the struct that holds both links zeroed through the parameter
			if k0, isC := st.Val.(*ssa.Const); isC && k0.Value == nil {
				if t, isS := st.Val.Type().Underlying().(*types.Struct); isS {
					both := map[*types.Var]bool{}
					for j := 0; j < t.NumFields(); j++ {
						if t.Field(j) == fNext || t.Field(j) == fPrev {
							both[t.Field(j)] = true
						}
					}
					for i, p := range fn.Params {
						if outerBase(st.Addr) == ssa.Value(p) && both[fNext] && both[fPrev] {
							got[i] = both
						}
					}
				}
			}
			if !isNilConst(st.Val) {
				continue
			}
			fa, ok := st.Addr.(*ssa.FieldAddr)
			if !ok {
				continue
			}
			f := fieldOf(fa)
			if f != fNext && f != fPrev {
				continue
			}
			for i, p := range fn.Params {
				if outerBase(fa.X) == ssa.Value(p) {
					if got[i] == nil {
						got[i] = map[*types.Var]bool{}
					}
					got[i][f] = true
				}
			}
		}
		for i, m := range got {
			if m[fNext] && m[fPrev] {
				if detach[fn] == nil {
					detach[fn] = map[int]bool{}
				}
				detach[fn][i] = true
			}
		}
	}
	// a function that hands its parameter on to a detaching function detaches it as well
	for round := 0; round < 3; round++ {
		for _, fn := range c.SrcFuncs() {
			for _, in := range instrsOf(fn) {
				call, ok := in.(*ssa.Call)
				if !ok {
					continue
				}
				g := call.Call.StaticCallee()
				if g == nil || detach[g] == nil || g == fn {
					continue
				}
				for i := range detach[g] {
					if i >= len(call.Call.Args) {
						continue
					}
					for k, p := range fn.Params {
						if outerBase(call.Call.Args[i]) == ssa.Value(p) {
							if detach[fn] == nil {
								detach[fn] = map[int]bool{}
							}
							detach[fn][k] = true
						}
					}
				}
			}
		}
	}
	if len(detach) == 0 {
		c.S.Undecided("R-list-unlinked-use", "detachers", "-", "no function detaches a node (stores nil into next and prev of a parameter)")
		return
	}
	for _, fn := range c.SrcFuncs() {
		ord := map[string]int{}
		for _, in := range instrsOf(fn) {
			call, ok := in.(*ssa.Call)
			if !ok {
				continue
			}
			g := call.Call.StaticCallee()
			if g == nil || detach[g] == nil {
				continue
			}
			for i := range detach[g] {
				if i >= len(call.Call.Args) {
					continue
				}
				node := call.Call.Args[i]
				ord[g.Name()]++
				key := fmt.Sprintf("%s:after-%s#%d", fnName(fn), g.Name(), ord[g.Name()])
				// the block that (re)defines the node: a phi block gives the variable a new value
				var defBlk *ssa.BasicBlock
				if p, ok := node.(*ssa.Phi); ok {
					defBlk = p.Block()
				}
				bad := ""
				seen := map[*ssa.BasicBlock]bool{}
				scan := func(b *ssa.BasicBlock, from int) {
					for _, in2 := range b.Instrs[from:] {
						if u, ok := in2.(*ssa.UnOp); ok && u.Op == token.MUL {
							if fa, ok := u.X.(*ssa.FieldAddr); ok && outerBase(fa.X) == node && (fieldOf(fa) == fNext || fieldOf(fa) == fPrev) && bad == "" {
								bad = fmt.Sprintf("%s reads %s.%s at %s after %s detached it at %s", fnName(fn), node.Name(), fieldOf(fa).Name(), c.Pos(c.InstrPos(in2)), g.Name(), c.Pos(call.Pos()))
							}
						}
					}
				}
				scan(call.Block(), instrIndex(call)+1)
				work := append([]*ssa.BasicBlock{}, call.Block().Succs...)
				for len(work) > 0 {
					b := work[len(work)-1]
					work = work[:len(work)-1]
					if seen[b] || b == defBlk {
						continue
					}
					seen[b] = true
					scan(b, 0)
					work = append(work, b.Succs...)
				}
				if bad != "" {
					c.S.Bad("R-list-unlinked-use", key, c.Pos(call.Pos()), bad)
				} else {
					c.S.OK("R-list-unlinked-use", key, c.Pos(call.Pos()), "the detached node's links are not read afterwards")
				}
			}
		}
	}
}
