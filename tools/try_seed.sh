#!/bin/sh
# usage: tools/try_seed.sh <patch.diff> <prop> [<prop>...]
# applies the patch to /repo, runs the quick checks, prints new violations, reverts.
P="$1"; shift
cd /repo || exit 2
if [ -n "$(git status --porcelain)" ]; then echo "/repo not clean"; exit 2; fi
if ! git apply "$P" 2>/tmp/apply.err; then echo "APPLY FAILED: $(head -2 /tmp/apply.err)"; exit 3; fi
if ! GOFLAGS=-mod=mod GOPROXY=off GOSUMDB=off GOTOOLCHAIN=local go build ./... 2>/tmp/build.err; then echo "BUILD FAILED"; head -3 /tmp/build.err; git checkout -- .; exit 4; fi
cd /verif
for p in "$@"; do
  out=$(VERIF_DIR=/tmp/seedverif ./bin/rdcheck check -property $p -tier quick 2>&1)
  n=$(echo "$out" | grep -c '^VIOLATION')
  echo "$p: $n violation(s)"
  echo "$out" | grep -E '^  (VIOLATED|UNDECIDED)' | cut -c1-260 | head -6
done
cd /repo && git checkout -- .
