package redisemu

import "testing"

// C07: GETEX without an option is GET: the deadline stays; with PERSIST it goes.
func TestDemoC07GetexWithoutOption(t *testing.T) {
	s := startDemo(t, "")
	defer s.stop()
	c := s.dial(t)
	c.do("SET", "k", "v", "EX", "100")
	expect(t, "GETEX k", c.do("GETEX", "k"), "\"v\"")
	expect(t, "TTL after GETEX k", c.do("TTL", "k"), ":100")
	expect(t, "GETEX k PERSIST", c.do("GETEX", "k", "PERSIST"), "\"v\"")
	expect(t, "TTL after GETEX k PERSIST", c.do("TTL", "k"), ":-1")
	expect(t, "GETEX k EX 50", c.do("GETEX", "k", "EX", "50"), "\"v\"")
	expect(t, "TTL after GETEX k EX 50", c.do("TTL", "k"), ":50")
	expect(t, "GETEX nokey", c.do("GETEX", "nokey"), "(nil)")
}
