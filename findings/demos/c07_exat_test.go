package redisemu

import (
	"strconv"
	"testing"
	"time"
)

// C07: SET … EXAT t sets the deadline t; PEXPIRETIME reports t*1000 (as EXPIREAT t does).
func TestDemoC07ExatIsExact(t *testing.T) {
	s := startDemo(t, "")
	defer s.stop()
	c := s.dial(t)
	// not on a second boundary, so that the sub-second part of "now" is visible
	for time.Now().Nanosecond() < 300*1000*1000 {
		time.Sleep(10 * time.Millisecond)
	}
	at := time.Now().Unix() + 100
	c.do("SET", "k", "v", "EXAT", strconv.FormatInt(at, 10))
	expect(t, "PEXPIRETIME after SET k v EXAT t", c.do("PEXPIRETIME", "k"), ":"+strconv.FormatInt(at*1000, 10))
	c.do("SET", "k2", "v")
	c.do("EXPIREAT", "k2", strconv.FormatInt(at, 10))
	expect(t, "PEXPIRETIME after EXPIREAT k2 t (the sibling)", c.do("PEXPIRETIME", "k2"), ":"+strconv.FormatInt(at*1000, 10))
	c.do("SET", "k3", "v")
	c.do("GETEX", "k3", "EXAT", strconv.FormatInt(at, 10))
	expect(t, "PEXPIRETIME after GETEX k3 EXAT t", c.do("PEXPIRETIME", "k3"), ":"+strconv.FormatInt(at*1000, 10))
}
