package redisemu

import "testing"

// C07: a command that changes a value in place keeps the key's deadline.
func TestDemoC07AppendKeepsTTL(t *testing.T) {
	s := startDemo(t, "")
	defer s.stop()
	c := s.dial(t)
	c.do("SET", "k", "abc", "EX", "1000")
	expect(t, "APPEND", c.do("APPEND", "k", "def"), ":6")
	if got := c.do("TTL", "k"); got == ":-1" {
		t.Errorf("TTL after APPEND: got %s, want the 1000 s deadline to be kept", got)
	} else {
		t.Logf("TTL after APPEND: %s", got)
	}
}
