package main

// A7 — handler ↔ grammar agreement. For every command token, a small abstract interpretation of the
// handler (and the helpers/closures its `args` flow into, one frame per call site) tracks which
// grammar node each SSA value denotes, and checks every type assertion / key lookup against what the
// argument parser can produce for that token. Branches whose condition is decided by the grammar for
// the token (an option that is always / never present) are pruned.

import (
	"fmt"
	"go/token"
	"go/types"
	"sort"
	"strings"

	"golang.org/x/tools/go/ssa"
)

type absKind int

const (
	aNone     absKind = iota
	aRoot             // the top-level args map (map[string]any, or *orderedMap / its .m)
	aBlock            // *orderedMap of a block argument (or its .m)
	aVal              // the `any` stored under a known constant key (desc nil => key cannot be produced)
	aSlice            // []any (desc describes the elements) or slice of keyed values
	aKey              // a string that is a key of map `of` (range key / element of .order)
	aKeyed            // value stored under key variable keyVar in map `of` (or an element of it)
	aOrder            // the .order slice of an orderedMap
	aStr              // a constant string (propagated through parameters)
	aClosure          // a function value with its lexical frame
	aConflict         // different things on different paths: undecidable
)

type Abs struct {
	kind   absKind
	blk    *GArg    // aBlock
	desc   *ValDesc // aVal / aSlice(elem)
	key    string   // aVal: the constant key; aStr: the string
	of     *Abs     // aVal/aKey/aKeyed/aOrder: the map
	keyVar ssa.Value
	kvFr   *frame
	elemOK bool // aKeyed: may be an element of the value (valArray idiom)
	valOK  bool // aKeyed: may be the value itself
	keyed  *Abs // aSlice whose elements are aKeyed
	fn     *ssa.Function
	lex    *frame
}

func (a *Abs) String() string {
	if a == nil {
		return "untracked"
	}
	switch a.kind {
	case aRoot:
		return "args"
	case aBlock:
		return "block " + a.blk.Name
	case aVal:
		return "args[" + quote(a.key) + "]"
	case aSlice:
		return "[]any"
	case aKey:
		return "key-var"
	case aKeyed:
		return "value under key-var"
	case aOrder:
		return "order"
	case aStr:
		return quote(a.key)
	case aClosure:
		return "closure"
	case aConflict:
		return "conflict"
	}
	return "?"
}

// a7Site accumulates per-token verdicts for one construct.
type a7Site struct {
	key    string
	pos    token.Pos
	desc   string
	bad    map[string]string // token -> why
	good   []string
	soft   bool // comma-ok form / presence test: needs only one token that can produce it
	softOK bool
}

type frame struct {
	fn     *ssa.Function
	lex    *frame // lexical parent (for closures)
	params map[*ssa.Parameter]*Abs
	env    map[ssa.Value]*Abs
	busy   map[ssa.Value]bool
	depth  int
}

type a7Run struct {
	c                        *Ctx
	g                        *Grammar
	tok                      string
	top                      map[string]*ValDesc
	sites                    map[string]*a7Site
	fCtxArgs, fOmM, fOmOrder *types.Var
	frames                   int
	visited                  map[string]bool
	keySwitches              map[string]*keySwitch
}

// keySwitch records a `switch keyVar { case ...: default: panic }` over keys of an args map.
type keySwitch struct {
	fn     *ssa.Function
	pos    token.Pos
	consts map[string]bool
	miss   map[string][]string // token -> producible keys without a case
}

func absEqual(a, b *Abs) bool {
	if a == nil || b == nil {
		return a == b
	}
	if a.kind != b.kind || a.blk != b.blk || a.desc != b.desc || a.key != b.key || a.keyVar != b.keyVar ||
		a.elemOK != b.elemOK || a.valOK != b.valOK || a.fn != b.fn {
		return false
	}
	if (a.of == nil) != (b.of == nil) || (a.of != nil && !absEqual(a.of, b.of)) {
		return false
	}
	if (a.keyed == nil) != (b.keyed == nil) || (a.keyed != nil && !absEqual(a.keyed, b.keyed)) {
		return false
	}
	return true
}

func absJoin(a, b *Abs) *Abs {
	if a == nil {
		return b
	}
	if b == nil {
		return a
	}
	if absEqual(a, b) {
		return a
	}
	if a.kind == aSlice && b.kind == aSlice && a.keyed != nil && b.keyed != nil && a.keyed.keyVar == b.keyed.keyVar {
		k := *a.keyed
		k.elemOK = a.keyed.elemOK || b.keyed.elemOK
		k.valOK = a.keyed.valOK || b.keyed.valOK
		return &Abs{kind: aSlice, keyed: &k}
	}
	return &Abs{kind: aConflict}
}

func (r *a7Run) keysOfMap(a *Abs) map[string]*ValDesc {
	switch a.kind {
	case aRoot:
		return r.top
	case aBlock:
		return r.g.BlockKeys(r.tok, a.blk)
	}
	return nil
}

func isMapAbs(a *Abs) bool { return a != nil && (a.kind == aRoot || a.kind == aBlock) }

// frameFor finds the frame (this one or a lexical ancestor) that owns value v.
func (fr *frame) frameFor(v ssa.Value) *frame {
	var owner *ssa.Function
	switch x := v.(type) {
	case *ssa.Parameter:
		owner = x.Parent()
	case *ssa.FreeVar:
		owner = x.Parent()
	case ssa.Instruction:
		owner = x.Parent()
	default:
		return fr
	}
	for f := fr; f != nil; f = f.lex {
		if f.fn == owner {
			return f
		}
	}
	return nil
}

func (r *a7Run) abs(fr *frame, v ssa.Value) *Abs {
	if s, ok := constString(v); ok {
		return &Abs{kind: aStr, key: s}
	}
	f := fr.frameFor(v)
	if f == nil {
		return nil
	}
	if a, ok := f.env[v]; ok {
		return a
	}
	if f.busy[v] {
		return nil
	}
	f.busy[v] = true
	a := r.eval(f, v)
	f.env[v] = a
	delete(f.busy, v)
	return a
}

func (r *a7Run) eval(fr *frame, v ssa.Value) *Abs {
	switch x := v.(type) {
	case *ssa.Parameter:
		return fr.params[x]
	case *ssa.FreeVar:
		b := bindingOf(x)
		if b == nil || fr.lex == nil {
			return nil
		}
		if _, isCell := b.(*ssa.Alloc); isCell {
			return nil // a variable cell: read through UnOp
		}
		return r.abs(fr.lex, b)
	case *ssa.MakeClosure:
		if f, ok := x.Fn.(*ssa.Function); ok {
			return &Abs{kind: aClosure, fn: f, lex: fr}
		}
		return nil
	case *ssa.Phi:
		var out *Abs
		for i, e := range x.Edges {
			if c, isC := e.(*ssa.Const); isC && c.Value == nil {
				continue
			}
			// skip edges that are infeasible for this token
			if !r.edgeFeasible(fr, x.Block().Preds[i], x.Block()) || !r.feasible(fr, x.Block().Preds[i]) {
				continue
			}
			out = absJoin(out, r.abs(fr, e))
		}
		return out
	case *ssa.ChangeType:
		return r.abs(fr, x.X)
	case *ssa.MakeInterface:
		return r.abs(fr, x.X)
	case *ssa.UnOp:
		if x.Op != token.MUL {
			return nil
		}
		switch y := x.X.(type) {
		case *ssa.FieldAddr:
			f := fieldOf(y)
			switch f {
			case r.fCtxArgs:
				return &Abs{kind: aRoot}
			case r.fOmM:
				if b := r.abs(fr, y.X); isMapAbs(b) {
					return b
				}
			case r.fOmOrder:
				if b := r.abs(fr, y.X); isMapAbs(b) {
					return &Abs{kind: aOrder, of: b}
				}
			}
			return nil
		case *ssa.IndexAddr:
			s := r.abs(fr, y.X)
			if s == nil {
				return nil
			}
			switch s.kind {
			case aSlice:
				if s.keyed != nil {
					return s.keyed
				}
				if s.desc != nil {
					return &Abs{kind: aVal, desc: s.desc, key: "<element>"}
				}
			case aOrder:
				return &Abs{kind: aKey, of: s.of}
			}
			return nil
		case *ssa.Alloc:
			return r.absOfCell(fr, y)
		case *ssa.FreeVar:
			b := bindingOf(y)
			if al, ok := b.(*ssa.Alloc); ok && fr.lex != nil {
				if lf := fr.lex.frameFor(al); lf != nil {
					return r.absOfCell(lf, al)
				}
			}
			return nil
		}
		return nil
	case *ssa.Lookup:
		m := r.abs(fr, x.X)
		if !isMapAbs(m) {
			return nil
		}
		ka := r.abs(fr, x.Index)
		if ka != nil && ka.kind == aStr {
			return &Abs{kind: aVal, desc: r.keysOfMap(m)[ka.key], key: ka.key, of: m}
		}
		if ka != nil && ka.kind == aKey {
			return &Abs{kind: aKeyed, of: m, keyVar: x.Index, kvFr: fr.frameFor(x.Index), valOK: true}
		}
		return &Abs{kind: aConflict}
	case *ssa.Extract:
		switch t := x.Tuple.(type) {
		case *ssa.Lookup:
			if x.Index == 0 {
				return r.abs(fr, t)
			}
		case *ssa.TypeAssert:
			if x.Index == 0 {
				return r.absAssertResult(fr, t)
			}
		case *ssa.Next:
			rng, ok := t.Iter.(*ssa.Range)
			if !ok {
				return nil
			}
			m := r.abs(fr, rng.X)
			if !isMapAbs(m) {
				return nil
			}
			if x.Index == 1 {
				return &Abs{kind: aKey, of: m}
			}
			if x.Index == 2 {
				var kv ssa.Value
				for _, rr := range referrers(t) {
					if e, ok := rr.(*ssa.Extract); ok && e.Index == 1 {
						kv = e
					}
				}
				return &Abs{kind: aKeyed, of: m, keyVar: kv, kvFr: fr, valOK: true}
			}
		case *ssa.Call:
			if x.Index == 0 {
				return r.callResult(fr, t)
			}
		}
		return nil
	case *ssa.TypeAssert:
		if !x.CommaOk {
			return r.absAssertResult(fr, x)
		}
		return nil
	case *ssa.Call:
		return r.callResult(fr, x)
	case *ssa.Slice:
		if al, ok := x.X.(*ssa.Alloc); ok {
			var out *Abs
			for _, rr := range referrers(al) {
				ia, ok := rr.(*ssa.IndexAddr)
				if !ok {
					continue
				}
				for _, r3 := range referrers(ia) {
					if st, ok := r3.(*ssa.Store); ok && st.Addr == ia {
						ea := r.abs(fr, st.Val)
						if ea != nil && ea.kind == aKeyed {
							out = absJoin(out, &Abs{kind: aSlice, keyed: ea})
						} else if ea != nil && ea.kind == aVal {
							out = absJoin(out, &Abs{kind: aSlice, desc: ea.desc})
						}
					}
				}
			}
			return out
		}
		return r.abs(fr, x.X)
	}
	return nil
}

func (r *a7Run) absAssertResult(fr *frame, t *ssa.TypeAssert) *Abs {
	src := r.abs(fr, t.X)
	if src == nil {
		return nil
	}
	ts := typeString(t.AssertedType)
	switch src.kind {
	case aVal:
		if src.desc == nil {
			return nil
		}
		switch ts {
		case "[]any":
			if src.desc.GoType == "[]any" {
				return &Abs{kind: aSlice, desc: src.desc.Elem}
			}
		case "*orderedMap":
			if src.desc.GoType == "*orderedMap" && src.desc.Block != nil {
				return &Abs{kind: aBlock, blk: src.desc.Block}
			}
		}
	case aKeyed:
		if ts == "[]any" {
			k := *src
			k.valOK, k.elemOK = false, true
			return &Abs{kind: aSlice, keyed: &k}
		}
	}
	return nil
}

func typeString(t types.Type) string {
	s := types.TypeString(t, func(p *types.Package) string { return "" })
	return strings.ReplaceAll(s, "interface{}", "any")
}

func (r *a7Run) absOfCell(fr *frame, al *ssa.Alloc) *Abs {
	var out *Abs
	for _, rr := range referrers(al) {
		if st, ok := rr.(*ssa.Store); ok && st.Addr == al {
			if c, isC := st.Val.(*ssa.Const); isC && c.Value == nil {
				continue
			}
			if !r.feasible(fr, st.Block()) {
				continue
			}
			out = absJoin(out, r.abs(fr, st.Val))
		}
	}
	return out
}

// bindingOf finds the value bound to a free variable at the (unique) MakeClosure of its function.
func bindingOf(fv *ssa.FreeVar) ssa.Value {
	fn := fv.Parent()
	par := fn.Parent()
	if par == nil {
		return nil
	}
	idx := -1
	for i, f := range fn.FreeVars {
		if f == fv {
			idx = i
		}
	}
	if idx < 0 {
		return nil
	}
	var out ssa.Value
	for _, in := range instrsOf(par) {
		if mc, ok := in.(*ssa.MakeClosure); ok && mc.Fn == fn && idx < len(mc.Bindings) {
			if out != nil && out != mc.Bindings[idx] {
				return nil
			}
			out = mc.Bindings[idx]
		}
	}
	return out
}

// callResult: result of the orderedMap accessors (get / mustGet and the like): a method on orderedMap
// whose single block looks the key parameter up in receiver.m.
func (r *a7Run) callResult(fr *frame, c *ssa.Call) *Abs {
	cal := c.Call.StaticCallee()
	if cal == nil || len(cal.Blocks) != 1 || len(cal.Blocks[0].Instrs) > 12 {
		return nil
	}
	if cal.Signature.Recv() == nil || typeName(cal.Signature.Recv().Type()) != "orderedMap" {
		return nil
	}
	recv := r.abs(fr, c.Call.Args[0])
	if !isMapAbs(recv) {
		return nil
	}
	for _, in := range cal.Blocks[0].Instrs {
		lk, ok := in.(*ssa.Lookup)
		if !ok {
			continue
		}
		if _, f := loadedField(lk.X); f != r.fOmM {
			continue
		}
		kp, ok := lk.Index.(*ssa.Parameter)
		if !ok {
			continue
		}
		for i, pp := range cal.Params {
			if pp == kp && i < len(c.Call.Args) {
				arg := c.Call.Args[i]
				ka := r.abs(fr, arg)
				if ka != nil && ka.kind == aStr {
					return &Abs{kind: aVal, desc: r.keysOfMap(recv)[ka.key], key: ka.key, of: recv}
				}
				if ka != nil && ka.kind == aKey {
					return &Abs{kind: aKeyed, of: recv, keyVar: arg, kvFr: fr.frameFor(arg), valOK: true}
				}
				return &Abs{kind: aConflict}
			}
		}
	}
	return nil
}

// ---------------------------------------------------------------- feasibility (per token)

// truth evaluates a branch condition for the current token: +1 always true, -1 always false, 0 unknown.
func (r *a7Run) truth(fr *frame, v ssa.Value) int {
	switch x := v.(type) {
	case *ssa.UnOp:
		if x.Op == token.NOT {
			return -r.truth(fr, x.X)
		}
	case *ssa.Extract:
		if x.Index != 1 {
			return 0
		}
		switch t := x.Tuple.(type) {
		case *ssa.TypeAssert:
			src := r.abs(fr, t.X)
			if src == nil || src.kind != aVal || src.key == "<element>" {
				return 0
			}
			T := typeString(t.AssertedType)
			if src.desc == nil || src.desc.GoType != T {
				return -1
			}
			if src.desc.Always {
				return 1
			}
		case *ssa.Lookup:
			src := r.abs(fr, t)
			if src == nil || src.kind != aVal {
				return 0
			}
			if src.desc == nil {
				return -1
			}
			if src.desc.Always {
				return 1
			}
		case *ssa.Call:
			src := r.callResult(fr, t)
			if src == nil || src.kind != aVal {
				return 0
			}
			if src.desc == nil {
				return -1
			}
			if src.desc.Always {
				return 1
			}
		}
	case *ssa.BinOp:
		if x.Op != token.EQL && x.Op != token.NEQ {
			return 0
		}
		a, b := r.abs(fr, x.X), r.abs(fr, x.Y)
		if a != nil && b != nil && a.kind == aStr && b.kind == aStr {
			eq := a.key == b.key
			if (x.Op == token.EQL) == eq {
				return 1
			}
			return -1
		}
		// v != nil / v == nil on an args value
		var val *Abs
		if c, ok := x.Y.(*ssa.Const); ok && c.Value == nil {
			val = a
		} else if c, ok := x.X.(*ssa.Const); ok && c.Value == nil {
			val = b
		}
		if val != nil && val.kind == aVal && val.key != "<element>" {
			present := 0
			if val.desc == nil || val.desc.GoType == "nil" {
				present = -1 // absent or a pure token (stored as nil)
			} else if val.desc.Always {
				present = 1
			}
			if x.Op == token.EQL {
				return -present
			}
			return present
		}
	}
	return 0
}

// edgeFeasible: can control go from block a to its successor b for this token?
func (r *a7Run) edgeFeasible(fr *frame, a, b *ssa.BasicBlock) bool {
	ifi, ok := a.Instrs[len(a.Instrs)-1].(*ssa.If)
	if !ok || a.Succs[0] == a.Succs[1] {
		return true
	}
	t := r.truth(fr, ifi.Cond)
	if t > 0 && a.Succs[1] == b {
		return false
	}
	if t < 0 && a.Succs[0] == b {
		return false
	}
	return true
}

// feasible: block b is reachable from the entry along edges that are feasible for this token.
func (r *a7Run) feasible(fr *frame, b *ssa.BasicBlock) bool {
	key := fmt.Sprintf("%p", fr)
	_ = key
	if fr.fn != b.Parent() {
		return true
	}
	reach := fr.reach(r)
	return reach[b]
}

var frameReach = map[*frame]map[*ssa.BasicBlock]bool{}
var frameReachBusy = map[*frame]bool{}

func (fr *frame) reach(r *a7Run) map[*ssa.BasicBlock]bool {
	if m, ok := frameReach[fr]; ok {
		return m
	}
	if frameReachBusy[fr] {
		// while computing: be permissive
		all := map[*ssa.BasicBlock]bool{}
		for _, b := range fr.fn.Blocks {
			all[b] = true
		}
		return all
	}
	frameReachBusy[fr] = true
	seen := map[*ssa.BasicBlock]bool{fr.fn.Blocks[0]: true}
	stack := []*ssa.BasicBlock{fr.fn.Blocks[0]}
	for len(stack) > 0 {
		b := stack[len(stack)-1]
		stack = stack[:len(stack)-1]
		for _, s := range b.Succs {
			if seen[s] || !r.edgeFeasible(fr, b, s) {
				continue
			}
			seen[s] = true
			stack = append(stack, s)
		}
	}
	delete(frameReachBusy, fr)
	frameReach[fr] = seen
	return seen
}

// impliedPresent: the assertion on v is dominated by a test that v is non-nil.
func impliedPresent(x *ssa.TypeAssert) bool {
	for _, rr := range referrers(x.X) {
		bo, ok := rr.(*ssa.BinOp)
		if !ok || (bo.Op != token.NEQ && bo.Op != token.EQL) {
			continue
		}
		isNil := func(v ssa.Value) bool { c, ok := v.(*ssa.Const); return ok && c.Value == nil }
		if !(isNil(bo.X) || isNil(bo.Y)) {
			continue
		}
		for _, r2 := range referrers(bo) {
			ifi, ok := r2.(*ssa.If)
			if !ok {
				continue
			}
			idx := 0
			if bo.Op == token.EQL {
				idx = 1
			}
			s := ifi.Block().Succs[idx]
			if len(s.Preds) == 1 && (s == x.Block() || s.Dominates(x.Block())) {
				return true
			}
		}
	}
	return false
}

// constsFor: the string constants the key variable kv is known to equal in block b.
func (r *a7Run) constsFor(fr *frame, kv ssa.Value, b *ssa.BasicBlock) (ks []string, ok bool) {
	set := map[string]bool{}
	seen := map[*ssa.BasicBlock]bool{}
	unconstrained := false
	var walk func(b *ssa.BasicBlock)
	walk = func(b *ssa.BasicBlock) {
		if seen[b] {
			return
		}
		seen[b] = true
		if len(b.Preds) == 0 {
			unconstrained = true
			return
		}
		for _, pr := range b.Preds {
			if ifi, isIf := pr.Instrs[len(pr.Instrs)-1].(*ssa.If); isIf {
				if bo, isB := ifi.Cond.(*ssa.BinOp); isB && bo.Op == token.EQL && pr.Succs[0] == b && pr.Succs[1] != b {
					var cst string
					var has bool
					if bo.X == kv {
						cst, has = constString(bo.Y)
					} else if bo.Y == kv {
						cst, has = constString(bo.X)
					}
					if has {
						set[cst] = true
						continue
					}
				}
			}
			if in, isIn := kv.(ssa.Instruction); isIn && in.Block() == pr {
				unconstrained = true
				continue
			}
			walk(pr)
		}
	}
	walk(b)
	if unconstrained || len(set) == 0 {
		return nil, false
	}
	for k := range set {
		ks = append(ks, k)
	}
	sort.Strings(ks)
	return ks, true
}

// ---------------------------------------------------------------- per-token run

func (r *a7Run) site(key string, pos token.Pos, desc string, soft bool) *a7Site {
	s := r.sites[key]
	if s == nil {
		s = &a7Site{key: key, pos: pos, desc: desc, bad: map[string]string{}, soft: soft}
		r.sites[key] = s
	}
	return s
}

func (r *a7Run) newFrame(fn *ssa.Function, lex *frame, depth int) *frame {
	r.frames++
	return &frame{fn: fn, lex: lex, params: map[*ssa.Parameter]*Abs{}, env: map[ssa.Value]*Abs{}, busy: map[ssa.Value]bool{}, depth: depth}
}

func (r *a7Run) visit(fr *frame) {
	if len(fr.fn.Blocks) == 0 || fr.depth > 8 || r.frames > 600 {
		return
	}
	for _, b := range fr.fn.Blocks {
		if !r.feasible(fr, b) {
			continue
		}
		for _, in := range b.Instrs {
			switch x := in.(type) {
			case *ssa.TypeAssert:
				r.checkAssert(fr, x)
			case *ssa.Lookup:
				r.checkLookup(fr, x)
			case *ssa.MakeClosure:
				if f, ok := x.Fn.(*ssa.Function); ok {
					// eager visit: the closure may be called by code that passes nothing tracked
					r.visit(r.newFrame(f, fr, fr.depth+1))
				}
			case *ssa.Panic:
				r.checkKeySwitchPanic(fr, x)
			case ssa.CallInstruction:
				r.doCall(fr, x)
			}
		}
	}
}

func (r *a7Run) doCall(fr *frame, c ssa.CallInstruction) {
	com := c.Common()
	if call, ok := c.(*ssa.Call); ok {
		if ra := r.callResult(fr, call); ra != nil && ra.kind == aVal {
			r.noteLookup(fr, call.Pos(), ra, onlyAsserted(call))
		}
	}
	if r.c.M.Locks().handlerDynSites[c] {
		return
	}
	type target struct {
		fn  *ssa.Function
		lex *frame
	}
	var targets []target
	if g := com.StaticCallee(); g != nil {
		var lex *frame
		if mc, ok := com.Value.(*ssa.MakeClosure); ok {
			_ = mc
			lex = fr
		}
		targets = append(targets, target{g, lex})
	} else if !com.IsInvoke() {
		if fa := r.abs(fr, com.Value); fa != nil && fa.kind == aClosure {
			targets = append(targets, target{fa.fn, fa.lex})
		}
	}
	for _, t := range targets {
		g := t.fn
		if !r.c.InPkg(g) || len(g.Blocks) == 0 {
			continue
		}
		if g.Signature.Recv() != nil && typeName(g.Signature.Recv().Type()) == "orderedMap" {
			continue
		}
		if len(g.Params) != len(com.Args) {
			continue
		}
		nf := r.newFrame(g, t.lex, fr.depth+1)
		tracked := false
		sig := fnName(g)
		for i, a := range com.Args {
			aa := r.abs(fr, a)
			if aa == nil {
				sig += "|-"
				continue
			}
			if aa.kind == aKeyed {
				for j, b := range com.Args {
					if b == aa.keyVar {
						k := *aa
						k.keyVar, k.kvFr = g.Params[j], nf
						aa = &k
					}
				}
			}
			nf.params[g.Params[i]] = aa
			if aa.kind != aStr {
				tracked = true
			}
			sig += "|" + aa.String()
			if aa.kind == aVal || aa.kind == aBlock {
				sig += fmt.Sprintf("%p", aa.desc) + fmt.Sprintf("%p", aa.blk)
			}
		}
		if !tracked {
			continue
		}
		// the same callee with the same abstract arguments needs one visit only
		if r.visited[sig] {
			continue
		}
		r.visited[sig] = true
		r.visit(nf)
	}
}

// onlyAsserted: every use of the looked-up value is a type assertion (then the assertion site reports).
func onlyAsserted(v ssa.Value) bool {
	n := 0
	for _, rr := range referrers(v) {
		switch x := rr.(type) {
		case *ssa.TypeAssert:
			n++
		case *ssa.Extract:
			for _, r2 := range referrers(x) {
				if _, ok := r2.(*ssa.TypeAssert); ok {
					n++
				} else if _, isDbg := r2.(*ssa.DebugRef); !isDbg {
					return false
				}
			}
		case *ssa.DebugRef:
		default:
			return false
		}
	}
	return n > 0
}

func (r *a7Run) noteLookup(fr *frame, pos token.Pos, a *Abs, asserted bool) {
	if a.key == "<element>" || asserted {
		return
	}
	s := r.site(fmt.Sprintf("%s:has[%s]", fnName(fr.fn), quote(a.key)), pos, "presence test / lookup of key "+quote(a.key), true)
	if a.desc == nil {
		s.bad[r.tok] = "the parser never produces this key"
	} else {
		s.softOK = true
		s.good = append(s.good, r.tok)
	}
}

func (r *a7Run) checkLookup(fr *frame, x *ssa.Lookup) {
	a := r.abs(fr, x)
	if a == nil || a.kind != aVal {
		return
	}
	r.noteLookup(fr, x.Pos(), a, onlyAsserted(x))
}

func (r *a7Run) checkAssert(fr *frame, x *ssa.TypeAssert) {
	src := r.abs(fr, x.X)
	if src == nil {
		return
	}
	fn := fr.fn
	T := typeString(x.AssertedType)
	form := ""
	if x.CommaOk {
		form = ",ok"
	}
	switch src.kind {
	case aConflict:
		s := r.site(fmt.Sprintf("%s:?.(%s)%s", fnName(fn), T, form), x.Pos(), "assertion on a value the analysis cannot attribute to one grammar node", false)
		s.bad[r.tok] = "undecidable: the operand denotes different things on different paths"
	case aVal:
		key := fmt.Sprintf("%s:%s[%s].(%s)%s", fnName(fn), src.of, src.key, T, form)
		if src.key == "<element>" {
			key = fmt.Sprintf("%s:<element of %s>.(%s)%s", fnName(fn), elemOwner(src.desc), T, form)
		}
		s := r.site(key, x.Pos(), fmt.Sprintf("%s[%s].(%s)", src.of, quote(src.key), T), x.CommaOk)
		d := src.desc
		switch {
		case d == nil:
			s.bad[r.tok] = "key cannot be produced for this command"
		case d.GoType != T:
			s.bad[r.tok] = fmt.Sprintf("parser stores %s, handler asserts %s", d.GoType, T)
		case !x.CommaOk && !d.Always && !impliedPresent(x):
			s.bad[r.tok] = "argument is optional but the single-result (panicking) assertion is used"
		default:
			s.good = append(s.good, r.tok)
			s.softOK = true
		}
	case aKeyed:
		kvFr := src.kvFr
		if kvFr == nil {
			kvFr = fr
		}
		var ks []string
		ok := false
		if kvFr.fn == x.Parent() {
			ks, ok = r.constsFor(fr, src.keyVar, x.Block())
		}
		key := fmt.Sprintf("%s:<value under %s>.(%s)%s", fnName(fn), strings.Join(ks, "|"), T, form)
		s := r.site(key, x.Pos(), fmt.Sprintf("value under key %v asserted to %s", ks, T), x.CommaOk)
		if !ok {
			if !x.CommaOk {
				s.bad[r.tok] = "assertion on a ranged value that is not dominated by a comparison of the key with constants"
			} else {
				s.softOK = true
			}
			return
		}
		table := r.keysOfMap(src.of)
		for _, k := range ks {
			d := table[k]
			if d == nil {
				continue
			}
			okType := false
			if src.valOK && d.GoType == T {
				okType = true
			}
			if src.elemOK && d.GoType == "[]any" && d.Elem != nil && d.Elem.GoType == T {
				okType = true
			}
			if !okType && !x.CommaOk {
				s.bad[r.tok] = fmt.Sprintf("under key %s the parser stores %s, handler asserts %s", quote(k), d, T)
			}
			if okType {
				s.softOK = true
				s.good = append(s.good, r.tok)
			}
		}
	}
}

// checkKeySwitchPanic: a panic in the default arm of a switch over a key variable: every producible
// key must be one of the case constants.
func (r *a7Run) checkKeySwitchPanic(fr *frame, pn *ssa.Panic) {
	// collect EQL comparisons of a key variable whose false edges lead here
	b := pn.Block()
	consts := map[string]bool{}
	var kv ssa.Value
	seen := map[*ssa.BasicBlock]bool{}
	cur := b
	for cur != nil && !seen[cur] {
		seen[cur] = true
		if len(cur.Preds) != 1 {
			break
		}
		pr := cur.Preds[0]
		ifi, ok := pr.Instrs[len(pr.Instrs)-1].(*ssa.If)
		if !ok || pr.Succs[1] != cur {
			break
		}
		bo, ok := ifi.Cond.(*ssa.BinOp)
		if !ok || bo.Op != token.EQL {
			break
		}
		var side ssa.Value
		var cst string
		var has bool
		if cst, has = constString(bo.Y); has {
			side = bo.X
		} else if cst, has = constString(bo.X); has {
			side = bo.Y
		}
		if !has {
			break
		}
		if kv == nil {
			kv = side
		}
		if side != kv {
			break
		}
		consts[cst] = true
		cur = pr
	}
	if kv == nil {
		return
	}
	ka := r.abs(fr, kv)
	if ka == nil || ka.kind != aKey || !isMapAbs(ka.of) {
		return
	}
	id := fnName(fr.fn) + ":switch-default-panic"
	ksw := r.keySwitches[id]
	if ksw == nil {
		ksw = &keySwitch{fn: fr.fn, pos: pn.Pos(), consts: consts, miss: map[string][]string{}}
		r.keySwitches[id] = ksw
	}
	for _, k := range sortedKeys(r.keysOfMap(ka.of)) {
		if !consts[k] {
			ksw.miss[r.tok] = append(ksw.miss[r.tok], k)
		}
	}
}

func elemOwner(d *ValDesc) string {
	if d != nil && d.Arg != nil {
		return d.Arg.Name
	}
	return "?"
}

// ---------------------------------------------------------------- the rule

const textA7 = "A7 (handler ↔ grammar): every type assertion on a value taken from a command's args (directly, in helpers, in blocks, in elements of multiple arguments, or under a key switch over `range args`) agrees with what the grammar-driven parser stores for every command token whose args reach it: the single-result form needs a mandatory argument of exactly that Go type (or a dominating nil test); the comma-ok form and presence tests need at least one token that can produce the key with that type (otherwise the option is silently dead); a panic in the default arm of a key switch needs a case for every producible key"

type a7Merged struct {
	sites    map[string]*a7Site
	order    []string
	switches map[string]*keySwitch
	errs     []string
	tokens   int
}

var a7Cache = map[*Models]*a7Merged{}

func (m *Models) a7(c *Ctx) *a7Merged {
	if r, ok := a7Cache[m]; ok {
		return r
	}
	out := &a7Merged{sites: map[string]*a7Site{}, switches: map[string]*keySwitch{}}
	a7Cache[m] = out
	g, err := m.Grammar()
	if err != nil {
		out.errs = append(out.errs, "grammar: "+err.Error())
		return out
	}
	hs, err := m.Handlers()
	if err != nil {
		out.errs = append(out.errs, "handlers: "+err.Error())
		return out
	}
	toks, _ := m.HandlerTokens()
	for _, tok := range toks {
		if g.Cmds[tok] == nil {
			continue
		}
		h := hs[tok]
		if len(h.Params) != 2 {
			out.errs = append(out.errs, "handler "+fnName(h)+" does not have (ctx, args) parameters")
			continue
		}
		out.tokens++
		r := &a7Run{c: c, g: g, tok: tok, top: g.TopKeys(tok), sites: map[string]*a7Site{}, visited: map[string]bool{},
			keySwitches: out.switches,
			fCtxArgs:    c.Field("cmdContext", "args"), fOmM: c.Field("orderedMap", "m"), fOmOrder: c.Field("orderedMap", "order")}
		fr := r.newFrame(h, nil, 0)
		fr.params[h.Params[1]] = &Abs{kind: aRoot}
		r.visit(fr)
		for k, s := range r.sites {
			ms := out.sites[k]
			if ms == nil {
				ms = &a7Site{key: k, pos: s.pos, desc: s.desc, bad: map[string]string{}, soft: s.soft}
				out.sites[k] = ms
				out.order = append(out.order, k)
			}
			for t, why := range s.bad {
				ms.bad[t] = why
			}
			ms.good = append(ms.good, s.good...)
			ms.softOK = ms.softOK || s.softOK
		}
	}
	frameReach = map[*frame]map[*ssa.BasicBlock]bool{}
	sort.Strings(out.order)
	return out
}

// ruleA7 reports the sites located in functions selected by inScope (nil = all).
func ruleA7(inScope func(fn string) bool, floor int, hardOnly ...bool) func(*Ctx) {
	return func(c *Ctx) {
		c.S.Rule("A7-args", textA7, floor)
		res := c.M.a7(c)
		for _, e := range res.errs {
			c.S.Undecided("A7-args", "model:"+e, "-", e)
		}
		if g, err := c.M.Grammar(); err == nil {
			toks, _ := c.M.HandlerTokens()
			for _, tok := range toks {
				if g.Cmds[tok] == nil && inScope == nil {
					c.S.Bad("A7-args", "token:"+tok, c.Pos(c.M.handlerPos[tok]), "handler table names a command the embedded grammar does not define (addHandler panics at start-up)")
				}
			}
		}
		for _, k := range res.order {
			s := res.sites[k]
			fn := k[:strings.Index(k, ":")]
			if inScope != nil && !inScope(fn) {
				continue
			}
			pos := c.Pos(s.pos)
			uniq := map[string]bool{}
			for _, t := range s.good {
				uniq[t] = true
			}
			if s.soft && len(hardOnly) > 0 && hardOnly[0] {
				continue // dead options are a correctness matter of the command families, not a crash
			}
			if s.soft {
				if s.softOK {
					c.S.OK("A7-args", k, pos, fmt.Sprintf("%s: producible for %d token(s)", s.desc, len(uniq)))
				} else {
					c.S.Bad("A7-args", k, pos, fmt.Sprintf("%s: no command token whose args reach this site can produce it (%s) — the option is silently ignored", s.desc, firstWhy(s.bad)))
				}
				continue
			}
			if len(s.bad) == 0 {
				c.S.OK("A7-args", k, pos, fmt.Sprintf("%s: present and of that type for all %d token(s) that reach it", s.desc, len(uniq)))
			} else {
				c.S.Bad("A7-args", k, pos, fmt.Sprintf("%s panics for %s", s.desc, whyList(s.bad)))
			}
		}
		for _, id := range sortedKeys(res.switches) {
			ks := res.switches[id]
			if inScope != nil && !inScope(fnName(ks.fn)) {
				continue
			}
			if len(ks.miss) == 0 {
				c.S.OK("A7-args", id, c.Pos(ks.pos), fmt.Sprintf("default arm panics; all producible keys have a case (%d cases)", len(ks.consts)))
			} else {
				var parts []string
				for _, t := range sortedKeys(ks.miss) {
					parts = append(parts, t+": "+strings.Join(ks.miss[t], ","))
				}
				c.S.Bad("A7-args", id, c.Pos(ks.pos), "the default arm panics and these producible keys have no case — "+strings.Join(parts, "; "))
			}
		}
	}
}

func firstWhy(m map[string]string) string {
	for _, k := range sortedKeys(m) {
		return k + ": " + m[k]
	}
	return ""
}

func whyList(m map[string]string) string {
	var parts []string
	for _, k := range sortedKeys(m) {
		parts = append(parts, k+" ("+m[k]+")")
	}
	if len(parts) > 6 {
		parts = append(parts[:6], fmt.Sprintf("… %d more", len(parts)-6))
	}
	return strings.Join(parts, "; ")
}
