#!/usr/bin/env python3
"""Writes selftest/fix-<commit>.diff (the diff of each recorded fix: commit, non-test Go files only) so that the
self-test battery can re-introduce the defect by applying it in reverse to a scratch copy."""
import json, subprocess, os
k = json.load(open('/verif/known_findings.json'))
seen = set()
for f in k['fixed']:
    c = f['commit']
    if c in seen:
        continue
    seen.add(c)
    d = subprocess.run(['git', '-C', '/repo', 'show', '--format=', c, '--', '*.go', ':!*_test.go'], capture_output=True, text=True).stdout
    p = f'/verif/selftest/fix-{c}.diff'
    if os.path.exists(f'/verif/selftest/reintro-{c}.diff') or os.path.exists(p):
        continue  # existing variants are kept (some were adjusted by hand after later commits touched the same lines)
    if d.strip():
        open(p, 'w').write(d)
print(len(seen), 'commits')
