package main

// R-typed-nil: results of the typed payload accessors (nil for a key of another type) are nil-tested
// before they are dereferenced — the WRONGTYPE discipline. Edge-sensitive nilness, interprocedural
// through functions that hand an accessor's result on.

import (
	"fmt"
	"go/token"
	"go/types"

	"golang.org/x/tools/go/ssa"
)

const textTypedNil = "R-typed-nil: a value obtained from a typed payload accessor (getList/getHashTable/getSet return nil for a key holding another type), directly or through a function that passes it on, is dereferenced (field access, method call on it, element access) only where a nil test on that value guarantees it is non-nil — otherwise a command applied to a key of the wrong type crashes the process instead of answering WRONGTYPE"

type nilModel struct {
	c        *Ctx
	accessor map[*ssa.Function]bool         // methods on storeKey that return nil on the type-mismatch branch
	nilRet   map[*ssa.Function]map[int]bool // function -> result indexes that may be nil although derived from an accessor
}

func isNilConst(v ssa.Value) bool {
	c, ok := v.(*ssa.Const)
	return ok && c.Value == nil
}

// nilTestEdge: if b ends in `if v == nil` / `if v != nil`, returns the successor on which v is non-nil.
func nonNilSucc(b *ssa.BasicBlock, v ssa.Value) *ssa.BasicBlock {
	ifi, ok := b.Instrs[len(b.Instrs)-1].(*ssa.If)
	if !ok {
		return nil
	}
	return nonNilSuccOfCond(b, ifi.Cond, v)
}

func nonNilSuccOfCond(b *ssa.BasicBlock, cond ssa.Value, v ssa.Value) *ssa.BasicBlock {
	// a helper that answers "was there an error" (`if listErrorReply(&output, err) { return }`): true iff its
	// argument is non-nil
	if call, isCall := cond.(*ssa.Call); isCall {
		if g := call.Call.StaticCallee(); g != nil {
			if idx, ok := nonNilPredicate(g); ok && idx < len(call.Call.Args) && sameNilSubject(call.Call.Args[idx], v) {
				return b.Succs[0]
			}
		}
		return nil
	}
	bo, ok := cond.(*ssa.BinOp)
	if !ok || (bo.Op != token.EQL && bo.Op != token.NEQ) {
		return nil
	}
	if !((sameNilSubject(bo.X, v) && isNilConst(bo.Y)) || (sameNilSubject(bo.Y, v) && isNilConst(bo.X))) {
		return nil
	}
	if bo.Op == token.EQL {
		return b.Succs[1]
	}
	return b.Succs[0]
}

var nonNilPredMemo = map[*ssa.Function]int{}

// nonNilPredicate: g has one boolean result, and that result is true exactly when its pointer parameter idx is non-nil
// (the only branches on the way to a return test that parameter against nil).
func nonNilPredicate(g *ssa.Function) (int, bool) {
	if v, ok := nonNilPredMemo[g]; ok {
		return v, v >= 0
	}
	nonNilPredMemo[g] = -1
	if len(g.Blocks) == 0 || g.Signature.Results().Len() != 1 {
		return -1, false
	}
	if b, ok := g.Signature.Results().At(0).Type().Underlying().(*types.Basic); !ok || b.Kind() != types.Bool {
		return -1, false
	}
	for idx, p := range g.Params {
		if _, isPtr := p.Type().Underlying().(*types.Pointer); !isPtr {
			continue
		}
		eval := func(assumeNil bool) (bool, bool) {
			blk, prev := g.Blocks[0], (*ssa.BasicBlock)(nil)
			for steps := 0; steps < 32; steps++ {
				switch t := blk.Instrs[len(blk.Instrs)-1].(type) {
				case *ssa.Return:
					r := t.Results[0]
					if phi, ok := r.(*ssa.Phi); ok && phi.Block() == blk && prev != nil {
						for i, pb := range blk.Preds {
							if pb == prev {
								r = phi.Edges[i]
							}
						}
					}
					if k, ok := r.(*ssa.Const); ok && k.Value != nil {
						return k.Value.String() == "true", true
					}
					return false, false
				case *ssa.If:
					nn := nonNilSuccOfCond(blk, t.Cond, p)
					if nn == nil {
						return false, false
					}
					next := nn
					if assumeNil {
						next = blk.Succs[0]
						if next == nn {
							next = blk.Succs[1]
						}
					}
					prev, blk = blk, next
				case *ssa.Jump:
					prev, blk = blk, blk.Succs[0]
				default:
					return false, false
				}
			}
			return false, false
		}
		whenNil, ok1 := eval(true)
		whenSet, ok2 := eval(false)
		if ok1 && ok2 && !whenNil && whenSet {
			nonNilPredMemo[g] = idx
			return idx, true
		}
	}
	return -1, false
}

// singleStoreCell: the local variable cell a load reads from, when that variable is assigned exactly once (a variable
// captured by a closure lives in a cell and is re-loaded at every use); with the value stored.
func singleStoreCell(v ssa.Value) (*ssa.Alloc, ssa.Value) {
	u, ok := v.(*ssa.UnOp)
	if !ok || u.Op != token.MUL {
		return nil, nil
	}
	al, ok := u.X.(*ssa.Alloc)
	if !ok {
		return nil, nil
	}
	var val ssa.Value
	n := 0
	for _, r := range referrers(al) {
		if st, ok := r.(*ssa.Store); ok && st.Addr == ssa.Value(al) {
			n++
			val = st.Val
		}
	}
	if n != 1 {
		return nil, nil
	}
	return al, val
}

// sameNilSubject: the two values are the same pointer for the purpose of a nil test — identical, or two loads of one
// local variable that is assigned once, or such a load and the value that was assigned.
func sameNilSubject(a, b ssa.Value) bool {
	if a == b {
		return true
	}
	ca, va := singleStoreCell(a)
	cb, vb := singleStoreCell(b)
	switch {
	case ca != nil && cb != nil:
		return ca == cb
	case ca != nil:
		return va == b
	case cb != nil:
		return vb == a
	}
	return false
}

// knownNonNilIn: v is guaranteed non-nil in block blk by a dominating nil test (also through the
// short-circuit forms `v == nil || ...` / `v != nil && ...`).
func knownNonNilIn(v ssa.Value, blk *ssa.BasicBlock) bool {
	fn := blk.Parent()
	for _, d := range fn.Blocks {
		s := nonNilSucc(d, v)
		if s == nil {
			continue
		}
		// the non-nil successor must be entered only through that edge
		if len(s.Preds) == 1 && (s == blk || s.Dominates(blk)) {
			return true
		}
		// `if v == nil || cond { bail }`: both tests jump to the same bail block; the continuation block is
		// dominated by the non-nil successor of the first test through the second test
		if len(s.Preds) == 1 {
			continue
		}
		// s has several preds (join). accept when every predecessor edge into s implies non-nil — rare; skip
	}
	return false
}

func (nm *nilModel) nilableSource(v ssa.Value, seen map[ssa.Value]bool) bool {
	if seen[v] {
		return false
	}
	seen[v] = true
	switch x := v.(type) {
	case *ssa.Const:
		return x.Value == nil
	case *ssa.Call:
		for _, g := range nm.c.CalleesData(x) {
			if nm.accessor[g] || nm.nilRet[g][0] {
				return true
			}
		}
		return false
	case *ssa.Extract:
		if call, ok := x.Tuple.(*ssa.Call); ok {
			for _, g := range nm.c.CalleesData(call) {
				if nm.nilRet[g][x.Index] {
					return true
				}
			}
		}
		return false
	case *ssa.Phi:
		for i, e := range x.Edges {
			pred := x.Block().Preds[i]
			if !nm.nilableSource(e, seen) {
				continue
			}
			if isNilConst(e) {
				return true
			}
			// non-nil on this edge?
			if s := nonNilSucc(pred, e); s != nil && s == x.Block() {
				continue
			}
			if knownNonNilIn(e, pred) || nm.statusGuaranteesOnEdge(e, pred, x.Block()) {
				continue
			}
			return true
		}
		return false
	case *ssa.UnOp:
		if x.Op == token.MUL {
			if al, ok := x.X.(*ssa.Alloc); ok {
				for _, rr := range referrers(al) {
					if st, ok := rr.(*ssa.Store); ok && st.Addr == al && nm.nilableSource(st.Val, seen) {
						if !knownNonNilIn(st.Val, st.Block()) {
							return true
						}
					}
				}
			}
		}
		return false
	}
	return false
}

func ruleTypedNil(c *Ctx) {
	c.S.Rule("R-typed-nil", textTypedNil, 30)
	p := c.Prog
	nm := &nilModel{c: c, accessor: map[*ssa.Function]bool{}, nilRet: map[*ssa.Function]map[int]bool{}}
	isAgg := func(t types.Type) bool { return p.isPkgType(t, "storeList") || p.isPkgType(t, "redisDict") }
	for _, fn := range c.SrcFuncs() {
		if fn.Signature.Recv() == nil || !p.isPkgType(fn.Signature.Recv().Type(), "storeKey") || fn.Signature.Results().Len() != 1 {
			continue
		}
		if !isAgg(fn.Signature.Results().At(0).Type()) {
			continue
		}
		for _, b := range fn.Blocks {
			if ret, ok := b.Instrs[len(b.Instrs)-1].(*ssa.Return); ok && isNilConst(ret.Results[0]) {
				nm.accessor[fn] = true
			}
		}
	}
	if len(nm.accessor) < 3 {
		c.S.Undecided("R-typed-nil", "accessors", "-", fmt.Sprintf("only %d typed payload accessors with a nil branch found", len(nm.accessor)))
		return
	}
	// functions that pass a nilable aggregate on
	for changed := true; changed; {
		changed = false
		for _, fn := range c.SrcFuncs() {
			if nm.accessor[fn] {
				continue
			}
			res := fn.Signature.Results()
			for i := 0; i < res.Len(); i++ {
				if !isAgg(res.At(i).Type()) || nm.nilRet[fn][i] {
					continue
				}
				for _, b := range fn.Blocks {
					ret, ok := b.Instrs[len(b.Instrs)-1].(*ssa.Return)
					if !ok || i >= len(ret.Results) {
						continue
					}
					v := ret.Results[i]
					// a nil that travels together with a non-nil error result is the callee's way of reporting
					// failure; callers test the error (WRONGTYPE) — not this rule's business
					withErr := false
					for j, o := range ret.Results {
						if j == i {
							continue
						}
						switch o.Type().Underlying().(type) {
						case *types.Pointer, *types.Interface:
							if !isAgg(o.Type()) && (knownNonNilIn(o, b) || sameBlockGuardBlock(o, b)) {
								withErr = true
							}
						case *types.Basic:
							// a failure flag known to be set on this path (`d, wrongType := helper(); if wrongType { return }`)
							for x := b; x != nil && x.Idom() != nil; x = x.Idom() {
								dd := x.Idom()
								if ifi, isIf := dd.Instrs[len(dd.Instrs)-1].(*ssa.If); isIf && ifi.Cond == o && len(dd.Succs) == 2 {
									if s0 := dd.Succs[0]; (s0 == x || s0.Dominates(x)) && len(s0.Preds) == 1 {
										withErr = true
									}
								}
							}
							// a failure flag set beside the nil (`wrongType = true; return`)
							for _, leaf := range phiLeaves(o, map[ssa.Value]bool{}) {
								if k, ok := leaf.(*ssa.Const); ok && k.Value != nil && k.Value.String() == "true" && len(phiLeaves(o, map[ssa.Value]bool{})) == 1 {
									withErr = true
								}
							}
						}
					}
					if withErr {
						continue
					}
					// an explicit nil without a failure report beside it (`return nil, nil` for a missing key) is the same
					// nilable result as a named result left at its zero value
					if isNilConst(v) || (nm.nilableSource(v, map[ssa.Value]bool{}) && !knownNonNilIn(v, b)) {
						if nm.nilRet[fn] == nil {
							nm.nilRet[fn] = map[int]bool{}
						}
						nm.nilRet[fn][i] = true
						changed = true
					}
				}
			}
		}
	}
	// dereferences
	for _, fn := range c.SrcFuncs() {
		ord := map[string]int{}
		report := func(v ssa.Value, at ssa.Instruction, how string) {
			if !isAgg(v.Type()) {
				return
			}
			if _, isPtr := v.Type().Underlying().(*types.Pointer); !isPtr {
				return
			}
			if !nm.nilableSource(v, map[ssa.Value]bool{}) {
				return
			}
			name := typeName(v.Type())
			ord[name+how]++
			key := fmt.Sprintf("%s:%s %s#%d", fnName(fn), how, name, ord[name+how])
			if knownNonNilIn(v, at.Block()) || sameBlockGuard(v, at) {
				c.S.OK("R-typed-nil", key, c.Pos(c.InstrPos(at)), "dominated by a nil test on the accessor result")
			} else if nm.statusGuarantees(v, at.Block()) || nm.pathProvesNonNil(fn, v, at) {
				c.S.OK("R-typed-nil", key, c.Pos(c.InstrPos(at)), "the lookup helper returns a non-nil aggregate whenever its status result has the value established on this path")
			} else {
				c.S.Bad("R-typed-nil", key, c.Pos(c.InstrPos(at)), fmt.Sprintf("%s dereferences a %s that comes from a typed accessor (nil when the key holds another type) without a dominating nil test: a wrong-typed key crashes the process", fnName(fn), name))
			}
		}
		for _, in := range instrsOf(fn) {
			switch x := in.(type) {
			case *ssa.FieldAddr:
				report(x.X, x, "field of")
			case *ssa.Call:
				cal := x.Call.StaticCallee()
				if cal != nil && cal.Signature.Recv() != nil && len(x.Call.Args) > 0 && isAgg(cal.Signature.Recv().Type()) {
					report(x.Call.Args[0], x, "method on")
				}
			}
		}
	}
}

func sameBlockGuardBlock(v ssa.Value, b *ssa.BasicBlock) bool {
	if len(b.Instrs) == 0 {
		return false
	}
	return sameBlockGuard(v, b.Instrs[0])
}

// sameBlockGuard: handles `if v == nil { ...; return }` followed by the use in the fall-through block
// when that block has several predecessors but all of them imply v != nil (common `||` chains).
func sameBlockGuard(v ssa.Value, at ssa.Instruction) bool {
	blk := at.Block()
	// every path from entry to blk must pass a non-nil edge of a test on v: search backwards, stopping at such edges
	seen := map[*ssa.BasicBlock]bool{}
	var walk func(b *ssa.BasicBlock) bool
	walk = func(b *ssa.BasicBlock) bool {
		if seen[b] {
			return true
		}
		seen[b] = true
		if len(b.Preds) == 0 {
			return false
		}
		for _, pr := range b.Preds {
			if s := nonNilSucc(pr, v); s != nil {
				if s == b {
					continue // arrived through the non-nil edge
				}
				return false // arrived through the nil edge
			}
			// is v defined in pr? then paths above do not matter
			if in, ok := v.(ssa.Instruction); ok && in.Block() == pr {
				return false
			}
			if !walk(pr) {
				return false
			}
		}
		return true
	}
	return walk(blk)
}

// ---------------------------------------------------------------- (aggregate, status) lookup helpers

type nnCond struct {
	j int   // index of the status result
	k int64 // its value (bool: 1 = true, 0 = false)
}

var nonNilWhenMemo = map[string][]nnCond{}
var statusValuesMemo = map[string]map[int]uint32{} // helper#i -> result j -> set of constants it returns there

func constStatus(v ssa.Value) (int64, bool) {
	k, ok := v.(*ssa.Const)
	if !ok || k.Value == nil {
		return 0, false
	}
	switch k.Value.Kind().String() {
	case "Bool":
		if k.Value.String() == "true" {
			return 1, true
		}
		return 0, true
	case "Int":
		return k.Int64(), true
	}
	return 0, false
}

// nonNilWhen: the conditions (result j == k) under which result i of g is certainly non-nil, judged over every return
// of g (per incoming edge when the returned values are phis of the return block).
func (nm *nilModel) nonNilWhen(g *ssa.Function, i int) []nnCond {
	key := fmt.Sprintf("%s#%d", fnName(g), i)
	if r, ok := nonNilWhenMemo[key]; ok {
		return r
	}
	nonNilWhenMemo[key] = nil
	res := g.Signature.Results()
	type occ struct{ all bool }
	seenOcc := map[nnCond]*occ{}
	unusable := map[int]bool{}
	for _, b := range g.Blocks {
		ret, ok := b.Instrs[len(b.Instrs)-1].(*ssa.Return)
		if !ok || i >= len(ret.Results) {
			continue
		}
		// cases: one per predecessor edge if a returned value is a phi of this block
		edges := []int{-1}
		for _, r := range ret.Results {
			if phi, ok := r.(*ssa.Phi); ok && phi.Block() == b {
				edges = nil
				for e := range b.Preds {
					edges = append(edges, e)
				}
				break
			}
		}
		for _, e := range edges {
			at := b
			val := func(v ssa.Value) ssa.Value {
				if phi, ok := v.(*ssa.Phi); ok && phi.Block() == b && e >= 0 {
					return phi.Edges[e]
				}
				return v
			}
			if e >= 0 {
				at = b.Preds[e]
			}
			vi := val(ret.Results[i])
			nonNil := !isNilConst(vi) && (!nm.nilableSource(vi, map[ssa.Value]bool{}) || knownNonNilIn(vi, at) || (e >= 0 && nonNilSucc(at, vi) == b))
			for j := 0; j < res.Len(); j++ {
				if j == i || j >= len(ret.Results) {
					continue
				}
				vj := val(ret.Results[j])
				var k int64
				switch rt := res.At(j).Type().Underlying().(type) {
				case *types.Basic:
					if rt.Info()&(types.IsInteger|types.IsBoolean) == 0 {
						continue
					}
					kk, isC := constStatus(vj)
					if !isC {
						unusable[j] = true
						continue
					}
					k = kk
				case *types.Pointer, *types.Interface:
					if isAggType(nm.c, res.At(j).Type()) {
						continue
					}
					// status "nil" (no error): definitely non-nil values do not count, anything else may be nil
					switch vj.(type) {
					case *ssa.Global, *ssa.Alloc, *ssa.MakeInterface, *ssa.FieldAddr:
						continue
					}
					k = -1
				default:
					continue
				}
				c := nnCond{j, k}
				if seenOcc[c] == nil {
					seenOcc[c] = &occ{all: true}
				}
				if !nonNil {
					seenOcc[c].all = false
				}
			}
		}
	}
	var out []nnCond
	vals := map[int]uint32{}
	for c, o := range seenOcc {
		if c.k >= 0 && c.k < 31 && !unusable[c.j] {
			vals[c.j] |= 1 << uint32(c.k)
		}
		if o.all && !unusable[c.j] {
			out = append(out, c)
		}
	}
	statusValuesMemo[key] = vals
	nonNilWhenMemo[key] = out
	return out
}

// statusGuarantees: v is result i of a call to a lookup helper, and on every path to blk a branch has established a value
// of another result of the same call under which the helper returns a non-nil aggregate.
func (nm *nilModel) statusGuarantees(v ssa.Value, blk *ssa.BasicBlock) bool {
	return nm.statusGuaranteesOnEdge(v, blk, nil)
}

// statusGuaranteesOnEdge: as statusGuarantees, additionally using the branch at the end of blk towards succ.
func (nm *nilModel) statusGuaranteesOnEdge(v ssa.Value, blk *ssa.BasicBlock, succ *ssa.BasicBlock) bool {
	ex, ok := v.(*ssa.Extract)
	if !ok {
		// a local cell holding the extract
		if u, ok := v.(*ssa.UnOp); ok {
			if al, ok := u.X.(*ssa.Alloc); ok {
				for _, r := range referrers(al) {
					if st, ok := r.(*ssa.Store); ok && st.Addr == ssa.Value(al) {
						if ex2, ok := st.Val.(*ssa.Extract); ok {
							ex = ex2
						}
					}
				}
			}
		}
		if ex == nil {
			return false
		}
	}
	call, ok := ex.Tuple.(*ssa.Call)
	if !ok {
		return false
	}
	g := call.Call.StaticCallee()
	if g == nil || !nm.c.InPkg(g) {
		return false
	}
	fn := blk.Parent()
	// all return cases of the helper consistent with the branches that dominate this point return a non-nil aggregate
	domAllows := nm.domAllows(blk, succ)
	if nm.nonNilByCases(call, ex.Index, domAllows) {
		return true
	}
	for _, cnd := range nm.nonNilWhen(g, ex.Index) {
		// the extract of result j
		var vj ssa.Value
		for _, r := range referrers(call) {
			if e2, ok := r.(*ssa.Extract); ok && e2.Index == cnd.j {
				vj = e2
			}
		}
		if vj == nil {
			continue
		}
		kind := "enum"
		if b, ok := vj.Type().Underlying().(*types.Basic); ok && b.Kind() == types.Bool {
			kind = "bool"
		}
		if cnd.k == -1 {
			// "result j is nil": established by the nil side of a nil test on it
			if knownNilOnEveryPath(vj, blk) {
				return true
			}
			continue
		}
		d := statusDomain{all: 0xff, kind: kind}
		want := uint32(1) << uint32(cnd.k)
		if kind == "bool" {
			d.all = 3
		} else if vs := statusValuesMemo[fmt.Sprintf("%s#%d", fnName(g), ex.Index)][cnd.j]; vs != 0 {
			d.all = vs // the helper only ever returns these constants in that position
		}
		m := d.all
		if succ != nil {
			if ifi, ok := blk.Instrs[len(blk.Instrs)-1].(*ssa.If); ok {
				for si, s2 := range blk.Succs {
					if s2 == succ {
						m = refineStatus(ifi.Cond, vj, d, m, si)
					}
				}
			}
		}
		for _, dblk := range fn.Blocks {
			ifi, ok := dblk.Instrs[len(dblk.Instrs)-1].(*ssa.If)
			if !ok || dblk == blk || !dblk.Dominates(blk) {
				continue
			}
			for si, s := range dblk.Succs {
				if len(s.Preds) == 1 && (s == blk || s.Dominates(blk)) {
					m = refineStatus(ifi.Cond, vj, d, m, si)
				}
			}
		}
		if m == want {
			return true
		}
	}
	return false
}

func isAggType(c *Ctx, t types.Type) bool {
	return c.isPkgType(t, "storeList") || c.isPkgType(t, "redisDict")
}

// knownNilOnEveryPath: blk is dominated by the nil side of a nil test on v.
func knownNilOnEveryPath(v ssa.Value, blk *ssa.BasicBlock) bool {
	fn := blk.Parent()
	for _, d := range fn.Blocks {
		s := nonNilSucc(d, v)
		if s == nil {
			continue
		}
		nilSide := d.Succs[0]
		if nilSide == s {
			nilSide = d.Succs[1]
		}
		if len(nilSide.Preds) == 1 && (nilSide == blk || nilSide.Dominates(blk)) {
			return true
		}
	}
	return false
}

// pathProvesNonNil: on every feasible path from the entry of fn to the use, the facts of the path prove v non-nil.
func (nm *nilModel) pathProvesNonNil(fn *ssa.Function, v ssa.Value, at ssa.Instruction) bool {
	if len(fn.Blocks) == 0 || len(fn.Blocks) > 120 {
		return false
	}
	n := 0
	ok := explorePaths(fn, at, func(pf *pathFacts) bool {
		n++
		return nm.nonNilOnPath(pf, v, 0)
	})
	return ok && n > 0
}

func (nm *nilModel) nonNilOnPath(pf *pathFacts, v ssa.Value, depth int) bool {
	if depth > 4 {
		return false
	}
	r := pf.resolve(v)
	if isNilConst(r) {
		return false
	}
	if pf.nilness[r] == 1 {
		return true
	}
	if pf.nilness[r] == -1 {
		return false
	}
	if !nm.nilableSource(r, map[ssa.Value]bool{}) {
		return true
	}
	// a local cell
	if u, ok := r.(*ssa.UnOp); ok && u.Op == token.MUL {
		if al, ok := u.X.(*ssa.Alloc); ok {
			for _, rr := range referrers(al) {
				if st, ok := rr.(*ssa.Store); ok && st.Addr == ssa.Value(al) {
					if !nm.nonNilOnPath(pf, st.Val, depth+1) {
						return false
					}
				}
			}
			return true
		}
	}
	ex, ok := r.(*ssa.Extract)
	if !ok {
		return false
	}
	call, ok := ex.Tuple.(*ssa.Call)
	if !ok {
		return false
	}
	g := call.Call.StaticCallee()
	if g == nil || !nm.c.InPkg(g) {
		return false
	}
	pathAllows := func(j int, e2 *ssa.Extract, val int64) bool {
		if val == -1 {
			return pf.nilness[e2] != 1
		}
		if val == -2 {
			return pf.nilness[e2] != -1
		}
		if bt, ok := e2.Type().Underlying().(*types.Basic); ok && bt.Kind() == types.Bool {
			if t, known := pf.truth[e2]; known {
				return t == (val == 1)
			}
			return true
		}
		if pf.hasEq[e2] {
			return pf.eq[e2] == val
		}
		return !pf.ne[e2][val]
	}
	if nm.nonNilByCases(call, ex.Index, pathAllows) {
		return true
	}
	for _, cnd := range nm.nonNilWhen(g, ex.Index) {
		for _, rr := range referrers(call) {
			e2, ok := rr.(*ssa.Extract)
			if !ok || e2.Index != cnd.j {
				continue
			}
			if cnd.k == -1 {
				if pf.nilness[e2] == -1 {
					return true
				}
				continue
			}
			if bt, ok := e2.Type().Underlying().(*types.Basic); ok && bt.Kind() == types.Bool {
				if t, known := pf.truth[e2]; known && t == (cnd.k == 1) {
					return true
				}
				continue
			}
			if pf.hasEq[e2] && pf.eq[e2] == cnd.k {
				return true
			}
			// all other values the helper can return have been excluded on this path
			if vs := statusValuesMemo[fmt.Sprintf("%s#%d", fnName(g), ex.Index)][cnd.j]; vs != 0 {
				left := vs
				for k := range pf.ne[e2] {
					if k >= 0 && k < 31 {
						left &^= 1 << uint32(k)
					}
				}
				if left == 1<<uint32(cnd.k) {
					return true
				}
			}
		}
	}
	return false
}

// ---------------------------------------------------------------- return cases of lookup helpers

// retCase: one way a helper can return — the nilness of the aggregate result and the values of its status results
// (integers / booleans as constants, pointers as -1 = nil, -2 = certainly non-nil; unknown values are absent).
type retCase struct {
	nilness int // -1 nil, +1 non-nil
	st      map[int]int64
}

var retCasesMemo = map[string][]retCase{}

func (nm *nilModel) retCases(g *ssa.Function, i int) []retCase {
	key := fmt.Sprintf("%s#%d", fnName(g), i)
	if r, ok := retCasesMemo[key]; ok {
		return r
	}
	retCasesMemo[key] = nil
	res := g.Signature.Results()
	var out []retCase
	for _, b := range g.Blocks {
		ret, ok := b.Instrs[len(b.Instrs)-1].(*ssa.Return)
		if !ok || i >= len(ret.Results) {
			continue
		}
		edges := []int{-1}
		if len(b.Preds) > 1 {
			edges = nil
			for e := range b.Preds {
				edges = append(edges, e)
			}
		}
		for _, e := range edges {
			at := b
			val := func(v ssa.Value) ssa.Value {
				if phi, ok := v.(*ssa.Phi); ok && phi.Block() == b && e >= 0 {
					return phi.Edges[e]
				}
				return v
			}
			if e >= 0 {
				at = b.Preds[e]
			}
			vi := val(ret.Results[i])
			// the aggregate is handed on from another helper: compose with that helper's cases that are consistent
			// with the branches leading to this return
			if ex0, ok := vi.(*ssa.Extract); ok {
				if hc, ok := ex0.Tuple.(*ssa.Call); ok && hc.Call.StaticCallee() != nil && nm.c.InPkg(hc.Call.StaticCallee()) && hc.Call.StaticCallee() != g {
					h := hc.Call.StaticCallee()
					var succB *ssa.BasicBlock
					if e >= 0 {
						succB = b
					}
					allows := nm.domAllows(at, succB)
					exOf := map[int]*ssa.Extract{}
					for _, rr := range referrers(hc) {
						if e2, ok := rr.(*ssa.Extract); ok {
							exOf[e2.Index] = e2
						}
					}
					composed := false
					for _, hcase := range nm.retCases(h, ex0.Index) {
						consistent := true
						for j2, k2 := range hcase.st {
							if e2 := exOf[j2]; e2 != nil && !allows(j2, e2, k2) {
								consistent = false
							}
						}
						// … and with what the branches say about the aggregate itself
						if hcase.nilness == -1 && (knownNonNilIn(vi, at) || (e >= 0 && nonNilSucc(at, vi) == b)) {
							consistent = false
						}
						if hcase.nilness == 1 && (knownNilOnEveryPath(vi, at) || (e >= 0 && nonNilSucc(at, vi) != nil && nonNilSucc(at, vi) != b)) {
							consistent = false
						}
						if !consistent {
							continue
						}
						composed = true
						c := retCase{nilness: hcase.nilness, st: map[int]int64{}}
						for j := 0; j < res.Len() && j < len(ret.Results); j++ {
							if j == i {
								continue
							}
							vj := val(ret.Results[j])
							if k, isC := constStatus(vj); isC {
								c.st[j] = k
							} else if isNilConst(vj) {
								c.st[j] = -1
							} else if e2, ok := vj.(*ssa.Extract); ok && e2.Tuple == ssa.Value(hc) {
								if k2, ok := hcase.st[e2.Index]; ok {
									c.st[j] = k2
								}
							}
						}
						out = append(out, c)
					}
					if composed {
						continue
					}
				}
			}
			nl := 0
			switch {
			case isNilConst(vi):
				nl = -1
			case !nm.nilableSource(vi, map[ssa.Value]bool{}) || knownNonNilIn(vi, at) || (e >= 0 && nonNilSucc(at, vi) == b):
				nl = 1
			case knownNilOnEveryPath(vi, at):
				nl = -1
			}
			base := retCase{nilness: nl, st: map[int]int64{}}
			// statuses; a status defined as (vi == nil) / (vi != nil) ties the two together
			tied := map[int]bool{} // j -> true: status is 1 exactly when vi is nil
			tiedNeg := map[int]bool{}
			for j := 0; j < res.Len() && j < len(ret.Results); j++ {
				if j == i {
					continue
				}
				vj := val(ret.Results[j])
				switch rt := res.At(j).Type().Underlying().(type) {
				case *types.Basic:
					if rt.Info()&(types.IsInteger|types.IsBoolean) == 0 {
						continue
					}
					if k, isC := constStatus(vj); isC {
						base.st[j] = k
					} else if t, known := dominatingTruths(at)[vj]; known && rt.Kind() == types.Bool {
						// a boolean handed on from a callee whose value is fixed by the branch that leads here
						if t {
							base.st[j] = 1
						} else {
							base.st[j] = 0
						}
					} else if e >= 0 && rt.Kind() == types.Bool && func() bool {
						// … or by the very edge into the return block
						ifi, ok := at.Instrs[len(at.Instrs)-1].(*ssa.If)
						if !ok {
							return false
						}
						cond, neg := ifi.Cond, false
						if u, isU := cond.(*ssa.UnOp); isU && u.Op == token.NOT {
							cond, neg = u.X, true
						}
						if cond != vj {
							return false
						}
						tv := (at.Succs[0] == b) != neg
						if tv {
							base.st[j] = 1
						} else {
							base.st[j] = 0
						}
						return true
					}() {
					} else if bo, ok := vj.(*ssa.BinOp); ok && (bo.Op == token.EQL || bo.Op == token.NEQ) &&
						((bo.X == vi && isNilConst(bo.Y)) || (bo.Y == vi && isNilConst(bo.X))) {
						if bo.Op == token.EQL {
							tied[j] = true
						} else {
							tiedNeg[j] = true
						}
					}
				case *types.Pointer, *types.Interface:
					if isAggType(nm.c, res.At(j).Type()) {
						continue
					}
					switch {
					case isNilConst(vj):
						base.st[j] = -1
					default:
						switch vj.(type) {
						case *ssa.Global, *ssa.Alloc, *ssa.MakeInterface, *ssa.FieldAddr:
							base.st[j] = -2
						}
					}
				}
			}
			variants := []int{nl}
			if nl == 0 {
				variants = []int{-1, 1}
			}
			for _, n2 := range variants {
				c := retCase{nilness: n2, st: map[int]int64{}}
				for j, k := range base.st {
					c.st[j] = k
				}
				for j := range tied {
					if n2 == -1 {
						c.st[j] = 1
					} else {
						c.st[j] = 0
					}
				}
				for j := range tiedNeg {
					if n2 == -1 {
						c.st[j] = 0
					} else {
						c.st[j] = 1
					}
				}
				out = append(out, c)
			}
		}
	}
	retCasesMemo[key] = out
	return out
}

// nonNilByCases: every return case of the helper that is consistent with what is known about the other results of the
// call (allows(j, value) == false means "result j certainly does not have that value here") returns a non-nil aggregate.
func (nm *nilModel) nonNilByCases(call *ssa.Call, i int, allows func(j int, ex *ssa.Extract, val int64) bool) bool {
	g := call.Call.StaticCallee()
	if g == nil || !nm.c.InPkg(g) {
		return false
	}
	cases := nm.retCases(g, i)
	if len(cases) == 0 {
		return false
	}
	exOf := map[int]*ssa.Extract{}
	for _, rr := range referrers(call) {
		if e2, ok := rr.(*ssa.Extract); ok {
			exOf[e2.Index] = e2
		}
	}
	consistentSeen := false
	for _, cs := range cases {
		consistent := true
		for j, k := range cs.st {
			ex := exOf[j]
			if ex == nil {
				continue
			}
			if !allows(j, ex, k) {
				consistent = false
			}
		}
		if !consistent {
			continue
		}
		consistentSeen = true
		if cs.nilness != 1 {
			return false
		}
	}
	return consistentSeen
}

// domAllows: what the branches dominating blk (and the edge blk→succ, if given) leave possible for a result of a call.
func (nm *nilModel) domAllows(blk, succ *ssa.BasicBlock) func(j int, e2 *ssa.Extract, val int64) bool {
	fn := blk.Parent()
	return func(j int, e2 *ssa.Extract, val int64) bool {
		if val < 0 { // pointer status
			if succ != nil {
				if nn := nonNilSucc(blk, e2); nn != nil && blk.Succs[0] != blk.Succs[1] {
					if (nn == succ) == (val == -1) {
						return false // the edge itself decides the nil test the other way
					}
				}
			}
			if val == -1 {
				return !knownNonNilIn(e2, blk)
			}
			return !knownNilOnEveryPath(e2, blk)
		}
		kind := "enum"
		d := statusDomain{all: 0x7fffffff, kind: kind}
		if b, ok := e2.Type().Underlying().(*types.Basic); ok && b.Kind() == types.Bool {
			d = statusDomain{all: 3, kind: "bool"}
		}
		m := d.all
		if succ != nil {
			if ifi, ok := blk.Instrs[len(blk.Instrs)-1].(*ssa.If); ok {
				for si, s2 := range blk.Succs {
					if s2 == succ {
						m = refineStatus(ifi.Cond, e2, d, m, si)
					}
				}
			}
		}
		for _, dblk := range fn.Blocks {
			ifi, ok := dblk.Instrs[len(dblk.Instrs)-1].(*ssa.If)
			if !ok || dblk == blk || !dblk.Dominates(blk) {
				continue
			}
			for si, s := range dblk.Succs {
				if len(s.Preds) == 1 && (s == blk || s.Dominates(blk)) {
					m = refineStatus(ifi.Cond, e2, d, m, si)
				}
			}
		}
		if val > 30 {
			return true
		}
		return m&(1<<uint32(val)) != 0
	}
}
