#!/usr/bin/env python3
"""Hand-specified re-introductions of fixed defects whose fix: commit can no longer be applied in reverse (later
commits changed the same lines). Each entry edits a scratch copy of /repo's current tree and the forward diff is
stored as selftest/reintro-<commit>.diff. Development tool; not run by any check."""
import subprocess, tempfile, shutil, os, re, sys

F = 'dataStoreCommands.go'
# (commit, file, function header substring, [regex of lines to delete inside that function]) or a callable
def del_lines(fn_sub, pats, count=None):
    def edit(lines):
        out, infn, hit = [], False, 0
        skip_block = 0
        for ln in lines:
            if ln.startswith('func ') and fn_sub in ln:
                infn = True
            elif ln.startswith('func '):
                infn = False
            if infn and skip_block:
                skip_block += ln.count('{') - ln.count('}')
                if skip_block <= 0:
                    skip_block = 0
                continue
            if infn and any(re.search(p, ln) for p in pats):
                hit += 1
                if ln.rstrip().endswith('{'):
                    skip_block = 1
                continue
            out.append(ln)
        assert hit, (fn_sub, pats)
        return out
    return edit

def dbsize(lines):
    s = ''.join(lines)
    a = "\t\tif !sv.isExpiredUnlocked() {\n\t\t\tcount++\n\t\t}\n"
    assert a in s
    s = s.replace(a, "\t\t_ = sv\n\t\tcount++\n")
    return s.splitlines(True)

V = [
 ('0f2d4fc', F, ') getKeySetExpiration(', [r'dsc\.modifiedUnlocked\(keyName\)']),
 ('234de75', F, ') lset(', [r'dsc\.modifiedUnlocked\(keyName\)']),
 ('922c627', F, ') fieldAddFloat(', [r'dsc\.modifiedUnlocked\(keyName\)']),
 ('98f12bd', F, ') persist(', [r'dsc\.modifiedUnlocked\(keyName\)']),
 ('b99918d', F, ') del(', [r'dsc\.modifiedUnlocked\(keyName\)']),
 ('e5a318b', F, ') setMove(', [r'dsc\.modifiedUnlocked\(source\)']),
 ('ec87ef6', F, ') setRemove(', [r'dsc\.modifiedUnlocked\(keyName\)']),
 ('fa243de', F, ') expire(', [r'dsc\.modifiedUnlocked\(keyName\)']),
 ('24a68d5', F, ') setRemove(', [r'if m\.count == 0 \{']),
 ('aed76f2', F, ') setMove(', [r'if ss\.count == 0 \{']),
 ('de00984', F, ') setRange(', [r'if offset < 0 \{', r'if offset > maxStringLength-len\(substring\) \{']),
 ('bddda2f', F, dbsize, None),
]
out = '/verif/selftest'
for c, f, fn, pats in V:
    d = tempfile.mkdtemp(prefix='reintro.', dir='/tmp')
    try:
        os.makedirs(d + '/a'); os.makedirs(d + '/b')
        shutil.copy('/repo/' + f, d + '/a/' + f)
        lines = open('/repo/' + f).read().splitlines(True)
        new = fn(lines) if callable(fn) else del_lines(fn, pats)(lines)
        open(d + '/b/' + f, 'w').write(''.join(new))
        p = subprocess.run(['diff', '-u', 'a/' + f, 'b/' + f], cwd=d, capture_output=True, text=True).stdout
        open(f'{out}/reintro-{c}.diff', 'w').write(p)
        stale = f'{out}/fix-{c}.diff'
        if os.path.exists(stale):
            os.remove(stale)
        print(c, len(p.splitlines()), 'lines')
    finally:
        shutil.rmtree(d)

# --- later additions (fix commits whose reverse no longer applies after baddf2d / 0de79a0)
def bitfield_noguard(lines):
    s = ''.join(lines)
    a = '''		if op.bitOffset < 0 || n < op.bitOffset || int64(n) >= int64(maxStringLength)*8 {
			output.data = respErrorString("ERR bit offset is not an integer or out of range")
			return
		}
'''
    assert a in s
    return s.replace(a, '').splitlines(True)

def bitfield_int_overflow(lines):
    s = ''.join(lines)
    a = 'int64(n) >= int64(maxStringLength)*8'
    assert a in s
    return s.replace(a, 'n >= maxStringLength*8').splitlines(True)

V2 = [('24e59ca', F, bitfield_noguard, None), ('5faaac4', F, bitfield_int_overflow, None)]
for c, f, fn, pats in V2:
    d = tempfile.mkdtemp(prefix='reintro.', dir='/tmp')
    try:
        os.makedirs(d + '/a'); os.makedirs(d + '/b')
        shutil.copy('/repo/' + f, d + '/a/' + f)
        lines = open('/repo/' + f).read().splitlines(True)
        open(d + '/b/' + f, 'w').write(''.join(fn(lines)))
        p = subprocess.run(['diff', '-u', 'a/' + f, 'b/' + f], cwd=d, capture_output=True, text=True).stdout
        open(f'{out}/reintro-{c}.diff', 'w').write(p)
        if os.path.exists(f'{out}/fix-{c}.diff'):
            os.remove(f'{out}/fix-{c}.diff')
        print(c, len(p.splitlines()), 'lines')
    finally:
        shutil.rmtree(d)
