package main

// Small sibling-agreement and ordering rules added after the third batch of seeded changes.

import (
	"fmt"
	"go/constant"
	"go/token"
	"go/types"
	"sort"
	"strings"

	"golang.org/x/tools/go/ssa"
)

// ---------------------------------------------------------------- R-float-text

const textFloatText = "R-float-text: every place that turns a float64 into reply text uses fixed notation (strconv.FormatFloat(x, 'f', …) or a %f verb), as all sibling sites do: %v/%g/%e and the 'g'/'e' formats switch to exponent notation below 1e-4 and from 1e21, which no Redis client parses as the number INCRBYFLOAT/HINCRBYFLOAT/ZSCORE returned"

func isFloatType(t types.Type) bool {
	b, ok := t.Underlying().(*types.Basic)
	return ok && (b.Kind() == types.Float64 || b.Kind() == types.Float32)
}

func ruleFloatText(c *Ctx) {
	c.S.Rule("R-float-text", textFloatText, 1)
	for _, fn := range c.SrcFuncs() {
		k := 0
		for _, in := range instrsOf(fn) {
			call, ok := in.(*ssa.Call)
			if !ok {
				continue
			}
			name := fullCalleeName(call)
			switch {
			case name == "strconv.FormatFloat" && len(call.Call.Args) >= 2:
				k++
				key := fmt.Sprintf("%s:float-to-text#%d", fnName(fn), k)
				if f, isC := constInt(call.Call.Args[1]); isC && (f == 'f' || f == 'F') {
					c.S.OK("R-float-text", key, c.Pos(call.Pos()), "fixed notation")
				} else {
					c.S.Bad("R-float-text", key, c.Pos(call.Pos()), fmt.Sprintf("%s formats a float with a format other than 'f': small and large values come out in exponent notation", fnName(fn)))
				}
			case name == "fmt.Sprintf" || name == "fmt.Sprint" || name == "fmt.Sprintln" || name == "fmt.Fprintf" || name == "fmt.Appendf":
				// the variadic arguments: stores of MakeInterface values into the varargs array
				var floats []int
				var va ssa.Value = call.Call.Args[len(call.Call.Args)-1]
				sl, ok := va.(*ssa.Slice)
				if !ok {
					continue
				}
				arr, ok := sl.X.(*ssa.Alloc)
				if !ok {
					continue
				}
				for _, r := range referrers(arr) {
					ia, ok := r.(*ssa.IndexAddr)
					if !ok {
						continue
					}
					idx, isC := constInt(ia.Index)
					if !isC {
						continue
					}
					for _, r2 := range referrers(ia) {
						if st, ok := r2.(*ssa.Store); ok {
							if mi, ok := st.Val.(*ssa.MakeInterface); ok && isFloatType(mi.X.Type()) {
								floats = append(floats, int(idx))
							}
						}
					}
				}
				if len(floats) == 0 {
					continue
				}
				sort.Ints(floats)
				verbs := []string(nil)
				if strings.HasSuffix(name, "f") {
					fi := 0
					if name == "fmt.Fprintf" || name == "fmt.Appendf" {
						fi = 1
					}
					if cst, ok := call.Call.Args[fi].(*ssa.Const); ok && cst.Value != nil && cst.Value.Kind() == constant.String {
						verbs = formatVerbs(constant.StringVal(cst.Value))
					}
				}
				for _, ai := range floats {
					k++
					key := fmt.Sprintf("%s:float-to-text#%d", fnName(fn), k)
					verb := "v"
					if verbs != nil && ai < len(verbs) {
						verb = verbs[ai]
					}
					if verb == "f" || verb == "F" {
						c.S.OK("R-float-text", key, c.Pos(call.Pos()), "fixed notation (%f)")
					} else {
						c.S.Bad("R-float-text", key, c.Pos(call.Pos()), fmt.Sprintf("%s formats a float with %%%s: values below 1e-4 or from 1e21 come out in exponent notation (1e-05), unlike every sibling site, which uses fixed notation", fnName(fn), verb))
					}
				}
			}
		}
	}
}

// formatVerbs: the verb letter of each argument-consuming directive of a format string, in order.
func formatVerbs(f string) []string {
	var out []string
	for i := 0; i < len(f); i++ {
		if f[i] != '%' {
			continue
		}
		i++
		for i < len(f) && strings.ContainsRune("+-# 0123456789.[]*", rune(f[i])) {
			if f[i] == '*' {
				out = append(out, "*")
			}
			i++
		}
		if i < len(f) && f[i] != '%' {
			out = append(out, string(f[i]))
		}
	}
	return out
}

// ---------------------------------------------------------------- A1-unlisted-global

const textUnlistedGlobal = "A1-unlisted-global: a package-level variable that is not in the guarded-by table and is written at run time by code that connection goroutines reach is accessed under one common lock class at every access (or only atomically): a lazily initialised package-level cache written by a command handler is a data race between two connections"

func ruleUnlistedGlobal(c *Ctx) {
	c.S.Rule("A1-unlisted-global", textUnlistedGlobal, 0)
	lm := c.M.Locks()
	rm := c.M.Req()
	gt := rm.gt
	// functions reachable from goroutine roots (connection handlers, workers): anything in Reach of a root
	conc := map[*ssa.Function]bool{}
	for _, r := range rm.roots {
		for f := range c.M.Reach(r) {
			conc[f] = true
		}
		conc[r] = true
	}
	type st struct {
		writes, n int
		held      lockSet
		atomic    bool
		writers   map[string]bool
		pos       string
	}
	by := map[*ssa.Global]*st{}
	for _, fn := range c.SrcFuncs() {
		if fn.Name() == "init" && fn.Parent() == nil {
			continue
		}
		if !conc[fn] {
			continue
		}
		for _, a := range c.Accesses(fn) {
			if a.Glob == nil || a.Field != nil {
				continue
			}
			if _, listed := gt.byGlob[a.Glob]; listed {
				continue
			}
			if isMutexType(deref(a.Glob.Type())) {
				continue
			}
			s := by[a.Glob]
			if s == nil {
				s = &st{held: ^lockSet(0), atomic: true, writers: map[string]bool{}}
				by[a.Glob] = s
			}
			s.n++
			if !a.Atomic {
				s.atomic = false
			}
			s.held &= lm.LocallyHeld(a.In)
			if a.Write {
				s.writes++
				s.writers[fnName(fn)] = true
				if s.pos == "" {
					s.pos = c.Pos(c.InstrPos(a.In))
				}
			}
		}
	}
	var gs []*ssa.Global
	for g, s := range by {
		if s.writes > 0 {
			gs = append(gs, g)
		}
	}
	sort.Slice(gs, func(i, j int) bool { return gs[i].Name() < gs[j].Name() })
	n := 0
	for _, g := range gs {
		s := by[g]
		if why, ok := globalAllow[g.Name()]; ok && why != "" {
			continue
		}
		n++
		key := "global " + g.Name()
		var ws []string
		for w := range s.writers {
			ws = append(ws, w)
		}
		sort.Strings(ws)
		switch {
		case s.atomic:
			c.S.OK("A1-unlisted-global", key, s.pos, "only accessed through sync/atomic")
		case s.held != 0:
			c.S.OK("A1-unlisted-global", key, s.pos, "every access holds "+lm.setString(s.held))
		default:
			c.S.Bad("A1-unlisted-global", key, s.pos, fmt.Sprintf("package-level %s is written at run time by %s, which connection goroutines reach, and its accesses have no lock class in common: two connections race on it", g.Name(), strings.Join(ws, ", ")))
		}
	}
	if n == 0 {
		c.S.Trivial("A1-unlisted-global", "none", "-", "every package-level variable written at run time by connection code is in the guarded-by table")
	}
}

// ---------------------------------------------------------------- R-C12-write-deadline

const textWriteDeadline = "R-C12-write-deadline: a deadline for writing the reply, if one is set at all, is computed after the command has run (the call that sets it is dominated by the dispatch call in the reply goroutine): a deadline taken before a blocking command starts has expired when the command ends after its timeout, and the reply is lost"

func ruleC12WriteDeadline(c *Ctx) {
	c.S.Rule("R-C12-write-deadline", textWriteDeadline, 0)
	a := c.cxn()
	if len(a.errs) > 0 || a.writeFn == nil {
		c.S.Undecided("R-C12-write-deadline", "anchors", "-", strings.Join(a.errs, "; "))
		return
	}
	// the dispatch call: the call in the writer (or the function that contains the writer) whose result is serialised
	n := 0
	for _, fn := range c.SrcFuncs() {
		for _, in := range instrsOf(fn) {
			call, ok := in.(ssa.CallInstruction)
			if !ok || !(isConnMethod(call, "SetWriteDeadline") || isConnMethod(call, "SetDeadline")) {
				continue
			}
			if !enclosingRecv(c, fn) {
				continue
			}
			n++
			key := fmt.Sprintf("%s:deadline#%d", fnName(fn), n)
			// a dispatch call (reaches the command dispatcher) in the same function that dominates this call
			okAfter := false
			for _, in2 := range instrsOf(fn) {
				c2, ok := in2.(*ssa.Call)
				if !ok || c2 == in {
					continue
				}
				g := c2.Call.StaticCallee()
				if g == nil || !c.InPkg(g) {
					continue
				}
				if hs := c.M.Locks().handlerDynSites; len(hs) > 0 {
					reaches := false
					for site := range hs {
						if site.Parent() == g || c.M.Reach(g)[site.Parent()] {
							reaches = true
						}
					}
					if reaches && instrDominates(in2, in) {
						okAfter = true
					}
				}
			}
			encloses := false
			for f := a.writeFn; f != nil; f = f.Parent() {
				if f == fn {
					encloses = true // the function that starts the reply goroutine
				}
			}
			if !encloses && !c.M.Reach(fn)[a.writeFn] && !c.M.Reach(a.writeFn)[fn] {
				c.S.Trivial("R-C12-write-deadline", key, c.Pos(in.Pos()), "not on the reply path")
				continue
			}
			if okAfter {
				c.S.OK("R-C12-write-deadline", key, c.Pos(in.Pos()), "set after the command has run")
			} else {
				c.S.Bad("R-C12-write-deadline", key, c.Pos(in.Pos()), fmt.Sprintf("%s sets the connection's write deadline before the command is dispatched: a blocking command that ends after its timeout finds the deadline expired and its reply is never written", fnName(fn)))
			}
		}
	}
	if n == 0 {
		c.S.Trivial("R-C12-write-deadline", "none", "-", "no write deadline is set on connections")
	}
}

// ---------------------------------------------------------------- R-C12-state-cas

const textStateCAS = "R-C12-state-cas: the capture state of a connection (clientState.blocked) is a state machine shared by the blocked command and by every goroutine that inspects or unblocks it; each write to it is a CompareAndSwap from one named state to another, or a Store of a named state by the goroutine that owns the transient state (dominated by its own successful CompareAndSwap). An unconditional Swap, or writing back a value read earlier, loses the update of a concurrent checker: two overlapping checks leave the state at CHECKING for ever and the blocked command can never end"

func ruleC12StateCAS(c *Ctx) {
	c.S.Rule("R-C12-state-cas", textStateCAS, 2)
	fBlocked := c.Field("clientState", "blocked")
	if fBlocked == nil {
		c.S.Undecided("R-C12-state-cas", "anchor", "-", "clientState.blocked not found")
		return
	}
	onField := func(call *ssa.Call) bool {
		if len(call.Call.Args) == 0 {
			return false
		}
		fa, ok := call.Call.Args[0].(*ssa.FieldAddr)
		return ok && fieldOf(fa) == fBlocked
	}
	var isConstArg func(v ssa.Value) bool
	isConstArg = func(v ssa.Value) bool {
		v = stripValue(v)
		if _, ok := constInt(v); ok {
			return true
		}
		// a parameter of a transition helper (setLock(from, to)): a named state at every call site — also when the
		// transition sits in a closure that captured the parameter (a retry loop that takes the attempt as a function)
		if fv, isFV := v.(*ssa.FreeVar); isFV {
			fn := fv.Parent()
			for i, x := range fn.FreeVars {
				if x != fv || fn.Parent() == nil {
					continue
				}
				for _, in := range instrsOf(fn.Parent()) {
					if mc, ok := in.(*ssa.MakeClosure); ok && mc.Fn == ssa.Value(fn) && i < len(mc.Bindings) {
						b := mc.Bindings[i]
						// a captured parameter is bound by its cell: the cell holds the parameter
						if al, ok := b.(*ssa.Alloc); ok {
							for _, r := range referrers(al) {
								if st, ok := r.(*ssa.Store); ok && st.Addr == ssa.Value(al) {
									return isConstArg(st.Val)
								}
							}
						}
						return isConstArg(b)
					}
				}
			}
			return false
		}
		if u, isLoad := v.(*ssa.UnOp); isLoad && u.Op == token.MUL {
			if _, isFV := u.X.(*ssa.FreeVar); isFV {
				return isConstArg(u.X) // the captured cell of a parameter
			}
		}
		p, ok := v.(*ssa.Parameter)
		if !ok {
			return false
		}
		fn := p.Parent()
		idx := -1
		for i, q := range fn.Params {
			if q == p {
				idx = i
			}
		}
		node := c.CG.Nodes[fn]
		if node == nil || idx < 0 || len(node.In) == 0 {
			return false
		}
		for _, e := range node.In {
			// the wrapper the compiler makes for a promoted method (`(*clientState).setLock` forwarding to the embedded
			// helper's method) that nothing calls is not a caller
			if cf := e.Caller.Func; cf != nil && cf.Synthetic != "" {
				if cn := c.CG.Nodes[cf]; cn == nil || len(cn.In) == 0 {
					continue
				}
			}
			args := e.Site.Common().Args
			if e.Site.Common().IsInvoke() || idx >= len(args) {
				return false
			}
			if _, ok := constInt(stripValue(args[idx])); !ok {
				return false
			}
		}
		return true
	}
	for _, fn := range c.SrcFuncs() {
		k := 0
		// successful-CAS edges of this function on the field
		type edge struct{ from, to *ssa.BasicBlock }
		var owned []edge
		for _, b := range fn.Blocks {
			ifi, ok := b.Instrs[len(b.Instrs)-1].(*ssa.If)
			if !ok {
				continue
			}
			cond, neg := ifi.Cond, false
			for {
				u, isU := cond.(*ssa.UnOp)
				if !isU || u.Op != token.NOT {
					break
				}
				cond, neg = u.X, !neg
			}
			if call, ok := cond.(*ssa.Call); ok && strings.HasPrefix(fullCalleeName(call), "sync/atomic.CompareAndSwap") && onField(call) {
				idx := 0
				if neg {
					idx = 1
				}
				owned = append(owned, edge{b, b.Succs[idx]})
			}
		}
		for _, in := range instrsOf(fn) {
			call, ok := in.(*ssa.Call)
			if !ok || !onField(call) {
				continue
			}
			name := fullCalleeName(call)
			if !strings.HasPrefix(name, "sync/atomic.") {
				continue
			}
			op := strings.TrimPrefix(name, "sync/atomic.")
			if strings.HasPrefix(op, "Load") {
				continue
			}
			k++
			key := fmt.Sprintf("%s:state-write#%d", fnName(fn), k)
			switch {
			case strings.HasPrefix(op, "CompareAndSwap"):
				if len(call.Call.Args) == 3 && isConstArg(call.Call.Args[2]) {
					c.S.OK("R-C12-state-cas", key, c.Pos(call.Pos()), "CompareAndSwap to a named state")
				} else {
					c.S.Bad("R-C12-state-cas", key, c.Pos(call.Pos()), fmt.Sprintf("%s moves the capture state to a value that is not a named state", fnName(fn)))
				}
			case strings.HasPrefix(op, "Store"):
				ownedHere := false
				for _, e := range owned {
					if len(e.to.Preds) == 1 && (e.to == call.Block() || e.to.Dominates(call.Block())) {
						ownedHere = true
					}
				}
				if ownedHere && len(call.Call.Args) == 2 && isConstArg(call.Call.Args[1]) {
					c.S.OK("R-C12-state-cas", key, c.Pos(call.Pos()), "Store of a named state by the owner of the transient state")
				} else {
					c.S.Bad("R-C12-state-cas", key, c.Pos(call.Pos()), fmt.Sprintf("%s stores into the capture state without owning it (no successful CompareAndSwap of its own dominates the store) or stores a value that is not a named state", fnName(fn)))
				}
			default:
				what := "overwrites the capture state unconditionally (" + op + ")"
				if len(call.Call.Args) == 2 && !isConstArg(call.Call.Args[1]) {
					what = "writes back a state value it read earlier (" + op + ")"
				}
				c.S.Bad("R-C12-state-cas", key, c.Pos(call.Pos()), fmt.Sprintf("%s %s: when two goroutines check at the same time, one of them restores CHECKING over the other's restored state, and the state machine is stuck — the blocked command can never end and every later check spins", fnName(fn), what))
			}
		}
	}
}

// ---------------------------------------------------------------- R-pool-escape

const textPoolEscape = "R-pool-escape: an object handed back to a sync.Pool (Put, deferred or not) is not also returned to the caller of the same function, whole or as the slice it points to: the caller would write (to the socket) bytes that another goroutine's Get is already overwriting — replies of different connections mix"

func rulePoolEscape(c *Ctx) {
	c.S.Rule("R-pool-escape", textPoolEscape, 0)
	n := 0
	for _, fn := range c.SrcFuncs() {
		k := 0
		for _, in := range instrsOf(fn) {
			ci, ok := in.(ssa.CallInstruction)
			if !ok || fullCalleeName(ci) != "(*sync.Pool).Put" || len(ci.Common().Args) < 2 {
				continue
			}
			k++
			n++
			key := fmt.Sprintf("%s:put#%d", fnName(fn), k)
			obj := stripValue(ci.Common().Args[1])
			derived := map[ssa.Value]bool{obj: true}
			fn := fn
			// a Put inside a (deferred) function literal: the object is a variable of the enclosing function, whose
			// returns are the ones to look at
			if u, isU := obj.(*ssa.UnOp); isU && u.Op == token.MUL {
				if fv, isFV := u.X.(*ssa.FreeVar); isFV {
					if par := fv.Parent().Parent(); par != nil {
						for _, in2 := range instrsOf(par) {
							mc, isMC := in2.(*ssa.MakeClosure)
							if !isMC || mc.Fn != ssa.Value(fv.Parent()) {
								continue
							}
							for i, v := range fv.Parent().FreeVars {
								if v == fv && i < len(mc.Bindings) {
									cell := mc.Bindings[i]
									fn = par
									derived = map[ssa.Value]bool{}
									for _, r := range referrers(cell) {
										if ld, isLd := r.(*ssa.UnOp); isLd && ld.Op == token.MUL {
											derived[ld] = true
										}
									}
								}
							}
						}
					}
				}
			}
			for changed := true; changed; {
				changed = false
				for _, in2 := range instrsOf(fn) {
					v, ok := in2.(ssa.Value)
					if !ok || derived[v] {
						continue
					}
					d := false
					switch x := in2.(type) {
					case *ssa.UnOp:
						d = x.Op == token.MUL && derived[x.X]
						// a local cell (a result spilled because of the defer) that holds a derived value
						if al, isAl := x.X.(*ssa.Alloc); isAl && x.Op == token.MUL && !d {
							for _, r := range referrers(al) {
								if st, ok := r.(*ssa.Store); ok && st.Addr == ssa.Value(al) && derived[st.Val] {
									d = true
								}
							}
						}
					case *ssa.Slice:
						d = derived[x.X]
					case *ssa.Phi:
						for _, e := range x.Edges {
							d = d || derived[e]
						}
					case *ssa.ChangeType:
						d = derived[x.X]
					case *ssa.MakeInterface:
						d = derived[x.X]
					case *ssa.TypeAssert:
						d = derived[x.X]
					case *ssa.Call:
						if b, isB := x.Call.Value.(*ssa.Builtin); isB && b.Name() == "append" && len(x.Call.Args) > 0 {
							d = derived[x.Call.Args[0]]
						}
					case *ssa.FieldAddr:
						d = derived[x.X]
					case *ssa.IndexAddr:
						d = derived[x.X]
					}
					if d {
						derived[v] = true
						changed = true
					}
				}
			}
			escapes := ""
			for _, b := range fn.Blocks {
				if ret, ok := b.Instrs[len(b.Instrs)-1].(*ssa.Return); ok {
					for _, r := range ret.Results {
						if derived[r] || derived[stripValue(r)] {
							escapes = c.Pos(ret.Pos())
						}
					}
				}
			}
			if escapes != "" {
				c.S.Bad("R-pool-escape", key, c.Pos(in.Pos()), fmt.Sprintf("%s puts an object back into a sync.Pool and returns it (or the slice it holds) to its caller at %s: while the caller still uses the bytes, the next Get hands them to another goroutine", fnName(fn), escapes))
			} else {
				c.S.OK("R-pool-escape", key, c.Pos(in.Pos()), "the pooled object does not outlive the function")
			}
		}
	}
	if n == 0 {
		c.S.Trivial("R-pool-escape", "none", "-", "no sync.Pool is used")
	}
}

// ---------------------------------------------------------------- R-C12-pending-reset

const textPendingReset = "R-C12-pending-reset: the flag that limits unblock requests to one per capture (the CompareAndSwap 0→1 whose success guards the post to the mailbox) is set back to 0 by the function that drains the mailbox and ends the capture — on every path, whichever way the wait ended. If it is reset only where an unblock request was received, a request that collides with a timeout or a push leaves the flag set for ever and no later CLIENT UNBLOCK can end a blocking command of that connection"

func ruleC12PendingReset(c *Ctx) {
	c.S.Rule("R-C12-pending-reset", textPendingReset, 1)
	fCh := c.Field("clientState", "unblockCh")
	fBlocked := c.Field("clientState", "blocked")
	if fCh == nil || fBlocked == nil {
		c.S.Undecided("R-C12-pending-reset", "anchors", "-", "clientState.unblockCh / blocked not found")
		return
	}
	atomicOn := func(call *ssa.Call) *types.Var {
		if !strings.HasPrefix(fullCalleeName(call), "sync/atomic.") || len(call.Call.Args) == 0 {
			return nil
		}
		if fa, ok := call.Call.Args[0].(*ssa.FieldAddr); ok {
			return fieldOf(fa)
		}
		return nil
	}
	// the guard flag: a CAS(0,1) on a clientState field other than the state, in a function that posts to the mailbox
	var flag *types.Var
	for _, fn := range c.SrcFuncs() {
		posts := false
		for _, in := range instrsOf(fn) {
			if s, ok := in.(*ssa.Send); ok {
				if _, f := loadedField(s.Chan); f == fCh {
					posts = true
				}
			}
		}
		if !posts {
			continue
		}
		for _, in := range instrsOf(fn) {
			if call, ok := in.(*ssa.Call); ok && strings.HasPrefix(fullCalleeName(call), "sync/atomic.CompareAndSwap") {
				if f := atomicOn(call); f != nil && f != fBlocked && c.ownerName(f) == "clientState" {
					flag = f
				}
			}
		}
	}
	if flag == nil {
		c.S.Trivial("R-C12-pending-reset", "none", "-", "posts to the mailbox are not limited by a pending flag")
		return
	}
	// the release function: drains the mailbox (a select with default on it, possibly in a closure or helper method)
	n := 0
	for _, fn := range c.SrcFuncs() {
		if fn.Parent() != nil || fn.Signature.Recv() == nil || !c.isPkgType(fn.Signature.Recv().Type(), "clientState") {
			continue
		}
		drains := false
		var scan func(f *ssa.Function, d int)
		resets := map[*ssa.Function]bool{}
		scan = func(f *ssa.Function, d int) {
			if f == nil || f.Blocks == nil || d > 2 {
				return
			}
			for _, g := range append([]*ssa.Function{f}, f.AnonFuncs...) {
				for _, in := range instrsOf(g) {
					if s, ok := in.(*ssa.Select); ok && !s.Blocking {
						drains = true
					}
					if call, ok := in.(*ssa.Call); ok {
						if h := call.Call.StaticCallee(); h != nil && h != f && h.Signature.Recv() != nil && c.isPkgType(h.Signature.Recv().Type(), "clientState") {
							scan(h, d+1)
						}
					}
				}
			}
		}
		scan(fn, 0)
		if !drains {
			continue
		}
		// does it move the state as well (the release), or only drain (a helper)?
		movesState := false
		for _, g := range c.M.Reach(fn) {
			_ = g
		}
		for f := range c.M.Reach(fn) {
			for _, in := range instrsOf(f) {
				if call, ok := in.(*ssa.Call); ok && atomicOn(call) == fBlocked && !strings.HasPrefix(fullCalleeName(call), "sync/atomic.Load") {
					movesState = true
				}
			}
		}
		if !movesState {
			continue
		}
		n++
		key := fnName(fn) + ":resets-" + c.canonFieldName(flag)
		// a store of 0 to the flag on every path from entry to return
		isReset := func(in ssa.Instruction) bool {
			call, ok := in.(*ssa.Call)
			if !ok {
				return false
			}
			if atomicOn(call) == flag && strings.HasPrefix(fullCalleeName(call), "sync/atomic.Store") {
				if k, isC := constInt(call.Call.Args[len(call.Call.Args)-1]); isC && k == 0 {
					return true
				}
			}
			return false
		}
		_ = resets
		cm := &CoverModel{m: c.M, mm: c.M.Muts(), isEvent: isReset, always: map[*ssa.Function]bool{}}
		if cm.exitReachableWithoutE(fn, fn.Blocks[0], 0) {
			c.S.Bad("R-C12-pending-reset", key, c.Pos(fn.Pos()), fmt.Sprintf("%s ends the capture without setting %s back to 0 on some path: an unblock request that arrives together with a timeout or a push leaves the flag set, and no later unblock request is ever posted to this connection", fnName(fn), flag.Name()))
		} else {
			c.S.OK("R-C12-pending-reset", key, c.Pos(fn.Pos()), "the pending flag is reset on every path of the release")
		}
	}
	if n == 0 {
		c.S.Undecided("R-C12-pending-reset", "release", "-", "no clientState method drains the mailbox and moves the capture state")
	}
}

// ---------------------------------------------------------------- R-dict-iterate-modify

const textIterModify = "R-dict-iterate-modify: inside a loop driven by an iterator over a dictionary, the same dictionary is neither removed from nor stored into: a removal can shrink (rehash) the table under the iterator, which then skips or repeats buckets — SINTER would return members it should have dropped"

func ruleDictIterateModify(c *Ctx) {
	c.S.Rule("R-dict-iterate-modify", textIterModify, 1)
	mm := c.M.Muts()
	n := 0
	for _, fn := range c.SrcFuncs() {
		k := 0
		for _, in := range instrsOf(fn) {
			mk, ok := in.(*ssa.Call)
			if !ok {
				continue
			}
			g := mk.Call.StaticCallee()
			if g == nil || g.Signature.Recv() == nil || !c.isPkgType(g.Signature.Recv().Type(), "redisDict") || g.Signature.Results().Len() != 1 || len(mk.Call.Args) == 0 {
				continue
			}
			// an iterator constructor: returns a (pointer to a) struct that is not the dictionary itself
			rt := g.Signature.Results().At(0).Type()
			if c.isPkgType(rt, "redisDict") {
				continue
			}
			if _, isStruct := deref(rt).Underlying().(*types.Struct); !isStruct {
				continue
			}
			dict := mk.Call.Args[0]
			// the loop: blocks in a cycle that call a method on the iterator
			loop := map[*ssa.BasicBlock]bool{}
			for _, r := range referrers(mk) {
				if call, ok := r.(*ssa.Call); ok && len(call.Call.Args) > 0 && call.Call.Args[0] == ssa.Value(mk) && blockInCycle(call.Block()) {
					hb := call.Block()
					for _, b := range fn.Blocks {
						if plainReachAvoid(hb, b, nil) && plainReachAvoid(b, hb, nil) {
							loop[b] = true
						}
					}
				}
			}
			if len(loop) == 0 {
				continue
			}
			k++
			n++
			key := fmt.Sprintf("%s:iteration#%d", fnName(fn), k)
			bad := ""
			for b := range loop {
				for _, in2 := range b.Instrs {
					call, ok := in2.(*ssa.Call)
					if !ok || len(call.Call.Args) == 0 {
						continue
					}
					h := call.Call.StaticCallee()
					if h == nil || !(mm.dictStore[h] || mm.dictRem[h]) {
						continue
					}
					if sameValue(call.Call.Args[0], dict) {
						bad = c.Pos(call.Pos())
					}
				}
			}
			if bad != "" {
				c.S.Bad("R-dict-iterate-modify", key, bad, fmt.Sprintf("%s changes the dictionary it is iterating over (at %s): a removal can rehash the table under the iterator, which then skips or repeats entries", fnName(fn), bad))
			} else {
				c.S.OK("R-dict-iterate-modify", key, c.Pos(mk.Pos()), "the iterated dictionary is not changed inside the loop")
			}
		}
	}
	if n == 0 {
		c.S.Trivial("R-dict-iterate-modify", "none", "-", "no iterator loop over a dictionary")
	}
}

// ---------------------------------------------------------------- R-C14-describe-param

const textDescribeParam = "R-C14-describe-param: a function of a command context that is handed another connection's state to describe (CLIENT LIST / CLIENT INFO call it once per registered connection) reads session fields — name, selected database, protocol version, id, user — from the connection it was given, never from the connection that runs the command: otherwise every line of CLIENT LIST shows the asker's name or database"

func ruleC14DescribeParam(c *Ctx) {
	c.S.Rule("R-C14-describe-param", textDescribeParam, 1)
	fCS := c.Field("cmdContext", "cs")
	if fCS == nil {
		c.S.Undecided("R-C14-describe-param", "anchors", "-", "cmdContext.cs not found")
		return
	}
	n := 0
	for _, fn := range c.SrcFuncs() {
		if fn.Parent() != nil || fn.Signature.Recv() == nil || !c.isPkgType(fn.Signature.Recv().Type(), "cmdContext") {
			continue
		}
		var p *ssa.Parameter
		for _, q := range fn.Params[1:] {
			if c.isPkgType(q.Type(), "clientState") {
				p = q
			}
		}
		if p == nil {
			continue
		}
		n++
		key := fnName(fn) + ":reads-the-given-connection"
		bad := ""
		var pos token.Pos
		for _, in := range instrsOf(fn) {
			fa, ok := in.(*ssa.FieldAddr)
			if !ok || !c.isPkgType(fa.X.Type(), "clientState") {
				continue
			}
			// the base: the parameter, or ctx.cs?
			if _, f := loadedField(fa.X); f == fCS {
				bad = fieldOf(fa).Name()
				pos = fa.Pos()
			}
		}
		// calls of clientState methods on ctx.cs
		for _, in := range instrsOf(fn) {
			call, ok := in.(ssa.CallInstruction)
			if !ok {
				continue
			}
			g := call.Common().StaticCallee()
			if g == nil || g.Signature.Recv() == nil || !c.isPkgType(g.Signature.Recv().Type(), "clientState") || len(call.Common().Args) == 0 {
				continue
			}
			if _, f := loadedField(call.Common().Args[0]); f == fCS {
				bad = fnName(g)
				pos = call.Pos()
			}
		}
		if bad != "" {
			c.S.Bad("R-C14-describe-param", key, c.Pos(pos), fmt.Sprintf("%s is given a connection to describe but reads %s of the connection that runs the command (ctx.cs): CLIENT LIST shows the asker's value on every line", fnName(fn), bad))
		} else {
			c.S.OK("R-C14-describe-param", key, c.Pos(fn.Pos()), "every session field comes from the connection passed in")
		}
	}
	if n == 0 {
		c.S.Trivial("R-C14-describe-param", "none", "-", "no command-context method takes another connection's state")
	}
}

// ---------------------------------------------------------------- R-bytes-opaque

const textBytesOpaque = "R-bytes-opaque: text that comes from a client (a key name, a value, a pattern, a field) is handled as bytes: it is never converted to []rune, ranged over as a string (which decodes UTF-8) or measured with unicode/utf8 — a value that is not valid UTF-8 would be altered (every invalid byte becomes U+FFFD, so two different keys match the same pattern and LCS returns bytes neither value contains), and lengths and `?` would count characters where Redis counts bytes. Text the server composed itself (a local strings.Builder, constants) may be handled as characters"

// asciiTestsOnly: the characters of a ranged-over string are only compared with ASCII constants (`ch < 33`) and the
// position is not used: a byte loop would decide the same.
func asciiTestsOnly(r *ssa.Range) bool {
	for _, nx := range referrers(r) {
		next, ok := nx.(*ssa.Next)
		if !ok {
			return false
		}
		for _, u := range referrers(next) {
			ex, ok := u.(*ssa.Extract)
			if !ok {
				return false
			}
			switch ex.Index {
			case 0: // more?
			case 1: // position
				if len(referrers(ex)) > 0 {
					return false
				}
			case 2: // character
				for _, use := range referrers(ex) {
					bo, ok := use.(*ssa.BinOp)
					if !ok {
						return false
					}
					switch bo.Op {
					case token.LSS, token.LEQ, token.GTR, token.GEQ, token.EQL, token.NEQ:
					default:
						return false
					}
					other := bo.Y
					if other == ssa.Value(ex) {
						other = bo.X
					}
					if k, isC := constInt(other); !isC || k < 0 || k > 127 {
						return false
					}
				}
			}
		}
	}
	return true
}

func ruleBytesOpaque(c *Ctx) {
	c.S.Rule("R-bytes-opaque", textBytesOpaque, 1)
	// serverText: built in this function from a local builder or constants
	var serverText func(v ssa.Value, depth int) bool
	serverText = func(v ssa.Value, depth int) bool {
		if depth > 4 {
			return false
		}
		switch x := v.(type) {
		case *ssa.Const:
			return true
		case *ssa.Call:
			if g := x.Call.StaticCallee(); g != nil {
				switch g.String() {
				case "(*strings.Builder).String", "(*bytes.Buffer).String":
					if al, ok := x.Call.Args[0].(*ssa.Alloc); ok && !al.Heap {
						return true
					}
					_, isAlloc := x.Call.Args[0].(*ssa.Alloc)
					return isAlloc
				case "strconv.Itoa", "strconv.FormatInt", "strconv.FormatUint", "strconv.FormatFloat":
					return true
				}
			}
		case *ssa.Phi:
			for _, e := range x.Edges {
				if !serverText(e, depth+1) {
					return false
				}
			}
			return true
		case *ssa.BinOp:
			return x.Op == token.ADD && serverText(x.X, depth+1) && serverText(x.Y, depth+1)
		case *ssa.Parameter:
			// a helper that is only ever handed text the server composed
			fn := x.Parent()
			idx := -1
			for i, p := range fn.Params {
				if p == x {
					idx = i
				}
			}
			node := c.CG.Nodes[fn]
			if node == nil || idx < 0 || len(node.In) == 0 {
				return false
			}
			for _, e := range node.In {
				args := e.Site.Common().Args
				if e.Site.Common().IsInvoke() || idx >= len(args) || !serverText(args[idx], depth+1) {
					return false
				}
			}
			return true
		}
		return false
	}
	isString := func(t types.Type) bool {
		b, ok := t.Underlying().(*types.Basic)
		return ok && b.Info()&types.IsString != 0
	}
	isRunes := func(t types.Type) bool {
		s, ok := t.Underlying().(*types.Slice)
		if !ok {
			return false
		}
		b, ok := s.Elem().Underlying().(*types.Basic)
		return ok && b.Kind() == types.Int32
	}
	n := 0
	for _, fn := range c.SrcFuncs() {
		k := 0
		for _, in := range instrsOf(fn) {
			var operand ssa.Value
			what := ""
			switch x := in.(type) {
			case *ssa.Convert:
				if isString(x.X.Type()) && isRunes(x.Type()) {
					operand, what = x.X, "converted to []rune"
				}
			case *ssa.Range:
				if isString(x.X.Type()) {
					operand, what = x.X, "ranged over as a string (decodes UTF-8)"
					if asciiTestsOnly(x) {
						k++
						n++
						c.S.OK("R-bytes-opaque", fmt.Sprintf("%s:text-as-characters#%d", fnName(fn), k), c.Pos(c.InstrPos(in)), "the characters are only compared with ASCII constants: a byte loop decides the same")
						operand = nil
					}
				}
			case *ssa.Call:
				if g := x.Call.StaticCallee(); g != nil && g.Pkg != nil && g.Pkg.Pkg.Path() == "unicode/utf8" && len(x.Call.Args) > 0 {
					if t := x.Call.Args[0].Type(); isString(t) || types.Identical(t.Underlying(), types.NewSlice(types.Typ[types.Byte])) {
						operand, what = x.Call.Args[0], "measured/decoded with utf8."+g.Name()
					}
				}
			}
			if operand == nil {
				continue
			}
			k++
			n++
			key := fmt.Sprintf("%s:text-as-characters#%d", fnName(fn), k)
			if serverText(operand, 0) {
				c.S.OK("R-bytes-opaque", key, c.Pos(c.InstrPos(in)), "text composed by the server itself")
			} else {
				c.S.Bad("R-bytes-opaque", key, c.Pos(c.InstrPos(in)), fmt.Sprintf("in %s text that can come from a client is %s: bytes that are not valid UTF-8 are altered and lengths count characters instead of bytes", fnName(fn), what))
			}
		}
	}
	if n == 0 {
		c.S.Trivial("R-bytes-opaque", "none", "-", "no text is handled as characters anywhere in the package")
	}
}

// ---------------------------------------------------------------- R-C07-absolute-deadline

const textAbsDeadline = "R-C07-absolute-deadline: a deadline given as an absolute time (EXAT, PXAT, EXPIREAT, PEXPIREAT: built with time.Unix / time.UnixMilli from the argument) is that time — nothing derived from the current time is added to it. All sibling sites use the argument as it is; `time.Unix(t, 0).Add(now.Nanosecond()…)` makes SET … EXAT t expire up to a second after t and PEXPIRETIME report a time nobody set"

func ruleC07AbsDeadline(c *Ctx) {
	c.S.Rule("R-C07-absolute-deadline", textAbsDeadline, 1)
	var fromNow func(v ssa.Value, depth int, seen map[ssa.Value]bool) bool
	fromNow = func(v ssa.Value, depth int, seen map[ssa.Value]bool) bool {
		if v == nil || depth > 8 || seen[v] {
			return false
		}
		seen[v] = true
		switch x := v.(type) {
		case *ssa.Call:
			if g := x.Call.StaticCallee(); g != nil && g.String() == "time.Now" {
				return true
			}
			for _, a := range x.Call.Args {
				if fromNow(a, depth+1, seen) {
					return true
				}
			}
		case *ssa.BinOp:
			return fromNow(x.X, depth+1, seen) || fromNow(x.Y, depth+1, seen)
		case *ssa.Convert:
			return fromNow(x.X, depth+1, seen)
		case *ssa.ChangeType:
			return fromNow(x.X, depth+1, seen)
		case *ssa.Phi:
			for _, e := range x.Edges {
				if fromNow(e, depth+1, seen) {
					return true
				}
			}
		case *ssa.UnOp:
			if al, ok := x.X.(*ssa.Alloc); ok && x.Op == token.MUL {
				for _, r := range referrers(al) {
					if st, ok := r.(*ssa.Store); ok && st.Addr == ssa.Value(al) && fromNow(st.Val, depth+1, seen) {
						return true
					}
				}
				return false
			}
			return fromNow(x.X, depth+1, seen)
		case *ssa.Extract:
			return fromNow(x.Tuple, depth+1, seen)
		}
		return false
	}
	n := 0
	for _, fn := range c.SrcFuncs() {
		k := 0
		for _, in := range instrsOf(fn) {
			call, ok := in.(*ssa.Call)
			if !ok {
				continue
			}
			g := call.Call.StaticCallee()
			if g == nil || (g.String() != "time.Unix" && g.String() != "time.UnixMilli" && g.String() != "time.UnixMicro") {
				continue
			}
			// built from a number that does not itself come from the clock (time.Unix(now.Unix()+n, 0) is a relative deadline)
			rel := false
			for _, a := range call.Call.Args {
				if fromNow(a, 0, map[ssa.Value]bool{}) {
					rel = true
				}
			}
			if rel {
				continue
			}
			k++
			n++
			key := fmt.Sprintf("%s:absolute-time#%d", fnName(fn), k)
			bad := ""
			// the value and its local copies: every Add applied to it
			vals := []ssa.Value{call}
			for i := 0; i < len(vals) && i < 16; i++ {
				for _, r := range referrers(vals[i]) {
					switch u := r.(type) {
					case *ssa.Store:
						if al, ok := u.Addr.(*ssa.Alloc); ok && u.Val == vals[i] {
							for _, r2 := range referrers(al) {
								if ld, ok := r2.(*ssa.UnOp); ok && ld.Op == token.MUL && u.Block().Dominates(ld.Block()) && (u.Block() != ld.Block() || instrIndex(u) < instrIndex(ld)) && u.Block() == ld.Block() {
									vals = append(vals, ld)
								}
							}
						}
					case *ssa.Call:
						if h := u.Call.StaticCallee(); h != nil && h.String() == "(time.Time).Add" && len(u.Call.Args) == 2 && u.Call.Args[0] == vals[i] {
							if fromNow(u.Call.Args[1], 0, map[ssa.Value]bool{}) {
								bad = fmt.Sprintf("%s adds a duration derived from the current time to the absolute time built at %s", fnName(fn), c.Pos(call.Pos()))
							}
							vals = append(vals, u)
						}
					}
				}
			}
			if bad != "" {
				c.S.Bad("R-C07-absolute-deadline", key, c.Pos(call.Pos()), bad+": the key outlives the deadline the client named and PEXPIRETIME reports another time")
			} else {
				c.S.OK("R-C07-absolute-deadline", key, c.Pos(call.Pos()), "the absolute time is used as given")
			}
		}
	}
	if n == 0 {
		c.S.Trivial("R-C07-absolute-deadline", "none", "-", "no absolute time is built from an argument")
	}
}

// ---------------------------------------------------------------- R-store-replaces

const textStoreReplaces = "R-store-replaces: a STORE form (SORT … STORE, SUNIONSTORE, SINTERSTORE, SDIFFSTORE) replaces its destination: every list or set it fills is one it created for this result — an allocation, a constructor, a clone — never an aggregate obtained by looking the destination up (or by look-up-or-create). Filling the looked-up object appends the result to what the destination held and keeps its deadline (RPUSH dst old; SORT src STORE dst gave [old, …] with the old TTL)"

func ruleStoreReplaces(c *Ctx) {
	c.S.Rule("R-store-replaces", textStoreReplaces, 1)
	mm := c.M.Muts()
	hs, err := c.M.Handlers()
	if err != nil {
		c.S.Undecided("R-store-replaces", "handlers", "-", err.Error())
		return
	}
	isAgg := func(t types.Type) string {
		switch {
		case c.isPkgType(t, "storeList"):
			return "list"
		case c.isPkgType(t, "redisDict"):
			return "set"
		}
		return ""
	}
	// writesParam: g stores into fields of its parameter i (a list header / dictionary), directly or by passing it on
	var writesParam func(g *ssa.Function, i int, depth int) bool
	writesParam = func(g *ssa.Function, i int, depth int) bool {
		if g == nil || len(g.Blocks) == 0 || depth > 3 || i >= len(g.Params) {
			return false
		}
		if i == 0 && (mm.dictStore[g] || mm.dictRem[g]) {
			return true
		}
		p := g.Params[i]
		for _, in := range instrsOf(g) {
			switch x := in.(type) {
			case *ssa.Store:
				if fa, ok := x.Addr.(*ssa.FieldAddr); ok && fa.X == ssa.Value(p) {
					return true
				}
			case ssa.CallInstruction:
				for _, h := range c.CalleesData(x) {
					if !c.InPkg(h) || h == g {
						continue
					}
					for j, a := range x.Common().Args {
						if a == ssa.Value(p) && writesParam(h, j, depth+1) {
							return true
						}
					}
				}
			}
		}
		return false
	}
	var fresh func(v ssa.Value, depth int, seen map[ssa.Value]bool) bool
	fresh = func(v ssa.Value, depth int, seen map[ssa.Value]bool) bool {
		if v == nil || depth > 6 {
			return false
		}
		if seen[v] {
			return true
		}
		seen[v] = true
		if isFresh(v) {
			return true
		}
		switch x := v.(type) {
		case *ssa.Phi:
			for _, e := range x.Edges {
				if !isNilConst(e) && !fresh(e, depth+1, seen) {
					return false
				}
			}
			return true
		case *ssa.Call:
			cals := c.CalleesData(x)
			if len(cals) == 0 {
				return false
			}
			for _, g := range cals {
				if !returnsFreshAt(c, g, 0, fresh, depth+1, seen) {
					return false
				}
			}
			return true
		case *ssa.Extract:
			call, ok := x.Tuple.(*ssa.Call)
			if !ok {
				return false
			}
			cals := c.CalleesData(call)
			if len(cals) == 0 {
				return false
			}
			for _, g := range cals {
				if !returnsFreshAt(c, g, x.Index, fresh, depth+1, seen) {
					return false
				}
			}
			return true
		case *ssa.UnOp:
			if x.Op != token.MUL {
				return false
			}
			cell := x.X
			if fv, ok := cell.(*ssa.FreeVar); ok {
				// a captured variable: the cell in the enclosing function
				fn := fv.Parent()
				for i, v2 := range fn.FreeVars {
					if v2 != fv || fn.Parent() == nil {
						continue
					}
					for _, in := range instrsOf(fn.Parent()) {
						if mc, ok := in.(*ssa.MakeClosure); ok && mc.Fn == ssa.Value(fn) && i < len(mc.Bindings) {
							cell = mc.Bindings[i]
						}
					}
				}
			}
			if al, ok := cell.(*ssa.Alloc); ok {
				n := 0
				var visit func(v ssa.Value) bool
				visit = func(v ssa.Value) bool {
					for _, r := range referrers(v) {
						switch u := r.(type) {
						case *ssa.Store:
							if u.Addr == v {
								n++
								if !isNilConst(u.Val) && !fresh(u.Val, depth+1, seen) {
									return false
								}
							}
						case *ssa.MakeClosure:
							// stores made by closures that capture the cell
							if g, ok := u.Fn.(*ssa.Function); ok {
								for i, b := range u.Bindings {
									if b == v && i < len(g.FreeVars) && !visit(g.FreeVars[i]) {
										return false
									}
								}
							}
						}
					}
					return true
				}
				return visit(al) && n > 0
			}
		}
		return false
	}
	n := 0
	for _, tok := range []string{"sort", "sort_ro", "sunionstore", "sinterstore", "sdiffstore"} {
		h := hs[tok]
		if h == nil {
			continue
		}
		reach := c.M.Reach(h)
		k := 0
		var fns []*ssa.Function
		for f := range reach {
			fns = append(fns, f)
		}
		sort.Slice(fns, func(i, j int) bool { return fnName(fns[i]) < fnName(fns[j]) })
		for _, f := range fns {
			for _, in := range instrsOf(f) {
				call, ok := in.(ssa.CallInstruction)
				if !ok {
					continue
				}
				for _, g := range c.CalleesData(call) {
					if !c.InPkg(g) {
						continue
					}
					for i, a := range call.Common().Args {
						kind := isAgg(a.Type())
						if kind == "" || !writesParam(g, i, 0) {
							continue
						}
						if _, isParam := outerBase(a).(*ssa.Parameter); isParam {
							continue // judged where the caller gets its argument from (also an embedded part of it)
						}
						if _, isKs := loadedField(a); isKs == c.Field("dataStore", "data") && isKs != nil {
							continue // the keyspace itself: installing the destination
						}
						k++
						n++
						key := fmt.Sprintf("%s:%s:fills#%d", tok, fnName(f), k)
						if fresh(a, 0, map[ssa.Value]bool{}) {
							c.S.OK("R-store-replaces", key, c.Pos(call.Pos()), fmt.Sprintf("the %s that %s fills was created for this result", kind, fnName(g)))
						} else {
							c.S.Bad("R-store-replaces", key, c.Pos(call.Pos()), fmt.Sprintf("%s (reached from %s) lets %s fill a %s that can be one it looked up: the result is added to what the destination held and the old deadline stays", fnName(f), strings.ToUpper(tok), fnName(g), kind))
						}
					}
				}
			}
		}
	}
	if n == 0 {
		c.S.Trivial("R-store-replaces", "none", "-", "no STORE form fills an aggregate through a writing function")
	}
}

// returnsFreshAt: every return of g yields, at result idx, a value that `fresh` accepts (or nil).
func returnsFreshAt(c *Ctx, g *ssa.Function, idx int, fresh func(ssa.Value, int, map[ssa.Value]bool) bool, depth int, seen map[ssa.Value]bool) bool {
	if g == nil || len(g.Blocks) == 0 || !c.InPkg(g) {
		return false
	}
	n := 0
	for _, b := range g.Blocks {
		ret, ok := b.Instrs[len(b.Instrs)-1].(*ssa.Return)
		if !ok || idx >= len(ret.Results) {
			continue
		}
		n++
		if isNilConst(ret.Results[idx]) {
			continue
		}
		if !fresh(ret.Results[idx], depth, seen) {
			return false
		}
	}
	return n > 0
}

// ---------------------------------------------------------------- R-string-payload-nonnil

const textStringNonNil = "R-string-payload-nonnil: the accessor of a string value answers nil for “this key holds another type”, and its callers test the result against nil; therefore a byte slice stored as the payload of a string key is never nil — it is a conversion of a string, a make, an append onto or a slice of such a value (through merges, cells, parameters at every call site and results of helpers). A variable that starts nil and is assigned in every round of a loop over the command's key list counts as assigned (the grammar requires one key). A nil slice can come from a decoder (gob leaves an empty slice nil): SET k \"\"; restart; GET k answered WRONGTYPE"

// cellNonNil: the local cell al holds a non-nil value just before instruction idx of block b, on every path: the last
// store before that point stores a non-nil value, or the path comes through the non-nil side of a test of the cell's
// value; a call that is given the cell's address (a decoder) makes it unknown again.
func cellNonNil(al *ssa.Alloc, b *ssa.BasicBlock, idx int, seen map[*ssa.BasicBlock]bool, valNonNil func(ssa.Value, *ssa.BasicBlock) bool) bool {
	takesAddr := func(in ssa.Instruction) bool {
		call, ok := in.(ssa.CallInstruction)
		if !ok {
			return false
		}
		for _, a := range call.Common().Args {
			if a == ssa.Value(al) {
				return true
			}
			if mi, ok := a.(*ssa.MakeInterface); ok && mi.X == ssa.Value(al) {
				return true
			}
		}
		return false
	}
	for i := idx - 1; i >= 0; i-- {
		in := b.Instrs[i]
		if st, ok := in.(*ssa.Store); ok && st.Addr == ssa.Value(al) {
			return valNonNil(st.Val, b)
		}
		if takesAddr(in) || in == ssa.Instruction(al) {
			return false // handed to a writer, or the cell's creation (its zero value is nil)
		}
	}
	if len(b.Preds) == 0 {
		return false // the zero value
	}
	for _, p := range b.Preds {
		// the edge p→b is the non-nil side of a test of this cell's value, and nothing wrote the cell after the load
		if ifi, ok := p.Instrs[len(p.Instrs)-1].(*ssa.If); ok && len(p.Succs) == 2 && p.Succs[0] != p.Succs[1] {
			if bo, ok := ifi.Cond.(*ssa.BinOp); ok && (isNilConst(bo.X) || isNilConst(bo.Y)) {
				other := bo.X
				if isNilConst(other) {
					other = bo.Y
				}
				if ld, ok := other.(*ssa.UnOp); ok && ld.Op == token.MUL && ld.X == ssa.Value(al) && ld.Block() == p {
					clean := true
					for _, in := range p.Instrs[instrIndex(ld)+1:] {
						if st, ok := in.(*ssa.Store); ok && st.Addr == ssa.Value(al) {
							clean = false
						}
						if takesAddr(in) {
							clean = false
						}
					}
					nonNilSide := (bo.Op == token.NEQ && p.Succs[0] == b) || (bo.Op == token.EQL && p.Succs[1] == b)
					if clean && nonNilSide {
						continue
					}
				}
			}
		}
		if seen[p] {
			continue // a cycle adds nothing new
		}
		seen[p] = true
		if !cellNonNil(al, p, len(p.Instrs), seen, valNonNil) {
			return false
		}
	}
	return true
}

func ruleStringPayloadNonNil(c *Ctx) {
	c.S.Rule("R-string-payload-nonnil", textStringNonNil, 1)
	fPay := c.Field("storeKey", "payload")
	if fPay == nil {
		c.S.Undecided("R-string-payload-nonnil", "anchors", "-", "storeKey.payload not found")
		return
	}
	isBytes := func(t types.Type) bool {
		s, ok := t.Underlying().(*types.Slice)
		if !ok {
			return false
		}
		b, ok := s.Elem().Underlying().(*types.Basic)
		return ok && b.Kind() == types.Uint8
	}
	// tri-state: 1 never nil, -1 a nil can reach here (a nil constant, a zero-valued cell, a cell a decoder filled),
	// 0 not decided (the value comes through a struct field, an interface, an unknown producer)
	min := func(a, b int) int {
		if a < b {
			return a
		}
		return b
	}
	var nonNil func(v ssa.Value, at *ssa.BasicBlock, depth int, seen map[ssa.Value]bool) int
	nonNil = func(v ssa.Value, at *ssa.BasicBlock, depth int, seen map[ssa.Value]bool) int {
		if v == nil || depth > 8 {
			return 0
		}
		if seen[v] {
			return 1
		}
		seen[v] = true
		if isNilConst(v) {
			return -1
		}
		// a dominating test `v != nil` / `v == nil` (other side) on this very value
		if at != nil {
			for b := at; b != nil && b.Idom() != nil; b = b.Idom() {
				d := b.Idom()
				ifi, ok := d.Instrs[len(d.Instrs)-1].(*ssa.If)
				if !ok {
					continue
				}
				bo, ok := ifi.Cond.(*ssa.BinOp)
				if !ok || !(isNilConst(bo.X) || isNilConst(bo.Y)) {
					continue
				}
				other := bo.X
				if isNilConst(other) {
					other = bo.Y
				}
				if other != v && !sameSliceValue(other, v) {
					continue
				}
				for i, s := range d.Succs {
					if (s == b || s.Dominates(b)) && len(s.Preds) == 1 {
						if (bo.Op == token.NEQ && i == 0) || (bo.Op == token.EQL && i == 1) {
							return 1
						}
					}
				}
			}
		}
		switch x := v.(type) {
		case *ssa.MakeSlice:
			return 1
		case *ssa.Convert:
			if b, ok := x.X.Type().Underlying().(*types.Basic); ok && b.Info()&types.IsString != 0 {
				return 1 // []byte(s) is non-nil also for the empty string
			}
			return nonNil(x.X, at, depth+1, seen)
		case *ssa.ChangeType:
			return nonNil(x.X, at, depth+1, seen)
		case *ssa.Slice:
			// a[i:j] of a non-nil slice or of an array is non-nil
			if _, isPtr := x.X.Type().Underlying().(*types.Pointer); isPtr {
				return 1
			}
			return nonNil(x.X, at, depth+1, seen)
		case *ssa.Phi:
			r := 1
			for i, e := range x.Edges {
				if isNilConst(e) && blockInCycle(x.Block()) && len(x.Edges) > 1 {
					// `var r []byte; for … { if r == nil { r = make(…) } … }`: nil only if the loop over the command's
					// key list runs zero times, which the grammar excludes (A7: numkeys ≥ 1)
					continue
				}
				r = min(r, nonNil(e, x.Block().Preds[i], depth+1, seen))
			}
			return r
		case *ssa.Call:
			if b, ok := x.Call.Value.(*ssa.Builtin); ok && b.Name() == "append" {
				baseState := nonNil(x.Call.Args[0], at, depth+1, seen)
				if baseState == 1 {
					return 1
				}
				// what is appended is provably not empty: explicit elements, or a constant text
				if len(x.Call.Args) == 2 {
					switch y := x.Call.Args[1].(type) {
					case *ssa.Slice:
						if al, ok := y.X.(*ssa.Alloc); ok {
							if at2, ok := deref(al.Type()).Underlying().(*types.Array); ok && at2.Len() > 0 {
								return 1
							}
						}
					case *ssa.Const:
						if s, ok := constString(y); ok && s != "" {
							return 1
						}
					}
				}
				if baseState == -1 {
					return -1 // append(nil, xs...) with xs possibly empty is nil: `append([]byte(nil), old[:0]...)`
				}
				return 0 // base not decided
			}
			cals := c.CalleesData(x)
			if len(cals) == 0 {
				return 0
			}
			r := 1
			for _, g := range cals {
				if !c.InPkg(g) {
					switch g.String() {
					case "strconv.AppendInt", "strconv.AppendFloat", "strconv.AppendUint", "(*bytes.Buffer).Bytes":
						continue
					}
					r = min(r, 0)
					continue
				}
				n := 0
				for _, b := range g.Blocks {
					if ret, ok := b.Instrs[len(b.Instrs)-1].(*ssa.Return); ok && len(ret.Results) > 0 {
						n++
						r = min(r, nonNil(ret.Results[0], b, depth+1, seen))
					}
				}
				if n == 0 {
					r = min(r, 0)
				}
			}
			return r
		case *ssa.UnOp:
			if al, ok := x.X.(*ssa.Alloc); ok && x.Op == token.MUL {
				// a local cell: every store non-nil, and the address is not handed to anybody (a decoder)
				n, r := 0, 1
				for _, ref := range referrers(al) {
					switch u := ref.(type) {
					case *ssa.Store:
						if u.Addr == ssa.Value(al) {
							n++
							r = min(r, nonNil(u.Val, u.Block(), depth+1, seen))
						}
					case *ssa.UnOp:
					default:
						// escapes (&str passed to a decoder): what the cell holds here is decided along the paths
						if cellNonNil(al, x.Block(), instrIndex(x), map[*ssa.BasicBlock]bool{}, func(v ssa.Value, b *ssa.BasicBlock) bool { return nonNil(v, b, depth+1, seen) == 1 }) {
							return 1
						}
						return -1
					}
				}
				if n == 0 {
					return -1 // only ever its zero value
				}
				return r
			}
			return 0
		case *ssa.Parameter:
			fn := x.Parent()
			idx := -1
			for i, p := range fn.Params {
				if p == x {
					idx = i
				}
			}
			node := c.CG.Nodes[fn]
			if node == nil || idx < 0 || len(node.In) == 0 {
				return 0
			}
			r := 1
			for _, e := range node.In {
				args := e.Site.Common().Args
				if e.Site.Common().IsInvoke() || idx >= len(args) {
					r = min(r, 0)
					continue
				}
				r = min(r, nonNil(args[idx], e.Site.Block(), depth+1, seen))
			}
			return r
		}
		return 0
	}
	n := 0
	for _, fn := range c.SrcFuncs() {
		k := 0
		for _, in := range instrsOf(fn) {
			var val ssa.Value
			if st, ok := isStoreTo(in, fPay); ok {
				val = st.Val
			}
			if val == nil {
				continue
			}
			// through the interface conversion; composite literals store the field at construction too (isStoreTo sees them)
			var leaves []ssa.Value
			for _, leaf := range phiLeaves(val, map[ssa.Value]bool{}) {
				if mi, ok := leaf.(*ssa.MakeInterface); ok && isBytes(mi.X.Type()) {
					leaves = append(leaves, mi.X)
				}
			}
			if len(leaves) == 0 {
				// a cell of type any holding the payload (`var payload any … payload = str`)
				if u, ok := val.(*ssa.UnOp); ok && u.Op == token.MUL {
					if al, ok := u.X.(*ssa.Alloc); ok {
						for _, r := range referrers(al) {
							if st, ok := r.(*ssa.Store); ok && st.Addr == ssa.Value(al) {
								if mi, ok := st.Val.(*ssa.MakeInterface); ok && isBytes(mi.X.Type()) {
									leaves = append(leaves, mi.X)
								}
							}
						}
					}
				}
			}
			for _, leaf := range leaves {
				k++
				n++
				key := fmt.Sprintf("%s:string-payload#%d", fnName(fn), k)
				var blk *ssa.BasicBlock
				if li, ok := leaf.(ssa.Instruction); ok {
					blk = li.Block()
				}
				for _, r := range referrers(leaf) {
					if m, ok := r.(*ssa.MakeInterface); ok {
						blk = m.Block()
					}
				}
				switch nonNil(leaf, blk, 0, map[ssa.Value]bool{}) {
				case 1:
					c.S.OK("R-string-payload-nonnil", key, c.Pos(c.InstrPos(in)), "the stored slice is a conversion, a make, or built on one")
				case 0:
					c.S.Trivial("R-string-payload-nonnil", key, c.Pos(c.InstrPos(in)), "not decided: the slice comes through a struct field or a producer this rule does not follow (no nil source found)")
				default:
					c.S.Bad("R-string-payload-nonnil", key, c.Pos(c.InstrPos(in)), fmt.Sprintf("%s can store a nil byte slice as the value of a string key: every reader takes nil for “wrong type” (GET answers WRONGTYPE for the empty value)", fnName(fn)))
				}
			}
		}
	}
	if n == 0 {
		c.S.Undecided("R-string-payload-nonnil", "sites", "-", "no byte slice is stored as a payload")
	}
}

// ---------------------------------------------------------------- R-sort-keys-defined

const textSortKeys = "R-sort-keys-defined: the fields a comparison function reads from the elements it orders (the closure given to sort.Slice) are written on every path that leads from the creation of the elements to the sort — in a composite literal, an assignment, or a loop over the same slice. A key field that is only filled on one branch (under BY) compares zero values on the other: SORT without BY returned the list in insertion order"

func ruleSortKeysDefined(c *Ctx) {
	c.S.Rule("R-sort-keys-defined", textSortKeys, 1)
	n := 0
	for _, fn := range c.SrcFuncs() {
		k := 0
		for _, in := range instrsOf(fn) {
			call, ok := in.(*ssa.Call)
			if !ok {
				continue
			}
			g := call.Call.StaticCallee()
			if g == nil || (g.String() != "sort.Slice" && g.String() != "sort.SliceStable") || len(call.Call.Args) != 2 {
				continue
			}
			mc, ok := call.Call.Args[1].(*ssa.MakeClosure)
			if !ok {
				continue
			}
			less, _ := mc.Fn.(*ssa.Function)
			// the element type of the sorted slice
			sl := call.Call.Args[0]
			if mi, ok := sl.(*ssa.MakeInterface); ok {
				sl = mi.X
			}
			st, ok := sl.Type().Underlying().(*types.Slice)
			if !ok || less == nil {
				continue
			}
			elemStruct, ok := st.Elem().Underlying().(*types.Struct)
			if !ok {
				continue
			}
			// fields of the element type the comparison reads
			fields := map[*types.Var]bool{}
			for _, in2 := range instrsOf(less) {
				switch x := in2.(type) {
				case *ssa.FieldAddr:
					if types.Identical(deref(x.X.Type()), st.Elem()) {
						fields[fieldOf(x)] = true
					}
				case *ssa.Field:
					if types.Identical(x.X.Type(), st.Elem()) {
						fields[fieldOf(x)] = true
					}
				}
			}
			_ = elemStruct
			var fs []*types.Var
			for f := range fields {
				fs = append(fs, f)
			}
			sort.Slice(fs, func(i, j int) bool { return fs[i].Name() < fs[j].Name() })
			// the slice is handed in (a method `(vs sortVals) order(…)` of a sorting phase): the keys are assigned by the
			// phase before it, in another function — not decided here (stated), never reported
			slRoot := sl
			for i := 0; i < 3; i++ {
				if ct, ok := slRoot.(*ssa.ChangeType); ok {
					slRoot = ct.X
				}
				slRoot = resolveLocal(slRoot) // a receiver captured by the comparison closure lives in a cell
			}
			if _, isParam := slRoot.(*ssa.Parameter); isParam {
				for _, f := range fs {
					k++
					n++
					c.S.Trivial("R-sort-keys-defined", fmt.Sprintf("%s:sort#%d:%s", fnName(fn), k, f.Name()), c.Pos(call.Pos()), "the sorted slice is a parameter: its keys are assigned by the caller's earlier phase (not followed across functions)")
				}
				continue
			}
			for _, f := range fs {
				k++
				n++
				key := fmt.Sprintf("%s:sort#%d:%s", fnName(fn), k, f.Name())
				writes := func(in3 ssa.Instruction) bool {
					s3, ok := in3.(*ssa.Store)
					if !ok {
						return false
					}
					fa, ok := s3.Addr.(*ssa.FieldAddr)
					return ok && fieldOf(fa) == f
				}
				// forward from the entry, path by path; a block that writes the field ends the path; loops over a slice of
				// the element type are taken to run (no element, nothing to compare); a condition that was decided earlier
				// on the path (the same boolean value, a flag set to a constant on the way) is followed consistently
				type state struct {
					b   *ssa.BasicBlock
					sig string
				}
				seen := map[state]bool{}
				uncovered := false
				steps := 0
				var evalCond func(v ssa.Value, env map[ssa.Value]bool) (bool, bool)
				evalCond = func(v ssa.Value, env map[ssa.Value]bool) (bool, bool) {
					if t, ok := env[v]; ok {
						return t, true
					}
					if u, ok := v.(*ssa.UnOp); ok && u.Op == token.NOT {
						t, ok := evalCond(u.X, env)
						return !t, ok
					}
					if k, ok := v.(*ssa.Const); ok && k.Value != nil && (k.Value.String() == "true" || k.Value.String() == "false") {
						return k.Value.String() == "true", true
					}
					return false, false
				}
				setCond := func(v ssa.Value, t bool, env map[ssa.Value]bool) {
					for {
						u, ok := v.(*ssa.UnOp)
						if !ok || u.Op != token.NOT {
							break
						}
						v, t = u.X, !t
					}
					env[v] = t
				}
				sigOf := func(env map[ssa.Value]bool) string {
					var parts []string
					for v, t := range env {
						parts = append(parts, fmt.Sprintf("%s=%v", v.Name(), t))
					}
					sort.Strings(parts)
					return strings.Join(parts, ",")
				}
				var walk func(b, from *ssa.BasicBlock, env map[ssa.Value]bool)
				walk = func(b, from *ssa.BasicBlock, env map[ssa.Value]bool) {
					steps++
					if uncovered || steps > 20000 {
						return
					}
					// boolean phis take the value of the edge we came along
					if from != nil {
						for _, in3 := range b.Instrs {
							phi, ok := in3.(*ssa.Phi)
							if !ok {
								break
							}
							for pi, p := range b.Preds {
								if p == from {
									if t, ok := evalCond(phi.Edges[pi], env); ok {
										env[phi] = t
									} else {
										delete(env, phi)
									}
								}
							}
						}
					}
					st := state{b, sigOf(env)}
					if seen[st] {
						return
					}
					seen[st] = true
					for _, in3 := range b.Instrs {
						if in3 == ssa.Instruction(call) {
							uncovered = true
							return
						}
						if writes(in3) {
							return
						}
					}
					ifi, isIf := b.Instrs[len(b.Instrs)-1].(*ssa.If)
					if !isIf {
						for _, s2 := range b.Succs {
							walk(s2, b, env)
						}
						return
					}
					if blockInCycle(b) {
						if bo, ok := ifi.Cond.(*ssa.BinOp); ok && bo.Op == token.LSS {
							if lc, ok := bo.Y.(*ssa.Call); ok {
								if bb, ok := lc.Call.Value.(*ssa.Builtin); ok && bb.Name() == "len" && types.Identical(lc.Call.Args[0].Type(), sl.Type()) {
									walk(b.Succs[0], b, env)
									return
								}
							}
						}
					}
					if t, ok := evalCond(ifi.Cond, env); ok {
						if t {
							walk(b.Succs[0], b, env)
						} else {
							walk(b.Succs[1], b, env)
						}
						return
					}
					for si, s2 := range b.Succs {
						env2 := map[ssa.Value]bool{}
						for k2, v2 := range env {
							env2[k2] = v2
						}
						setCond(ifi.Cond, si == 0, env2)
						walk(s2, b, env2)
					}
				}
				walk(fn.Blocks[0], nil, map[ssa.Value]bool{})
				if steps > 20000 {
					c.S.Trivial("R-sort-keys-defined", key, c.Pos(call.Pos()), "not decided: too many paths")
					continue
				}
				if uncovered {
					c.S.Bad("R-sort-keys-defined", key, c.Pos(call.Pos()), fmt.Sprintf("%s orders its elements by the field %s, which is not written on some path to the sort (it is filled on one branch only): on that path every element compares equal and the order is whatever it was", fnName(fn), f.Name()))
				} else {
					c.S.OK("R-sort-keys-defined", key, c.Pos(call.Pos()), "the field is written on every path to the sort")
				}
			}
		}
	}
	if n == 0 {
		c.S.Trivial("R-sort-keys-defined", "none", "-", "no sort.Slice over struct elements")
	}
}
