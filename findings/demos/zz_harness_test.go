package redisemu

// Demonstration harness for triaging findings (NOT part of the checking machinery).
// Copied into a scratch copy of the repository by findings/run_demo.sh.

import (
	"bufio"
	"fmt"
	"net"
	"strconv"
	"strings"
	"sync/atomic"
	"testing"
	"time"

	"github.com/jimsnab/go-lane"
)

var demoPort int32 = 21000

type demoSrv struct {
	eng  *RedisEmu
	port int
}

func startDemo(t *testing.T, persist string) *demoSrv {
	port := int(atomic.AddInt32(&demoPort, 1))
	l := lane.NewNullLane(nil)
	eng, err := NewEmulator(l, port, "", persist, nil)
	if err != nil {
		t.Fatal(err)
	}
	eng.Start()
	return &demoSrv{eng: eng, port: port}
}

func (s *demoSrv) stop() { s.eng.RequestTermination(); s.eng.WaitForTermination() }

type demoCli struct {
	c net.Conn
	r *bufio.Reader
}

func (s *demoSrv) dial(t *testing.T) *demoCli {
	var c net.Conn
	var err error
	for i := 0; i < 50; i++ {
		c, err = net.Dial("tcp", fmt.Sprintf("127.0.0.1:%d", s.port))
		if err == nil {
			break
		}
		time.Sleep(20 * time.Millisecond)
	}
	if err != nil {
		t.Fatal(err)
	}
	return &demoCli{c: c, r: bufio.NewReader(c)}
}

func (c *demoCli) raw(b string) { c.c.Write([]byte(b)) }

func (c *demoCli) send(args ...string) {
	var sb strings.Builder
	fmt.Fprintf(&sb, "*%d\r\n", len(args))
	for _, a := range args {
		fmt.Fprintf(&sb, "$%d\r\n%s\r\n", len(a), a)
	}
	c.c.Write([]byte(sb.String()))
}

// read returns a compact rendering of one RESP reply ("" on timeout => "<timeout>").
func (c *demoCli) read(timeout time.Duration) string {
	c.c.SetReadDeadline(time.Now().Add(timeout))
	line, err := c.r.ReadString('\n')
	if err != nil {
		return "<timeout/closed: " + err.Error() + ">"
	}
	line = strings.TrimRight(line, "\r\n")
	if line == "" {
		return "<blank>"
	}
	switch line[0] {
	case '+', '-', ':', ',', '#', '_', '(':
		return line
	case '$', '=', '!':
		n, _ := strconv.Atoi(line[1:])
		if n < 0 {
			return "(nil)"
		}
		buf := make([]byte, n+2)
		for got := 0; got < n+2; {
			k, err := c.r.Read(buf[got:])
			if err != nil {
				return "<short bulk>"
			}
			got += k
		}
		return strconv.Quote(string(buf[:n]))
	case '*', '~', '>':
		n, _ := strconv.Atoi(line[1:])
		if n < 0 {
			return "(nil-array)"
		}
		parts := []string{}
		for i := 0; i < n; i++ {
			parts = append(parts, c.read(timeout))
		}
		return "[" + strings.Join(parts, " ") + "]"
	case '%':
		n, _ := strconv.Atoi(line[1:])
		parts := []string{}
		for i := 0; i < 2*n; i++ {
			parts = append(parts, c.read(timeout))
		}
		return "{" + strings.Join(parts, " ") + "}"
	}
	return "<?" + line + ">"
}

func (c *demoCli) do(args ...string) string {
	c.send(args...)
	return c.read(3 * time.Second)
}

func expect(t *testing.T, what, got, want string) {
	t.Helper()
	if got != want {
		t.Errorf("%s: got %s, want %s", what, got, want)
	} else {
		t.Logf("%s: %s", what, got)
	}
}
