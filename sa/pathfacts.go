package main

// Path-sensitive fall-back for nilness questions: when the dominator-based argument fails (typically after two
// variants of a function were merged behind a boolean parameter), every acyclic path from the function's entry to the
// use is enumerated with consistent branch decisions (the same condition value cannot be true at one branch and false
// at the next), phis are resolved per path, and the facts collected on the path (nil tests, status tests) must prove the
// value non-nil on each feasible path. No solver: facts are per SSA value, conditions are nil tests, comparisons with
// constants, boolean values and their negations.

import (
	"go/token"
	"go/types"

	"golang.org/x/tools/go/ssa"
)

type pathFacts struct {
	phi     map[*ssa.Phi]ssa.Value
	truth   map[ssa.Value]bool
	nilness map[ssa.Value]int // +1 non-nil, -1 nil
	eq      map[ssa.Value]int64
	hasEq   map[ssa.Value]bool
	ne      map[ssa.Value]map[int64]bool
}

func newPathFacts() *pathFacts {
	return &pathFacts{phi: map[*ssa.Phi]ssa.Value{}, truth: map[ssa.Value]bool{}, nilness: map[ssa.Value]int{},
		eq: map[ssa.Value]int64{}, hasEq: map[ssa.Value]bool{}, ne: map[ssa.Value]map[int64]bool{}}
}

func (pf *pathFacts) clone() *pathFacts {
	c := newPathFacts()
	for k, v := range pf.phi {
		c.phi[k] = v
	}
	for k, v := range pf.truth {
		c.truth[k] = v
	}
	for k, v := range pf.nilness {
		c.nilness[k] = v
	}
	for k, v := range pf.eq {
		c.eq[k] = v
		c.hasEq[k] = true
	}
	for k, v := range pf.ne {
		m := map[int64]bool{}
		for a, b := range v {
			m[a] = b
		}
		c.ne[k] = m
	}
	return c
}

// resolve follows the phis chosen on this path and value-preserving wrappers.
func (pf *pathFacts) resolve(v ssa.Value) ssa.Value {
	for i := 0; i < 16; i++ {
		switch x := v.(type) {
		case *ssa.Phi:
			if r, ok := pf.phi[x]; ok {
				v = r
				continue
			}
		case *ssa.ChangeType:
			v = x.X
			continue
		}
		break
	}
	return v
}

// assume records that cond has the given truth value; false if that contradicts the facts of the path.
func (pf *pathFacts) assume(cond ssa.Value, truth bool) bool {
	cond = pf.resolve(cond)
	if t, ok := pf.truth[cond]; ok {
		return t == truth
	}
	pf.truth[cond] = truth
	switch x := cond.(type) {
	case *ssa.Const:
		if x.Value != nil && (x.Value.String() == "true") != truth {
			return false
		}
	case *ssa.UnOp:
		if x.Op == token.NOT {
			return pf.assume(x.X, !truth)
		}
	case *ssa.BinOp:
		if x.Op != token.EQL && x.Op != token.NEQ {
			return true
		}
		equal := (x.Op == token.EQL) == truth
		a, b := pf.resolve(x.X), pf.resolve(x.Y)
		if isNilConst(b) {
			a, b = b, a
		}
		if isNilConst(a) {
			want := 1
			if equal {
				want = -1
			}
			if isNilConst(b) {
				return equal
			}
			if n, ok := pf.nilness[b]; ok && n != want {
				return false
			}
			pf.nilness[b] = want
			return true
		}
		var val ssa.Value
		var k int64
		if c, ok := a.(*ssa.Const); ok && c.Value != nil {
			if kk, ok := constStatus(c); ok {
				val, k = b, kk
			}
		} else if c, ok := b.(*ssa.Const); ok && c.Value != nil {
			if kk, ok := constStatus(c); ok {
				val, k = a, kk
			}
		}
		if val != nil {
			if bt, ok := val.Type().Underlying().(*types.Basic); ok && bt.Kind() == types.Bool {
				// b == true / b != false …
				return pf.assume(val, (k == 1) == equal)
			}
			if equal {
				if pf.hasEq[val] && pf.eq[val] != k {
					return false
				}
				if pf.ne[val][k] {
					return false
				}
				pf.eq[val], pf.hasEq[val] = k, true
			} else {
				if pf.hasEq[val] && pf.eq[val] == k {
					return false
				}
				if pf.ne[val] == nil {
					pf.ne[val] = map[int64]bool{}
				}
				pf.ne[val][k] = true
			}
		}
	}
	return true
}

// explorePaths enumerates the paths from the entry of fn to the block of `at` (each block at most twice per path) and
// calls visit with the facts at that point; it stops (returning false) as soon as visit returns false or the budget of
// paths is exhausted.
func explorePaths(fn *ssa.Function, at ssa.Instruction, visit func(*pathFacts) bool) bool {
	target := at.Block()
	budget := 4000
	ok := true
	var walk func(b, from *ssa.BasicBlock, pf *pathFacts, seen map[*ssa.BasicBlock]int)
	walk = func(b, from *ssa.BasicBlock, pf *pathFacts, seen map[*ssa.BasicBlock]int) {
		if !ok {
			return
		}
		if seen[b] >= 2 {
			return
		}
		seen[b]++
		defer func() { seen[b]-- }()
		if from != nil {
			idx := -1
			for i, p := range b.Preds {
				if p == from {
					idx = i
				}
			}
			chosen := map[*ssa.Phi]ssa.Value{}
			for _, in := range b.Instrs {
				p, isPhi := in.(*ssa.Phi)
				if !isPhi {
					break
				}
				if idx >= 0 {
					chosen[p] = pf.resolve(p.Edges[idx])
				}
			}
			for p, v := range chosen {
				pf.phi[p] = v
			}
		}
		if b == target {
			budget--
			if budget < 0 || !visit(pf) {
				ok = false
			}
			return
		}
		last := b.Instrs[len(b.Instrs)-1]
		if ifi, isIf := last.(*ssa.If); isIf {
			for i, s := range b.Succs {
				if !plainReachAvoid(s, target, nil) {
					continue
				}
				np := pf.clone()
				if !np.assume(ifi.Cond, i == 0) {
					continue
				}
				walk(s, b, np, seen)
			}
			return
		}
		for _, s := range b.Succs {
			if !plainReachAvoid(s, target, nil) {
				continue
			}
			walk(s, b, pf.clone(), seen)
		}
	}
	walk(fn.Blocks[0], nil, newPathFacts(), map[*ssa.BasicBlock]int{})
	return ok
}
