package redisemu

import "testing"

// C03: LREM with the smallest count removes every match from the tail (the negated count has no positive
// counterpart: Redis' counter never reaches it, so nothing stops the scan).
func TestDemoC03LremMin(t *testing.T) {
	s := startDemo(t, "")
	defer s.stop()
	c := s.dial(t)
	c.do("RPUSH", "l", "x", "a", "x", "b", "x")
	expect(t, "LREM l -9223372036854775808 x", c.do("LREM", "l", "-9223372036854775808", "x"), ":3")
	expect(t, "LLEN l", c.do("LLEN", "l"), ":2")
	c.do("RPUSH", "m", "x", "a", "x")
	expect(t, "LREM m -1 x", c.do("LREM", "m", "-1", "x"), ":1")
	expect(t, "LINDEX m 0", c.do("LINDEX", "m", "0"), "\"x\"")
}
