package main

import (
	"path/filepath"
	"strings"
)

// fileScope builds an A7 scope predicate: sites located in functions defined in one of the files.
func fileScope(c *Ctx, files ...string) func(fn string) bool {
	return func(fn string) bool {
		f := c.Fn(fn)
		if f == nil {
			// closures: strip the $n suffix
			if i := strings.Index(fn, "$"); i > 0 {
				f = c.Fn(fn[:i])
			}
		}
		if f == nil {
			return false
		}
		base := filepath.Base(c.Fset.Position(f.Pos()).Filename)
		for _, x := range files {
			if x == base {
				return true
			}
		}
		return false
	}
}

func a7Files(floor int, files ...string) func(*Ctx) {
	return func(c *Ctx) { ruleA7(fileScope(c, files...), floor)(c) }
}

var commonAssumptions = []string{
	"the analysed program is the non-test package in /repo as type-checked by go/types under the listed build configurations; _test.go files are excluded (tests call *Unlocked internals directly)",
	"dynamic calls are resolved by the VTA call graph (an over-approximation); must-reach style rules use static callees only",
	"lock analysis is by lock class (mutex field / global), not by instance: holding database A's mutex while touching database B's data is not seen",
}

func init() {
	register(&PropSpec{ID: "C02", Explanation: "x", Assumptions: commonAssumptions,
		Rules: []func(*Ctx){ruleCmdIdent, ruleOverflowIdiom, ruleMsetnxPhase, a7Files(20, "redisKeys.go")}})
	register(&PropSpec{ID: "C03", Explanation: "x", Assumptions: commonAssumptions,
		Rules: []func(*Ctx){ruleDetached, a7Files(20, "redisList.go")}})
	register(&PropSpec{ID: "C04", Explanation: "x", Assumptions: commonAssumptions,
		Rules: []func(*Ctx){ruleSiblingParam, ruleOverflowIdiom, a7Files(20, "redisHashTable.go")}})
	register(&PropSpec{ID: "C05", Explanation: "x", Assumptions: commonAssumptions,
		Rules: []func(*Ctx){ruleReadonly(nil), a7Files(15, "redisSet.go")}})
	register(&PropSpec{ID: "C14", Explanation: "x", Assumptions: commonAssumptions,
		Rules: []func(*Ctx){ruleC14DbTable, ruleC14Select, ruleA1Modes}})
	register(&PropSpec{
		ID: "C06",
		Explanation: "Structural necessary conditions of keyspace discipline, decided for every site of the current source: (A4-empty) after every site that can shrink a list/hash/set, every path to the end of the critical section tests the aggregate's count against zero and removes the key on the empty side; (A7, files redisCore.go) every option the keyspace handlers look up can be produced by the grammar. The check decides these structural clauses for all paths; it does not decide reply values.",
		NotDecided:  "glob matching, SORT ordering, DBSIZE/KEYS values, WRONGTYPE replies as values, deep-copy equality of COPY/RENAME (see R-payload-agree when present)",
		Assumptions: commonAssumptions,
		Rules:       []func(*Ctx){ruleA4Empty, rulePayloadAgree, ruleCtorAgree, ruleTypedNil, a7Files(20, "redisCore.go")},
	})
	register(&PropSpec{
		ID: "C07",
		Explanation: "A6 (who-may-read the keyspace raw): every read of a database's keyspace dictionary goes through an expiry filter (tests isExpired, yields (nil,false) on the expired edge), or is an iteration that tests isExpired per element, or is the snapshot writer. This is exactly the universally quantified 'every command treats an expired key as missing' clause.",
		NotDecided:  "deadline arithmetic, TTL/PTTL/EXPIRETIME values, NX/XX/GT/LT comparisons, behaviour at the deadline instant (time is a runtime quantity)",
		Assumptions: commonAssumptions,
		Rules:       []func(*Ctx){ruleA6},
	})
	register(&PropSpec{
		ID: "C08",
		Explanation: "Under the lock-class assumption, (A1-DB) every access to database state happens with the database mutex held on every path from every root and (lock-balanced) no function returns with the mutex possibly still held; together with (A3, when present) one critical section per command this is the static form of strict two-phase locking with one lock, which implies atomicity of single-database commands.",
		NotDecided:  "real-time ordering across connections beyond mutual exclusion; cross-database scenarios; wrap-around of the 27-bit command id compared by the re-entrant lock",
		Assumptions: append([]string{"the owner-token protocol: ds.multiLock equals a command's id only while the EXEC that published it holds ds.mu, and cmdContext.multi is true for a queued command only while that EXEC replays it"}, commonAssumptions...),
		Rules:       []func(*Ctx){ruleA1("A1-guarded", onlyDB), ruleLockBalanced(nil), ruleA3},
	})
	register(&PropSpec{
		ID: "C09",
		Explanation: "Structure of the MULTI/EXEC implementation, decided on all paths: state reset on every exit of EXEC/DISCARD; commands are only queued while a queue exists (append guard, non-nil response after append, handler call dominated by response==nil, control table = {multi,exec,discard,watch}); EXEC replays under the exclusive database hold with the lock id rewritten; error branches of the control commands do not touch queue/watches; a command rejected while queueing leaves a mark EXEC reads; nothing replayable takes the database mutex non-re-entrantly.",
		NotDecided:  "isolation against other connections beyond the lock argument of C08; reply contents",
		Assumptions: commonAssumptions,
		Rules:       []func(*Ctx){ruleC09Reset, ruleC09QueueOnly, ruleC09Exclusive, ruleC09AbortFlag, ruleC09ErrorsInert, ruleA2Reentrant, ruleC09Bind},
	})
	register(&PropSpec{
		ID: "C10",
		Explanation: "A4-version: 'every kind of modification is visible to the comparison at EXEC' is a claim over all write sites: every mutation site of database state has, on every path through it inside its critical section, an event that gives the key a new version id or removes it from the keyspace.",
		NotDecided:  "the 'iff' across arbitrary interleavings (follows from C08's lock argument plus this rule); expiry-as-modification timing",
		Assumptions: append([]string{"a helper that looks the key up and bumps its version is given the key of the object being modified (the not-found edge of that lookup is not followed)"}, commonAssumptions...),
		Rules:       []func(*Ctx){ruleA4Version, ruleA6, ruleC09Reset},
	})
	register(&PropSpec{
		ID: "C13",
		Explanation: "No path of these crash classes is reachable from the socket: (A7) every single-result type assertion on a value taken from a command's args agrees with what the grammar-driven parser stores for every token that reaches it, and every panic in the default arm of a key switch has a case for every producible key.",
		NotDecided:  "bounds safety of indexes computed from untainted server-side lengths, termination of loops, memory growth, reply latency",
		Assumptions: commonAssumptions,
		Rules:       []func(*Ctx){ruleA7(nil, 120, true), ruleLockBalanced(nil), ruleA2Reentrant, ruleTypedNil, rulePayloadAgree, ruleCmdIdent},
	})
	register(&PropSpec{
		ID: "C16",
		Explanation: "A1 in full: guarded-by lockset over all lock classes, atomics-only fields, immutable-after-construction fields, connection-confined session state (foreign *clientState taint), run-loop confinement of the connection buffer, append aliasing on the shared grammar slices, and immutability of published payload bytes. A race is a property of pairs of code paths; A1 enumerates every access path to every shared field listed in the guarded-by table.",
		NotDecided:  "lock-instance confusion; races inside dependencies; fields of realRedisClient (talks to a real server)",
		Assumptions: append([]string{"the two hand-offs the confinement argument relies on: `go cc.run()` after construction, and the csceCh channel that sequences the reader goroutine and the per-command goroutine of one connection"}, commonAssumptions...),
		Rules:       []func(*Ctx){ruleA1("A1-guarded", anyClass), ruleA1Modes, ruleAppendAlias, ruleA1PayloadBytes, ruleLockBalanced(nil)},
	})
	register(&PropSpec{
		ID: "C19",
		Explanation: "A4-dirty: every mutation site of database state is accompanied, on every path through it inside its critical section, by an event that marks the database's keyspace dirty — otherwise the periodic/final save skips the change and a restart loses it.",
		NotDecided:  "gob round-trip equality; on-disk states at crash points (needs execution or a file-system model)",
		Assumptions: commonAssumptions,
		Rules:       []func(*Ctx){ruleA4Dirty, ruleC19AllDbs, ruleC19Records, ruleC19Atomic, ruleC14DbTable, rulePayloadAgree, ruleCtorAgree},
	})
}
