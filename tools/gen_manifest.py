#!/usr/bin/env python3
"""Generates /verif/MANIFEST.json from the table below (single source of truth for what is claimed)."""
import json, os, sys

HERE = os.path.dirname(os.path.dirname(os.path.abspath(__file__)))

# property -> (technique, level text, level note, design ref)
CLAIMED = {}

NOT_APPLICABLE = {
    "C17": "SCAN guarantee is arithmetic on runtime table sizes and hashes (reverse-binary cursor across growth/shrink for every mutation history); no structural clause is both necessary and non-brittle. Its client-integer clauses are enforced under C13 and the expired-key clause under C07.",
    "C18": "bit-exactness for all offsets/widths/overflow modes is value-level arithmetic that no sound static argument in reach decides; the structural parts (reads do not mutate, shift/size bounds, in-place payload writes vs unlocked readers) are claimed under C13/C16.",
}

PENDING = {}  # property -> reason (temporarily unclaimed while the check is being built)


def main():
    props = [json.loads(l)["id"] for l in open(os.path.join(HERE, "properties.jsonl"))]
    sys.path.insert(0, os.path.join(HERE, "tools"))
    try:
        import manifest_table as t
        CLAIMED.update(t.CLAIMED)
        PENDING.update(t.PENDING)
    except ImportError:
        pass
    checks = []
    for pid in props:
        if pid not in CLAIMED:
            continue
        c = CLAIMED[pid]
        checks.append({
            "property_id": pid,
            "quick_cmd": f"./rd check {pid} quick",
            "thorough_cmd": f"./rd check {pid} thorough",
            "evidence_file": f"/verif/evidence/{pid}.json",
            "replay_cmd_template": "./rd explain {path}",
            "engine": "rdcheck",
            "level_claimed": {"category": "other", "text": c["text"], "design_ref": c.get("design_ref", "DESIGN.md §4 " + pid)},
            "level_note": c["note"],
            "technique": c["technique"],
        })
    na = []
    for pid in props:
        if pid in CLAIMED:
            continue
        reason = NOT_APPLICABLE.get(pid) or PENDING.get(pid) or "static check for this property is not built yet in this revision; nothing is claimed"
        na.append({"property_id": pid, "reason": reason})
    m = {
        "version": 1,
        "setup_cmd": "cd /verif/sa && GOFLAGS=-mod=mod GOPROXY=off GOSUMDB=off GOTOOLCHAIN=local GOWORK=off go build -o /verif/bin/rdcheck .",
        "hooks": {
            "guard": "verif",
            "enable": "none needed: the checks read /repo's source (go/packages + go/ssa); the thorough tier additionally analyses the tree with -tags verif and GOARCH=386",
            "baseline_off_cmd": "cd /repo && GOFLAGS=-mod=mod GOPROXY=off GOSUMDB=off GOTOOLCHAIN=local go test -vet=off -count=1 -timeout 25m ./...",
            "source_commits": [],
            "add_only": True,
        },
        "engines": [{
            "name": "rdcheck",
            "path": "/verif/sa",
            "serves_properties": [c["property_id"] for c in checks],
            "kind_free_text": "repository-specific static analyser (go/packages, go/types, go/ssa, VTA call graph; lockset, path-coverage, who-may-call, table-agreement and taint rules) written for jimsnab/go-redisemu",
        }],
        "checks": checks,
        "not_applicable": na,
        "notes": "All checks are static analysis of /repo's current working tree; nothing is executed. Known genuine defects are listed in known_findings.json (printed as KNOWN-FINDING lines); repaired defects are recorded there as fixed entries.",
    }
    with open(os.path.join(HERE, "MANIFEST.json"), "w") as f:
        json.dump(m, f, indent=1)
        f.write("\n")
    print("MANIFEST.json:", len(checks), "checks,", len(na), "not applicable/pending")


if __name__ == "__main__":
    main()
