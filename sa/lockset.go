package main

// A1/A2/A3 — lock classes, per-function lockset dataflow, summaries, Req() fix-point.
//
// A lock *class* is a sync.Mutex/RWMutex struct field or package-level variable. The analysis is
// class-based (not instance-based); DESIGN §3 A1 states this limit.

import (
	"fmt"
	"go/token"
	"go/types"
	"sort"
	"strings"

	"golang.org/x/tools/go/ssa"
)

type lockSet uint32

type LockModel struct {
	casDepth int
	p        *Prog
	names    []string            // class index -> name ("dataStore.mu", "global clientsMu")
	byVar    map[*types.Var]int  // mutex struct field -> class
	byGlob   map[*ssa.Global]int // mutex global -> class
	DB       int                 // class index of dataStore.mu (-1 if missing)
	tokenOf  map[*types.Var]int  // re-entrancy token field (dataStore.multiLock) -> class it vouches for

	fl       map[*ssa.Function]*fnLocks
	problems []string // unresolved lock operations (undecided)

	handlerDynSites map[ssa.CallInstruction]bool // the `handler(ctx,args)` dispatch site(s)

	// "running from EXEC" flag: cmdContext.multi is true for a queued command only while fnExec replays it
	// under the exclusive hold. multiOK lists the functions in which that implication may be used.
	multiField *types.Var
	multiOK    map[*ssa.Function]bool
}

type lstate struct {
	acq lockSet // must-held, acquired within the function
	rel lockSet // may-released within the function (relative to entry)
	may lockSet // may-held because of an acquisition within the function (no owner-token assumption)
	// crel: classes released only on the "owner token does not match" edge (the re-entrant unlock wrapper);
	// excl: classes held exclusively (owner token published while holding): conditional releases in callees do not apply
	crel lockSet
	excl lockSet
}

type fnLocks struct {
	fn          *ssa.Function
	in          map[*ssa.BasicBlock]lstate
	at          map[ssa.Instruction]lstate // state before executing the instruction
	adds        lockSet
	removes     lockSet
	condRemoves lockSet // released only when the caller is not the exclusive owner
	addsExcl    lockSet // returns as exclusive owner
	mayExit     lockSet // classes possibly still held (acquired inside) at some return
	leakAt      map[int]ssa.Instruction
	defers      []*ssa.Defer
	hasBody     bool
	// scoped acquirer: the function returns, on every path, a func() that releases everything the path acquired
	// (`defer dsc.lockWith(other)()`); scopedRel is what a call of the returned function releases
	scoped        bool
	scopedRel     lockSet
	scopedTargets []*ssa.Function // the functions returned as releasers (closures, methods): calling the result calls them
	scopedDirect  lockSet         // classes released by a returned mutex.Unlock method value
}

func (ls lockSet) has(i int) bool { return i >= 0 && ls&(1<<uint(i)) != 0 }

func (lm *LockModel) setString(ls lockSet) string {
	var out []string
	for i, n := range lm.names {
		if ls.has(i) {
			out = append(out, n)
		}
	}
	if len(out) == 0 {
		return "{}"
	}
	return "{" + strings.Join(out, ",") + "}"
}

func isMutexType(t types.Type) bool {
	n, ok := t.(*types.Named)
	if !ok || n.Obj().Pkg() == nil || n.Obj().Pkg().Path() != "sync" {
		return false
	}
	return n.Obj().Name() == "Mutex" || n.Obj().Name() == "RWMutex"
}

// Locks builds (once) the lock model: classes, per-function dataflow and summaries.
func (m *Models) Locks() *LockModel {
	if m.locks != nil {
		return m.locks
	}
	p := m.p
	lm := &LockModel{p: p, byVar: map[*types.Var]int{}, byGlob: map[*ssa.Global]int{}, DB: -1,
		tokenOf: map[*types.Var]int{}, fl: map[*ssa.Function]*fnLocks{}, handlerDynSites: map[ssa.CallInstruction]bool{}}
	m.locks = lm
	// classes: struct fields
	sc := p.Pkg.Types.Scope()
	names := sc.Names()
	sort.Strings(names)
	for _, n := range names {
		switch obj := sc.Lookup(n).(type) {
		case *types.TypeName:
			st, ok := obj.Type().Underlying().(*types.Struct)
			if !ok {
				continue
			}
			mutexes := []int{}
			for i := 0; i < st.NumFields(); i++ {
				if isMutexType(st.Field(i).Type()) {
					idx := len(lm.names)
					owner := p.ownerName(st.Field(i)) // the recorded owner: also for a renamed type, or a mutex moved into an embedded helper struct
					if owner == "" {
						owner = obj.Name()
					}
					lm.names = append(lm.names, owner+"."+p.canonFieldName(st.Field(i)))
					lm.byVar[st.Field(i)] = idx
					mutexes = append(mutexes, idx)
				}
			}
			if obj.Name() == "dataStore" && len(mutexes) == 1 {
				lm.DB = mutexes[0]
			}
		case *types.Var:
			if isMutexType(obj.Type()) {
				if g := p.Global(obj.Name()); g != nil {
					lm.byGlob[g] = len(lm.names)
					lm.names = append(lm.names, "global "+obj.Name())
				}
			}
		}
	}
	// re-entrancy token: a uint32 field of the struct that owns the DB mutex which is only ever used
	// through sync/atomic and is the target of CompareAndSwap(x, x). Found structurally below.
	lm.findTokens()

	// handler dispatch site(s): dynamic calls whose callee set contains >= 100 handlers
	if h, err := m.Handlers(); err == nil {
		hs := map[*ssa.Function]bool{}
		for _, f := range h {
			hs[f] = true
		}
		for _, fn := range p.SrcFuncs() {
			for _, in := range instrsOf(fn) {
				c, ok := in.(ssa.CallInstruction)
				if !ok || c.Common().StaticCallee() != nil || c.Common().IsInvoke() {
					continue
				}
				n := 0
				for _, cal := range p.Callees(c) {
					if hs[cal] {
						n++
					}
				}
				if n >= 100 {
					lm.handlerDynSites[c] = true
				}
			}
		}
	}

	lm.findMultiFlag(m)

	for _, fn := range p.SrcFuncs() {
		lm.fl[fn] = &fnLocks{fn: fn, hasBody: true, adds: ^lockSet(0)}
	}
	// bottom-up fix-point on summaries
	for iter := 0; iter < 40; iter++ {
		changed := false
		for _, fn := range p.SrcFuncs() {
			fl := lm.fl[fn]
			a, r, my, cr, ax := fl.adds, fl.removes, fl.mayExit, fl.condRemoves, fl.addsExcl
			lm.analyse(fl)
			if fl.adds != a || fl.removes != r || fl.mayExit != my || fl.condRemoves != cr || fl.addsExcl != ax {
				changed = true
			}
		}
		if !changed {
			break
		}
	}
	return lm
}

func (lm *LockModel) findTokens() {
	p := lm.p
	for _, fn := range p.SrcFuncs() {
		for _, in := range instrsOf(fn) {
			c, ok := in.(*ssa.Call)
			if !ok {
				continue
			}
			name := fullCalleeName(c)
			if !strings.HasPrefix(name, "sync/atomic.CompareAndSwap") || len(c.Call.Args) != 3 {
				continue
			}
			fa, ok := c.Call.Args[0].(*ssa.FieldAddr)
			if !ok || !sameValue(c.Call.Args[1], c.Call.Args[2]) {
				continue
			}
			f := fieldOf(fa)
			// the struct that owns f must own exactly one mutex
			st := deref(fa.X.Type()).Underlying().(*types.Struct)
			cls := -1
			for i := 0; i < st.NumFields(); i++ {
				if idx, ok := lm.byVar[st.Field(i)]; ok {
					if cls >= 0 {
						cls = -2
						break
					}
					cls = idx
				}
			}
			if cls >= 0 {
				lm.tokenOf[f] = cls
			}
		}
	}
}

// findMultiFlag locates cmdContext.multi and the functions that can only run a *queued* command.
func (lm *LockModel) findMultiFlag(m *Models) {
	p := lm.p
	lm.multiOK = map[*ssa.Function]bool{}
	lm.multiField = p.Field("cmdContext", "multi")
	if lm.multiField == nil {
		return
	}
	ctl, ok := p.boolTable("unqueuedCmdTable")
	hs, err := m.Handlers()
	if !ok || err != nil {
		return
	}
	// functions reachable from the transaction-control handlers (dispatch edge cut)
	excluded := map[*ssa.Function]bool{}
	var stack []*ssa.Function
	for tok, on := range ctl {
		if on && hs[tok] != nil {
			stack = append(stack, hs[tok])
		}
	}
	for len(stack) > 0 {
		f := stack[len(stack)-1]
		stack = stack[:len(stack)-1]
		if excluded[f] {
			continue
		}
		excluded[f] = true
		for _, in := range instrsOf(f) {
			c, isCall := in.(ssa.CallInstruction)
			if !isCall || lm.handlerDynSites[c] {
				continue
			}
			for _, g := range p.Callees(c) {
				if p.InPkg(g) && len(g.Blocks) > 0 && !excluded[g] {
					stack = append(stack, g)
				}
			}
		}
	}
	// every store to the flag must be the constant true (it is never cleared or forged)
	for _, fn := range p.SrcFuncs() {
		for _, in := range instrsOf(fn) {
			st, isSt := in.(*ssa.Store)
			if !isSt {
				continue
			}
			if fa, isFa := st.Addr.(*ssa.FieldAddr); isFa && fieldOf(fa) == lm.multiField {
				if c, isC := st.Val.(*ssa.Const); !isC || c.Value == nil || c.Value.String() != "true" {
					lm.problems = append(lm.problems, p.Pos(st.Pos())+": cmdContext.multi is assigned a non-constant value")
				}
			}
		}
	}
	for _, fn := range p.SrcFuncs() {
		if !excluded[fn] {
			lm.multiOK[fn] = true
		}
	}
}

// multiTest: cond is (a negation of) a load of cmdContext.multi; reports whether the true edge means "set".
func (lm *LockModel) multiTest(v ssa.Value) (trueIsSet bool, ok bool) {
	neg := false
	for {
		u, isU := v.(*ssa.UnOp)
		if isU && u.Op == token.NOT {
			neg = !neg
			v = u.X
			continue
		}
		break
	}
	_, f := loadedField(v)
	if f == nil || f != lm.multiField {
		return false, false
	}
	return !neg, true
}

// sameValue: structurally identical pure loads (x.f.g read twice) or the same SSA value.
func sameValue(a, b ssa.Value) bool {
	if a == b {
		return true
	}
	ua, ok1 := a.(*ssa.UnOp)
	ub, ok2 := b.(*ssa.UnOp)
	if ok1 && ok2 && ua.Op == token.MUL && ub.Op == token.MUL {
		fa, ok3 := ua.X.(*ssa.FieldAddr)
		fb, ok4 := ub.X.(*ssa.FieldAddr)
		if ok3 && ok4 && fa.Field == fb.Field {
			return sameValue(fa.X, fb.X)
		}
		// two loads of the same local variable cell in one block with no store in between
		if al, ok := ua.X.(*ssa.Alloc); ok && ub.X == ssa.Value(al) && ua.Block() == ub.Block() {
			lo, hi := instrIndex(ua), instrIndex(ub)
			if lo > hi {
				lo, hi = hi, lo
			}
			for _, in := range ua.Block().Instrs[lo:hi] {
				if st, ok := in.(*ssa.Store); ok && st.Addr == ssa.Value(al) {
					return false
				}
				if _, isCall := in.(*ssa.Call); isCall && al.Heap {
					return false
				}
			}
			return true
		}
	}
	return false
}

// lockOp classifies a call as Lock (+1) / Unlock (-1) of a class, or 0.
func (lm *LockModel) lockOp(c ssa.CallInstruction) (op int, class int, unresolved bool) {
	name := fullCalleeName(c)
	switch name {
	case "(*sync.Mutex).Lock", "(*sync.RWMutex).Lock", "(*sync.RWMutex).RLock":
		op = 1
	case "(*sync.Mutex).Unlock", "(*sync.RWMutex).Unlock", "(*sync.RWMutex).RUnlock":
		op = -1
	default:
		return 0, -1, false
	}
	args := c.Common().Args
	if len(args) == 0 {
		return op, -1, true
	}
	switch r := args[0].(type) {
	case *ssa.FieldAddr:
		if idx, ok := lm.byVar[fieldOf(r)]; ok {
			return op, idx, false
		}
	case *ssa.Global:
		if idx, ok := lm.byGlob[r]; ok {
			return op, idx, false
		}
	}
	return op, -1, true
}

// tokenCAS: if v is (possibly negated) CompareAndSwap(&S.token, x, x), return class and whether the
// *true* successor of an If on v is the "CAS succeeded" edge.
func (lm *LockModel) tokenCAS(v ssa.Value) (class int, trueIsSuccess bool, ok bool) {
	neg := false
	for {
		u, isU := v.(*ssa.UnOp)
		if isU && u.Op == token.NOT {
			neg = !neg
			v = u.X
			continue
		}
		break
	}
	c, isC := v.(*ssa.Call)
	if isC && !strings.HasPrefix(fullCalleeName(c), "sync/atomic.") {
		// a predicate that wraps the test: func (x) insideExclusive() bool { return CAS(&token, id, id) }
		if g := c.Call.StaticCallee(); g != nil && len(g.Blocks) > 0 && g.Signature.Results().Len() == 1 && lm.casDepth < 2 {
			lm.casDepth++
			defer func() { lm.casDepth-- }()
			cls, tis, found := -1, false, false
			for _, b := range g.Blocks {
				ret, isRet := b.Instrs[len(b.Instrs)-1].(*ssa.Return)
				if !isRet || len(ret.Results) != 1 {
					continue
				}
				c2, t2, ok2 := lm.tokenCAS(ret.Results[0])
				if !ok2 || (found && (c2 != cls || t2 != tis)) {
					return -1, false, false
				}
				cls, tis, found = c2, t2, true
			}
			if found {
				return cls, tis != neg, true
			}
		}
		return -1, false, false
	}
	if !isC || !strings.HasPrefix(fullCalleeName(c), "sync/atomic.CompareAndSwap") || len(c.Call.Args) != 3 {
		return -1, false, false
	}
	fa, isF := c.Call.Args[0].(*ssa.FieldAddr)
	if !isF || !sameValue(c.Call.Args[1], c.Call.Args[2]) {
		return -1, false, false
	}
	cls, has := lm.tokenOf[fieldOf(fa)]
	if !has {
		return -1, false, false
	}
	return cls, !neg, true
}

// applyCall applies the effect of calling (any of) the callees at c to st.
func (lm *LockModel) applyCall(c ssa.CallInstruction, st lstate) lstate {
	// publishing the owner token while holding the class makes the hold exclusive
	if strings.HasPrefix(fullCalleeName(c), "sync/atomic.Store") && len(c.Common().Args) > 0 {
		if fa, ok := c.Common().Args[0].(*ssa.FieldAddr); ok {
			if cls, ok := lm.tokenOf[fieldOf(fa)]; ok && st.acq.has(cls) {
				st.excl |= 1 << uint(cls)
			}
		}
		return st
	}
	if op, cls, unres := lm.lockOp(c); op != 0 {
		if unres {
			lm.problems = append(lm.problems, fmt.Sprintf("%s: lock operation on a mutex that is not a known field/global", lm.p.Pos(c.Pos())))
			return st
		}
		if op > 0 {
			st.acq |= 1 << uint(cls)
			st.may |= 1 << uint(cls)
		} else {
			st.acq &^= 1 << uint(cls)
			if lm.condBlock(c.Block()) {
				st.crel |= 1 << uint(cls)
			} else {
				st.rel |= 1 << uint(cls)
				st.excl &^= 1 << uint(cls)
			}
			st.may &^= 1 << uint(cls)
		}
		return st
	}
	if c.Common().StaticCallee() == nil && !c.Common().IsInvoke() {
		if g := scopedOrigin(c.Common().Value); g != nil {
			if gl := lm.fl[g]; gl != nil && gl.scoped {
				// calling the returned function = calling the releaser(s) the acquirer can return
				if gl.scopedDirect != 0 {
					set := gl.scopedDirect
					st.acq &^= set
					st.rel |= set
					st.may &^= set
					st.excl &^= set
				}
				if len(gl.scopedTargets) > 0 {
					if out, ok := lm.applyCallees(gl.scopedTargets, st); ok {
						st = out
					}
				}
				// every return of the acquirer was checked: the function it returns releases what that path acquired, so
				// nothing the acquirer took can leak once its result has been called
				st.may &^= gl.scopedRel
				return st
			}
		}
	}
	cals := lm.p.Callees(c)
	out, ok := lm.applyCallees(cals, st)
	if !ok {
		return st
	}
	if lm.handlerDynSites[c] {
		// the handler dispatch: which handlers may run under an exclusive hold without touching the mutex
		// is decided by rule A2-reentrant; for the held set the dispatch is neutral
		return lstate{acq: st.acq, rel: st.rel, may: out.may, crel: st.crel, excl: st.excl}
	}
	return out
}

// applyCallees: the state after calling one of the given functions (alternatives).
func (lm *LockModel) applyCallees(cals []*ssa.Function, st lstate) (lstate, bool) {
	first := true
	var acq, rel, may, crel, excl lockSet
	for _, g := range cals {
		fl := lm.fl[g]
		if fl == nil {
			continue // external or body-less: no effect on package locks
		}
		cr := fl.condRemoves &^ st.excl // conditional releases do not apply under an exclusive hold
		a := (st.acq &^ (fl.removes | cr)) | fl.adds
		r := st.rel | fl.removes
		if first {
			crel, excl = st.crel|cr, (st.excl&^fl.removes)|fl.addsExcl
		} else {
			crel |= st.crel | cr
			excl &= (st.excl &^ fl.removes) | fl.addsExcl
		}
		// may-held: a callee that may release clears it only if it certainly releases (removes and not re-adds);
		// a callee that may return holding adds it
		my := (st.may &^ (fl.removes | cr)) | fl.mayExit
		if first {
			acq, rel, may, first = a, r, my, false
		} else {
			acq &= a
			rel |= r
			may |= my
		}
	}
	if first {
		return st, false
	}
	return lstate{acq: acq, rel: rel, may: may, crel: crel, excl: excl}, true
}

func (lm *LockModel) analyse(fl *fnLocks) {
	fn := fl.fn
	fl.in = map[*ssa.BasicBlock]lstate{}
	fl.at = map[ssa.Instruction]lstate{}
	fl.defers = nil
	for _, b := range fn.Blocks {
		for _, in := range b.Instrs {
			if d, ok := in.(*ssa.Defer); ok {
				fl.defers = append(fl.defers, d)
			}
		}
	}
	top := lstate{acq: ^lockSet(0)}
	visited := map[*ssa.BasicBlock]bool{}
	out := map[[2]int]lstate{} // edge (from,to) -> state
	work := []*ssa.BasicBlock{fn.Blocks[0]}
	fl.in[fn.Blocks[0]] = lstate{}
	inWork := map[*ssa.BasicBlock]bool{fn.Blocks[0]: true}
	var exitAcq lockSet = ^lockSet(0)
	var exitExcl lockSet = ^lockSet(0)
	var exitRel, exitMay, exitCrel lockSet
	fl.leakAt = map[int]ssa.Instruction{}
	sawExit := false
	scopedAll := true
	var scopedRel, scopedDirect lockSet
	var scopedTargets []*ssa.Function
	for len(work) > 0 {
		b := work[0]
		work = work[1:]
		inWork[b] = false
		visited[b] = true
		st := fl.in[b]
		for _, in := range b.Instrs {
			fl.at[in] = st
			switch x := in.(type) {
			case *ssa.Call:
				st = lm.applyCall(x, st)
			case *ssa.Defer:
				// a deferred release is certain to run once registered: for leak detection (may-held) it
				// cancels the acquisition right here; the must-held set keeps the lock until RunDefers
				after := lm.applyCall(x, st)
				st.may &^= st.may &^ after.may
			case *ssa.RunDefers:
				// deferred calls run LIFO; a defer whose block dominates this one has certainly been registered
				for i := len(fl.defers) - 1; i >= 0; i-- {
					d := fl.defers[i]
					if d.Block() == b || d.Block().Dominates(b) {
						my := st.may
						st = lm.applyCall(d, st)
						st.may = my | (st.may &^ my)
					} else {
						// maybe registered: keep only its releasing effect
						after := lm.applyCall(d, st)
						st.acq &= after.acq
						st.rel |= after.rel
					}
				}
			}
		}
		// terminator
		if len(b.Succs) == 0 {
			if ret, isRet := b.Instrs[len(b.Instrs)-1].(*ssa.Return); isRet {
				if st.may != 0 {
					if rs, tgt, direct, ok := lm.releaserOf(ret); ok && st.may&^rs == 0 {
						scopedRel |= st.may
						scopedDirect |= direct
						if tgt != nil {
							dup := false
							for _, t := range scopedTargets {
								if t == tgt {
									dup = true
								}
							}
							if !dup {
								scopedTargets = append(scopedTargets, tgt)
							}
						}
					} else {
						scopedAll = false
					}
				}
				exitAcq &= st.acq
				exitExcl &= st.excl
				exitRel |= st.rel
				exitCrel |= st.crel
				exitMay |= st.may
				for i := range lm.names {
					if st.may.has(i) && fl.leakAt[i] == nil {
						fl.leakAt[i] = ret
					}
				}
				sawExit = true
			}
			continue
		}
		for i, s := range b.Succs {
			es := st
			if ifi, ok := b.Instrs[len(b.Instrs)-1].(*ssa.If); ok {
				if cls, trueIsSucc, ok := lm.tokenCAS(ifi.Cond); ok {
					if (i == 0) == trueIsSucc {
						es.acq |= 1 << uint(cls) // the caller runs on behalf of the exclusive owner
						es.excl |= 1 << uint(cls)
					}
				}
				if lm.DB >= 0 && lm.multiOK[fn] {
					if trueIsSet, ok := lm.multiTest(ifi.Cond); ok && (i == 0) == trueIsSet {
						es.acq |= 1 << uint(lm.DB) // replayed by EXEC under the exclusive hold
						es.excl |= 1 << uint(lm.DB)
					}
				}
			}
			out[[2]int{b.Index, s.Index}] = es
			// merge into successor
			var ns lstate
			firstPred := true
			for _, pr := range s.Preds {
				e, ok := out[[2]int{pr.Index, s.Index}]
				if !ok {
					continue
				}
				if firstPred {
					ns, firstPred = e, false
				} else {
					ns.acq &= e.acq
					ns.excl &= e.excl
					ns.rel |= e.rel
					ns.crel |= e.crel
					ns.may |= e.may
				}
			}
			old, had := fl.in[s]
			if !had || old != ns {
				fl.in[s] = ns
				if !inWork[s] {
					work = append(work, s)
					inWork[s] = true
				}
			}
		}
	}
	_ = top
	if !sawExit {
		// never returns normally (infinite loop / panics): neutral summary
		fl.adds, fl.removes, fl.mayExit, fl.condRemoves, fl.addsExcl = 0, 0, 0, 0, 0
		return
	}
	fl.scoped, fl.scopedRel = scopedAll && scopedRel != 0, scopedRel
	fl.scopedTargets, fl.scopedDirect = scopedTargets, scopedDirect
	fl.adds = exitAcq
	fl.removes = exitRel &^ exitAcq
	fl.condRemoves = exitCrel &^ exitAcq &^ fl.removes
	fl.addsExcl = exitExcl & exitAcq
	fl.mayExit = exitMay
}

// releaserResult: the single result of this return is a function value (closure, bound method or function) and the
// classes it releases when called.
func (lm *LockModel) releaserResult(ret *ssa.Return) (lockSet, bool) {
	set, _, _, ok := lm.releaserOf(ret)
	return set, ok
}

// releaserOf: the classes the returned function releases, the package function it is (nil for a raw mutex method), and
// the classes released directly by a returned mutex.Unlock value.
func (lm *LockModel) releaserOf(ret *ssa.Return) (lockSet, *ssa.Function, lockSet, bool) {
	// the result that is a func(): alone, or next to other results (`uk, release := dsc.lockedProducer(key)`)
	ri := releaserIndex(ret.Parent())
	if ri < 0 || ri >= len(ret.Results) {
		return 0, nil, 0, false
	}
	rv := ret.Results[ri]
	// a named result assigned in the body
	if u, ok := rv.(*ssa.UnOp); ok {
		if al, ok := u.X.(*ssa.Alloc); ok {
			var only ssa.Value
			n := 0
			for _, r := range referrers(al) {
				if st, ok := r.(*ssa.Store); ok && st.Addr == ssa.Value(al) {
					n++
					only = st.Val
				}
			}
			if n == 1 {
				rv = only
			}
		}
	}
	var target *ssa.Function
	switch x := rv.(type) {
	case *ssa.MakeClosure:
		target, _ = x.Fn.(*ssa.Function)
		// the unlock method of a mutex as a value (`return infoMu.Unlock`): releases the class of the bound mutex
		if target != nil && target.Synthetic != "" && len(x.Bindings) == 1 && len(target.Blocks) == 1 {
			for _, in := range target.Blocks[0].Instrs {
				call, ok := in.(*ssa.Call)
				if !ok {
					continue
				}
				switch fullCalleeName(call) {
				case "(*sync.Mutex).Unlock", "(*sync.RWMutex).Unlock", "(*sync.RWMutex).RUnlock":
					switch r := x.Bindings[0].(type) {
					case *ssa.FieldAddr:
						if idx, ok := lm.byVar[fieldOf(r)]; ok {
							return 1 << uint(idx), nil, 1 << uint(idx), true
						}
					case *ssa.Global:
						if idx, ok := lm.byGlob[r]; ok {
							return 1 << uint(idx), nil, 1 << uint(idx), true
						}
					}
				}
			}
		}
	case *ssa.Function:
		target = x
	}
	if target == nil {
		return 0, nil, 0, false
	}
	if lm.fl[target] == nil && target.Synthetic != "" && len(target.Blocks) == 1 {
		// bound method wrapper: one call of the method
		for _, in := range target.Blocks[0].Instrs {
			if call, ok := in.(*ssa.Call); ok && call.Call.StaticCallee() != nil {
				target = call.Call.StaticCallee()
			}
		}
	}
	tl := lm.fl[target]
	if tl == nil {
		return 0, nil, 0, false
	}
	return tl.removes | tl.condRemoves, target, 0, true
}

// releaserIndex: the index of the one func() result of fn, -1 if there is none or more than one.
func releaserIndex(fn *ssa.Function) int {
	idx := -1
	res := fn.Signature.Results()
	for i := 0; i < res.Len(); i++ {
		if sig, ok := res.At(i).Type().Underlying().(*types.Signature); ok && sig.Params().Len() == 0 && sig.Results().Len() == 0 {
			if idx >= 0 {
				return -1
			}
			idx = i
		}
	}
	return idx
}

// scopedOrigin: the called function value is the result of a direct call (possibly kept in a local variable).
func scopedOrigin(v ssa.Value) *ssa.Function {
	switch x := v.(type) {
	case *ssa.Extract:
		if call, ok := x.Tuple.(*ssa.Call); ok {
			if g := call.Call.StaticCallee(); g != nil && releaserIndex(g) == x.Index {
				return g
			}
		}
		return nil
	case *ssa.Call:
		return x.Call.StaticCallee()
	case *ssa.UnOp:
		if al, ok := x.X.(*ssa.Alloc); ok {
			var g *ssa.Function
			n := 0
			for _, r := range referrers(al) {
				if st, ok := r.(*ssa.Store); ok && st.Addr == ssa.Value(al) {
					n++
					if call, ok := st.Val.(*ssa.Call); ok {
						g = call.Call.StaticCallee()
					}
				}
			}
			if n == 1 {
				return g
			}
		}
	}
	return nil
}

// condBlock: the block is the "owner token does not match" successor of the re-entrancy test.
func (lm *LockModel) condBlock(b *ssa.BasicBlock) bool {
	if len(b.Preds) != 1 {
		return false
	}
	pr := b.Preds[0]
	ifi, ok := pr.Instrs[len(pr.Instrs)-1].(*ssa.If)
	if !ok {
		return false
	}
	_, trueIsSucc, ok := lm.tokenCAS(ifi.Cond)
	if !ok {
		return false
	}
	failIdx := 0
	if trueIsSucc {
		failIdx = 1
	}
	return pr.Succs[failIdx] == b
}

// HeldAt: classes certainly held just before `in` executes, given the classes held at function entry.
func (lm *LockModel) HeldAt(in ssa.Instruction, entry lockSet) lockSet {
	fl := lm.fl[in.Parent()]
	if fl == nil {
		return 0
	}
	st, ok := fl.at[in]
	if !ok {
		return 0 // unreachable instruction
	}
	return (entry &^ (st.rel | st.crel)) | st.acq
}

// LocallyHeld: classes acquired inside the function itself and held before `in`.
func (lm *LockModel) LocallyHeld(in ssa.Instruction) lockSet { return lm.HeldAt(in, 0) }

// Reachable reports whether the dataflow reached the instruction.
func (lm *LockModel) Reachable(in ssa.Instruction) bool {
	fl := lm.fl[in.Parent()]
	if fl == nil {
		return false
	}
	_, ok := fl.at[in]
	return ok
}
