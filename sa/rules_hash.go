package main

// R-C13-hashkey: maps keyed by a type that contains an interface (respValue{data any}) compile with any key, and panic
// at run time ("hash of unhashable type") when the interface holds a slice or a map. The request parser builds such
// maps (RESP3 sets, maps, attribute maps) from what the client sends, so every key that reaches a map operation in code
// the connection goroutines run must be hashable by construction: its interface field is made from a concrete type
// without slices/maps/functions, or it is the result of a sanitiser all of whose returns are, or it is a key taken out
// of an existing map.

import (
	"fmt"
	"go/token"
	"go/types"
	"strings"

	"golang.org/x/tools/go/ssa"
)

const textHashKey = "R-C13-hashkey: in code reachable from a connection, every key used with a map whose key type contains an interface is hashable by construction — built from a concrete hashable type, returned by a sanitiser whose every return is, or taken from an existing map — never an interface value passed through from the wire: `~1 *0` (a set with an array as member) must not panic the parser with 'hash of unhashable type'"

// containsInterface: the type has an interface somewhere a map key comparison would look at.
func containsInterface(t types.Type, depth int) bool {
	if depth > 4 {
		return false
	}
	switch u := t.Underlying().(type) {
	case *types.Interface:
		return true
	case *types.Struct:
		for i := 0; i < u.NumFields(); i++ {
			if containsInterface(u.Field(i).Type(), depth+1) {
				return true
			}
		}
	case *types.Array:
		return containsInterface(u.Elem(), depth+1)
	}
	return false
}

// staticallyHashable: values of this concrete type can always be hashed.
func staticallyHashable(t types.Type, depth int) bool {
	if depth > 4 {
		return false
	}
	switch u := t.Underlying().(type) {
	case *types.Basic, *types.Pointer, *types.Chan:
		return true
	case *types.Struct:
		for i := 0; i < u.NumFields(); i++ {
			if !staticallyHashable(u.Field(i).Type(), depth+1) {
				return false
			}
		}
		return true
	case *types.Array:
		return staticallyHashable(u.Elem(), depth+1)
	}
	return false // slices, maps, functions, interfaces
}

type hashCtx struct {
	c    *Ctx
	memo map[*ssa.Function]int
}

// hashable: the (struct or interface) value v can be used as a map key without a run-time panic.
func (h *hashCtx) hashable(v ssa.Value, depth int, why *string) bool {
	if depth > 8 {
		*why = "value flow too deep"
		return false
	}
	if !containsInterface(v.Type(), 0) {
		if staticallyHashable(v.Type(), 0) {
			return true
		}
	}
	switch x := v.(type) {
	case *ssa.Const:
		return true
	case *ssa.MakeInterface:
		if staticallyHashable(x.X.Type(), 0) {
			return true
		}
		if containsInterface(x.X.Type(), 0) {
			return h.hashable(x.X, depth+1, why)
		}
		*why = fmt.Sprintf("an interface made from %s", typeString(x.X.Type()))
		return false
	case *ssa.ChangeType:
		return h.hashable(x.X, depth+1, why)
	case *ssa.Phi:
		for _, e := range phiLeaves(x, map[ssa.Value]bool{}) {
			if !h.hashable(e, depth+1, why) {
				return false
			}
		}
		return true
	case *ssa.Extract:
		// the key of a map iteration is a key of an existing map
		if nx, ok := x.Tuple.(*ssa.Next); ok && x.Index == 1 && !nx.IsString {
			return true
		}
		if call, ok := x.Tuple.(*ssa.Call); ok {
			return h.resultHashable(call, x.Index, depth, why)
		}
	case *ssa.Call:
		return h.resultHashable(x, 0, depth, why)
	case *ssa.UnOp:
		if x.Op != token.MUL {
			break
		}
		switch a := x.X.(type) {
		case *ssa.Alloc:
			// a local variable assigned more than once (`k = next(); …; k = normalise(k)`): the one whole-value store
			// that every path to this read passes last
			if sv := reachingStore(x, a); sv != nil {
				return h.hashable(sv, depth+1, why)
			}
			// otherwise: every store into it (whole or field by field) is hashable
			n := 0
			for _, r := range referrers(a) {
				switch rr := r.(type) {
				case *ssa.Store:
					if rr.Addr == ssa.Value(a) {
						n++
						if !h.hashable(rr.Val, depth+1, why) {
							return false
						}
					}
				case *ssa.FieldAddr:
					for _, r2 := range referrers(rr) {
						if st, ok := r2.(*ssa.Store); ok && st.Addr == ssa.Value(rr) {
							n++
							if !h.hashable(st.Val, depth+1, why) && !typeSwitchedHashable(st.Val, st.Block()) {
								return false
							}
						}
					}
				}
			}
			if n == 0 {
				return true // the zero value
			}
			return true
		case *ssa.IndexAddr:
			// an element of the recorded key order of an existing map is a key of that map
			if _, f := loadedField(a.X); f != nil && strings.Contains(strings.ToLower(f.Name()), "order") {
				return true
			}
		}
	case *ssa.Parameter:
		fn := x.Parent()
		idx := -1
		for i, p := range fn.Params {
			if p == x {
				idx = i
			}
		}
		node := h.c.CG.Nodes[fn]
		if node == nil || idx < 0 || len(node.In) == 0 {
			*why = "parameter " + x.Name() + " of a function without visible callers"
			return false
		}
		for _, e := range node.In {
			args := e.Site.Common().Args
			if e.Site.Common().IsInvoke() || idx >= len(args) {
				*why = "parameter " + x.Name() + " through a dynamic call"
				return false
			}
			if !h.hashable(args[idx], depth+2, why) {
				if !strings.Contains(*why, " at ") {
					*why += " at " + h.c.Pos(e.Site.Pos())
				}
				return false
			}
		}
		return true
	case *ssa.Field:
		// a field of a struct value: the interface inside a key that is itself not known to be hashable
		*why = fmt.Sprintf("the %s field of a value that came from elsewhere (%s)", fieldName(x), x.X.Name())
		return false
	}
	if *why == "" {
		*why = fmt.Sprintf("its origin (%T) is not a hashable construction", v)
	}
	return false
}

func fieldName(f *ssa.Field) string {
	if st, ok := f.X.Type().Underlying().(*types.Struct); ok && f.Field < st.NumFields() {
		return st.Field(f.Field).Name()
	}
	return "?"
}

func (h *hashCtx) resultHashable(call *ssa.Call, idx int, depth int, why *string) bool {
	g := call.Call.StaticCallee()
	if g == nil || !h.c.InPkg(g) || g.Blocks == nil {
		*why = "the result of a call that cannot be followed"
		return false
	}
	switch h.memo[g] {
	case 1, 3:
		return true
	case 2:
		*why = "the result of " + fnName(g) + ", which can return a key holding whatever the caller passed"
		return false
	}
	h.memo[g] = 3
	for _, b := range g.Blocks {
		ret, ok := b.Instrs[len(b.Instrs)-1].(*ssa.Return)
		if !ok || idx >= len(ret.Results) {
			continue
		}
		w := ""
		if !h.hashable(ret.Results[idx], depth+1, &w) {
			h.memo[g] = 2
			*why = fmt.Sprintf("the result of %s, which can return %s", fnName(g), w)
			return false
		}
	}
	h.memo[g] = 1
	return true
}

func ruleHashKey(c *Ctx) {
	c.S.Rule("R-C13-hashkey", textHashKey, 2)
	h := &hashCtx{c: c, memo: map[*ssa.Function]int{}}
	// key sinks: parameters of package functions that are used as the key of such a map (orderedRespMap.set(k, v))
	sink := map[*ssa.Function]map[int]bool{}
	for _, fn := range c.SrcFuncs() {
		for _, in := range instrsOf(fn) {
			var key ssa.Value
			switch x := in.(type) {
			case *ssa.MapUpdate:
				key = x.Key
			case *ssa.Lookup:
				if _, isMap := x.X.Type().Underlying().(*types.Map); isMap {
					key = x.Index
				}
			}
			if key == nil || !containsInterface(key.Type(), 0) {
				continue
			}
			for i, p := range fn.Params {
				if ssa.Value(p) == key {
					if sink[fn] == nil {
						sink[fn] = map[int]bool{}
					}
					sink[fn][i] = true
				}
			}
		}
	}
	// the maps the request parser builds from what the client sends: every key it inserts, directly or through a sink
	for _, fn := range c.SrcFuncs() {
		inParser := false
		for f := fn; f != nil; f = f.Parent() { // the parser's methods and the closures they define
			if f.Signature.Recv() != nil && c.isPkgType(f.Signature.Recv().Type(), "respDeserializer") {
				inParser = true
			}
		}
		if !inParser {
			continue
		}
		k := 0
		for _, in := range instrsOf(fn) {
			var key ssa.Value
			what := ""
			switch x := in.(type) {
			case *ssa.MapUpdate:
				if mt, ok := x.Map.Type().Underlying().(*types.Map); ok && containsInterface(mt.Key(), 0) {
					key, what = x.Key, "insert"
				}
			case *ssa.Lookup:
				if mt, ok := x.X.Type().Underlying().(*types.Map); ok && containsInterface(mt.Key(), 0) {
					key, what = x.Index, "lookup"
				}
			case *ssa.Call:
				if g := x.Call.StaticCallee(); g != nil && sink[g] != nil {
					for i := range sink[g] {
						if i < len(x.Call.Args) {
							key, what = x.Call.Args[i], "key passed to "+g.Name()
						}
					}
				}
			}
			if key == nil {
				continue
			}
			k++
			okey := fmt.Sprintf("%s:%s#%d", fnName(fn), what, k)
			why := ""
			if h.hashable(key, 0, &why) {
				c.S.OK("R-C13-hashkey", okey, c.Pos(c.InstrPos(in)), "the key is hashable by construction")
			} else {
				c.S.Bad("R-C13-hashkey", okey, c.Pos(c.InstrPos(in)), fmt.Sprintf("%s uses a key whose interface part is not known to be hashable (%s): a request that puts an array, set or map there panics with 'hash of unhashable type' and takes the process down", fnName(fn), why))
			}
		}
	}
}

// reachingStore: the value of the unique whole-variable store to cell `a` that reaches the load: it dominates the load,
// and no other store to the cell can reach the load without passing it again. nil if there is no such store.
func reachingStore(load *ssa.UnOp, a *ssa.Alloc) ssa.Value {
	var stores []*ssa.Store
	for _, r := range referrers(a) {
		switch rr := r.(type) {
		case *ssa.Store:
			if rr.Addr == ssa.Value(a) {
				stores = append(stores, rr)
			}
		case *ssa.FieldAddr:
			for _, r2 := range referrers(rr) {
				if st, ok := r2.(*ssa.Store); ok && st.Addr == ssa.Value(rr) {
					return nil // written field by field: not handled here
				}
			}
		}
	}
	for _, s := range stores {
		if !instrDominates(s, load) {
			continue
		}
		last := true
		for _, o := range stores {
			if o == s {
				continue
			}
			if o.Block() == s.Block() {
				if instrIndex(o) > instrIndex(s) && (load.Block() != s.Block() || instrIndex(o) < instrIndex(load)) {
					last = false
				}
				continue
			}
			if o.Block() == load.Block() {
				if instrIndex(o) < instrIndex(load) {
					last = false
				}
				continue
			}
			if load.Block() == s.Block() {
				continue // s precedes the load in its own block: a store elsewhere cannot come between them
			}
			if plainReachAvoid(o.Block(), load.Block(), s.Block()) {
				last = false
			}
		}
		if last {
			return s.Val
		}
	}
	return nil
}

// typeSwitchedHashable: the interface value v is used in block b only on ways that passed a successful type test of v
// (`case respInt, respDouble, respBool: out.data = data`) for a concrete type that can always be hashed.
func typeSwitchedHashable(v ssa.Value, b *ssa.BasicBlock) bool {
	if _, isIface := v.Type().Underlying().(*types.Interface); !isIface {
		return false
	}
	okTest := func(d *ssa.BasicBlock) bool {
		ifi, ok := d.Instrs[len(d.Instrs)-1].(*ssa.If)
		if !ok {
			return false
		}
		ex, ok := ifi.Cond.(*ssa.Extract)
		if !ok || ex.Index != 1 {
			return false
		}
		ta, ok := ex.Tuple.(*ssa.TypeAssert)
		if !ok || !ta.CommaOk || !sameValue(ta.X, v) {
			return false
		}
		return staticallyHashable(ta.AssertedType, 0)
	}
	seen := map[*ssa.BasicBlock]bool{}
	var back func(x *ssa.BasicBlock) bool
	back = func(x *ssa.BasicBlock) bool {
		if seen[x] {
			return true
		}
		seen[x] = true
		if len(x.Preds) == 0 {
			return false
		}
		for _, d := range x.Preds {
			if okTest(d) && d.Succs[0] == x && d.Succs[1] != x {
				continue
			}
			if !back(d) {
				return false
			}
		}
		return true
	}
	return back(b)
}
