package main

// R-C13-index-var — variable-index accesses of client text inside scanner loops.

import (
	"fmt"
	"go/token"
	"go/types"

	"golang.org/x/tools/go/ssa"
)

const textIndexVar = "R-C13-index-var: in the pattern matcher (KEYS / SCAN MATCH / PSUBSCRIBE-style globs, whose pattern is client text), every access x[i] and every slice x[i:] with a variable index is preceded, on every way into it, by a comparison that puts that index (or a larger one: `i+1 < len(x)`) below len(x) — on the edge taken, through the merges of an `if` that advanced the index only under such a comparison. A pattern that ends in the middle of an escape or a bracket expression (`[a\\`) must be matched as text, not index past the end and kill the process. Decides the upper bound only; that the indexes are counters starting at 0 is read off the code (every index is 0, a length, or a previous index plus a positive constant)"

type linTerm struct {
	base ssa.Value
	k    int64
}

func normLin(v ssa.Value) linTerm {
	k := int64(0)
	for i := 0; i < 8; i++ {
		bo, ok := v.(*ssa.BinOp)
		if !ok {
			break
		}
		if c, isC := constInt(bo.Y); isC && bo.Op == token.ADD {
			k += c
			v = bo.X
			continue
		}
		if c, isC := constInt(bo.Y); isC && bo.Op == token.SUB {
			k -= c
			v = bo.X
			continue
		}
		if c, isC := constInt(bo.X); isC && bo.Op == token.ADD {
			k += c
			v = bo.Y
			continue
		}
		break
	}
	return linTerm{v, k}
}

func isLenOf(v ssa.Value, x ssa.Value) bool {
	call, ok := v.(*ssa.Call)
	if !ok {
		return false
	}
	b, ok := call.Call.Value.(*ssa.Builtin)
	if !ok || b.Name() != "len" {
		return false
	}
	return sameSliceValue(call.Call.Args[0], x)
}

func sameSliceValue(a, b ssa.Value) bool {
	if a == b {
		return true
	}
	u1, ok1 := a.(*ssa.UnOp)
	u2, ok2 := b.(*ssa.UnOp)
	if ok1 && ok2 && u1.Op == token.MUL && u2.Op == token.MUL {
		if u1.X == u2.X {
			return true
		}
		f1, okf1 := u1.X.(*ssa.FieldAddr)
		f2, okf2 := u2.X.(*ssa.FieldAddr)
		if okf1 && okf2 && f1.Field == f2.Field && f1.X == f2.X {
			return true
		}
	}
	return false
}

// edgeBound: does taking the edge b→s establish  t.base + t.k + slack <= len(x) - 1  (slack 0: index; -1: slice bound)?
func edgeBound(b, s *ssa.BasicBlock, t linTerm, x ssa.Value, slack int64) bool {
	ifi, ok := b.Instrs[len(b.Instrs)-1].(*ssa.If)
	if !ok || len(b.Succs) != 2 || b.Succs[0] == b.Succs[1] {
		return false
	}
	truth := b.Succs[0] == s
	bo, ok := ifi.Cond.(*ssa.BinOp)
	if !ok {
		return false
	}
	var g linTerm
	op := bo.Op
	ly, lx := normLin(bo.Y), normLin(bo.X)
	switch {
	case isLenOf(ly.base, x): // g OP len+m  ⇔  g-m OP len
		g = normLin(bo.X)
		g.k -= ly.k
	case isLenOf(lx.base, x):
		g = normLin(bo.Y)
		g.k -= lx.k
		switch op {
		case token.LSS:
			op = token.GTR
		case token.LEQ:
			op = token.GEQ
		case token.GTR:
			op = token.LSS
		case token.GEQ:
			op = token.LEQ
		}
	default:
		return false
	}
	if g.base != t.base {
		return false
	}
	// normalised: g OP len
	var maxIdx int64 // established: g.base + maxK <= len-1
	switch {
	case op == token.LSS && truth, op == token.GEQ && !truth: // g < len
		maxIdx = g.k
	case op == token.LEQ && truth, op == token.GTR && !truth: // g <= len
		maxIdx = g.k - 1
	case op == token.NEQ && !truth, op == token.EQL && truth: // g == len
		maxIdx = g.k - 1
	default:
		return false
	}
	return t.k+slack <= maxIdx
}

// boundedAt: on every way to the end of block `at` (or its start when entry), base+k(+slack) is below len(x).
func boundedAt(v ssa.Value, x ssa.Value, at *ssa.BasicBlock, slack int64, depth int, seen map[ssa.Value]bool) bool {
	if depth > 6 {
		return false
	}
	t := normLin(v)
	if c, isC := constInt(t.base); isC {
		// constant index: decided by R-C13-index0
		_ = c
		return true
	}
	// len(x)-k with k>=1 as index / len(x) as slice bound
	if isLenOf(t.base, x) && t.k+slack <= -1 {
		return true
	}
	// walk the dominator chain: each dominating branch whose taken edge leads here
	for b := at; b != nil; b = b.Idom() {
		d := b.Idom()
		if d == nil {
			break
		}
		for _, s := range d.Succs {
			if (s == b || s.Dominates(b)) && len(s.Preds) == 1 && edgeBound(d, s, t, x, slack) {
				return true
			}
		}
	}
	// a merge: every incoming value bounded on its own edge
	if phi, ok := t.base.(*ssa.Phi); ok && !seen[phi] {
		seen[phi] = true
		defer delete(seen, phi)
		blk := phi.Block()
		// only if nothing between the merge and `at` could be needed: the facts are about the incoming edges
		for i, e := range phi.Edges {
			p := blk.Preds[i]
			ev := e
			if t.k != 0 {
				// (phi + k): bound each edge value plus k
				if !boundedPlus(ev, t.k, x, p, blk, slack, depth+1, seen) {
					return false
				}
				continue
			}
			if !boundedPlus(ev, 0, x, p, blk, slack, depth+1, seen) {
				return false
			}
		}
		return true
	}
	return false
}

// boundedPlus: value e (+k) is bounded at the end of block p, counting the edge p→to itself.
func boundedPlus(e ssa.Value, k int64, x ssa.Value, p, to *ssa.BasicBlock, slack int64, depth int, seen map[ssa.Value]bool) bool {
	t := normLin(e)
	t.k += k
	if len(to.Preds) >= 1 && edgeBound(p, to, t, x, slack) {
		return true
	}
	if t.k == normLin(e).k {
		return boundedAt(e, x, p, slack, depth, seen)
	}
	// e+k: rebuild by searching facts for the shifted term
	if _, isC := constInt(t.base); isC {
		return true
	}
	for b := p; b != nil; b = b.Idom() {
		d := b.Idom()
		if d == nil {
			break
		}
		for _, s := range d.Succs {
			if (s == b || s.Dominates(b)) && len(s.Preds) == 1 && edgeBound(d, s, t, x, slack) {
				return true
			}
		}
	}
	return false
}

// isGlobMatcher: the function compares elements of a slice/string parameter with both '*' and '?' — the pattern matcher,
// wherever it lives and whatever it is called.
func isGlobMatcher(fn *ssa.Function) bool {
	star, qm := false, false
	for _, in := range instrsOf(fn) {
		bo, ok := in.(*ssa.BinOp)
		if !ok || (bo.Op != token.EQL && bo.Op != token.NEQ) {
			continue
		}
		for _, pair := range [][2]ssa.Value{{bo.X, bo.Y}, {bo.Y, bo.X}} {
			k, isC := constInt(pair[1])
			if !isC {
				continue
			}
			var x ssa.Value
			switch e := pair[0].(type) {
			case *ssa.UnOp:
				if ia, ok := e.X.(*ssa.IndexAddr); ok && e.Op == token.MUL {
					x = ia.X
				}
			case *ssa.Lookup:
				x = e.X
			case *ssa.Index:
				x = e.X
			}
			if _, isParam := x.(*ssa.Parameter); !isParam {
				continue
			}
			if k == '*' {
				star = true
			}
			if k == '?' {
				qm = true
			}
		}
	}
	return star && qm
}

func ruleIndexVar(scopeFiles ...string) func(c *Ctx) {
	return func(c *Ctx) {
		c.S.Rule("R-C13-index-var", textIndexVar, 1)
		inScope := fileScope(c, scopeFiles...)
		n := 0
		for _, fn := range c.SrcFuncs() {
			if !inScope(fnName(fn)) && !isGlobMatcher(fn) {
				continue
			}
			k := 0
			for _, in := range instrsOf(fn) {
				type site struct {
					x, idx ssa.Value
					slack  int64
					what   string
				}
				var sites []site
				switch v := in.(type) {
				case *ssa.IndexAddr:
					sites = append(sites, site{v.X, v.Index, 0, "index"})
				case *ssa.Index:
					sites = append(sites, site{v.X, v.Index, 0, "index"})
				case *ssa.Lookup:
					if _, isMap := v.X.Type().Underlying().(*types.Map); !isMap {
						sites = append(sites, site{v.X, v.Index, 0, "index"})
					}
				case *ssa.Slice:
					if v.Low != nil {
						sites = append(sites, site{v.X, v.Low, -1, "slice bound"})
					}
					if v.High != nil {
						sites = append(sites, site{v.X, v.High, -1, "slice bound"})
					}
				}
				for _, s := range sites {
					if _, isC := constInt(s.idx); isC {
						continue
					}
					switch s.x.Type().Underlying().(type) {
					case *types.Slice, *types.Basic:
					default:
						continue // arrays (fixed length) and pointers to arrays: the compiler's business
					}
					k++
					n++
					key := fmt.Sprintf("%s:%s#%d", fnName(fn), s.what, k)
					if boundedAt(s.idx, s.x, in.Block(), s.slack, 0, map[ssa.Value]bool{}) {
						c.S.OK("R-C13-index-var", key, c.Pos(c.InstrPos(in)), "every way into the access compares the index with the length")
					} else {
						c.S.Bad("R-C13-index-var", key, c.Pos(c.InstrPos(in)), fmt.Sprintf("%s: the %s is not below the length on every way into the access (an index advanced without a comparison against len): a pattern that ends early — inside an escape or a bracket expression — indexes past its end and the process dies", fnName(fn), s.what))
					}
				}
			}
		}
		if n == 0 {
			// a matcher written without index loops (a library call, a compiled pattern) has nothing this rule can judge
			c.S.Trivial("R-C13-index-var", "sites", "-", "no function indexes a parameter and compares its elements with both wildcards: not decided for a matcher of another shape")
		}
	}
}
