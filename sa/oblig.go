package main

import (
	"encoding/json"
	"fmt"
	"os"
	"path/filepath"
	"sort"
	"strings"
	"time"
)

const (
	stDischarged = "discharged"
	stViolated   = "violated"
	stUndecided  = "undecided"
)

// Oblig is one proof obligation: a rule applied to one construct of the source.
type Oblig struct {
	Rule       string `json:"rule"`
	Key        string `json:"key"` // rule:function:construct — never a line number
	Pos        string `json:"pos"`
	Status     string `json:"status"`
	Detail     string `json:"detail,omitempty"`
	NonTrivial bool   `json:"nontrivial"` // needed a path / value / call-graph argument
	Config     string `json:"config,omitempty"`
	// Alt identifies the same construct by what it does rather than by the names around it (a known finding survives
	// the move of the call into a helper, or the renaming of a variable); empty for most obligations
	Alt string `json:"alt,omitempty"`
}

// RuleInfo documents one rule in the evidence.
type RuleInfo struct {
	ID    string `json:"id"`
	Text  string `json:"text"`
	Floor int    `json:"floor"` // minimum number of instances; fewer => undecided
	Count int    `json:"instances"`
}

type Sink struct {
	funcs  map[string]bool // names of the functions of the analysed tree (for known findings of renamed functions)
	prop   string
	config string
	obs    []Oblig
	rules  map[string]*RuleInfo
	order  []string
	notes  map[string]any
}

func newSink(prop string) *Sink {
	return &Sink{prop: prop, rules: map[string]*RuleInfo{}, notes: map[string]any{}}
}

// Rule declares a rule (idempotent across build configs).
func (s *Sink) Rule(id, text string, floor int) {
	// floors guard against a rule that silently matches nothing. The instance count confirmed by hand is not used as the
	// floor: merging duplicated code into one shared helper (three unlink routines into one) legitimately leaves a single
	// site, so a rule is vacuous only when it matches nothing at all; the anchors each rule needs are checked separately.
	if floor > 1 {
		floor = 1
	}
	if _, ok := s.rules[id]; !ok {
		s.rules[id] = &RuleInfo{ID: id, Text: text, Floor: floor}
		s.order = append(s.order, id)
	}
}

func (s *Sink) add(rule, key, pos, status, detail string, nontrivial bool) {
	if _, ok := s.rules[rule]; !ok {
		panic("obligation for undeclared rule " + rule)
	}
	s.obs = append(s.obs, Oblig{Rule: rule, Key: rule + ":" + key, Pos: pos, Status: status, Detail: detail,
		NonTrivial: nontrivial, Config: s.config})
}

func (s *Sink) OK(rule, key, pos, detail string) { s.add(rule, key, pos, stDischarged, detail, true) }
func (s *Sink) Trivial(rule, key, pos, detail string) {
	s.add(rule, key, pos, stDischarged, detail, false)
}
func (s *Sink) Bad(rule, key, pos, detail string) { s.add(rule, key, pos, stViolated, detail, true) }

// BadAlt: a violation with a second, name-independent identity (see Oblig.Alt).
func (s *Sink) BadAlt(rule, key, alt, pos, detail string) {
	s.add(rule, key, pos, stViolated, detail, true)
	s.obs[len(s.obs)-1].Alt = rule + ":" + alt
}
func (s *Sink) Undecided(rule, key, pos, detail string) {
	s.add(rule, key, pos, stUndecided, detail, true)
}
func (s *Sink) Note(k string, v any) { s.notes[k] = v }

// finishConfig applies the per-rule floors for one build configuration.
func (s *Sink) finishConfig() {
	cnt := map[string]int{}
	for _, o := range s.obs {
		if o.Config == s.config {
			cnt[o.Rule]++
		}
	}
	for _, id := range s.order {
		r := s.rules[id]
		if cnt[id] > r.Count {
			r.Count = cnt[id]
		}
		if cnt[id] < r.Floor {
			s.add(id, "floor", "-", stUndecided,
				fmt.Sprintf("rule matched %d instance(s), floor is %d: the anchors of this rule no longer resolve", cnt[id], r.Floor), true)
		}
	}
}

// ---------------------------------------------------------------- known findings

type Finding struct {
	Properties []string `json:"properties"`
	Key        string   `json:"key"`
	What       string   `json:"what"`
	Demo       string   `json:"demo,omitempty"`
	Alt        string   `json:"alt,omitempty"` // name-independent identity of the same construct
}
type FixedEntry struct {
	Property string `json:"property"`
	Commit   string `json:"commit"`
	What     string `json:"what"`
}
type KnownFile struct {
	Findings []Finding    `json:"findings"`
	Fixed    []FixedEntry `json:"fixed"`
}

func loadKnown(verifDir string) (*KnownFile, error) {
	kf := &KnownFile{}
	b, err := os.ReadFile(filepath.Join(verifDir, "known_findings.json"))
	if err != nil {
		if os.IsNotExist(err) {
			return kf, nil
		}
		return nil, err
	}
	if err := json.Unmarshal(b, kf); err != nil {
		return nil, fmt.Errorf("known_findings.json: %w", err)
	}
	return kf, nil
}

func (kf *KnownFile) match(prop, key, alt string) *Finding {
	return kf.matchIn(prop, key, alt, nil)
}

// matchIn: as match; with the function names of the analysed tree, a finding whose function no longer exists under its
// recorded name (renamed, or its code moved into a new helper) still matches a violation of the same rule whose key
// differs only in components that name functions — vanished ones on the finding's side, new ones on the violation's.
func (kf *KnownFile) matchIn(prop, key, alt string, funcs map[string]bool) *Finding {
	applies := func(f *Finding) bool {
		if len(f.Properties) == 0 {
			return true
		}
		for _, p := range f.Properties {
			if p == prop {
				return true
			}
		}
		return false
	}
	for i := range kf.Findings {
		f := &kf.Findings[i]
		if (f.Key == key || (f.Alt != "" && f.Alt == alt)) && applies(f) {
			return f
		}
	}
	if funcs == nil {
		return nil
	}
	skeleton := func(k string, drop func(comp string) bool) (string, bool) {
		parts := strings.Split(k, ":")
		var out []string
		dropped := false
		for _, c := range parts {
			base := c
			if i := strings.Index(base, "$"); i > 0 { // closures are named after their function
				base = base[:i]
			}
			if drop(base) {
				dropped = true
				continue
			}
			out = append(out, c)
		}
		return strings.Join(out, ":"), dropped
	}
	vk, vdropped := skeleton(key, func(c string) bool { return funcs[c] && !frozenFuncs[c] })
	for i := range kf.Findings {
		f := &kf.Findings[i]
		if !applies(f) {
			continue
		}
		fk, fdropped := skeleton(f.Key, func(c string) bool { return frozenFuncs[c] && !funcs[c] })
		if fdropped && vdropped && fk == vk {
			return f
		}
	}
	return nil
}

// ---------------------------------------------------------------- evidence + verdict

type Report struct {
	Property string `json:"property"`
	Tier     string `json:"tier"`
	Root     string `json:"root"`
	Oblig    Oblig  `json:"obligation"`
	RuleText string `json:"rule_text"`
	Replay   string `json:"replay_hint"`
}

type runStats struct {
	Configs   []string
	Packages  int
	Functions int
	CGEdges   int
	SelfTest  map[string]any
}

// conclude writes evidence and reports, prints VIOLATION / KNOWN-FINDING lines, returns the exit code.
func conclude(verifDir, root, tier string, seed int64, s *Sink, st runStats, spec *PropSpec, started time.Time) int {
	kf, kerr := loadKnown(verifDir)
	if kerr != nil {
		fmt.Println("error:", kerr)
		kf = &KnownFile{}
		s.Rule("known-findings-file", "known_findings.json must parse", 0)
		s.Undecided("known-findings-file", "parse", "-", kerr.Error())
	}
	// de-duplicate obligations across configs by key (worst status wins)
	rank := map[string]int{stDischarged: 0, stUndecided: 1, stViolated: 2}
	byKey := map[string]*Oblig{}
	var keys []string
	for i := range s.obs {
		o := s.obs[i]
		if prev, ok := byKey[o.Key]; ok {
			if rank[o.Status] > rank[prev.Status] {
				cp := o
				byKey[o.Key] = &cp
			}
			continue
		}
		cp := o
		byKey[o.Key] = &cp
		keys = append(keys, o.Key)
	}
	sort.Strings(keys)

	os.MkdirAll(filepath.Join(verifDir, "reports"), 0o755)
	os.MkdirAll(filepath.Join(verifDir, "evidence"), 0o755)
	// remove stale reports of this property
	if olds, _ := filepath.Glob(filepath.Join(verifDir, "reports", s.prop+"-*.json")); olds != nil {
		for _, f := range olds {
			os.Remove(f)
		}
	}

	discharged, violated, undecided, nontriv, known := 0, 0, 0, 0, 0
	var samples []any
	var knownLines, violLines []string
	sampleByRule := map[string]int{}
	n := 0
	for _, k := range keys {
		o := byKey[k]
		if o.NonTrivial {
			nontriv++
		}
		switch o.Status {
		case stDischarged:
			discharged++
			if sampleByRule[o.Rule] < 2 && len(samples) < 24 {
				sampleByRule[o.Rule]++
				samples = append(samples, map[string]string{"rule": o.Rule, "key": o.Key, "pos": o.Pos, "status": o.Status, "detail": o.Detail})
			}
		default:
			if o.Status == stViolated {
				if f := kf.matchIn(s.prop, o.Key, o.Alt, s.funcs); f != nil {
					known++
					knownLines = append(knownLines, fmt.Sprintf("KNOWN-FINDING: property=%s %s [%s at %s]", s.prop, f.What, o.Key, o.Pos))
					samples = append(samples, map[string]string{"rule": o.Rule, "key": o.Key, "pos": o.Pos, "status": "violated (known finding)", "detail": o.Detail})
					continue
				}
				violated++
			} else {
				undecided++
			}
			n++
			path := filepath.Join(verifDir, "reports", fmt.Sprintf("%s-%d.json", s.prop, n))
			rt := ""
			if r := s.rules[o.Rule]; r != nil {
				rt = r.Text
			}
			rep := Report{Property: s.prop, Tier: tier, Root: root, Oblig: *o, RuleText: rt,
				Replay: "rdcheck explain " + path}
			b, _ := json.MarshalIndent(rep, "", " ")
			os.WriteFile(path, b, 0o644)
			violLines = append(violLines, fmt.Sprintf("VIOLATION property=%s replay=%s", s.prop, path))
			fmt.Printf("  %s %s at %s: %s\n", strings.ToUpper(o.Status), o.Key, o.Pos, o.Detail)
			samples = append(samples, map[string]string{"rule": o.Rule, "key": o.Key, "pos": o.Pos, "status": o.Status, "detail": o.Detail})
		}
	}
	// stale known findings (listed but no longer reported) are only noted
	var stale []string
	for _, f := range kf.Findings {
		applies := len(f.Properties) == 0
		for _, p := range f.Properties {
			if p == s.prop {
				applies = true
			}
		}
		if !applies {
			continue
		}
		if o, ok := byKey[f.Key]; !ok || o.Status != stViolated {
			// only relevant if the rule belongs to this property
			rule := f.Key
			if i := strings.Index(rule, ":"); i > 0 {
				rule = rule[:i]
			}
			if _, has := s.rules[rule]; has {
				stale = append(stale, f.Key)
			}
		}
	}

	var rules []RuleInfo
	for _, id := range s.order {
		rules = append(rules, *s.rules[id])
	}
	total := len(keys)
	cov := map[string]any{
		"explanation":         spec.Explanation,
		"not_decided":         spec.NotDecided,
		"obligations":         total,
		"discharged":          discharged,
		"known_findings":      known,
		"violated_unlisted":   violated,
		"undecided":           undecided,
		"evaluations":         total,
		"distinct_nontrivial": nontriv,
		"rule":                "one obligation per (rule, function, construct) found by walking the type-checked SSA program of /repo; keys are distinct by construction; an obligation is non-trivial when discharging it needed a path, dominance, data-flow or call-graph argument rather than the mere existence of the construct",
		"rules":               rules,
		"samples":             samples,
		"checker_cmd":         fmt.Sprintf("rdcheck check -property %s -tier %s -root %s", s.prop, tier, root),
		"trusted_base": []string{"go/types and go/ssa of golang.org/x/tools v0.29.0", "VTA call graph (over-approximation of dynamic calls)",
			"the lock-class abstraction and the frozen guarded-by / role tables in the checker (DESIGN.md §3)"},
		"build_configs":        st.Configs,
		"packages_loaded":      st.Packages,
		"source_functions":     st.Functions,
		"callgraph_edges":      st.CGEdges,
		"exhaustive":           true,
		"stale_known_findings": stale,
		"notes":                s.notes,
	}
	if st.SelfTest != nil {
		cov["selftest"] = st.SelfTest
	}
	assumptions := spec.Assumptions
	if assumptions == nil {
		assumptions = []string{}
	}
	if stale == nil {
		stale = []string{}
	}
	if samples == nil {
		samples = []any{}
	}
	cov["stale_known_findings"] = stale
	cov["samples"] = samples
	ev := map[string]any{
		"property_id": s.prop,
		"tier":        tier,
		"seed":        seed,
		"level":       "other",
		"coverage":    cov,
		"assumptions": assumptions,
		"wall_s":      time.Since(started).Seconds(),
		"violations":  violated + undecided,
	}
	b, _ := json.MarshalIndent(ev, "", " ")
	if err := os.WriteFile(filepath.Join(verifDir, "evidence", s.prop+".json"), b, 0o644); err != nil {
		fmt.Println("error writing evidence:", err)
		return 2
	}
	for _, l := range knownLines {
		fmt.Println(l)
	}
	fmt.Printf("%s tier=%s configs=%v obligations=%d discharged=%d known=%d violated=%d undecided=%d\n",
		s.prop, tier, st.Configs, total, discharged, known, violated, undecided)
	for _, l := range violLines {
		fmt.Println(l)
	}
	if violated+undecided > 0 {
		return 1
	}
	return 0
}
