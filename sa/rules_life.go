package main

// Rules for the emulator's lifecycle (C20).

import (
	"fmt"
	"go/token"
	"go/types"
	"sort"
	"strings"

	"golang.org/x/tools/go/ssa"
)

const textC20Close = "R-C20-close-reach: RequestTermination reaches a close request for the registered connections, and WaitForTermination waits for something the connection goroutines signal (the goroutine that serves a connection is accounted for in the emulator's WaitGroup, or the wait polls the client registry)"

func ruleC20Close(c *Ctx) {
	c.S.Rule("R-C20-close-reach", textC20Close, 2)
	rt := c.Fn("(*RedisEmu).RequestTermination")
	wt := c.Fn("(*RedisEmu).WaitForTermination")
	if rt == nil || wt == nil {
		c.S.Undecided("R-C20-close-reach", "api", "-", "RequestTermination / WaitForTermination not found on RedisEmu")
		return
	}
	// functions that request close on a connection: implementations of the client interface's RequestClose
	var closers []*ssa.Function
	for _, fn := range c.SrcFuncs() {
		if fn.Name() == "RequestClose" && fn.Signature.Recv() != nil {
			closers = append(closers, fn)
		}
	}
	reach := c.M.Reach(rt)
	hit := false
	for _, cl := range closers {
		if reach[cl] {
			hit = true
		}
	}
	if hit {
		c.S.OK("R-C20-close-reach", "RequestTermination:closes-connections", c.Pos(rt.Pos()), "reaches RequestClose of the registered connections")
	} else {
		c.S.Bad("R-C20-close-reach", "RequestTermination:closes-connections", c.Pos(rt.Pos()), "RequestTermination only closes the listener and cancels the lane: it never reaches RequestClose of any connection, so connected clients keep reading and writing data after Close returned")
	}
	// the connection goroutine accounted for: a WaitGroup.Add dominating `go run()` — or Wait reaches the registry
	accounted := false
	for _, fn := range c.SrcFuncs() {
		for _, in := range instrsOf(fn) {
			g, ok := in.(*ssa.Go)
			if !ok {
				continue
			}
			isCxnRun := false
			for _, cal := range c.Callees(g) {
				if cal.Signature.Recv() != nil && c.isPkgType(cal.Signature.Recv().Type(), "clientCxn") {
					isCxnRun = true
				}
			}
			if !isCxnRun {
				continue
			}
			for _, in2 := range instrsOf(fn) {
				if call, ok := in2.(*ssa.Call); ok && fullCalleeName(call) == "(*sync.WaitGroup).Add" && instrDominates(in2, in) {
					accounted = true
				}
			}
		}
	}
	clients := c.Global("clients")
	waitsOnRegistry := false
	for f := range c.M.Reach(wt) {
		for _, in := range instrsOf(f) {
			if u, ok := in.(*ssa.UnOp); ok && clients != nil && u.X == ssa.Value(clients) {
				waitsOnRegistry = true
			}
		}
	}
	if accounted || waitsOnRegistry {
		c.S.OK("R-C20-close-reach", "WaitForTermination:waits-for-connections", c.Pos(wt.Pos()), "connection goroutines are waited for")
	} else {
		c.S.Bad("R-C20-close-reach", "WaitForTermination:waits-for-connections", c.Pos(wt.Pos()), "WaitForTermination waits only for the accept loop, the saver and the signal monitors: goroutines serving connections are neither in the WaitGroup nor polled, so Close returns while commands still execute")
	}
}

const textC20Exit = "R-C20-no-exit: no call that terminates the host process (os.Exit, log.Fatal*, lane Fatal*) is reachable from the emulator's exported API or its goroutines — a library for unit tests must report errors, not kill the test binary"

func ruleC20NoExit(c *Ctx) {
	c.S.Rule("R-C20-no-exit", textC20Exit, 0)
	rm := c.M.Req()
	n := 0
	for _, fn := range c.SrcFuncs() {
		for _, in := range instrsOf(fn) {
			call, ok := in.(ssa.CallInstruction)
			if !ok {
				continue
			}
			name := fullCalleeName(call)
			fatal := name == "os.Exit" || strings.HasPrefix(name, "log.Fatal") ||
				(call.Common().IsInvoke() && strings.HasPrefix(call.Common().Method.Name(), "Fatal"))
			if !fatal {
				continue
			}
			// only exits that depend on a run-time error of the environment (a failing call into another
			// package): assertions about the embedded resources cannot fail in a build that starts at all
			envErr := false
			for _, d := range fn.Blocks {
				ifi, ok := d.Instrs[len(d.Instrs)-1].(*ssa.If)
				if !ok {
					continue
				}
				bo, ok := ifi.Cond.(*ssa.BinOp)
				if !ok {
					continue
				}
				onSide := false
				for _, sd := range d.Succs {
					if len(sd.Preds) == 1 && (sd == in.Block() || sd.Dominates(in.Block())) {
						onSide = true
					}
				}
				if !onSide {
					continue
				}
				for _, v := range []ssa.Value{bo.X, bo.Y} {
					if ex, ok := v.(*ssa.Extract); ok {
						if call2, ok := ex.Tuple.(*ssa.Call); ok {
							if g := call2.Call.StaticCallee(); g != nil && !c.InPkg(g) {
								envErr = true
							}
						}
					}
				}
			}
			if !envErr {
				continue
			}
			// reachable from a root?
			var from []string
			for _, r := range rm.roots {
				if c.M.Reach(r)[fn] && !strings.Contains(fnName(r), "realRedisClient") {
					from = append(from, fnName(r))
				}
			}
			if len(from) == 0 {
				continue
			}
			sort.Strings(from)
			n++
			what := name
			if call.Common().IsInvoke() {
				what = call.Common().Method.Name()
			}
			c.S.BadAlt("R-C20-no-exit", fmt.Sprintf("%s:%s#%d", fnName(fn), what, n), fmt.Sprintf("api-reachable:%s#%d", what, n), c.Pos(c.InstrPos(in)),
				fmt.Sprintf("%s calls %s, reachable from %s: an error (e.g. the port is still in use) terminates the process that embeds the emulator", fnName(fn), what, strings.Join(from[:min(3, len(from))], ", ")))
		}
	}
	if n == 0 {
		c.S.OK("R-C20-no-exit", "none", "-", "no process-terminating call reachable from the API")
	}
}

func min(a, b int) int {
	if a < b {
		return a
	}
	return b
}

const textC20State = "R-C20-instance-state: package-level variables written after initialisation are instance-agnostic (listed with a reason) — client registry, id counters and statistics shared by all emulator instances make instances in one process affect each other"

var globalAllow = map[string]string{
	"testPort":           "port allocator of the in-process test client: deliberately shared so that test clients never collide",
	"multiDataStoreLock": "global ordering lock for two-database operations",
	"clientsMu":          "mutex", "infoMu": "mutex",
	"signals":    "debug id counter, only used to label wake signals",
	"frameReach": "", // not in the analysed package
}

func ruleC20InstanceState(c *Ctx) {
	c.S.Rule("R-C20-instance-state", textC20State, 3)
	written := map[*ssa.Global][]string{}
	for _, fn := range c.SrcFuncs() {
		if fn.Name() == "init" && fn.Parent() == nil {
			continue
		}
		for _, a := range c.Accesses(fn) {
			if a.Glob == nil || !a.Write {
				continue
			}
			written[a.Glob] = append(written[a.Glob], fnName(fn))
		}
	}
	var gs []*ssa.Global
	for g := range written {
		gs = append(gs, g)
	}
	sort.Slice(gs, func(i, j int) bool { return gs[i].Name() < gs[j].Name() })
	for _, g := range gs {
		key := "global " + g.Name()
		if why, ok := globalAllow[g.Name()]; ok && why != "" {
			c.S.Trivial("R-C20-instance-state", key, c.Pos(g.Pos()), "allowed: "+why)
			continue
		}
		ws := written[g]
		sort.Strings(ws)
		uniq := []string{}
		for i, w := range ws {
			if i == 0 || w != ws[i-1] {
				uniq = append(uniq, w)
			}
		}
		// second identity for the known-findings file: the type of the variable (and, for a plain number or string, who
		// writes it) — a renamed variable is still the same finding
		alt := "global of type " + typeString(deref(g.Type()))
		if _, basic := deref(g.Type()).Underlying().(*types.Basic); basic {
			if selfIncremented(c, g) {
				alt += " (a counter: only ever incremented)"
			} else {
				alt += " written by " + strings.Join(uniq, ",")
			}
		}
		c.S.BadAlt("R-C20-instance-state", key, alt, c.Pos(g.Pos()), fmt.Sprintf("package-level %s is written at run time by %s: every emulator instance in the process shares it (clients of one instance are listed, killed and counted by another; a stall on its mutex stalls all instances)", g.Name(), strings.Join(uniq[:min(4, len(uniq))], ", ")))
	}
}

// selfIncremented: every run-time store to the global stores (its own value + a constant).
func selfIncremented(c *Ctx, g *ssa.Global) bool {
	n := 0
	for _, fn := range c.SrcFuncs() {
		if fn.Name() == "init" && fn.Parent() == nil {
			continue
		}
		for _, in := range instrsOf(fn) {
			st, ok := in.(*ssa.Store)
			if !ok || st.Addr != ssa.Value(g) {
				continue
			}
			n++
			bo, ok := st.Val.(*ssa.BinOp)
			if !ok || bo.Op != token.ADD {
				return false
			}
			u, ok := bo.X.(*ssa.UnOp)
			if !ok || u.X != ssa.Value(g) {
				return false
			}
			if _, isC := constInt(bo.Y); !isC {
				return false
			}
		}
	}
	return n > 0
}

const textC20Retry = "R-C20-retry-live: a retry loop around the construction of the emulator depends on an error its callee can actually return — otherwise the documented 'wait for the port to be released' never happens"

func ruleC20Retry(c *Ctx) {
	c.S.Rule("R-C20-retry-live", textC20Retry, 0)
	n := 0
	for _, fn := range c.SrcFuncs() {
		for _, in := range instrsOf(fn) {
			call, ok := in.(*ssa.Call)
			if !ok || !blockInCycle(call.Block()) {
				continue
			}
			g := call.Call.StaticCallee()
			if g == nil || !c.InPkg(g) || g.Signature.Results().Len() < 2 {
				continue
			}
			last := g.Signature.Results().At(g.Signature.Results().Len() - 1)
			if last.Type().String() != "error" || !c.isPkgType(g.Signature.Results().At(0).Type(), "RedisEmu") {
				continue
			}
			n++
			// can g return a non-nil error?
			canFail := false
			for _, b := range g.Blocks {
				if ret, ok := b.Instrs[len(b.Instrs)-1].(*ssa.Return); ok {
					if !isNilConst(ret.Results[len(ret.Results)-1]) {
						canFail = true
					}
				}
			}
			key := fmt.Sprintf("%s:retry-on-%s", fnName(fn), fnName(g))
			if canFail {
				c.S.OK("R-C20-retry-live", key, c.Pos(call.Pos()), "the retried call can fail")
			} else {
				c.S.Bad("R-C20-retry-live", key, c.Pos(call.Pos()), fmt.Sprintf("%s retries %s in a loop, but %s never returns an error (listening happens later, and a busy port ends the process there): the retry is dead code", fnName(fn), fnName(g), fnName(g)))
			}
		}
	}
	if n == 0 {
		c.S.Trivial("R-C20-retry-live", "none", "-", "no retry loop around the emulator constructor")
	}
}

const textC20CancelExits = "R-C20-cancel-exits: in every goroutine the emulator waits for (functions started with `go` after WaitGroup.Add), the arm of a select that receives the termination signal (a Done() channel) leads to the end of the function on every path — it never flows back to the select (a `break` that only leaves the select keeps the goroutine, and WaitForTermination, alive forever)"

func ruleC20CancelExits(c *Ctx) {
	c.S.Rule("R-C20-cancel-exits", textC20CancelExits, 1)
	n := 0
	for _, fn := range c.SrcFuncs() {
		for _, in := range instrsOf(fn) {
			sel, ok := in.(*ssa.Select)
			if !ok {
				continue
			}
			for i, st := range sel.States {
				call, ok := st.Chan.(*ssa.Call)
				if !ok || !call.Call.IsInvoke() && call.Call.StaticCallee() == nil {
					continue
				}
				name := ""
				if call.Call.IsInvoke() {
					name = call.Call.Method.Name()
				} else {
					name = call.Call.StaticCallee().Name()
				}
				if name != "Done" {
					continue
				}
				// only selects that can be executed again (in a cycle) matter
				if !blockInCycle(sel.Block()) {
					continue
				}
				n++
				key := fmt.Sprintf("%s:cancel-arm#%d", fnName(fn), n)
				// the block of arm i: true successor of `index == i`
				var arm *ssa.BasicBlock
				for _, r := range referrers(sel) {
					ex, ok := r.(*ssa.Extract)
					if !ok || ex.Index != 0 {
						continue
					}
					for _, r2 := range referrers(ex) {
						bo, ok := r2.(*ssa.BinOp)
						if !ok || bo.Op != token.EQL {
							continue
						}
						if k, isC := constInt(bo.Y); isC && int(k) == i {
							for _, r3 := range referrers(bo) {
								if ifi, ok := r3.(*ssa.If); ok {
									arm = ifi.Block().Succs[0]
								}
							}
						}
					}
				}
				if arm == nil {
					c.S.Undecided("R-C20-cancel-exits", key, c.Pos(sel.Pos()), "the block of the termination arm could not be identified")
					continue
				}
				if arm == sel.Block() || plainReachAvoid(arm, sel.Block(), nil) {
					c.S.Bad("R-C20-cancel-exits", key, c.Pos(sel.Pos()), fmt.Sprintf("%s: after the termination signal was received control can return to the select: the goroutine does not end, and whoever waits for it (WaitGroup) waits forever", fnName(fn)))
				} else {
					c.S.OK("R-C20-cancel-exits", key, c.Pos(sel.Pos()), "the termination arm leaves the loop for good")
				}
			}
		}
	}
	if n == 0 {
		c.S.Trivial("R-C20-cancel-exits", "none", "-", "no select on a Done() channel inside a loop")
	}
}

const textC20TermPass = "R-C20-term-releases: RequestTermination releases each resource of the emulator (the listener, the cancel function of the lane) on every path on which the resource exists: every path from its entry to a return passes the release call or the nil side of a test of that very field — no other state (an 'already terminating' flag, another field) can make it return with the listener still open"

func ruleC20TermPass(c *Ctx) {
	c.S.Rule("R-C20-term-releases", textC20TermPass, 2)
	rt := c.Fn("(*RedisEmu).RequestTermination")
	if rt == nil {
		c.S.Undecided("R-C20-term-releases", "api", "-", "RequestTermination not found")
		return
	}
	nt := c.NamedType("RedisEmu")
	st, ok := nt.Underlying().(*types.Struct)
	if !ok {
		c.S.Undecided("R-C20-term-releases", "type", "-", "RedisEmu is not a struct")
		return
	}
	// the emulator's fields, including those of helper structs it embeds
	var fields []*types.Var
	for i := 0; i < st.NumFields(); i++ {
		f := st.Field(i)
		fields = append(fields, f)
		if f.Embedded() {
			if est, ok := deref(f.Type()).Underlying().(*types.Struct); ok {
				for j := 0; j < est.NumFields(); j++ {
					fields = append(fields, est.Field(j))
				}
			}
		}
	}
	for _, f := range fields {
		ts := f.Type().String()
		kind := ""
		switch {
		case ts == "net.Listener":
			kind = "listener"
		case ts == "context.CancelFunc" || ts == "func()":
			kind = "cancel function"
		default:
			continue
		}
		key := "RequestTermination:" + f.Name()
		// release: a call whose receiver/value is a load of this field; or a call to a package function that itself
		// releases the field or finds it nil on every path (a helper such as stopListenerLocked)
		isLoadOf := func(v ssa.Value) bool {
			_, lf := loadedField(v)
			return lf == f
		}
		var releases func(fn *ssa.Function, depth int) bool
		releases = func(fn *ssa.Function, depth int) bool {
			if len(fn.Blocks) == 0 || depth > 3 {
				return false
			}
			releaseIn := func(b *ssa.BasicBlock) bool {
				for _, in := range b.Instrs {
					call, ok := in.(*ssa.Call)
					if !ok {
						continue
					}
					if call.Call.IsInvoke() && isLoadOf(call.Call.Value) && call.Call.Method.Name() == "Close" {
						return true
					}
					if !call.Call.IsInvoke() && isLoadOf(call.Call.Value) {
						return true
					}
					// the field's value copied to a local first: x := eng.f; ...; x.Close() / x()
					if call.Call.IsInvoke() && call.Call.Method.Name() == "Close" || !call.Call.IsInvoke() && call.Call.StaticCallee() == nil {
						if localCopyOf(call.Call.Value, isLoadOf) {
							return true
						}
					}
					if g := call.Call.StaticCallee(); g != nil && c.InPkg(g) && g != fn && releases(g, depth+1) {
						return true
					}
				}
				return false
			}
			bad := false
			seen := map[*ssa.BasicBlock]bool{}
			var walk func(b *ssa.BasicBlock)
			walk = func(b *ssa.BasicBlock) {
				if seen[b] || bad {
					return
				}
				seen[b] = true
				if releaseIn(b) {
					return
				}
				last := b.Instrs[len(b.Instrs)-1]
				switch t := last.(type) {
				case *ssa.Return:
					bad = true
				case *ssa.If:
					if bo, ok := t.Cond.(*ssa.BinOp); ok && (bo.Op == token.NEQ || bo.Op == token.EQL) {
						var other ssa.Value
						if isLoadOf(bo.X) || localCopyOf(bo.X, isLoadOf) {
							other = bo.Y
						} else if isLoadOf(bo.Y) || localCopyOf(bo.Y, isLoadOf) {
							other = bo.X
						}
						if other != nil && isNilConst(other) {
							nonNil := b.Succs[0]
							if bo.Op == token.EQL {
								nonNil = b.Succs[1]
							}
							walk(nonNil)
							return
						}
					}
					for _, s := range b.Succs {
						walk(s)
					}
				default:
					for _, s := range b.Succs {
						walk(s)
					}
				}
			}
			walk(fn.Blocks[0])
			return !bad
		}
		bad := !releases(rt, 0)
		if bad {
			c.S.Bad("R-C20-term-releases", key, c.Pos(rt.Pos()), fmt.Sprintf("RequestTermination can return without releasing the %s (%s) although it exists: a path avoids both the release and the nil test of that field — Close/WaitForTermination then hang or the port stays bound", kind, f.Name()))
		} else {
			c.S.OK("R-C20-term-releases", key, c.Pos(rt.Pos()), fmt.Sprintf("every path releases the %s or finds it nil", kind))
		}
	}
}

// localCopyOf: v is the same value as a load satisfying isLoad (identity; SSA has no copies) or a phi/conversion of one.
func localCopyOf(v ssa.Value, isLoad func(ssa.Value) bool) bool {
	switch x := v.(type) {
	case *ssa.ChangeType:
		return isLoad(x.X) || localCopyOf(x.X, isLoad)
	case *ssa.ChangeInterface:
		return isLoad(x.X) || localCopyOf(x.X, isLoad)
	case *ssa.Phi:
		for _, e := range x.Edges {
			if !(isLoad(e) || localCopyOf(e, isLoad)) {
				return false
			}
		}
		return len(x.Edges) > 0
	}
	return isLoad(v)
}

const textC20Accounted = "R-C20-accounted: every goroutine the emulator's WaitGroup accounts for (a `go` statement preceded by Add) (self-wait) never reaches a Wait on that WaitGroup itself — it would wait for its own Done; (bounded) never waits for a blocking command's wake-up unless requesting termination ends blocked commands — otherwise one client in BLPOP k 0 keeps WaitForTermination from returning; (done-last) signals Done only after everything else it does on termination: `defer wg.Done()` is the first defer of the goroutine function (it runs last), so WaitForTermination does not return while the goroutine still works (the final save)"

func ruleC20Accounted(c *Ctx) {
	c.S.Rule("R-C20-accounted", textC20Accounted, 3)
	isWG := func(call ssa.CallInstruction, method string) bool {
		return fullCalleeName(call) == "(*sync.WaitGroup)."+method
	}
	ba := c.blocking()
	termEndsBlocks := false
	if ub, rt := unblockPoster(c), c.Fn("(*RedisEmu).RequestTermination"); ub != nil && rt != nil {
		termEndsBlocks = c.M.Reach(rt)[ub]
	}
	n := 0
	for _, fn := range c.SrcFuncs() {
		for _, in := range instrsOf(fn) {
			g, ok := in.(*ssa.Go)
			if !ok {
				continue
			}
			// accounted: an Add dominates the go statement
			accounted := false
			for _, in2 := range instrsOf(fn) {
				if call, ok := in2.(*ssa.Call); ok && isWG(call, "Add") && instrDominates(in2, in) {
					accounted = true
				}
			}
			if !accounted {
				continue
			}
			for _, target := range c.Callees(g) {
				if !c.InPkg(target) || len(target.Blocks) == 0 {
					continue
				}
				n++
				// (self-wait)
				key := fmt.Sprintf("%s:no-self-wait", fnName(target))
				selfWait := ""
				for f := range c.M.Reach(target) {
					for _, in3 := range instrsOf(f) {
						if call, ok := in3.(ssa.CallInstruction); ok && isWG(call, "Wait") {
							if _, isGo := in3.(*ssa.Go); !isGo {
								selfWait = fnName(f)
							}
						}
					}
				}
				if selfWait != "" {
					c.S.Bad("R-C20-accounted", key, c.Pos(g.Pos()), fmt.Sprintf("the goroutine %s, which the WaitGroup counts, can reach WaitGroup.Wait (in %s): it waits for its own Done and termination never completes", fnName(target), selfWait))
				} else {
					c.S.OK("R-C20-accounted", key, c.Pos(g.Pos()), "the goroutine never waits on the WaitGroup that counts it")
				}
				// (bounded) what termination waits for ends when termination is requested
				if ba.selectFn != nil {
					key = fmt.Sprintf("%s:bounded", fnName(target))
					switch {
					case !c.M.Reach(target)[ba.selectFn]:
						c.S.OK("R-C20-accounted", key, c.Pos(g.Pos()), "the goroutine never waits for a blocking command's wake-up")
					case termEndsBlocks:
						c.S.OK("R-C20-accounted", key, c.Pos(g.Pos()), "requesting termination ends the blocked commands the goroutine may wait in")
					default:
						c.S.Bad("R-C20-accounted", key, c.Pos(g.Pos()), fmt.Sprintf("the goroutine %s, which the WaitGroup counts, can wait in %s for a blocking command's wake-up, and RequestTermination ends no blocked command: with one client in BLPOP k 0, WaitForTermination / Close never returns", fnName(target), fnName(ba.selectFn)))
					}
				}
				// (done-last)
				key = fmt.Sprintf("%s:done-last", fnName(target))
				var doneDefer *ssa.Defer
				var defers []*ssa.Defer
				plainDone := false
				for _, in3 := range instrsOf(target) {
					switch x := in3.(type) {
					case *ssa.Defer:
						defers = append(defers, x)
						if isWG(x, "Done") {
							doneDefer = x
						}
					case *ssa.Call:
						if isWG(x, "Done") {
							plainDone = true
						}
					}
				}
				switch {
				case doneDefer == nil && !plainDone:
					c.S.Bad("R-C20-accounted", key, c.Pos(target.Pos()), fmt.Sprintf("the goroutine %s is counted by the WaitGroup but never signals Done", fnName(target)))
				case doneDefer != nil:
					first := true
					for _, d := range defers {
						if d != doneDefer && !instrDominates(doneDefer, d) {
							first = false
						}
					}
					if first && doneDefer.Block() == target.Blocks[0] {
						c.S.OK("R-C20-accounted", key, c.Pos(doneDefer.Pos()), "Done is deferred first: it runs after every other deferred call of the goroutine")
					} else {
						c.S.Bad("R-C20-accounted", key, c.Pos(doneDefer.Pos()), fmt.Sprintf("in %s the deferred Done is not the first defer: deferred calls registered before it (a final save, a cleanup) run after Done, i.e. after WaitForTermination may already have returned", fnName(target)))
					}
				default:
					// explicit Done calls: nothing but the return may follow
					bad := false
					for _, in3 := range instrsOf(target) {
						call, ok := in3.(*ssa.Call)
						if !ok || !isWG(call, "Done") {
							continue
						}
						blk := call.Block()
						for _, in4 := range blk.Instrs[instrIndex(call)+1:] {
							if _, isCall := in4.(ssa.CallInstruction); isCall {
								bad = true
							}
						}
					}
					if bad {
						c.S.Bad("R-C20-accounted", key, c.Pos(target.Pos()), fmt.Sprintf("%s keeps working after it signalled Done", fnName(target)))
					} else {
						c.S.OK("R-C20-accounted", key, c.Pos(target.Pos()), "Done is the last thing the goroutine does")
					}
				}
			}
		}
	}
	if n == 0 {
		c.S.Undecided("R-C20-accounted", "goroutines", "-", "no goroutine accounted in a WaitGroup found")
	}
}

const textC20Callback = "R-C20-callback-unlocked: a callback supplied by the embedding program (a value of an exported function type, e.g. the dispatch hook) is never invoked while the emulator holds a mutex that its exported API acquires — the callback may call RequestTermination, Close or SetHook, and those would wait for the lock its own caller holds"

func ruleC20Callback(c *Ctx) {
	c.S.Rule("R-C20-callback-unlocked", textC20Callback, 1)
	lm := c.M.Locks()
	// classes acquired (directly) by exported methods / functions of the package
	api := lockSet(0)
	for _, fn := range c.SrcFuncs() {
		if fn.Object() == nil || !fn.Object().Exported() || fn.Parent() != nil {
			continue
		}
		for _, in := range instrsOf(fn) {
			if call, ok := in.(*ssa.Call); ok {
				if op, cls, _ := lm.lockOp(call); op > 0 && cls >= 0 {
					api |= 1 << uint(cls)
				}
			}
		}
	}
	n := 0
	for _, fn := range c.SrcFuncs() {
		k := 0
		for _, in := range instrsOf(fn) {
			call, ok := in.(*ssa.Call)
			if !ok || call.Call.IsInvoke() || call.Call.StaticCallee() != nil {
				continue
			}
			if _, isB := call.Call.Value.(*ssa.Builtin); isB {
				continue
			}
			nt, ok := call.Call.Value.Type().(*types.Named)
			if !ok || !nt.Obj().Exported() || nt.Obj().Pkg() != c.Pkg.Types {
				continue
			}
			if _, isSig := nt.Underlying().(*types.Signature); !isSig {
				continue
			}
			n++
			k++
			key := fmt.Sprintf("%s:call-%s#%d", fnName(fn), nt.Obj().Name(), k)
			held := lm.LocallyHeld(call) & api
			if held == 0 {
				c.S.OK("R-C20-callback-unlocked", key, c.Pos(call.Pos()), "no mutex of the public API is held around the callback")
			} else {
				c.S.Bad("R-C20-callback-unlocked", key, c.Pos(call.Pos()), fmt.Sprintf("%s invokes the user's %s while holding %s, which the exported API acquires: a callback that calls RequestTermination/Close/SetHook deadlocks, the listener stays open and Close never returns", fnName(fn), nt.Obj().Name(), lm.setString(held)))
			}
		}
	}
	if n == 0 {
		c.S.Undecided("R-C20-callback-unlocked", "callbacks", "-", "no call through an exported callback type found (the dispatch hook was expected)")
	}
}
