package redisemu

import (
	"os"
	"path/filepath"
	"sync"
	"testing"
	"time"
)

// Run with -race: each sub-scenario makes two goroutines of the emulator touch the same memory.
func hammer(t *testing.T, s *demoSrv, d time.Duration, scripts ...[][]string) {
	var wg sync.WaitGroup
	stop := time.Now().Add(d)
	for _, sc := range scripts {
		wg.Add(1)
		go func(sc [][]string) {
			defer wg.Done()
			c := s.dial(t)
			for time.Now().Before(stop) {
				for _, cmd := range sc {
					c.do(cmd...)
				}
			}
		}(sc)
	}
	wg.Wait()
}

func TestDemoC16RaceTTL(t *testing.T) {
	s := startDemo(t, "")
	defer s.stop()
	hammer(t, s, 600*time.Millisecond,
		[][]string{{"SET", "k", "v"}, {"EXPIRE", "k", "100"}, {"PERSIST", "k"}},
		[][]string{{"TTL", "k"}, {"PTTL", "k"}, {"EXPIRETIME", "k"}, {"PERSIST", "k"}})
}

func TestDemoC16RaceInfo(t *testing.T) {
	s := startDemo(t, "")
	defer s.stop()
	hammer(t, s, 600*time.Millisecond,
		[][]string{{"INFO"}},
		[][]string{{"PING"}, {"SET", "a", "1"}})
}

func TestDemoC16RaceDbSize(t *testing.T) {
	s := startDemo(t, "")
	defer s.stop()
	hammer(t, s, 600*time.Millisecond,
		[][]string{{"DBSIZE"}},
		[][]string{{"SET", "a", "1"}, {"DEL", "a"}})
}

func TestDemoC16RaceSaver(t *testing.T) {
	dir, _ := os.MkdirTemp("", "rdrace")
	defer os.RemoveAll(dir)
	s := startDemo(t, filepath.Join(dir, "db"))
	defer s.stop()
	// the periodic saver runs (*dataStoreSet).save once per second from its own goroutine; calling the
	// same function from a goroutine here only makes the interleaving frequent enough to observe
	done := make(chan struct{})
	go func() {
		for {
			select {
			case <-done:
				return
			default:
				s.eng.dss.save(s.eng.l)
				time.Sleep(time.Millisecond)
			}
		}
	}()
	hammer(t, s, 1500*time.Millisecond,
		[][]string{{"SET", "a", "1"}, {"SELECT", "1"}, {"SET", "b", "1"}, {"SELECT", "2"}, {"SET", "c", "2"}, {"SELECT", "0"}})
	close(done)
}

func TestDemoC16RaceSignals(t *testing.T) {
	s := startDemo(t, "")
	defer s.stop()
	hammer(t, s, 600*time.Millisecond,
		[][]string{{"SELECT", "0"}, {"BLPOP", "nokey", "0.01"}},
		[][]string{{"SELECT", "1"}, {"BLPOP", "nokey", "0.01"}})
}

func TestDemoC16RaceClosing(t *testing.T) {
	s := startDemo(t, "")
	defer s.stop()
	stop := time.Now().Add(600 * time.Millisecond)
	var wg sync.WaitGroup
	wg.Add(2)
	go func() {
		defer wg.Done()
		for time.Now().Before(stop) {
			c := s.dial(t)
			for i := 0; i < 20; i++ {
				if r := c.do("PING"); r != "+PONG" {
					break
				}
			}
			c.c.Close()
		}
	}()
	go func() {
		defer wg.Done()
		k := s.dial(t)
		for time.Now().Before(stop) {
			k.do("CLIENT", "KILL", "TYPE", "normal")
		}
	}()
	wg.Wait()
}

func TestDemoC16RaceClientList(t *testing.T) {
	s := startDemo(t, "")
	defer s.stop()
	hammer(t, s, 600*time.Millisecond,
		[][]string{{"CLIENT", "LIST"}},
		[][]string{{"CLIENT", "SETNAME", "abc"}, {"HELLO", "3"}, {"HELLO", "2"}, {"WATCH", "a"}, {"UNWATCH"}, {"SELECT", "1"}, {"SELECT", "0"}})
}

func TestDemoC16RaceGrammar(t *testing.T) {
	s := startDemo(t, "")
	defer s.stop()
	sc := [][]string{{"SET", "k", "v", "EX", "10", "NX"}, {"SET", "k", "v", "NX", "EX", "10"}}
	hammer(t, s, 600*time.Millisecond, sc, sc, sc, sc)
}

func TestDemoC16RaceGetBit(t *testing.T) {
	s := startDemo(t, "")
	defer s.stop()
	c := s.dial(t)
	c.do("SET", "b", "\x00\x00\x00\x00")
	hammer(t, s, 600*time.Millisecond,
		[][]string{{"SETBIT", "b", "3", "1"}, {"SETBIT", "b", "3", "0"}},
		[][]string{{"GETBIT", "b", "3"}, {"BITCOUNT", "b"}, {"BITPOS", "b", "1"}})
}

func TestDemoC16RaceHook(t *testing.T) {
	s := startDemo(t, "")
	defer s.stop()
	done := make(chan struct{})
	go func() {
		for {
			select {
			case <-done:
				return
			default:
				s.eng.SetHook(func(cmd string, args map[string]any) (bool, any, error) { return false, nil, nil })
				s.eng.SetHook(nil)
			}
		}
	}()
	hammer(t, s, 500*time.Millisecond, [][]string{{"PING"}})
	close(done)
}
