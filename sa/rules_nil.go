package main

// R-typed-nil: results of the typed payload accessors (nil for a key of another type) are nil-tested
// before they are dereferenced — the WRONGTYPE discipline. Edge-sensitive nilness, interprocedural
// through functions that hand an accessor's result on.

import (
	"fmt"
	"go/token"
	"go/types"

	"golang.org/x/tools/go/ssa"
)

const textTypedNil = "R-typed-nil: a value obtained from a typed payload accessor (getList/getHashTable/getSet return nil for a key holding another type), directly or through a function that passes it on, is dereferenced (field access, method call on it, element access) only where a nil test on that value guarantees it is non-nil — otherwise a command applied to a key of the wrong type crashes the process instead of answering WRONGTYPE"

type nilModel struct {
	c        *Ctx
	accessor map[*ssa.Function]bool         // methods on storeKey that return nil on the type-mismatch branch
	nilRet   map[*ssa.Function]map[int]bool // function -> result indexes that may be nil although derived from an accessor
}

func isNilConst(v ssa.Value) bool {
	c, ok := v.(*ssa.Const)
	return ok && c.Value == nil
}

// nilTestEdge: if b ends in `if v == nil` / `if v != nil`, returns the successor on which v is non-nil.
func nonNilSucc(b *ssa.BasicBlock, v ssa.Value) *ssa.BasicBlock {
	ifi, ok := b.Instrs[len(b.Instrs)-1].(*ssa.If)
	if !ok {
		return nil
	}
	return nonNilSuccOfCond(b, ifi.Cond, v)
}

func nonNilSuccOfCond(b *ssa.BasicBlock, cond ssa.Value, v ssa.Value) *ssa.BasicBlock {
	bo, ok := cond.(*ssa.BinOp)
	if !ok || (bo.Op != token.EQL && bo.Op != token.NEQ) {
		return nil
	}
	if !((bo.X == v && isNilConst(bo.Y)) || (bo.Y == v && isNilConst(bo.X))) {
		return nil
	}
	if bo.Op == token.EQL {
		return b.Succs[1]
	}
	return b.Succs[0]
}

// knownNonNilIn: v is guaranteed non-nil in block blk by a dominating nil test (also through the
// short-circuit forms `v == nil || ...` / `v != nil && ...`).
func knownNonNilIn(v ssa.Value, blk *ssa.BasicBlock) bool {
	fn := blk.Parent()
	for _, d := range fn.Blocks {
		s := nonNilSucc(d, v)
		if s == nil {
			continue
		}
		// the non-nil successor must be entered only through that edge
		if len(s.Preds) == 1 && (s == blk || s.Dominates(blk)) {
			return true
		}
		// `if v == nil || cond { bail }`: both tests jump to the same bail block; the continuation block is
		// dominated by the non-nil successor of the first test through the second test
		if len(s.Preds) == 1 {
			continue
		}
		// s has several preds (join). accept when every predecessor edge into s implies non-nil — rare; skip
	}
	return false
}

func (nm *nilModel) nilableSource(v ssa.Value, seen map[ssa.Value]bool) bool {
	if seen[v] {
		return false
	}
	seen[v] = true
	switch x := v.(type) {
	case *ssa.Const:
		return x.Value == nil
	case *ssa.Call:
		for _, g := range nm.c.Callees(x) {
			if nm.accessor[g] || nm.nilRet[g][0] {
				return true
			}
		}
		return false
	case *ssa.Extract:
		if call, ok := x.Tuple.(*ssa.Call); ok {
			for _, g := range nm.c.Callees(call) {
				if nm.nilRet[g][x.Index] {
					return true
				}
			}
		}
		return false
	case *ssa.Phi:
		for i, e := range x.Edges {
			pred := x.Block().Preds[i]
			if !nm.nilableSource(e, seen) {
				continue
			}
			if isNilConst(e) {
				return true
			}
			// non-nil on this edge?
			if s := nonNilSucc(pred, e); s != nil && s == x.Block() {
				continue
			}
			if knownNonNilIn(e, pred) || nm.statusGuaranteesOnEdge(e, pred, x.Block()) {
				continue
			}
			return true
		}
		return false
	case *ssa.UnOp:
		if x.Op == token.MUL {
			if al, ok := x.X.(*ssa.Alloc); ok {
				for _, rr := range referrers(al) {
					if st, ok := rr.(*ssa.Store); ok && st.Addr == al && nm.nilableSource(st.Val, seen) {
						if !knownNonNilIn(st.Val, st.Block()) {
							return true
						}
					}
				}
			}
		}
		return false
	}
	return false
}

func ruleTypedNil(c *Ctx) {
	c.S.Rule("R-typed-nil", textTypedNil, 30)
	p := c.Prog
	nm := &nilModel{c: c, accessor: map[*ssa.Function]bool{}, nilRet: map[*ssa.Function]map[int]bool{}}
	isAgg := func(t types.Type) bool { return p.isPkgType(t, "storeList") || p.isPkgType(t, "redisDict") }
	for _, fn := range c.SrcFuncs() {
		if fn.Signature.Recv() == nil || !p.isPkgType(fn.Signature.Recv().Type(), "storeKey") || fn.Signature.Results().Len() != 1 {
			continue
		}
		if !isAgg(fn.Signature.Results().At(0).Type()) {
			continue
		}
		for _, b := range fn.Blocks {
			if ret, ok := b.Instrs[len(b.Instrs)-1].(*ssa.Return); ok && isNilConst(ret.Results[0]) {
				nm.accessor[fn] = true
			}
		}
	}
	if len(nm.accessor) < 3 {
		c.S.Undecided("R-typed-nil", "accessors", "-", fmt.Sprintf("only %d typed payload accessors with a nil branch found", len(nm.accessor)))
		return
	}
	// functions that pass a nilable aggregate on
	for changed := true; changed; {
		changed = false
		for _, fn := range c.SrcFuncs() {
			if nm.accessor[fn] {
				continue
			}
			res := fn.Signature.Results()
			for i := 0; i < res.Len(); i++ {
				if !isAgg(res.At(i).Type()) || nm.nilRet[fn][i] {
					continue
				}
				for _, b := range fn.Blocks {
					ret, ok := b.Instrs[len(b.Instrs)-1].(*ssa.Return)
					if !ok || i >= len(ret.Results) {
						continue
					}
					v := ret.Results[i]
					if isNilConst(v) {
						// an explicit nil is only interesting when an error/ok result does not accompany it;
						// callers are expected to test the companion value — treat as nilable too
						continue
					}
					// a nil that travels together with a non-nil error result is the callee's way of reporting
					// failure; callers test the error (WRONGTYPE) — not this rule's business
					withErr := false
					for j, o := range ret.Results {
						if j == i {
							continue
						}
						switch o.Type().Underlying().(type) {
						case *types.Pointer, *types.Interface:
							if !isAgg(o.Type()) && (knownNonNilIn(o, b) || sameBlockGuardBlock(o, b)) {
								withErr = true
							}
						}
					}
					if withErr {
						continue
					}
					if nm.nilableSource(v, map[ssa.Value]bool{}) && !knownNonNilIn(v, b) {
						if nm.nilRet[fn] == nil {
							nm.nilRet[fn] = map[int]bool{}
						}
						nm.nilRet[fn][i] = true
						changed = true
					}
				}
			}
		}
	}
	// dereferences
	for _, fn := range c.SrcFuncs() {
		ord := map[string]int{}
		report := func(v ssa.Value, at ssa.Instruction, how string) {
			if !isAgg(v.Type()) {
				return
			}
			if _, isPtr := v.Type().Underlying().(*types.Pointer); !isPtr {
				return
			}
			if !nm.nilableSource(v, map[ssa.Value]bool{}) {
				return
			}
			name := typeName(v.Type())
			ord[name+how]++
			key := fmt.Sprintf("%s:%s %s#%d", fnName(fn), how, name, ord[name+how])
			if knownNonNilIn(v, at.Block()) || sameBlockGuard(v, at) {
				c.S.OK("R-typed-nil", key, c.Pos(c.InstrPos(at)), "dominated by a nil test on the accessor result")
			} else if nm.statusGuarantees(v, at.Block()) {
				c.S.OK("R-typed-nil", key, c.Pos(c.InstrPos(at)), "the lookup helper returns a non-nil aggregate whenever its status result has the value established on this path")
			} else {
				c.S.Bad("R-typed-nil", key, c.Pos(c.InstrPos(at)), fmt.Sprintf("%s dereferences a %s that comes from a typed accessor (nil when the key holds another type) without a dominating nil test: a wrong-typed key crashes the process", fnName(fn), name))
			}
		}
		for _, in := range instrsOf(fn) {
			switch x := in.(type) {
			case *ssa.FieldAddr:
				report(x.X, x, "field of")
			case *ssa.Call:
				cal := x.Call.StaticCallee()
				if cal != nil && cal.Signature.Recv() != nil && len(x.Call.Args) > 0 && isAgg(cal.Signature.Recv().Type()) {
					report(x.Call.Args[0], x, "method on")
				}
			}
		}
	}
}

func sameBlockGuardBlock(v ssa.Value, b *ssa.BasicBlock) bool {
	if len(b.Instrs) == 0 {
		return false
	}
	return sameBlockGuard(v, b.Instrs[0])
}

// sameBlockGuard: handles `if v == nil { ...; return }` followed by the use in the fall-through block
// when that block has several predecessors but all of them imply v != nil (common `||` chains).
func sameBlockGuard(v ssa.Value, at ssa.Instruction) bool {
	blk := at.Block()
	// every path from entry to blk must pass a non-nil edge of a test on v: search backwards, stopping at such edges
	seen := map[*ssa.BasicBlock]bool{}
	var walk func(b *ssa.BasicBlock) bool
	walk = func(b *ssa.BasicBlock) bool {
		if seen[b] {
			return true
		}
		seen[b] = true
		if len(b.Preds) == 0 {
			return false
		}
		for _, pr := range b.Preds {
			if s := nonNilSucc(pr, v); s != nil {
				if s == b {
					continue // arrived through the non-nil edge
				}
				return false // arrived through the nil edge
			}
			// is v defined in pr? then paths above do not matter
			if in, ok := v.(ssa.Instruction); ok && in.Block() == pr {
				return false
			}
			if !walk(pr) {
				return false
			}
		}
		return true
	}
	return walk(blk)
}

// ---------------------------------------------------------------- (aggregate, status) lookup helpers

type nnCond struct {
	j int   // index of the status result
	k int64 // its value (bool: 1 = true, 0 = false)
}

var nonNilWhenMemo = map[string][]nnCond{}
var statusValuesMemo = map[string]map[int]uint32{} // helper#i -> result j -> set of constants it returns there

func constStatus(v ssa.Value) (int64, bool) {
	k, ok := v.(*ssa.Const)
	if !ok || k.Value == nil {
		return 0, false
	}
	switch k.Value.Kind().String() {
	case "Bool":
		if k.Value.String() == "true" {
			return 1, true
		}
		return 0, true
	case "Int":
		return k.Int64(), true
	}
	return 0, false
}

// nonNilWhen: the conditions (result j == k) under which result i of g is certainly non-nil, judged over every return
// of g (per incoming edge when the returned values are phis of the return block).
func (nm *nilModel) nonNilWhen(g *ssa.Function, i int) []nnCond {
	key := fmt.Sprintf("%s#%d", fnName(g), i)
	if r, ok := nonNilWhenMemo[key]; ok {
		return r
	}
	nonNilWhenMemo[key] = nil
	res := g.Signature.Results()
	type occ struct{ all bool }
	seenOcc := map[nnCond]*occ{}
	unusable := map[int]bool{}
	for _, b := range g.Blocks {
		ret, ok := b.Instrs[len(b.Instrs)-1].(*ssa.Return)
		if !ok || i >= len(ret.Results) {
			continue
		}
		// cases: one per predecessor edge if a returned value is a phi of this block
		edges := []int{-1}
		for _, r := range ret.Results {
			if phi, ok := r.(*ssa.Phi); ok && phi.Block() == b {
				edges = nil
				for e := range b.Preds {
					edges = append(edges, e)
				}
				break
			}
		}
		for _, e := range edges {
			at := b
			val := func(v ssa.Value) ssa.Value {
				if phi, ok := v.(*ssa.Phi); ok && phi.Block() == b && e >= 0 {
					return phi.Edges[e]
				}
				return v
			}
			if e >= 0 {
				at = b.Preds[e]
			}
			vi := val(ret.Results[i])
			nonNil := !isNilConst(vi) && (!nm.nilableSource(vi, map[ssa.Value]bool{}) || knownNonNilIn(vi, at) || (e >= 0 && nonNilSucc(at, vi) == b))
			for j := 0; j < res.Len(); j++ {
				if j == i || j >= len(ret.Results) {
					continue
				}
				bt, ok := res.At(j).Type().Underlying().(*types.Basic)
				if !ok || bt.Info()&(types.IsInteger|types.IsBoolean) == 0 {
					continue
				}
				k, isC := constStatus(val(ret.Results[j]))
				if !isC {
					unusable[j] = true
					continue
				}
				c := nnCond{j, k}
				if seenOcc[c] == nil {
					seenOcc[c] = &occ{all: true}
				}
				if !nonNil {
					seenOcc[c].all = false
				}
			}
		}
	}
	var out []nnCond
	vals := map[int]uint32{}
	for c, o := range seenOcc {
		if c.k >= 0 && c.k < 31 && !unusable[c.j] {
			vals[c.j] |= 1 << uint32(c.k)
		}
		if o.all && !unusable[c.j] {
			out = append(out, c)
		}
	}
	statusValuesMemo[key] = vals
	nonNilWhenMemo[key] = out
	return out
}

// statusGuarantees: v is result i of a call to a lookup helper, and on every path to blk a branch has established a value
// of another result of the same call under which the helper returns a non-nil aggregate.
func (nm *nilModel) statusGuarantees(v ssa.Value, blk *ssa.BasicBlock) bool {
	return nm.statusGuaranteesOnEdge(v, blk, nil)
}

// statusGuaranteesOnEdge: as statusGuarantees, additionally using the branch at the end of blk towards succ.
func (nm *nilModel) statusGuaranteesOnEdge(v ssa.Value, blk *ssa.BasicBlock, succ *ssa.BasicBlock) bool {
	ex, ok := v.(*ssa.Extract)
	if !ok {
		// a local cell holding the extract
		if u, ok := v.(*ssa.UnOp); ok {
			if al, ok := u.X.(*ssa.Alloc); ok {
				for _, r := range referrers(al) {
					if st, ok := r.(*ssa.Store); ok && st.Addr == ssa.Value(al) {
						if ex2, ok := st.Val.(*ssa.Extract); ok {
							ex = ex2
						}
					}
				}
			}
		}
		if ex == nil {
			return false
		}
	}
	call, ok := ex.Tuple.(*ssa.Call)
	if !ok {
		return false
	}
	g := call.Call.StaticCallee()
	if g == nil || !nm.c.InPkg(g) {
		return false
	}
	fn := blk.Parent()
	for _, cnd := range nm.nonNilWhen(g, ex.Index) {
		// the extract of result j
		var vj ssa.Value
		for _, r := range referrers(call) {
			if e2, ok := r.(*ssa.Extract); ok && e2.Index == cnd.j {
				vj = e2
			}
		}
		if vj == nil {
			continue
		}
		kind := "enum"
		if b, ok := vj.Type().Underlying().(*types.Basic); ok && b.Kind() == types.Bool {
			kind = "bool"
		}
		d := statusDomain{all: 0xff, kind: kind}
		want := uint32(1) << uint32(cnd.k)
		if kind == "bool" {
			d.all = 3
		} else if vs := statusValuesMemo[fmt.Sprintf("%s#%d", fnName(g), ex.Index)][cnd.j]; vs != 0 {
			d.all = vs // the helper only ever returns these constants in that position
		}
		m := d.all
		if succ != nil {
			if ifi, ok := blk.Instrs[len(blk.Instrs)-1].(*ssa.If); ok {
				for si, s2 := range blk.Succs {
					if s2 == succ {
						m = refineStatus(ifi.Cond, vj, d, m, si)
					}
				}
			}
		}
		for _, dblk := range fn.Blocks {
			ifi, ok := dblk.Instrs[len(dblk.Instrs)-1].(*ssa.If)
			if !ok || dblk == blk || !dblk.Dominates(blk) {
				continue
			}
			for si, s := range dblk.Succs {
				if len(s.Preds) == 1 && (s == blk || s.Dominates(blk)) {
					m = refineStatus(ifi.Cond, vj, d, m, si)
				}
			}
		}
		if m == want {
			return true
		}
	}
	return false
}
