package main

// Enumeration of memory accesses to struct fields / globals of the analysed package and the
// guarded-by table (model M5).

import (
	"fmt"
	"go/token"
	"go/types"
	"sort"
	"strings"

	"golang.org/x/tools/go/ssa"
)

type Access struct {
	In     ssa.Instruction
	Fn     *ssa.Function
	Field  *types.Var  // struct field accessed (nil for plain globals)
	Glob   *ssa.Global // global accessed (also set when Field belongs to a global struct)
	Owner  string      // owning struct type name ("" for plain globals)
	Name   string      // "storeKey.expiresAt" / "global clients"
	Write  bool
	Kind   string    // load, store, mapupdate, lookup, range, delete, len, elem-load, elem-store, atomic, addr
	Base   ssa.Value // object the field belongs to (FieldAddr.X); nil for globals
	Atomic bool      // access performed by a sync/atomic function
}

func (a *Access) rw() string {
	if a.Write {
		return "w"
	}
	return "r"
}

// isFresh: the value is an object allocated in this very function (or a free variable bound to
// such an object in the enclosing function), i.e. not yet shared.
func isFresh(v ssa.Value) bool {
	v = outerBase(v) // the embedded helper struct of a new object is part of the new object
	for depth := 0; depth < 4; depth++ {
		switch x := v.(type) {
		case *ssa.Alloc:
			return true
		case *ssa.FreeVar:
			// find binding in parent
			fn := x.Parent()
			par := fn.Parent()
			if par == nil {
				return false
			}
			idx := -1
			for i, fv := range fn.FreeVars {
				if fv == x {
					idx = i
				}
			}
			if idx < 0 {
				return false
			}
			var bound ssa.Value
			for _, in := range instrsOf(par) {
				if mc, ok := in.(*ssa.MakeClosure); ok && mc.Fn == fn && idx < len(mc.Bindings) {
					bound = mc.Bindings[idx]
				}
			}
			if bound == nil {
				return false
			}
			// a captured variable is a pointer to the variable cell; the cell holds the object pointer
			if al, ok := bound.(*ssa.Alloc); ok {
				// cell: look at what is stored into it
				fresh := false
				for _, r := range referrers(al) {
					if st, ok := r.(*ssa.Store); ok && st.Addr == al {
						if _, isAl := st.Val.(*ssa.Alloc); isAl {
							fresh = true
						} else {
							return false
						}
					}
				}
				return fresh
			}
			v = bound
		case *ssa.UnOp:
			if x.Op != token.MUL {
				return false
			}
			// load of a local variable cell that only ever holds fresh allocations
			if al, ok := x.X.(*ssa.Alloc); ok {
				fresh := false
				for _, r := range referrers(al) {
					if st, ok := r.(*ssa.Store); ok && st.Addr == al {
						if _, isAl := st.Val.(*ssa.Alloc); isAl {
							fresh = true
						} else {
							return false
						}
					}
				}
				return fresh
			}
			if fv, ok := x.X.(*ssa.FreeVar); ok {
				v = fv
				continue
			}
			return false
		case *ssa.Phi:
			for _, e := range x.Edges {
				if !isFresh(e) {
					return false
				}
			}
			return len(x.Edges) > 0
		default:
			return false
		}
	}
	return false
}

// Accesses enumerates the field/global accesses of one function.
func (p *Prog) Accesses(fn *ssa.Function) []*Access {
	var out []*Access
	add := func(in ssa.Instruction, f *types.Var, g *ssa.Global, base ssa.Value, write bool, kind string) *Access {
		a := &Access{In: in, Fn: fn, Field: f, Glob: g, Base: base, Write: write, Kind: kind}
		if f != nil {
			a.Owner = p.ownerName(f)
			a.Name = a.Owner + "." + p.canonFieldName(f)
		} else if g != nil {
			a.Name = "global " + p.canonGlobalName(g)
		}
		out = append(out, a)
		return a
	}
	// classify the uses of an address (FieldAddr or Global)
	var useAddr func(addr ssa.Value, f *types.Var, g *ssa.Global, base ssa.Value)
	useAddr = func(addr ssa.Value, f *types.Var, g *ssa.Global, base ssa.Value) {
		for _, r := range referrers(addr) {
			switch x := r.(type) {
			case *ssa.Store:
				if x.Addr == addr {
					add(x, f, g, base, true, "store")
				} else {
					add(x, f, g, base, false, "addr") // address stored somewhere: escapes
				}
			case *ssa.UnOp:
				if x.Op == token.MUL {
					add(x, f, g, base, false, "load")
					// container element operations on the loaded value
					p.containerUses(x, func(in ssa.Instruction, write bool, kind string) {
						add(in, f, g, base, write, kind)
					})
				}
			case *ssa.FieldAddr:
				// nested struct field: attribute to the inner field
				if x.X == addr {
					inner := fieldOf(x)
					if isMutexType(inner.Type()) {
						continue
					}
					if f == nil || p.ownerName(inner) != "" {
						useAddr(x, inner, g, addr)
					} else {
						useAddr(x, f, g, base)
					}
				}
			case *ssa.IndexAddr:
				// array field element
				for _, rr := range referrers(x) {
					switch y := rr.(type) {
					case *ssa.Store:
						if y.Addr == x {
							add(y, f, g, base, true, "elem-store")
						}
					case *ssa.UnOp:
						add(y, f, g, base, false, "elem-load")
					}
				}
			case ssa.CallInstruction:
				name := fullCalleeName(x)
				if strings.HasPrefix(name, "sync/atomic.") {
					w := !strings.HasPrefix(name, "sync/atomic.Load")
					a := add(x, f, g, base, w, "atomic")
					a.Atomic = true
				} else if strings.HasPrefix(name, "(*sync.") {
					// Lock/Unlock/WaitGroup methods on the field itself
				} else if okAt, wAt := atomicOnlyMethod(x.Common().StaticCallee(), x.Common().Args, addr); okAt {
					// a method of the field's own counter type that does nothing with the address but atomic operations
					// (`func (c *commandCounter) next() uint32 { return atomic.AddUint32((*uint32)(c), 1) … }`)
					a := add(x, f, g, base, wAt, "atomic")
					a.Atomic = true
				} else {
					add(x, f, g, base, false, "addr")
				}
			case *ssa.MakeClosure, *ssa.MakeInterface, *ssa.Phi:
				add(x, f, g, base, false, "addr")
			case *ssa.DebugRef:
			default:
				_ = x
			}
		}
	}
	for _, in := range instrsOf(fn) {
		switch x := in.(type) {
		case *ssa.FieldAddr:
			if _, nested := x.X.(*ssa.FieldAddr); nested {
				continue // handled from the outer FieldAddr
			}
			f := fieldOf(x)
			if isMutexType(f.Type()) {
				continue
			}
			var g *ssa.Global
			if gg, ok := x.X.(*ssa.Global); ok {
				g = gg
			}
			useAddr(x, f, g, x.X)
		case *ssa.UnOp:
			if x.Op != token.MUL {
				continue
			}
			if g, ok := x.X.(*ssa.Global); ok && p.InPkgGlobal(g) {
				if _, isStruct := deref(g.Type()).Underlying().(*types.Struct); isStruct {
					continue // field accesses handled above; whole-struct copies are rare
				}
				add(x, nil, g, nil, false, "load")
				p.containerUses(x, func(in ssa.Instruction, write bool, kind string) {
					add(in, nil, g, nil, write, kind)
				})
			}
		case *ssa.Store:
			if g, ok := x.Addr.(*ssa.Global); ok && p.InPkgGlobal(g) {
				add(x, nil, g, nil, true, "store")
			}
		}
	}
	return out
}

func (p *Prog) InPkgGlobal(g *ssa.Global) bool { return g.Pkg == p.SPkg }

// containerUses reports map/slice element operations performed directly on a loaded container value.
func (p *Prog) containerUses(v ssa.Value, emit func(in ssa.Instruction, write bool, kind string)) {
	switch v.Type().Underlying().(type) {
	case *types.Map, *types.Slice:
	default:
		return
	}
	for _, r := range referrers(v) {
		switch x := r.(type) {
		case *ssa.MapUpdate:
			if x.Map == v {
				emit(x, true, "mapupdate")
			}
		case *ssa.Lookup:
			if x.X == v {
				emit(x, false, "lookup")
			}
		case *ssa.Range:
			emit(x, false, "range")
		case *ssa.IndexAddr:
			if x.X != v {
				continue
			}
			for _, rr := range referrers(x) {
				switch y := rr.(type) {
				case *ssa.Store:
					if y.Addr == x {
						emit(y, true, "elem-store")
					}
				case *ssa.UnOp:
					emit(y, false, "elem-load")
				}
			}
		case *ssa.Call:
			if b, ok := x.Call.Value.(*ssa.Builtin); ok {
				switch b.Name() {
				case "delete":
					emit(x, true, "delete")
				case "len":
					emit(x, false, "len")
				case "append":
					if len(x.Call.Args) > 0 && x.Call.Args[0] == v {
						emit(x, true, "append")
					}
				}
			}
		}
	}
}

// ---------------------------------------------------------------- guarded-by table (M5)

type guardMode int

const (
	gLocked      guardMode = iota // every access needs the class
	gAtomic                       // every access must be a sync/atomic call
	gConfined                     // owned by one connection: no access through a foreign *clientState
	gImmutable                    // written only while the object is fresh (constructor)
	gWriteLocked                  // writes and foreign reads need the class; owner reads are free
	gFree                         // deliberately unguarded, with reason
)

type guard struct {
	mode  guardMode
	class int
	why   string
}

// guardSpecEntry is one line of the frozen table: "Type.field" or "Type.*" or "global name".
type guardSpecEntry struct {
	target string
	mode   guardMode
	lock   string // class name ("dataStore.mu", "global clientsMu", ...)
	why    string
}

var guardSpec = []guardSpecEntry{
	// --- database state: everything reachable from dataStore.data is under the database mutex
	{"storeKey.*", gLocked, "dataStore.mu", "key objects are shared by all connections of a database"},
	{"storeKey.flags", gWriteLocked, "dataStore.mu", "written only while the object is created inside the critical section that publishes it (rule A1-publish-once); immutable afterwards, so unlocked reads do not race"},
	{"storeKey.payload", gWriteLocked, "dataStore.mu", "as flags: the interface value is assigned once at creation; the *contents* of byte payloads are covered by the guarded-bytes rule"},
	{"storeList.*", gLocked, "dataStore.mu", "list header"},
	{"listItem.*", gLocked, "dataStore.mu", "list node"},
	{"redisDict.*", gLocked, "dataStore.mu", "keyspace / hash / set table"},
	{"redisDictItem.*", gLocked, "dataStore.mu", "table entry"},
	{"waitTable.*", gLocked, "dataStore.mu", "blocked-client registry of a database"},
	{"objectWaitList.*", gLocked, "dataStore.mu", "per-key waiter queue"},
	{"signalListTuple.*", gLocked, "dataStore.mu", "waiter link"},
	{"wakeSignal.objectsHead", gLocked, "dataStore.mu", "waiter link list"},
	{"wakeSignal.objectsTail", gLocked, "dataStore.mu", "waiter link list"},
	{"wakeSignal.ready", gImmutable, "", "channel created with the signal"},
	{"wakeSignal.id", gImmutable, "", "debug id assigned at creation"},
	{"dataStore.data", gLocked, "dataStore.mu", "the keyspace"},
	{"dataStore.dataObjectNumber", gLocked, "dataStore.mu", "version counter used by WATCH"},
	{"dataStore.cursors", gLocked, "dataStore.mu", "scan cursors"},
	{"dataStore.cursorsSize", gLocked, "dataStore.mu", "scan cursors"},
	{"dataStore.waitingClients", gImmutable, "", "pointer set at creation; the table itself is DB-guarded"},
	{"dataStore.multiLock", gAtomic, "", "re-entrancy token"},
	{"dataStore.commandNumber", gAtomic, "", "command id counter"},
	{"dataStoreCommand.id", gFree, "", "per-command object owned by the dispatching goroutine (EXEC rewrites id of its own queued contexts; rule R-C09-exclusive)"},
	{"dataStoreCommand.ds", gImmutable, "", "the database a command is bound to is fixed when the command is prepared: EXEC locks exactly that database"},
	// --- database table
	{"dataStoreSet.dbs", gLocked, "dataStoreSet.mu", "database table shared by all connections and the saver"},
	{"dataStoreSet.basePath", gImmutable, "", "set at construction"},
	{"dataStoreSet.users", gImmutable, "", "set at construction"},
	{"dataStoreSet.phook", gImmutable, "", "set at construction"},
	// --- client registry and statistics
	{"global clients", gLocked, "global clientsMu", "client registry"},
	{"global clientId", gLocked, "global clientsMu", "client id counter"},
	{"redisStats.run_id", gImmutable, "", "set by the initialiser"},
	{"redisStats.*", gLocked, "global infoMu", "server statistics"},
	// --- connection
	{"clientCxn.waiting", gLocked, "clientCxn.mu", "flag read by RequestClose from other goroutines"},
	{"clientCxn.closing", gLocked, "clientCxn.mu", "flag read by RequestClose from other goroutines"},
	{"clientCxn.cs", gImmutable, "", "set at construction"},
	{"clientCxn.cxn", gImmutable, "", "set at construction"},
	{"clientCxn.started", gImmutable, "", "set at construction"},
	{"clientCxn.csceCh", gImmutable, "", "set at construction"},
	{"clientCxn.socketState", gConfined, "", "only the connection's run loop"},
	{"clientCxn.inbound", gConfined, "", "only the connection's run loop"},
	// --- per-connection session state
	{"clientState.selectedDb", gWriteLocked, "clientState.mu", "read by CLIENT LIST of other connections"},
	{"clientState.ds", gWriteLocked, "clientState.mu", "selected database pointer"},
	{"clientState.multiInProgress", gLocked, "clientState.mu", "read by CLIENT LIST of other connections"},
	{"clientState.blocked", gAtomic, "", "capture state machine"},
	{"clientState.unblockPending", gAtomic, "", "capture state machine"},
	{"clientState.name", gConfined, "", "session state"},
	{"clientState.user", gImmutable, "", "assigned at construction (there is no AUTH); read by CLIENT LIST/KILL of other connections"},
	{"clientState.cmdQueue", gConfined, "", "MULTI queue"},
	{"clientState.watches", gConfined, "", "WATCH set"},
	{"clientState.respVersion", gConfined, "", "protocol version"},
	{"clientState.noEvict", gConfined, "", "session state"},
	{"clientState.libName", gConfined, "", "session state"},
	{"clientState.libVer", gConfined, "", "session state"},
	{"clientState.id", gImmutable, "", "assigned at construction"},
	{"clientState.l", gImmutable, "", "assigned at construction"},
	{"clientState.client", gImmutable, "", "assigned at construction"},
	{"clientState.disp", gImmutable, "", "assigned at construction"},
	{"clientState.dss", gImmutable, "", "assigned at construction"},
	{"clientState.unblockCh", gImmutable, "", "assigned at construction"},
	// --- emulator object
	{"RedisEmu.server", gLocked, "RedisEmu.mu", "listener, closed by RequestTermination from any goroutine"},
	{"RedisEmu.cancelFn", gLocked, "RedisEmu.mu", "cancelled by RequestTermination from any goroutine"},
	{"RedisEmu.hook", gLocked, "RedisEmu.mu", "set by SetHook while commands run"},
	// --- grammar and dispatcher: immutable once the dispatcher is built
	{"cmdDispatcher.*", gImmutable, "", "built before the accept loop starts"},
	// --- wait-signal id counter: a plain global written under *some* database's mutex
	{"global signals", gLocked, "global (none)", "package-level counter: an instance lock does not protect a global"},
}

type GuardTable struct {
	byField map[*types.Var]guard
	byGlob  map[*ssa.Global]guard
	errs    []string
	entries int
	rebound []string
}

func (m *Models) Guards() *GuardTable {
	lm := m.Locks()
	p := m.p
	gt := &GuardTable{byField: map[*types.Var]guard{}, byGlob: map[*ssa.Global]guard{}}
	classIdx := func(name string) int {
		for i, n := range lm.names {
			if n == name {
				return i
			}
		}
		return -1
	}
	type unresolvedEntry struct {
		e   guardSpecEntry
		g   guard
		st  *types.Struct // owning struct for a field entry
		msg string
	}
	var unresolved []unresolvedEntry
	// wildcards first, then specific entries override
	for pass := 0; pass < 2; pass++ {
		for _, e := range guardSpec {
			wild := strings.HasSuffix(e.target, ".*")
			if wild != (pass == 0) {
				continue
			}
			cls := -1
			if e.lock != "" {
				if e.lock == "global (none)" {
					cls = 31 // a class nobody can hold
				} else if cls = classIdx(e.lock); cls < 0 {
					gt.errs = append(gt.errs, fmt.Sprintf("guard table: lock class %q does not exist", e.lock))
					continue
				}
			}
			g := guard{mode: e.mode, class: cls, why: e.why}
			if strings.HasPrefix(e.target, "global ") {
				gl := p.Global(strings.TrimPrefix(e.target, "global "))
				if gl == nil {
					unresolved = append(unresolved, unresolvedEntry{e: e, g: g, msg: fmt.Sprintf("guard table: %s does not exist", e.target)})
					continue
				}
				gt.byGlob[gl] = g
				gt.entries++
				continue
			}
			dot := strings.Index(e.target, ".")
			tn, fnm := e.target[:dot], e.target[dot+1:]
			nt := p.NamedType(tn)
			if nt == nil {
				gt.errs = append(gt.errs, fmt.Sprintf("guard table: type %s does not exist", tn))
				continue
			}
			st, ok := nt.Underlying().(*types.Struct)
			if !ok {
				gt.errs = append(gt.errs, fmt.Sprintf("guard table: %s is not a struct", tn))
				continue
			}
			found := false
			for i := 0; i < st.NumFields(); i++ {
				f := st.Field(i)
				if isMutexType(f.Type()) {
					continue
				}
				if wild || f.Name() == fnm {
					gt.byField[f] = g
					found = true
				}
			}
			if !found && !wild {
				if f := p.Field(tn, fnm); f != nil { // renamed field, resolved against the frozen schema
					gt.byField[f] = g
					found = true
				}
			}
			if !found {
				unresolved = append(unresolved, unresolvedEntry{e: e, g: g, st: st, msg: fmt.Sprintf("guard table: %s has no such field", e.target)})
			} else {
				gt.entries++
			}
		}
	}
	// An entry whose variable no longer exists under that name (a rename) is bound again by inference: an unlisted
	// variable of the same kind (package-level variable / field of the same struct) whose accesses show the discipline
	// the entry states — every run-time write under the entry's lock, only atomic accesses, or writes to fresh objects
	// only. The variable keeps being checked under the entry; only when no such variable exists is the entry an error.
	if len(unresolved) > 0 {
		type stats struct {
			writes     int
			held       lockSet
			allAtomic  bool
			freshOnly  bool
			accesses   int
			confinedOK bool
		}
		byG := map[*ssa.Global]*stats{}
		byF := map[*types.Var]*stats{}
		for _, fn := range p.SrcFuncs() {
			if fn.Name() == "init" && fn.Parent() == nil {
				continue
			}
			for _, a := range p.Accesses(fn) {
				var s *stats
				switch {
				case a.Field != nil:
					if _, listed := gt.byField[a.Field]; listed {
						continue
					}
					if byF[a.Field] == nil {
						byF[a.Field] = &stats{held: ^lockSet(0), allAtomic: true, freshOnly: true}
					}
					s = byF[a.Field]
				case a.Glob != nil:
					if _, listed := gt.byGlob[a.Glob]; listed || isMutexType(deref(a.Glob.Type())) {
						continue
					}
					if byG[a.Glob] == nil {
						byG[a.Glob] = &stats{held: ^lockSet(0), allAtomic: true, freshOnly: true}
					}
					s = byG[a.Glob]
				default:
					continue
				}
				s.accesses++
				if !a.Atomic {
					s.allAtomic = false
				}
				if a.Write {
					if a.Base != nil && isFresh(a.Base) {
						continue
					}
					s.freshOnly = false
					s.writes++
					s.held &= lm.LocallyHeld(a.In)
				}
			}
		}
		compatible := func(s *stats, g guard) bool {
			switch g.mode {
			case gLocked, gWriteLocked:
				return g.class >= 0 && g.class < 31 && s.writes > 0 && s.held.has(g.class)
			case gAtomic:
				return s.accesses > 0 && s.allAtomic
			case gImmutable:
				return s.accesses > 0 && s.freshOnly
			}
			return false
		}
		for _, u := range unresolved {
			bound := 0
			if u.st == nil {
				for gl, s := range byG {
					if compatible(s, u.g) {
						gt.byGlob[gl] = u.g
						bound++
					}
				}
			} else {
				for i := 0; i < u.st.NumFields(); i++ {
					f := u.st.Field(i)
					if s := byF[f]; s != nil && compatible(s, u.g) {
						gt.byField[f] = u.g
						bound++
					}
				}
			}
			if bound == 0 {
				gt.errs = append(gt.errs, u.msg)
			} else {
				gt.entries++
				gt.rebound = append(gt.rebound, fmt.Sprintf("%s: bound by inference to %d variable(s) with the same discipline", u.e.target, bound))
			}
		}
	}
	sort.Strings(gt.errs)
	return gt
}

func (gt *GuardTable) lookup(a *Access) (guard, bool) {
	if a.Field != nil {
		g, ok := gt.byField[a.Field]
		return g, ok
	}
	if a.Glob != nil {
		g, ok := gt.byGlob[a.Glob]
		return g, ok
	}
	return guard{}, false
}

// atomicOnlyMethod: the callee receives the address as one of its parameters and uses that parameter only as the
// operand of sync/atomic functions (possibly after a pointer conversion); writes says whether one of them stores.
func atomicOnlyMethod(g *ssa.Function, args []ssa.Value, addr ssa.Value) (ok bool, writes bool) {
	if g == nil || len(g.Blocks) == 0 {
		return false, false
	}
	idx := -1
	for i, a := range args {
		if a == addr {
			idx = i
		}
	}
	if idx < 0 || idx >= len(g.Params) {
		return false, false
	}
	n := 0
	var check func(v ssa.Value) bool
	check = func(v ssa.Value) bool {
		for _, r := range referrers(v) {
			switch x := r.(type) {
			case *ssa.ChangeType:
				if !check(x) {
					return false
				}
			case *ssa.Convert:
				if !check(x) {
					return false
				}
			case ssa.CallInstruction:
				name := fullCalleeName(x)
				if !strings.HasPrefix(name, "sync/atomic.") {
					return false
				}
				n++
				if !strings.HasPrefix(name, "sync/atomic.Load") {
					writes = true
				}
			case *ssa.DebugRef:
			default:
				return false
			}
		}
		return true
	}
	if !check(g.Params[idx]) || n == 0 {
		return false, false
	}
	return true, writes
}
