#!/bin/sh
# wrapper used by MANIFEST commands: (re)build the checker if needed, then run it.
# usage: ./rd check <property> <tier>
set -e
VERIF_DIR="$(cd "$(dirname "$0")" && pwd)"
export VERIF_DIR
export GOFLAGS=-mod=mod GOPROXY=off GOSUMDB=off GOTOOLCHAIN=local GOWORK=off
if [ ! -x "$VERIF_DIR/bin/rdcheck" ] || [ -n "$(find "$VERIF_DIR/sa" -name '*.go' -newer "$VERIF_DIR/bin/rdcheck" 2>/dev/null | head -1)" ]; then
  mkdir -p "$VERIF_DIR/bin"
  (cd "$VERIF_DIR/sa" && go build -o "$VERIF_DIR/bin/rdcheck" .) >&2
fi
cmd="$1"; shift
case "$cmd" in
  check) exec "$VERIF_DIR/bin/rdcheck" check -property "$1" -tier "${2:-quick}" -root "${REPO_ROOT:-/repo}" ;;
  *) exec "$VERIF_DIR/bin/rdcheck" "$cmd" "$@" ;;
esac
