package redisemu

import (
	"os"
	"os/exec"
	"path/filepath"
	"strings"
	"testing"
)

// C19: starting with a persist path must work for whatever is (or is not) in the directory:
// a path in a directory that does not exist yet, and a directory that holds a file named like the
// snapshot of a database the emulator does not have (index 16).

func TestDemoC19StartupChild(t *testing.T) {
	mode := os.Getenv("RD_STARTUP")
	if mode == "" {
		t.Skip("child only")
	}
	dir := os.Getenv("RD_DIR")
	persist := filepath.Join(dir, "data")
	if mode == "missing-dir" {
		persist = filepath.Join(dir, "not-there", "data")
	}
	s := startDemo(t, persist)
	c := s.dial(t)
	os.Stdout.WriteString("PING=" + c.do("PING") + "\n")
}

func TestDemoC19Startup(t *testing.T) {
	for _, mode := range []string{"missing-dir", "stray-db16"} {
		dir := t.TempDir()
		if mode == "stray-db16" {
			os.WriteFile(filepath.Join(dir, "data.db16"), []byte("x"), 0o644)
		}
		cmd := exec.Command(os.Args[0], "-test.run", "^TestDemoC19StartupChild$", "-test.timeout", "20s")
		cmd.Env = append(os.Environ(), "RD_STARTUP="+mode, "RD_DIR="+dir)
		out, _ := cmd.CombinedOutput()
		txt := string(out)
		if !strings.Contains(txt, "PING=+PONG") {
			first := ""
			for _, l := range strings.Split(txt, "\n") {
				if strings.HasPrefix(l, "panic:") {
					first = l
					break
				}
			}
			t.Errorf("%s: the emulator did not start (%s)", mode, first)
		}
	}
}
