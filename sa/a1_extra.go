package main

// A1 continued: atomics-only fields, immutable-after-construction fields, connection-confined state
// (foreign *clientState taint), shared-slice append aliasing, and payload-byte immutability.

import (
	"fmt"
	"go/token"
	"go/types"
	"os"
	"sort"
	"strings"

	"golang.org/x/tools/go/ssa"
)

// ---------------------------------------------------------------- value taint engine (small, generic)

type taintSpec struct {
	p        *Prog
	seed     func(v ssa.Value) bool
	typeOK   func(t types.Type) bool // restricts which values can carry the taint
	tainted  map[ssa.Value]bool
	retTaint map[*ssa.Function]map[int]bool
}

func (p *Prog) runTaint(seed func(v ssa.Value) bool, typeOK func(t types.Type) bool, throughFields ...bool) *taintSpec {
	ts := &taintSpec{p: p, seed: seed, typeOK: typeOK, tainted: map[ssa.Value]bool{}, retTaint: map[*ssa.Function]map[int]bool{}}
	// optionally: a value stored into a struct field taints every read of that field (a parsed request handed from one
	// phase to the next in a struct)
	fields := len(throughFields) > 0 && throughFields[0]
	fieldTaint := map[*types.Var]bool{}
	fns := p.SrcFuncs()
	mark := func(v ssa.Value) bool {
		if v == nil || ts.tainted[v] || (typeOK != nil && !typeOK(v.Type())) {
			return false
		}
		ts.tainted[v] = true
		return true
	}
	for changed := true; changed; {
		changed = false
		for _, fn := range fns {
			for _, in := range instrsOf(fn) {
				v, isVal := in.(ssa.Value)
				if isVal && !ts.tainted[v] {
					t := false
					if seed(v) {
						t = true
					} else {
						switch x := v.(type) {
						case *ssa.Phi:
							for _, e := range x.Edges {
								if ts.tainted[e] {
									t = true
								}
							}
						case *ssa.Extract:
							if ts.tainted[x.Tuple] {
								t = true
							}
							if call, ok := x.Tuple.(*ssa.Call); ok {
								for _, g := range p.CalleesData(call) {
									if ts.retTaint[g][x.Index] {
										t = true
									}
								}
							}
							if ta, ok := x.Tuple.(*ssa.TypeAssert); ok && x.Index == 0 && seed(ta) {
								t = true
							}
						case *ssa.ChangeType:
							t = ts.tainted[x.X]
						case *ssa.Slice:
							t = ts.tainted[x.X]
						case *ssa.Call:
							for _, g := range p.CalleesData(x) {
								if ts.retTaint[g][0] && g.Signature.Results().Len() == 1 {
									t = true
								}
							}
						case *ssa.Field:
							if fields {
								if st, ok := x.X.Type().Underlying().(*types.Struct); ok && fieldTaint[st.Field(x.Field)] {
									t = true
								}
							}
						case *ssa.UnOp:
							if x.Op == token.MUL {
								if fa, ok := x.X.(*ssa.FieldAddr); ok && fields && fieldTaint[fieldOf(fa)] {
									t = true
								}
								// load of a local variable cell into which a tainted value was stored
								if al, ok := x.X.(*ssa.Alloc); ok {
									for _, rr := range referrers(al) {
										if st, ok := rr.(*ssa.Store); ok && st.Addr == al && ts.tainted[st.Val] {
											t = true
										}
									}
								}
							}
						case *ssa.TypeAssert:
							if !x.CommaOk && seed(x) {
								t = true
							}
						}
					}
					if t && mark(v) {
						changed = true
					}
				}
				if st, ok := in.(*ssa.Store); ok && fields && ts.tainted[st.Val] {
					if fa, ok := st.Addr.(*ssa.FieldAddr); ok && !fieldTaint[fieldOf(fa)] {
						fieldTaint[fieldOf(fa)] = true
						changed = true
					}
				}
				// calls: arguments -> parameters
				if c, ok := in.(ssa.CallInstruction); ok {
					for _, g := range p.CalleesData(c) {
						if len(g.Blocks) == 0 || !p.InPkg(g) {
							continue
						}
						args := c.Common().Args
						if len(args) != len(g.Params) {
							continue
						}
						for i, a := range args {
							if ts.tainted[a] && mark(g.Params[i]) {
								changed = true
							}
						}
					}
				}
				if ret, ok := in.(*ssa.Return); ok {
					for i, r := range ret.Results {
						if ts.tainted[r] {
							if ts.retTaint[fn] == nil {
								ts.retTaint[fn] = map[int]bool{}
							}
							if !ts.retTaint[fn][i] {
								ts.retTaint[fn][i] = true
								changed = true
							}
						}
					}
				}
			}
		}
	}
	return ts
}

// ---------------------------------------------------------------- atomics / immutables / confinement

const textA1Atomic = "A1-atomic: fields declared atomics-only (capture state machine, owner token, command counter) are accessed exclusively through sync/atomic"
const textA1Immutable = "A1-immutable: fields that are immutable after construction are stored only while the object is fresh (in its constructor)"
const textA1Confined = "A1-confined: per-connection session state (name, user, MULTI queue, watches, protocol version, …) is never touched through a *clientState obtained from the client registry (CLIENT LIST / CLIENT KILL callbacks); selectedDb/ds need clientState.mu for such foreign reads; the connection buffer and socket state are touched only from the connection's run loop; conversely the run loop's goroutine (which handles a termination that may arrive while a command is still executing) touches no session field — those belong to the command goroutine"

// a1ModesOnly restricts ruleA1Modes to the named fields ("clientState.respVersion", ...); nil = all.
var a1ModesOnly map[string]bool

func ruleA1ModesFor(fields ...string) func(*Ctx) {
	return func(c *Ctx) {
		a1ModesOnly = map[string]bool{}
		for _, f := range fields {
			a1ModesOnly[f] = true
		}
		defer func() { a1ModesOnly = nil }()
		ruleA1Modes(c)
	}
}

func ruleA1Modes(c *Ctx) {
	c.S.Rule("A1-atomic", textA1Atomic, 0)
	c.S.Rule("A1-immutable", textA1Immutable, 0)
	c.S.Rule("A1-confined", textA1Confined, 1)
	rm := c.M.Req()
	lm := rm.lm
	gt := rm.gt
	p := c.Prog

	// foreign *clientState values: read out of the registry
	clients := p.Global("clients")
	if clients == nil {
		c.S.Undecided("A1-confined", "registry", "-", "global client registry `clients` not found")
	}
	isRegistry := func(v ssa.Value) bool {
		u, ok := v.(*ssa.UnOp)
		return ok && u.Op == token.MUL && u.X == ssa.Value(clients)
	}
	foreign := p.runTaint(func(v ssa.Value) bool {
		switch x := v.(type) {
		case *ssa.Lookup:
			return isRegistry(x.X)
		case *ssa.Extract:
			if n, ok := x.Tuple.(*ssa.Next); ok && x.Index == 2 {
				if r, ok := n.Iter.(*ssa.Range); ok {
					return isRegistry(r.X)
				}
			}
			if l, ok := x.Tuple.(*ssa.Lookup); ok && x.Index == 0 {
				return isRegistry(l.X)
			}
		}
		return false
	}, func(t types.Type) bool {
		// the taint lives on *clientState values (and the tuples they are extracted from)
		if _, isTuple := t.(*types.Tuple); isTuple {
			return true
		}
		return p.isPkgType(t, "clientState")
	})

	// run-loop confinement: which roots reach each function
	var runRoot *ssa.Function
	// the run loop is the root that receives the connection's state events (identified by what it does, not by name)
	var loopFn *ssa.Function
	if fCh := c.Field("clientCxn", "csceCh"); fCh != nil {
		for _, fn := range c.SrcFuncs() {
			for _, in := range instrsOf(fn) {
				if u, ok := in.(*ssa.UnOp); ok && u.Op == token.ARROW {
					if _, f := loadedField(u.X); f == fCh {
						loopFn = fn
					}
				}
			}
		}
	}
	for _, r := range rm.roots {
		if r == loopFn || (loopFn == nil && fnName(r) == "(*clientCxn).run") {
			runRoot = r
		}
	}

	seenKey := map[string]bool{}
	for _, fn := range c.SrcFuncs() {
		for _, a := range rm.accesses[fn] {
			g, ok := gt.lookup(a)
			if !ok || (a1ModesOnly != nil && !a1ModesOnly[a.Name]) {
				continue
			}
			pos := c.Pos(c.InstrPos(a.In))
			switch g.mode {
			case gAtomic:
				key := fmt.Sprintf("%s:%s:%s", fnName(fn), a.Name, a.Kind)
				if seenKey["at"+key] {
					continue
				}
				seenKey["at"+key] = true
				if a.Atomic || (a.Base != nil && isFresh(a.Base)) {
					c.S.Trivial("A1-atomic", key, pos, "sync/atomic access")
				} else {
					c.S.Bad("A1-atomic", key, pos, fmt.Sprintf("%s accesses %s (%s) without sync/atomic; other goroutines use atomic operations on it", fnName(fn), a.Name, a.Kind))
				}
			case gImmutable:
				if !a.Write {
					continue
				}
				key := fmt.Sprintf("%s:%s", fnName(fn), a.Name)
				if seenKey["im"+key] {
					continue
				}
				seenKey["im"+key] = true
				if a.Base != nil && (isFresh(a.Base) || freshEverywhere(p, a.Base, 0)) || (a.Glob != nil && fn.Name() == "init") {
					c.S.Trivial("A1-immutable", key, pos, "stored while the object is fresh")
				} else {
					c.S.Bad("A1-immutable", key, pos, fmt.Sprintf("%s stores to %s after construction; readers access it without synchronisation (%s)", fnName(fn), a.Name, g.why))
				}
			case gConfined, gWriteLocked:
				if a.Owner != "clientState" {
					continue
				}
				if a.Base == nil || !foreign.tainted[a.Base] {
					continue
				}
				key := fmt.Sprintf("%s:%s:%s", fnName(fn), a.Name, a.rw())
				if seenKey["cf"+key] {
					continue
				}
				seenKey["cf"+key] = true
				if g.mode == gWriteLocked && lm.LocallyHeld(a.In).has(g.class) {
					c.S.OK("A1-confined", key, pos, "foreign read under "+lm.names[g.class])
				} else {
					c.S.Bad("A1-confined", key, pos, fmt.Sprintf("%s touches %s of a connection taken from the client registry (another connection's session state, %s) while that connection's own goroutine writes it unsynchronised", fnName(fn), a.Name, a.rw()))
				}
			}
		}
	}
	// confined fields of clientState: every access through a non-foreign value is the owner's (discharged in bulk)
	nOwn := 0
	for _, fn := range c.SrcFuncs() {
		for _, a := range rm.accesses[fn] {
			g, ok := gt.lookup(a)
			if a1ModesOnly != nil && !a1ModesOnly[a.Name] {
				continue
			}
			if ok && g.mode == gConfined && a.Owner == "clientState" && (a.Base == nil || !foreign.tainted[a.Base]) {
				nOwn++
				// the owner is the connection's command goroutine: the goroutine of the state machine (which reacts to a
				// termination request while a command may still be in flight) does not touch session state
				if runRoot != nil && (fn == runRoot || c.M.Reach(runRoot)[fn]) && !(a.Base != nil && isFresh(a.Base)) {
					c.S.Bad("A1-confined", rm.accKey(a), c.Pos(c.InstrPos(a.In)), fmt.Sprintf("%s touches the session field %s (%s) and runs on the connection's state-machine goroutine (%s): a termination that arrives while a command is executing makes the two goroutines access it without synchronisation", fnName(fn), a.Name, a.rw(), fnName(runRoot)))
					continue
				}
				c.S.OK("A1-confined", rm.accKey(a), c.Pos(c.InstrPos(a.In)), "accessed through the connection's own state (cmdContext.cs / receiver), never through a registry value")
			}
		}
	}
	// clientCxn run-loop confinement
	for _, fn := range c.SrcFuncs() {
		for _, a := range rm.accesses[fn] {
			g, ok := gt.lookup(a)
			if !ok || g.mode != gConfined || a.Owner != "clientCxn" || (a1ModesOnly != nil && !a1ModesOnly[a.Name]) {
				continue
			}
			key := rm.accKey(a)
			if a.Base != nil && isFresh(a.Base) {
				c.S.Trivial("A1-confined", key, c.Pos(c.InstrPos(a.In)), "constructor")
				continue
			}
			var others []string
			for _, r := range rm.roots {
				if r != runRoot && c.M.Reach(r)[fn] {
					others = append(others, fnName(r))
				}
			}
			if runRoot == nil || !c.M.Reach(runRoot)[fn] && fn != runRoot {
				others = append(others, "(not reachable from the run loop)")
			}
			if len(others) == 0 {
				c.S.OK("A1-confined", key, c.Pos(c.InstrPos(a.In)), "reachable only from the connection's run loop")
			} else {
				sort.Strings(others)
				c.S.Bad("A1-confined", key, c.Pos(c.InstrPos(a.In)), fmt.Sprintf("%s touches run-loop-confined %s and is reachable from %s", fnName(fn), a.Name, strings.Join(others, ", ")))
			}
		}
	}
}

// freshEverywhere: v is a parameter that receives a not-yet-shared object at every call site (the
// object is still being constructed: `cd := &T{}; cd.addHandler(...)`), or the result of a constructor.
var freshBusy = map[ssa.Value]bool{}

func freshEverywhere(p *Prog, v ssa.Value, depth int) bool {
	if depth > 6 {
		return false
	}
	if freshBusy[v] {
		return true // coinductive: a recursive call passes the same object on
	}
	freshBusy[v] = true
	defer delete(freshBusy, v)
	if isFresh(v) {
		return true
	}
	switch x := v.(type) {
	case *ssa.Call:
		cal := x.Call.StaticCallee()
		return cal != nil && returnsFreshAlloc(cal)
	case *ssa.UnOp:
		if al, ok := x.X.(*ssa.Alloc); ok && x.Op == token.MUL {
			n := 0
			for _, rr := range referrers(al) {
				if st, ok := rr.(*ssa.Store); ok && st.Addr == al {
					n++
					if !freshEverywhere(p, st.Val, depth+1) {
						return false
					}
				}
			}
			return n > 0
		}
		// a field of the receiver of a method that is only ever used as a bound method value (`walker.visit` handed to
		// a library that calls it back): the field holds what the creator of that value stored into the receiver
		if fa, ok := x.X.(*ssa.FieldAddr); ok && x.Op == token.MUL {
			if prm, ok := fa.X.(*ssa.Parameter); ok && len(prm.Parent().Params) > 0 && prm.Parent().Params[0] == prm {
				m := prm.Parent()
				node := p.CG.Nodes[m]
				if node == nil || len(node.In) == 0 {
					return false
				}
				found := 0
				for _, e := range node.In {
					w := e.Caller.Func
					if w == nil || !strings.Contains(w.Synthetic, "bound method wrapper") {
						return false
					}
					for _, creator := range p.SrcFuncs() {
						for _, in := range instrsOf(creator) {
							mc, ok := in.(*ssa.MakeClosure)
							if !ok || mc.Fn != ssa.Value(w) || len(mc.Bindings) == 0 {
								continue
							}
							recv, ok := mc.Bindings[0].(*ssa.Alloc)
							if !ok {
								return false
							}
							stores := 0
							for _, r := range referrers(recv) {
								fa2, ok := r.(*ssa.FieldAddr)
								if !ok || fa2.Field != fa.Field {
									continue
								}
								for _, r2 := range referrers(fa2) {
									if st, ok := r2.(*ssa.Store); ok && st.Addr == ssa.Value(fa2) {
										stores++
										if !freshEverywhere(p, st.Val, depth+1) {
											return false
										}
									}
								}
							}
							if stores == 0 {
								return false
							}
							found++
						}
					}
				}
				return found > 0
			}
		}
		return false
	case *ssa.Parameter:
		fn := x.Parent()
		idx := -1
		for i, pp := range fn.Params {
			if pp == x {
				idx = i
			}
		}
		if idx < 0 {
			return false
		}
		node := p.CG.Nodes[fn]
		if node == nil || len(node.In) == 0 {
			return false
		}
		for _, e := range node.In {
			if e.Site == nil {
				return false
			}
			if os.Getenv("RD_DEBUG") != "" {
				fmt.Println("freshEverywhere", fnName(fn), "<-", fnName(e.Caller.Func), e.Site)
			}
			args := e.Site.Common().Args
			if idx >= len(args) || !freshEverywhere(p, args[idx], depth+1) {
				return false
			}
		}
		return true
	}
	return false
}

// ---------------------------------------------------------------- shared-slice append aliasing

const textAppendAlias = "A1-append-alias: grammar slices (redisArgs, shared by every connection and immutable after start-up) are never the first operand of append unless clipped with a full slice expression: append(x, …) on a shared slice whose capacity exceeds its length writes into the shared backing array"

func ruleAppendAlias(c *Ctx) {
	c.S.Rule("A1-append-alias", textAppendAlias, 2)
	p := c.Prog
	isGrammarSlice := func(t types.Type) bool {
		if n, ok := t.(*types.Named); ok && p.isPkgType(n, "redisArgs") {
			return true
		}
		if s, ok := t.Underlying().(*types.Slice); ok {
			return p.isPkgType(s.Elem(), "redisArg")
		}
		return false
	}
	// shared(v): v may be a parameter / field load / element of the shared grammar (not an owned slice)
	var shared func(v ssa.Value, seen map[ssa.Value]bool) (bool, string)
	shared = func(v ssa.Value, seen map[ssa.Value]bool) (bool, string) {
		if seen[v] {
			return false, ""
		}
		seen[v] = true
		switch x := v.(type) {
		case *ssa.Parameter:
			return true, "parameter " + x.Name()
		case *ssa.UnOp:
			if _, f := loadedField(x); f != nil {
				return true, "field " + f.Name()
			}
			if al, ok := x.X.(*ssa.Alloc); ok {
				for _, rr := range referrers(al) {
					if st, ok := rr.(*ssa.Store); ok && st.Addr == al {
						if s, why := shared(st.Val, seen); s {
							return true, why
						}
					}
				}
			}
			return false, ""
		case *ssa.Phi:
			for _, e := range x.Edges {
				if s, why := shared(e, seen); s {
					return true, why
				}
			}
			return false, ""
		case *ssa.Slice:
			if x.Max != nil {
				return false, "" // clipped: append must reallocate
			}
			return shared(x.X, seen)
		case *ssa.ChangeType:
			return shared(x.X, seen)
		case *ssa.Call:
			if b, ok := x.Call.Value.(*ssa.Builtin); ok && b.Name() == "append" {
				// result of an earlier append: owned only if that append's base was owned (otherwise it may
				// still be the shared array when capacity sufficed)
				return shared(x.Call.Args[0], seen)
			}
			return false, ""
		}
		return false, ""
	}
	n := 0
	for _, fn := range c.SrcFuncs() {
		ord := 0
		for _, in := range instrsOf(fn) {
			call, ok := in.(*ssa.Call)
			if !ok {
				continue
			}
			b, ok := call.Call.Value.(*ssa.Builtin)
			if !ok || b.Name() != "append" || len(call.Call.Args) == 0 || !isGrammarSlice(call.Call.Args[0].Type()) {
				continue
			}
			n++
			ord++
			key := fmt.Sprintf("%s:append#%d", fnName(fn), ord)
			if s, why := shared(call.Call.Args[0], map[ssa.Value]bool{}); s {
				c.S.Bad("A1-append-alias", key, c.Pos(call.Pos()), fmt.Sprintf("append onto a grammar slice that may be the shared one (%s) without clipping its capacity: concurrent connections parsing the same command write the same backing array", why))
			} else {
				c.S.OK("A1-append-alias", key, c.Pos(call.Pos()), "first operand is an owned slice (literal / make / clipped)")
			}
		}
	}
	_ = n
}

// ---------------------------------------------------------------- payload bytes

const textBytes = "A1-payload-bytes: a byte slice that is (or aliases) a stored string payload is either never written in place after publication (then readers that copy or inspect it after unlocking are safe), or — if some function writes it in place — every read of its bytes happens under the database lock"

func ruleA1PayloadBytes(c *Ctx) {
	c.S.Rule("A1-payload-bytes", textBytes, 3)
	p := c.Prog
	lm := c.M.Locks()
	fPayload := p.Field("storeKey", "payload")
	if fPayload == nil || lm.DB < 0 {
		c.S.Undecided("A1-payload-bytes", "anchors", "-", "storeKey.payload / DB class not found")
		return
	}
	isByteSlice := func(t types.Type) bool {
		if _, isTuple := t.(*types.Tuple); isTuple {
			return true
		}
		s, ok := t.Underlying().(*types.Slice)
		if !ok {
			return false
		}
		b, ok := s.Elem().Underlying().(*types.Basic)
		return ok && b.Kind() == types.Byte
	}
	pb := p.runTaint(func(v ssa.Value) bool {
		ta, ok := v.(*ssa.TypeAssert)
		if !ok {
			return false
		}
		_, f := loadedField(ta.X)
		if f != fPayload {
			return false
		}
		s, ok := ta.AssertedType.Underlying().(*types.Slice)
		if !ok {
			return false
		}
		b, ok := s.Elem().Underlying().(*types.Basic)
		return ok && b.Kind() == types.Byte
	}, isByteSlice)

	type bytesUse struct {
		in    ssa.Instruction
		write bool
		what  string
	}
	var uses []bytesUse
	for _, fn := range c.SrcFuncs() {
		for _, in := range instrsOf(fn) {
			switch x := in.(type) {
			case *ssa.IndexAddr:
				if !pb.tainted[x.X] {
					continue
				}
				for _, rr := range referrers(x) {
					switch y := rr.(type) {
					case *ssa.Store:
						if y.Addr == x {
							uses = append(uses, bytesUse{y, true, "element store"})
						}
					case *ssa.UnOp:
						uses = append(uses, bytesUse{y, false, "element load"})
					}
				}
			case *ssa.Convert:
				if pb.tainted[x.X] {
					uses = append(uses, bytesUse{x, false, "string(bytes) copy"})
				}
			case *ssa.Call:
				if b, ok := x.Call.Value.(*ssa.Builtin); ok {
					switch b.Name() {
					case "copy":
						if len(x.Call.Args) == 2 && pb.tainted[x.Call.Args[1]] {
							uses = append(uses, bytesUse{x, false, "copy(dst, bytes)"})
						}
						if len(x.Call.Args) == 2 && pb.tainted[x.Call.Args[0]] {
							uses = append(uses, bytesUse{x, true, "copy(bytes, src)"})
						}
					case "append":
						if len(x.Call.Args) == 2 && pb.tainted[x.Call.Args[1]] {
							uses = append(uses, bytesUse{x, false, "append(dst, bytes...)"})
						}
					}
					continue
				}
				// external callee receiving the bytes reads them
				if len(p.CalleesData(x)) > 0 && !p.InPkg(p.CalleesData(x)[0]) {
					for _, a := range x.Call.Args {
						if pb.tainted[a] {
							uses = append(uses, bytesUse{x, false, "passed to " + fullCalleeName(x)})
						}
					}
				}
			}
		}
	}
	var writers []bytesUse
	for _, u := range uses {
		if u.write {
			writers = append(writers, u)
		}
	}
	// Req-style: is the DB lock held at each read, on every path from every root?
	rm := c.M.Req()
	unlockedFrom := func(in ssa.Instruction) (string, bool) {
		// a use is unlocked if some root reaches its function without the lock and the lock is not taken locally
		if lm.LocallyHeld(in).has(lm.DB) {
			return "", false
		}
		fn := in.Parent()
		// walk callers without DB held
		seen := map[*ssa.Function]bool{}
		var walk func(f *ssa.Function, chain []string) (string, bool)
		walk = func(f *ssa.Function, chain []string) (string, bool) {
			if seen[f] {
				return "", false
			}
			seen[f] = true
			if rm.rootWhy[f] != "" {
				return strings.Join(append([]string{fnName(f)}, chain...), " -> "), true
			}
			for _, g := range c.SrcFuncs() {
				for _, cs := range rm.calls[g] {
					if cs.isGo || cs.cut {
						continue
					}
					for _, cal := range cs.callees {
						if cal == f && !lm.LocallyHeld(cs.in).has(lm.DB) {
							if s, ok := walk(g, append([]string{fnName(f)}, chain...)); ok {
								return s, true
							}
						}
					}
				}
			}
			return "", false
		}
		return walk(fn, nil)
	}
	if len(writers) == 0 {
		c.S.OK("A1-payload-bytes", "no-in-place-writers", "-", fmt.Sprintf("no function stores into a published payload byte slice (%d read sites rely on that)", len(uses)))
		for i, u := range uses {
			if i >= 40 {
				break
			}
			c.S.Trivial("A1-payload-bytes", fmt.Sprintf("%s:%s#%d", fnName(u.in.Parent()), u.what, i), c.Pos(c.InstrPos(u.in)), "read of immutable payload bytes")
		}
		return
	}
	w := writers[0]
	seen := map[string]bool{}
	for _, u := range uses {
		key := fmt.Sprintf("%s:%s", fnName(u.in.Parent()), u.what)
		if seen[key] {
			continue
		}
		chain, unlocked := unlockedFrom(u.in)
		if !unlocked {
			seen[key] = true
			c.S.OK("A1-payload-bytes", key, c.Pos(c.InstrPos(u.in)), "under the database lock on every path")
			continue
		}
		seen[key] = true
		c.S.Bad("A1-payload-bytes", key, c.Pos(c.InstrPos(u.in)),
			fmt.Sprintf("%s of stored payload bytes without the database lock (%s) while %s writes payload bytes in place at %s", u.what, chain, fnName(w.in.Parent()), c.Pos(c.InstrPos(w.in))))
	}
}
