package main

// Rules for RESP2/RESP3 (C15) and the reply path (C01).

import (
	"fmt"
	"go/constant"
	"go/token"
	"go/types"
	"sort"
	"strings"

	"golang.org/x/tools/go/ssa"
)

// typeSwitchOn: the named types a function tests `v.(T)` for, where v is loaded from respValue.data
// (or is the given parameter), and whether the switch ends in a panic.
type tswitch struct {
	fn      *ssa.Function
	types   map[string]bool
	hasNil  bool
	panics  bool
	subject ssa.Value
}

func (c *Ctx) respDataSwitches() []*tswitch {
	fData := c.Field("respValue", "data")
	var out []*tswitch
	for _, fn := range c.SrcFuncs() {
		bySubject := map[ssa.Value]*tswitch{}
		for _, in := range instrsOf(fn) {
			ta, ok := in.(*ssa.TypeAssert)
			if !ok || !ta.CommaOk {
				continue
			}
			if _, f := loadedField(ta.X); f != fData {
				continue
			}
			ts := bySubject[ta.X]
			if ts == nil {
				ts = &tswitch{fn: fn, types: map[string]bool{}, subject: ta.X}
				bySubject[ta.X] = ts
			}
			ts.types[typeString(ta.AssertedType)] = true
			// a case on an interface of the package (`case respWireValue: v.writeWire(sb)`) stands for every type of the
			// package that implements it: method dispatch instead of one case per type
			if it, isIface := ta.AssertedType.Underlying().(*types.Interface); isIface && it.NumMethods() > 0 {
				sc := c.Pkg.Types.Scope()
				for _, nm := range sc.Names() {
					tn, isTN := sc.Lookup(nm).(*types.TypeName)
					if !isTN {
						continue
					}
					if _, isI := tn.Type().Underlying().(*types.Interface); isI {
						continue
					}
					if types.Implements(tn.Type(), it) || types.Implements(types.NewPointer(tn.Type()), it) {
						ts.types[typeString(tn.Type())] = true
					}
				}
			}
		}
		for subj, ts := range bySubject {
			if len(ts.types) < 6 {
				continue
			}
			for _, in := range instrsOf(fn) {
				if _, ok := in.(*ssa.Panic); ok {
					ts.panics = true
				}
				if bo, ok := in.(*ssa.BinOp); ok && bo.Op == token.EQL && (bo.X == subj && isNilConst(bo.Y) || bo.Y == subj && isNilConst(bo.X)) {
					ts.hasNil = true
				}
			}
			out = append(out, ts)
		}
	}
	sort.Slice(out, func(i, j int) bool { return fnName(out[i].fn) < fnName(out[j].fn) })
	return out
}

// producedRespTypes: resp* named types converted to `any` in the given functions.
func (c *Ctx) producedRespTypes(fns map[*ssa.Function]bool) map[string]token.Pos {
	out := map[string]token.Pos{}
	for fn := range fns {
		for _, in := range instrsOf(fn) {
			mi, ok := in.(*ssa.MakeInterface)
			if !ok {
				continue
			}
			n, ok := mi.X.Type().(*types.Named)
			if !ok || n.Obj().Pkg() != c.Pkg.Types || !strings.HasPrefix(n.Obj().Name(), "resp") {
				continue
			}
			if _, isIface := mi.Type().Underlying().(*types.Interface); !isIface {
				continue
			}
			name := n.Obj().Name()
			if name == "respValue" {
				continue
			}
			if _, ok := out[name]; !ok {
				out[name] = mi.Pos()
			}
		}
	}
	return out
}

var respSentinels = map[string]string{
	"respEnd": "end-of-stream sentinel of the dynamic-aggregate readers; every reader tests isEnd on it before using the value, it is never part of a returned value",
}

const textExhaustive = "R-C15-exhaustive: every concrete RESP type that reply-producing code (handlers, the dispatcher, the native→RESP converters, the down-converter) or the request parser can put into a respValue is a case of the type switches that consume it — serialize, resp3To2, toNative (also applied to requests for tracing) and String (applied to request arguments) — so their `default: panic` is unreachable"

func ruleC15Exhaustive(c *Ctx) {
	c.S.Rule("R-C15-exhaustive", textExhaustive, 4)
	hs, err := c.M.Handlers()
	if err != nil {
		c.S.Undecided("R-C15-exhaustive", "handlers", "-", err.Error())
		return
	}
	// reply producers: everything reachable from handlers and from the dispatch goroutine
	replyFns := map[*ssa.Function]bool{}
	for _, h := range hs {
		for f := range c.M.Reach(h) {
			replyFns[f] = true
		}
	}
	t := c.txn()
	if t.prepare != nil {
		for f := range c.M.Reach(t.prepare) {
			replyFns[f] = true
		}
	}
	if t.dispatchHandler != nil {
		for f := range c.M.Reach(t.dispatchHandler) {
			replyFns[f] = true
		}
		// the goroutines that run a command and write its reply
		for _, r := range c.M.Req().roots {
			if c.M.Reach(r)[t.dispatchHandler] {
				for f := range c.M.Reach(r) {
					replyFns[f] = true
				}
			}
		}
	}
	// request parser: functions of the deserializer
	reqFns := map[*ssa.Function]bool{}
	for _, fn := range c.SrcFuncs() {
		if fn.Signature.Recv() != nil && c.isPkgType(fn.Signature.Recv().Type(), "respDeserializer") {
			reqFns[fn] = true
		}
	}
	// the deserializer is also used for the embedded spec, but those values never reach a connection
	replies := c.producedRespTypes(replyFns)
	for fn := range reqFns {
		delete(replyFns, fn)
	}
	replies = c.producedRespTypes(replyFns)
	requests := c.producedRespTypes(reqFns)
	if len(replies) < 8 || len(requests) < 8 {
		c.S.Undecided("R-C15-exhaustive", "producers", "-", fmt.Sprintf("only %d reply types / %d request types found", len(replies), len(requests)))
	}
	sws := c.respDataSwitches()
	if len(sws) < 4 {
		c.S.Undecided("R-C15-exhaustive", "switches", "-", fmt.Sprintf("only %d type switches over respValue.data found", len(sws)))
	}
	for _, sw := range sws {
		if !sw.panics {
			continue
		}
		// which producers feed this consumer: determined by who calls it
		feedsReplies, feedsRequests := false, false
		for f := range replyFns {
			if c.M.Reach(f)[sw.fn] {
				feedsReplies = true
			}
		}
		// String()/toNative are applied to request values in prepare; serialize only to replies
		callersOf := map[*ssa.Function]bool{}
		for _, fn := range c.SrcFuncs() {
			for _, in := range instrsOf(fn) {
				if call, ok := in.(ssa.CallInstruction); ok {
					for _, g := range c.Callees(call) {
						if g == sw.fn {
							callersOf[fn] = true
						}
					}
				}
			}
		}
		if t.prepare != nil && (callersOf[t.prepare] || c.M.Reach(t.prepare)[sw.fn]) {
			feedsRequests = true
		}
		check := func(src string, produced map[string]token.Pos) {
			var missing []string
			for ty := range produced {
				if _, sentinel := respSentinels[ty]; sentinel {
					continue
				}
				if !sw.types[ty] {
					missing = append(missing, ty)
				}
			}
			sort.Strings(missing)
			key := fmt.Sprintf("%s:%s", fnName(sw.fn), src)
			if len(missing) == 0 {
				c.S.OK("R-C15-exhaustive", key, c.Pos(sw.fn.Pos()), fmt.Sprintf("all %d %s types are cases (%d cases)", len(produced), src, len(sw.types)))
			} else {
				c.S.Bad("R-C15-exhaustive", key, c.Pos(produced[missing[0]]), fmt.Sprintf("%s has no case for %s value(s) of type %s: its default arm panics", fnName(sw.fn), src, strings.Join(missing, ", ")))
			}
		}
		if feedsReplies {
			check("reply", replies)
		}
		if feedsRequests {
			check("request", requests)
		}
		if !feedsReplies && !feedsRequests {
			c.S.Trivial("R-C15-exhaustive", fnName(sw.fn)+":unused", c.Pos(sw.fn.Pos()), "not applied to request or reply values")
		}
	}
}

var resp2Kinds = map[string]bool{"respSimpleString": true, "respErrorString": true, "respInt": true, "respBulkString": true, "respArray": true}

const textClosure = "R-C15-closure: the down-converter and its helpers only ever produce RESP2 kinds (simple string, error, integer, bulk string, array, nil), pass a value through unchanged only on the cases of those kinds, recurse into the children of arrays, maps, sets and attribute maps, turn a boolean into the integer 0/1 and a verbatim string into a bulk string of its text (sent as a simple string it would lose its line breaks)"

func ruleC15Closure(c *Ctx) {
	c.S.Rule("R-C15-closure", textClosure, 3)
	fData := c.Field("respValue", "data")
	// the down-converter: the type switch function whose result goes to the RESP2 branch of the dispatcher
	var conv *ssa.Function
	for _, sw := range c.respDataSwitches() {
		if sw.fn.Signature.Params().Len() == 1 && sw.fn.Signature.Results().Len() == 1 && sw.fn.Signature.Recv() == nil &&
			c.isPkgType(sw.fn.Signature.Params().At(0).Type(), "respValue") && c.isPkgType(sw.fn.Signature.Results().At(0).Type(), "respValue") {
			conv = sw.fn
		}
	}
	if conv == nil {
		c.S.Undecided("R-C15-closure", "converter", "-", "no respValue→respValue type-switch function found")
		return
	}
	fns := map[*ssa.Function]bool{conv: true}
	for _, in := range instrsOf(conv) {
		if call, ok := in.(*ssa.Call); ok {
			if g := call.Call.StaticCallee(); g != nil && c.InPkg(g) && g != conv && g.Signature.Results().Len() == 1 {
				if rt := g.Signature.Results().At(0).Type(); c.isPkgType(rt, "respArray") || c.isPkgType(rt, "respValue") {
					fns[g] = true
				}
			}
		}
	}
	var names []*ssa.Function
	for f := range fns {
		names = append(names, f)
	}
	sort.Slice(names, func(i, j int) bool { return fnName(names[i]) < fnName(names[j]) })
	for _, fn := range names {
		// (a) produced kinds
		var bad []string
		for _, in := range instrsOf(fn) {
			st, ok := in.(*ssa.Store)
			if !ok {
				continue
			}
			fa, ok := st.Addr.(*ssa.FieldAddr)
			if !ok || fieldOf(fa) != fData {
				continue
			}
			switch v := st.Val.(type) {
			case *ssa.MakeInterface:
				if n, ok := v.X.Type().(*types.Named); ok && !resp2Kinds[n.Obj().Name()] {
					bad = append(bad, n.Obj().Name())
				}
			case *ssa.Const:
				// nil
			case *ssa.Call:
				// the case asks the value itself (`case resp2Scalar: value.data = v.toResp2()`): what every method that can be
				// called there returns
				cals := c.Callees(v)
				if len(cals) == 0 {
					bad = append(bad, "the result of a call that cannot be resolved")
				}
				for _, g := range cals {
					if !c.InPkg(g) || g.Blocks == nil {
						bad = append(bad, "the result of "+fnName(g))
						continue
					}
					for _, gb := range g.Blocks {
						ret, isRet := gb.Instrs[len(gb.Instrs)-1].(*ssa.Return)
						if !isRet || len(ret.Results) != 1 {
							continue
						}
						for _, leaf := range phiLeaves(ret.Results[0], map[ssa.Value]bool{}) {
							if isNilConst(leaf) {
								continue
							}
							mi, isMI := leaf.(*ssa.MakeInterface)
							if !isMI {
								bad = append(bad, "a value "+fnName(g)+" passes on")
								continue
							}
							if n, ok := mi.X.Type().(*types.Named); ok && !resp2Kinds[n.Obj().Name()] {
								bad = append(bad, n.Obj().Name())
							}
						}
					}
				}
			default:
				// pass-through of the switched value: every predecessor edge must be a RESP2-kind case
				okPass := true
				for _, pr := range st.Block().Preds {
					ifi, isIf := pr.Instrs[len(pr.Instrs)-1].(*ssa.If)
					if !isIf {
						okPass = false
						continue
					}
					ex, isEx := ifi.Cond.(*ssa.Extract)
					if !isEx {
						okPass = false
						continue
					}
					ta, isTa := ex.Tuple.(*ssa.TypeAssert)
					if !isTa || !resp2Kinds[typeString(ta.AssertedType)] || pr.Succs[0] != st.Block() {
						okPass = false
					}
				}
				if !okPass && st.Val.Type().String() == "any" {
					bad = append(bad, "pass-through outside the RESP2 cases")
				}
			}
		}
		key := fnName(fn) + ":kinds"
		if len(bad) == 0 {
			c.S.OK("R-C15-closure", key, c.Pos(fn.Pos()), "stores only RESP2 kinds / nil into the converted value")
		} else {
			sort.Strings(bad)
			c.S.Bad("R-C15-closure", key, c.Pos(fn.Pos()), fmt.Sprintf("%s can put %s into a reply for a RESP2 connection", fnName(fn), strings.Join(bad, ", ")))
		}
		// (d) the kind each scalar RESP3 type is turned into: booleans become the integers 0/1, and text that may
		// contain line breaks (a verbatim string: INFO, CLIENT LIST) becomes a bulk string of the text alone — the
		// simple-string emitter strips CR/LF (R-C01-line), so a verbatim string sent as a simple string loses its lines
		if fn == conv {
			want := map[string]string{"respBool": "respInt", "respVerbatimString": "respBulkString"}
			isTest := func(b *ssa.BasicBlock) (*ssa.TypeAssert, bool) {
				ifi, ok := b.Instrs[len(b.Instrs)-1].(*ssa.If)
				if !ok {
					return nil, false
				}
				ex, ok := ifi.Cond.(*ssa.Extract)
				if !ok || ex.Index != 1 { // the ok of `v, ok := x.(T)`, not the boolean value of a case for a bool type
					return nil, false
				}
				ta, ok := ex.Tuple.(*ssa.TypeAssert)
				return ta, ok
			}
			for _, b := range fn.Blocks {
				ta, ok := isTest(b)
				if !ok {
					continue
				}
				caseT := typeString(ta.AssertedType)
				wantK, has := want[caseT]
				if !has {
					continue
				}
				body := reachableFrom(b.Succs[0], func(a, bb *ssa.BasicBlock) bool { _, t := isTest(a); return t })
				var got []string
				for bb := range body {
					for _, in := range bb.Instrs {
						st, ok := in.(*ssa.Store)
						if !ok {
							continue
						}
						if fa, ok := st.Addr.(*ssa.FieldAddr); !ok || fieldOf(fa) != fData {
							continue
						}
						if mi, ok := st.Val.(*ssa.MakeInterface); ok {
							got = append(got, typeString(mi.X.Type()))
						} else {
							got = append(got, "the value itself")
						}
					}
				}
				key := fnName(fn) + ":kind-of-" + caseT
				okAll := len(got) > 0
				for _, g := range got {
					if g != wantK {
						okAll = false
					}
				}
				sort.Strings(got)
				if okAll {
					c.S.OK("R-C15-closure", key, c.Pos(ta.Pos()), fmt.Sprintf("%s becomes %s", caseT, wantK))
				} else {
					c.S.Bad("R-C15-closure", key, c.Pos(ta.Pos()), fmt.Sprintf("%s turns %s into %s where the RESP2 form is %s: a boolean is 0/1, and a verbatim string is a bulk string of its text (as a simple string it gets a format prefix and loses its line breaks — INFO on a RESP2 connection is one line)", fnName(fn), caseT, strings.Join(got, "/"), wantK))
				}
			}
		}
		// (b) helpers over collections recurse
		if fn == conv {
			continue
		}
		hasLoop := false
		for _, b := range fn.Blocks {
			if blockInCycle(b) {
				hasLoop = true
			}
		}
		if !hasLoop {
			continue
		}
		recurses := false
		for _, in := range instrsOf(fn) {
			if call, ok := in.(*ssa.Call); ok && call.Call.StaticCallee() == conv {
				recurses = true
			}
		}
		// (c) the input collection itself is never the result: a "nothing to convert" shortcut would have to look at
		// every level of nesting to be right
		identity := false
		for _, b := range fn.Blocks {
			if ret, ok := b.Instrs[len(b.Instrs)-1].(*ssa.Return); ok {
				for _, r := range ret.Results {
					for _, leaf := range phiLeaves(r, map[ssa.Value]bool{}) {
						for d := 0; d < 4; d++ {
							switch x := leaf.(type) {
							case *ssa.ChangeType:
								leaf = x.X
							case *ssa.Convert:
								leaf = x.X
							case *ssa.Slice:
								leaf = x.X
							}
						}
						if _, isParam := leaf.(*ssa.Parameter); isParam {
							identity = true
						}
					}
				}
			}
		}
		if identity {
			c.S.Bad("R-C15-closure", fnName(fn)+":no-identity-return", c.Pos(fn.Pos()), fmt.Sprintf("%s can return its input collection unconverted: RESP3 values nested deeper than the level it looked at reach a RESP2 client", fnName(fn)))
		} else {
			c.S.OK("R-C15-closure", fnName(fn)+":no-identity-return", c.Pos(fn.Pos()), "the result is always a newly built array")
		}
		key = fnName(fn) + ":recurses"
		if recurses {
			c.S.OK("R-C15-closure", key, c.Pos(fn.Pos()), "children are converted recursively")
		} else if strings.Contains(strings.ToLower(fnName(fn)), "pairs") {
			c.S.Trivial("R-C15-closure", key, c.Pos(fn.Pos()), "pair lists are flattened without recursion: their keys and values are built by nativeValueToResp from dictionary keys/values (bulk strings)")
		} else {
			c.S.Bad("R-C15-closure", key, c.Pos(fn.Pos()), fmt.Sprintf("%s copies the children of a collection without down-converting them: a nested map/set/double reaches a RESP2 client", fnName(fn)))
		}
	}
}

const textDown = "R-C15-downconvert: in the dispatcher every reply of a handler (or hook) for a connection whose protocol version is 2 passes through the down-converter, and the replies the dispatcher builds itself are RESP2 kinds"

func ruleC15Downconvert(c *Ctx) {
	c.S.Rule("R-C15-downconvert", textDown, 1)
	t := c.txn()
	fVer := c.Field("clientState", "respVersion")
	if t.dispatchHandler == nil || fVer == nil {
		c.S.Undecided("R-C15-downconvert", "anchors", "-", "dispatchHandler / clientState.respVersion not found")
		return
	}
	dh := t.dispatchHandler
	var conv *ssa.Function
	for _, sw := range c.respDataSwitches() {
		if sw.fn.Signature.Recv() == nil && sw.fn.Signature.Params().Len() == 1 && sw.fn.Signature.Results().Len() == 1 &&
			c.isPkgType(sw.fn.Signature.Results().At(0).Type(), "respValue") && c.isPkgType(sw.fn.Signature.Params().At(0).Type(), "respValue") {
			conv = sw.fn
		}
	}
	// the version test: in the dispatcher, or in a helper the dispatcher hands the reply to (respValue in, respValue out)
	var theIf *ssa.If
	resp2Succ := -1
	host := dh
	var hostCall *ssa.Call
	hostHasTest := func(g *ssa.Function) bool {
		for _, b := range g.Blocks {
			if ifi, ok := b.Instrs[len(b.Instrs)-1].(*ssa.If); ok {
				if bo, ok := ifi.Cond.(*ssa.BinOp); ok {
					_, f1 := loadedField(bo.X)
					_, f2 := loadedField(bo.Y)
					if f1 == fVer || f2 == fVer {
						return true
					}
				}
			}
		}
		return false
	}
	if !hostHasTest(dh) {
		for _, in := range instrsOf(dh) {
			call, ok := in.(*ssa.Call)
			if !ok {
				continue
			}
			g := call.Call.StaticCallee()
			if g == nil || g.Blocks == nil || !c.InPkg(g) || g == conv || g.Signature.Results().Len() != 1 || !c.isPkgType(g.Signature.Results().At(0).Type(), "respValue") {
				continue
			}
			takes := false
			for i := 0; i < g.Signature.Params().Len(); i++ {
				if c.isPkgType(g.Signature.Params().At(i).Type(), "respValue") {
					takes = true
				}
			}
			if takes && hostHasTest(g) {
				host, hostCall = g, call
			}
		}
	}
	for _, b := range host.Blocks {
		ifi, ok := b.Instrs[len(b.Instrs)-1].(*ssa.If)
		if !ok {
			continue
		}
		bo, ok := ifi.Cond.(*ssa.BinOp)
		if !ok {
			continue
		}
		_, f1 := loadedField(bo.X)
		_, f2 := loadedField(bo.Y)
		if f1 != fVer && f2 != fVer {
			continue
		}
		var k int64
		var isC bool
		if k, isC = constInt(bo.Y); !isC {
			k, isC = constInt(bo.X)
		}
		if !isC {
			continue
		}
		switch {
		case bo.Op == token.EQL && k == 2, bo.Op == token.NEQ && k == 3, bo.Op == token.LSS && k == 3:
			theIf, resp2Succ = ifi, 0
		case bo.Op == token.NEQ && k == 2, bo.Op == token.EQL && k == 3, bo.Op == token.GEQ && k == 3:
			theIf, resp2Succ = ifi, 1
		}
	}
	key := fnName(dh) + ":resp2-branch"
	if theIf == nil {
		c.S.Bad("R-C15-downconvert", key, c.Pos(dh.Pos()), "the dispatcher does not branch on the connection's protocol version before returning a handler's reply")
		return
	}
	s := theIf.Block().Succs[resp2Succ]
	found := false
	for _, in := range s.Instrs {
		if call, ok := in.(*ssa.Call); ok && conv != nil && call.Call.StaticCallee() == conv {
			found = true
		}
	}
	// the handler call must dominate the version test (no reply returned before it)
	var hcall ssa.Instruction
	for site := range c.M.Locks().handlerDynSites {
		if site.Parent() == dh {
			hcall = site
		}
	}
	testBlock := theIf.Block()
	if hostCall != nil {
		testBlock = hostCall.Block()
	}
	if !found {
		c.S.Bad("R-C15-downconvert", key, c.Pos(theIf.Pos()), "the RESP2 branch of the dispatcher does not run the reply through the down-converter")
	} else if hcall != nil && !reachableFrom(hcall.Block(), nil)[testBlock] {
		c.S.Bad("R-C15-downconvert", key, c.Pos(theIf.Pos()), "the version test is not on the path after the handler call")
	} else {
		// no return between the handler call and the version test other than error replies
		c.S.OK("R-C15-downconvert", key, c.Pos(c.InstrPos(theIf)), "RESP2 branch = down-converter applied to the handler's/hook's result")
	}
	// every return that does not pass the version test must carry a dispatcher-built error reply only — after the handler
	// call as well as before it (a hook that supplies the reply instead of the handler is a reply like any other)
	if hcall != nil {
		for b := range reachableFrom(dh.Blocks[0], nil) {
			if _, ok := b.Instrs[len(b.Instrs)-1].(*ssa.Return); !ok {
				continue
			}
			if reachableFrom(testBlock, nil)[b] {
				continue
			}
			okErr := false
			for _, in := range b.Instrs {
				if c.isErrorReplyStore(in) {
					okErr = true
				}
			}
			k2 := fmt.Sprintf("%s:early-return@%d", fnName(dh), b.Index)
			if okErr {
				c.S.OK("R-C15-downconvert", k2, c.Pos(c.InstrPos(b.Instrs[len(b.Instrs)-1])), "early return carries a dispatcher-built error reply (a RESP2 kind)")
			} else {
				c.S.Bad("R-C15-downconvert", k2, c.Pos(c.InstrPos(b.Instrs[len(b.Instrs)-1])), "a return after the handler ran bypasses the protocol-version branch")
			}
		}
	}
}

const textHello = "R-C15-hello: the connection's protocol version is only ever set to a value that a dominating guard restricts to 2 or 3, and the failing side of that guard answers an error without changing anything"

func ruleC15Hello(c *Ctx) {
	c.S.Rule("R-C15-hello", textHello, 1)
	fVer := c.Field("clientState", "respVersion")
	if fVer == nil {
		c.S.Undecided("R-C15-hello", "anchor", "-", "clientState.respVersion not found")
		return
	}
	n := 0
	for _, fn := range c.SrcFuncs() {
		for _, in := range instrsOf(fn) {
			st, ok := isStoreTo(in, fVer)
			if !ok {
				continue
			}
			n++
			key := fmt.Sprintf("%s:store#%d", fnName(fn), n)
			// nothing can fail after the switch: a HELLO that answers an error has not changed the protocol
			if _, isC := constInt(st.Val); !isC {
				im := c.inert()
				_, fails := im.pointsOf(fn)
				after := ""
				for _, f := range fails {
					if (f.blk == st.Block() && f.idx > instrIndex(st)) || (f.blk != st.Block() && plainReachAvoid(st.Block(), f.blk, nil)) {
						after = f.what + " at " + c.Pos(c.InstrPos(f.in))
					}
				}
				if after != "" {
					c.S.Bad("R-C15-hello", key+":then-cannot-fail", c.Pos(st.Pos()), fmt.Sprintf("%s stores the new protocol version and can still fail afterwards (%s): a refused HELLO has switched the connection", fnName(fn), after))
				} else {
					c.S.OK("R-C15-hello", key+":then-cannot-fail", c.Pos(st.Pos()), "no failure point is reachable after the version was stored")
				}
			}
			if k, isC := constInt(st.Val); isC {
				if k == 2 || k == 3 {
					c.S.Trivial("R-C15-hello", key, c.Pos(st.Pos()), fmt.Sprintf("constant %d", k))
				} else {
					c.S.Bad("R-C15-hello", key, c.Pos(st.Pos()), fmt.Sprintf("protocol version set to the constant %d", k))
				}
				continue
			}
			// the values that can reach the store: decided by a value-set analysis over the branches that compare the value
			// (through conversions) with constants, the phis, and the results of a validating helper
			ia := &intSetAnalysis{inPkg: c.InPkg, prog: c.Prog}
			vs := ia.at(st.Val, st.Block(), 0)
			// the refusing side: an error reply on a way that does not reach the store
			errorExit := false
			reaches := reachableFrom(fn.Blocks[0], nil)
			for _, b := range fn.Blocks {
				if !(reaches[b] || b == fn.Blocks[0]) || b == st.Block() || reachableFrom(b, nil)[st.Block()] {
					continue
				}
				for _, in2 := range b.Instrs {
					if c.isErrorReplyStore(in2) {
						errorExit = true
					}
				}
			}
			// the refusal may be a `return false` that every caller turns into the error reply
			// (`if !cs.useProtocol(ver) { reply NOPROTO }`)
			if !errorExit && fn.Signature.Results().Len() == 1 {
				if bt, isB := fn.Signature.Results().At(0).Type().Underlying().(*types.Basic); isB && bt.Kind() == types.Bool {
					refuses := false
					for _, b := range fn.Blocks {
						ret, isRet := b.Instrs[len(b.Instrs)-1].(*ssa.Return)
						if !isRet || b == st.Block() || reachableFrom(st.Block(), nil)[b] {
							continue
						}
						if !mayBeTrueAt(ret.Results[0], b) {
							refuses = true
						}
					}
					callersReply := false
					if node := c.CG.Nodes[fn]; node != nil && refuses {
						callersReply = len(node.In) > 0
						for _, e := range node.In {
							call, isCall := e.Site.(*ssa.Call)
							if !isCall {
								callersReply = false
								continue
							}
							okSite := false
							for _, r := range referrers(call) {
								cond, neg := ssa.Value(call), false
								if u, isU := r.(*ssa.UnOp); isU && u.Op == token.NOT {
									cond, neg = u, true
								}
								for _, r2 := range referrers(cond) {
									ifi, isIf := r2.(*ssa.If)
									if !isIf {
										continue
									}
									refusedSide := ifi.Block().Succs[1]
									if neg {
										refusedSide = ifi.Block().Succs[0]
									}
									for rb := range reachableFrom(refusedSide, nil) {
										if rb != refusedSide && !refusedSide.Dominates(rb) {
											continue
										}
										for _, in3 := range rb.Instrs {
											if c.isErrorReplyStore(in3) {
												okSite = true
											}
										}
									}
								}
								_ = r
							}
							if !okSite {
								callersReply = false
							}
						}
					}
					if refuses && callersReply {
						errorExit = true
					}
				}
			}
			// a version that is stored must come from the request: a constant that can reach the store (a default taken
			// when HELLO names no version) switches a RESP3 connection back although nothing asked for it
			defaulted := ""
			for _, o := range ia.origins(st.Val, st.Block(), 0) {
				if k, isC := constInt(o); isC && vs.finite && vs.vals[k] {
					defaulted = fmt.Sprintf("%d", k)
				}
			}
			if defaulted != "" && vs.subsetOf(2, 3) && errorExit {
				c.S.Bad("R-C15-hello", key+":from-request", c.Pos(st.Pos()), fmt.Sprintf("%s can store the constant %s as protocol version on a path on which the request named none: a bare HELLO changes the protocol of the connection", fnName(fn), defaulted))
			} else if vs.subsetOf(2, 3) && errorExit {
				c.S.OK("R-C15-hello", key+":from-request", c.Pos(st.Pos()), "every version that can be stored was named by the request")
			}
			bounded := vs.subsetOf(2, 3) && errorExit
			if bounded {
				c.S.OK("R-C15-hello", key, c.Pos(st.Pos()), fmt.Sprintf("the stored value can only be one of %v; other versions are answered with an error", vs.list()))
			} else {
				c.S.Bad("R-C15-hello", key, c.Pos(st.Pos()), fmt.Sprintf("%s stores a client-supplied protocol version without restricting it to 2 or 3: HELLO 4 is accepted and the connection then speaks neither protocol consistently", fnName(fn)))
			}
		}
	}
	if n == 0 {
		c.S.Undecided("R-C15-hello", "stores", "-", "no store to clientState.respVersion")
	}
}

var _ = constant.MakeInt64
