package main

// Small structural rules for the command families (C02–C06).

import (
	"fmt"
	"go/token"
	"go/types"
	"os"
	"sort"
	"strings"

	"golang.org/x/tools/go/ssa"
)

// ---------------------------------------------------------------- R-cmdident

const textCmdIdent = "R-cmdident: a string derived from the client's spelling of the command (cmdContext.cmdName) is never compared with a constant unless it went through a case normaliser; command identity comes from the normalised token (cmdContext.cmdToken) — otherwise MSETNX/SETNX typed in upper case behave as MSET/SET"

func ruleCmdIdent(c *Ctx) {
	c.S.Rule("R-cmdident", textCmdIdent, 1)
	p := c.Prog
	fName := p.Field("cmdContext", "cmdName")
	fTok := p.Field("cmdContext", "cmdToken")
	if fName == nil || fTok == nil {
		c.S.Undecided("R-cmdident", "anchors", "-", "cmdContext.cmdName / cmdToken not found")
		return
	}
	isStr := func(t types.Type) bool {
		b, ok := t.Underlying().(*types.Basic)
		return ok && b.Kind() == types.String
	}
	mk := func(f *types.Var) *taintSpec {
		return p.runTaint(func(v ssa.Value) bool {
			_, lf := loadedField(v)
			return lf == f
		}, isStr)
	}
	raw, norm := mk(fName), mk(fTok)
	n := 0
	for _, fn := range c.SrcFuncs() {
		ord := 0
		for _, in := range instrsOf(fn) {
			bo, ok := in.(*ssa.BinOp)
			if !ok || (bo.Op != token.EQL && bo.Op != token.NEQ) {
				continue
			}
			var other ssa.Value
			var cst string
			if s, ok := constString(bo.Y); ok {
				other, cst = bo.X, s
			} else if s, ok := constString(bo.X); ok {
				other, cst = bo.Y, s
			} else {
				continue
			}
			if !(raw.tainted[other] || norm.tainted[other]) {
				continue
			}
			n++
			ord++
			key := fmt.Sprintf("%s:==%s", fnName(fn), quote(cst))
			if ord > 1 {
				key += fmt.Sprintf("#%d", ord)
			}
			if raw.tainted[other] {
				c.S.Bad("R-cmdident", key, c.Pos(bo.Pos()), fmt.Sprintf("%s compares the client's spelling of the command name with %s: the comparison fails when the client writes the command in another case, so the command silently behaves as its sibling", fnName(fn), quote(cst)))
			} else {
				c.S.OK("R-cmdident", key, c.Pos(bo.Pos()), "compares the normalised command token")
			}
		}
	}
	// tables keyed by command names (package-level `map[string]T{"multi": …}` whose keys are all command tokens): every
	// lookup uses a key that went through the case normaliser, like the lookups of the handler table itself
	hs, herr := c.M.Handlers()
	if herr == nil {
		lowered := p.runTaint(func(v ssa.Value) bool {
			call, ok := v.(*ssa.Call)
			if !ok {
				return false
			}
			nm := fullCalleeName(call)
			return nm == "strings.ToLower" || nm == "strings.ToUpper"
		}, isStr, true)
		cmdTable := map[*ssa.Global]bool{}
		for name, m := range p.SPkg.Members {
			g, ok := m.(*ssa.Global)
			if !ok {
				continue
			}
			mt, ok := deref(g.Type()).Underlying().(*types.Map)
			if !ok || !isStr(mt.Key()) {
				continue
			}
			keys, _, ok := p.stringKeyedLiteral(p.globalInit(name))
			if !ok || len(keys) < 2 {
				continue
			}
			all := true
			for _, k := range keys {
				if hs[k] == nil {
					all = false
				}
			}
			if all {
				cmdTable[g] = true
			}
		}
		for _, fn := range c.SrcFuncs() {
			ord := 0
			for _, in := range instrsOf(fn) {
				lk, ok := in.(*ssa.Lookup)
				if !ok {
					continue
				}
				u, ok := lk.X.(*ssa.UnOp)
				if !ok {
					continue
				}
				g, ok := u.X.(*ssa.Global)
				if !ok || !cmdTable[g] {
					continue
				}
				n++
				ord++
				key := fmt.Sprintf("%s:lookup %s#%d", fnName(fn), p.canonGlobalName(g), ord)
				if lowered.tainted[lk.Index] || norm.tainted[lk.Index] {
					c.S.OK("R-cmdident", key, c.Pos(lk.Pos()), "the table of command names is consulted with the normalised name")
				} else {
					c.S.Bad("R-cmdident", key, c.Pos(lk.Pos()), fmt.Sprintf("%s looks a command up in %s with a name that did not go through the case normaliser: EXEC, Multi or WATCH typed in another case is not recognised there although the handler table (normalised lookup) accepts it", fnName(fn), g.Name()))
				}
			}
		}
	}
	if n == 0 {
		c.S.Trivial("R-cmdident", "none", "-", "no comparison of command identity with a constant in handler code")
	}
}

// ---------------------------------------------------------------- R-overflow-idiom

const textOverflow = "R-overflow-idiom: in the signed-overflow test `(a+b > c) != (b > 0)` the comparand c is the other addend a (sibling check of the counter and hash-field increment); any other comparand rejects valid sums or accepts overflowed ones"

func ruleOverflowIdiom(c *Ctx) {
	c.S.Rule("R-overflow-idiom", textOverflow, 0) // vacuity is judged together with R-overflow-signs (either form of the test may be used)
	for _, fn := range c.SrcFuncs() {
		for _, in := range instrsOf(fn) {
			ne, ok := in.(*ssa.BinOp)
			if !ok || ne.Op != token.NEQ {
				continue
			}
			l, ok1 := ne.X.(*ssa.BinOp)
			r, ok2 := ne.Y.(*ssa.BinOp)
			if !ok1 || !ok2 || l.Op != token.GTR || r.Op != token.GTR {
				continue
			}
			// one side: sum > c ; other side: b > 0
			check := func(sumCmp, signCmp *ssa.BinOp) bool {
				sum, ok := sumCmp.X.(*ssa.BinOp)
				if !ok || sum.Op != token.ADD {
					return false
				}
				if z, ok := constInt(signCmp.Y); !ok || z != 0 {
					return false
				}
				b := signCmp.X
				var a ssa.Value
				switch {
				case sameValue(sum.Y, b):
					a = sum.X
				case sameValue(sum.X, b):
					a = sum.Y
				default:
					return false
				}
				key := fnName(fn) + ":signed-add-overflow"
				if sameValue(sumCmp.Y, a) {
					c.S.OK("R-overflow-idiom", key, c.Pos(ne.Pos()), "sum compared with the other addend")
				} else {
					c.S.Bad("R-overflow-idiom", key, c.Pos(ne.Pos()), fmt.Sprintf("%s: the sum is compared with a value that is not the other addend, so the overflow test gives wrong answers for ordinary operands (e.g. old value negative, positive increment)", fnName(fn)))
				}
				return true
			}
			if !check(l, r) {
				check(r, l)
			}
		}
	}
}

// ---------------------------------------------------------------- R-sibling-param

const textSibling = "R-sibling-param: when sibling command handlers call a common helper with different constant values for a parameter, the helper uses that parameter (otherwise the siblings behave identically: HSETNX overwrites like HSET)"

func ruleSiblingParam(c *Ctx) {
	c.S.Rule("R-sibling-param", textSibling, 1)
	hs, err := c.M.Handlers()
	if err != nil {
		c.S.Undecided("R-sibling-param", "handlers", "-", err.Error())
		return
	}
	isHandler := map[*ssa.Function]bool{}
	for _, h := range hs {
		isHandler[h] = true
	}
	type use struct {
		consts map[string]bool
		sites  int
	}
	helperArgs := map[*ssa.Function]map[int]*use{}
	for h := range isHandler {
		for _, in := range instrsOf(h) {
			call, ok := in.(*ssa.Call)
			if !ok {
				continue
			}
			g := call.Call.StaticCallee()
			if g == nil || !c.InPkg(g) || isHandler[g] || len(g.Params) != len(call.Call.Args) {
				continue
			}
			for i, a := range call.Call.Args {
				cst, ok := stripValue(a).(*ssa.Const)
				if !ok || cst.Value == nil {
					continue
				}
				if helperArgs[g] == nil {
					helperArgs[g] = map[int]*use{}
				}
				u := helperArgs[g][i]
				if u == nil {
					u = &use{consts: map[string]bool{}}
					helperArgs[g][i] = u
				}
				u.consts[cst.Value.ExactString()] = true
				u.sites++
			}
		}
	}
	var helpers []*ssa.Function
	for g := range helperArgs {
		helpers = append(helpers, g)
	}
	sort.Slice(helpers, func(i, j int) bool { return fnName(helpers[i]) < fnName(helpers[j]) })
	n := 0
	for _, g := range helpers {
		for i, u := range helperArgs[g] {
			if len(u.consts) < 2 {
				continue
			}
			n++
			prm := g.Params[i]
			key := fmt.Sprintf("%s:%s", fnName(g), prm.Name())
			used := false
			for _, r := range referrers(prm) {
				if _, dbg := r.(*ssa.DebugRef); !dbg {
					used = true
				}
			}
			if used {
				c.S.OK("R-sibling-param", key, c.Pos(g.Pos()), fmt.Sprintf("parameter receives %d distinct constants from sibling handlers and is used", len(u.consts)))
			} else {
				c.S.Bad("R-sibling-param", key, c.Pos(g.Pos()), fmt.Sprintf("%s receives %d distinct constants for %q from sibling handlers but never uses it: the siblings cannot differ", fnName(g), len(u.consts), prm.Name()))
			}
		}
	}
	if n == 0 {
		c.S.Trivial("R-sibling-param", "none", "-", "no helper is called by sibling handlers with differing constants")
	}
}

// ---------------------------------------------------------------- R-C03-detached

const textDetached = "R-C03-detached: in a function that works on two lists looked up by two different key parameters, a list that may just have been removed from the keyspace (an unlink that deletes the key when the list becomes empty) is not mutated afterwards unless the two keys were compared: with source = destination and one element the push would go to a detached list and the element is lost"

func ruleDetached(c *Ctx) {
	c.S.Rule("R-C03-detached", textDetached, 1)
	mm := c.M.Muts()
	// helpers that may remove the key of the list they are given: contain a keyspace remove
	mayDetach := map[*ssa.Function]bool{}
	pushes := map[*ssa.Function]bool{}
	fCount := c.Field("storeList", "count")
	for _, fn := range c.SrcFuncs() {
		for _, s := range mm.sites[fn] {
			if s.Kind == "dict-remove" && s.Keyspace {
				// only helpers that take the list as a parameter
				for _, p := range fn.Params {
					if c.isPkgType(p.Type(), "storeList") {
						mayDetach[fn] = true
					}
				}
			}
			if s.Field == fCount && !s.Shrinks {
				for _, p := range fn.Params {
					if c.isPkgType(p.Type(), "storeList") {
						pushes[fn] = true
					}
				}
			}
		}
	}
	if os.Getenv("RD_DEBUG") != "" {
		for f := range mayDetach {
			fmt.Println("mayDetach", fnName(f))
		}
		for f := range pushes {
			fmt.Println("pushes", fnName(f))
		}
	}
	n := 0
	for _, fn := range c.SrcFuncs() {
		// list lookups: calls returning *storeList with a string key argument that is a parameter
		type lk struct {
			call *ssa.Call
			key  ssa.Value
		}
		var lks []lk
		for _, in := range instrsOf(fn) {
			call, ok := in.(*ssa.Call)
			if !ok || call.Call.StaticCallee() == nil {
				continue
			}
			res := call.Call.Signature().Results()
			if res.Len() == 0 || !c.isPkgType(res.At(0).Type(), "storeList") {
				continue
			}
			for _, a := range call.Call.Args {
				if pr, ok := a.(*ssa.Parameter); ok {
					if b, ok := pr.Type().Underlying().(*types.Basic); ok && b.Kind() == types.String {
						lks = append(lks, lk{call, pr})
					}
				}
			}
		}
		if len(lks) < 2 {
			continue
		}
		listOf := func(v ssa.Value) *ssa.Call {
			for _, l := range lks {
				if derivesFrom(v, l.call, 0) {
					return l.call
				}
			}
			return nil
		}
		keyOf := func(call *ssa.Call) ssa.Value {
			for _, l := range lks {
				if l.call == call {
					return l.key
				}
			}
			return nil
		}
		compared := func(a, b ssa.Value) bool {
			for _, in := range instrsOf(fn) {
				if bo, ok := in.(*ssa.BinOp); ok && (bo.Op == token.EQL || bo.Op == token.NEQ) {
					if (bo.X == a && bo.Y == b) || (bo.X == b && bo.Y == a) {
						return true
					}
				}
			}
			return false
		}
		for _, in := range instrsOf(fn) {
			d, ok := in.(*ssa.Call)
			if !ok || !mayDetach[d.Call.StaticCallee()] {
				continue
			}
			var dl *ssa.Call
			for _, a := range d.Call.Args {
				if !c.isPkgType(a.Type(), "storeList") {
					continue
				}
				if l := listOf(a); l != nil {
					dl = l
				}
			}
			if dl == nil {
				continue
			}
			// pushes reachable after d on another lookup's list
			after := reachableFrom(d.Block(), nil)
			for _, in2 := range instrsOf(fn) {
				pu, ok := in2.(*ssa.Call)
				if !ok || !pushes[pu.Call.StaticCallee()] {
					continue
				}
				if !(after[pu.Block()] && (pu.Block() != d.Block() || instrIndex(pu) > instrIndex(d))) {
					continue
				}
				var pl *ssa.Call
				for _, a := range pu.Call.Args {
					if !c.isPkgType(a.Type(), "storeList") {
						continue
					}
					if l := listOf(a); l != nil {
						pl = l
					}
				}
				if pl == nil || pl == dl {
					continue
				}
				k1, k2 := keyOf(dl), keyOf(pl)
				if k1 == k2 {
					continue
				}
				n++
				key := fmt.Sprintf("%s:%s-then-%s", fnName(fn), calleeName(d), calleeName(pu))
				if compared(k1, k2) {
					c.S.OK("R-C03-detached", key, c.Pos(pu.Pos()), "the two keys are compared in this function")
				} else {
					c.S.Bad("R-C03-detached", key, c.Pos(pu.Pos()), fmt.Sprintf("%s unlinks from the list of one key (which deletes that key when it becomes empty) and afterwards pushes onto the list of another key parameter without ever comparing the keys: with both keys equal and one element the element is pushed onto a list that is no longer in the keyspace", fnName(fn)))
				}
			}
		}
	}
	if n == 0 {
		c.S.Trivial("R-C03-detached", "none", "-", "no function unlinks from one looked-up list and then pushes onto another")
	}
}

// ---------------------------------------------------------------- A5-readonly

const textReadonly = "A5-readonly: a command flagged `readonly` in the embedded command info reaches no mutation site of database state (set algebra never modifies its operands, reads never change a value); a command flagged `write` reaches at least one"

var readonlyExempt = map[string]string{
	"bitfield_ro": "shares the BITFIELD handler; its write path needs SET/INCRBY blocks, which the bitfield_ro grammar cannot produce (A7 verifies which keys each token can produce)",
}

func ruleReadonly(scope func(tok string, cmd *GCmd) bool) func(*Ctx) {
	return func(c *Ctx) {
		c.S.Rule("A5-readonly", textReadonly, 10)
		g, err := c.M.Grammar()
		if err != nil {
			c.S.Undecided("A5-readonly", "grammar", "-", err.Error())
			return
		}
		hs, err := c.M.Handlers()
		if err != nil {
			c.S.Undecided("A5-readonly", "handlers", "-", err.Error())
			return
		}
		mm := c.M.Muts()
		toks, _ := c.M.HandlerTokens()
		for _, tok := range toks {
			cmd := g.Cmds[tok]
			if cmd == nil || !cmd.HasInfo || (scope != nil && !scope(tok, cmd)) {
				continue
			}
			h := hs[tok]
			var first *MutSite
			cnt := 0
			for f := range c.M.ReachRO(h) {
				for _, s := range mm.sites[f] {
					cnt++
					if first == nil || s.key() < first.key() {
						first = s
					}
				}
			}
			switch {
			case cmd.hasFlag("readonly"):
				if why, ok := readonlyExempt[tok]; ok {
					c.S.Trivial("A5-readonly", tok, c.Pos(h.Pos()), "exempt: "+why)
				} else if cnt == 0 {
					c.S.OK("A5-readonly", tok, c.Pos(h.Pos()), "no mutation site reachable from the handler")
				} else {
					c.S.Bad("A5-readonly", tok, c.Pos(c.InstrPos(first.In)), fmt.Sprintf("read-only command %s reaches %d mutation site(s) of database state, e.g. %s in %s", tok, cnt, first.What, fnName(first.Fn)))
				}
			case cmd.hasFlag("write"):
				if cnt > 0 {
					c.S.OK("A5-readonly", tok, c.Pos(h.Pos()), fmt.Sprintf("write command reaches %d mutation site(s)", cnt))
				} else {
					c.S.Bad("A5-readonly", tok, c.Pos(h.Pos()), fmt.Sprintf("command %s is flagged write but its handler reaches no mutation site: it cannot have its documented effect", tok))
				}
			}
		}
	}
}

// ---------------------------------------------------------------- R-payload-agree / R-ctor-agree

const textPayload = "R-payload-agree: wherever a function branches on a FLAG_KEY_TYPE_* constant and type-asserts the key's payload, the asserted Go type is the type the producers store next to that flag (the accessors, clone, save and load agree) — a mismatch is a panic on COPY/save of that key type"

func rulePayloadAgree(c *Ctx) {
	c.S.Rule("R-payload-agree", textPayload, 8)
	p := c.Prog
	fFlags, fPayload := p.Field("storeKey", "flags"), p.Field("storeKey", "payload")
	if fFlags == nil || fPayload == nil {
		c.S.Undecided("R-payload-agree", "anchors", "-", "storeKey.flags / payload not found")
		return
	}
	// canonical: in one function, same base object: store flags=CONST and payload=X
	canon := map[string]map[string]bool{} // flag const -> set of types
	constName := func(v ssa.Value) string {
		cst, ok := stripValue(v).(*ssa.Const)
		if !ok || cst.Value == nil {
			return ""
		}
		// find a package constant with this value and type bitflags named FLAG_KEY_TYPE_*
		sc := p.Pkg.Types.Scope()
		for _, n := range sc.Names() {
			if !strings.HasPrefix(n, "FLAG_KEY_TYPE_") {
				continue
			}
			if k, ok := sc.Lookup(n).(*types.Const); ok && k.Val().ExactString() == cst.Value.ExactString() {
				return n
			}
		}
		return ""
	}
	for _, fn := range c.SrcFuncs() {
		flagOf := map[ssa.Value]string{}
		for _, in := range instrsOf(fn) {
			if st, ok := isStoreTo(in, fFlags); ok {
				if n := constName(st.Val); n != "" {
					flagOf[st.Addr.(*ssa.FieldAddr).X] = n
				}
			}
		}
		for _, in := range instrsOf(fn) {
			if st, ok := isStoreTo(in, fPayload); ok {
				base := st.Addr.(*ssa.FieldAddr).X
				if n := flagOf[base]; n != "" {
					v := st.Val
					if mi, ok := v.(*ssa.MakeInterface); ok {
						v = mi.X
					}
					if canon[n] == nil {
						canon[n] = map[string]bool{}
					}
					canon[n][typeString(v.Type())] = true
				}
			}
		}
	}
	if len(canon) < 4 {
		c.S.Undecided("R-payload-agree", "producers", "-", fmt.Sprintf("canonical payload types found for %d key types only", len(canon)))
	}
	// producers: the type flag written next to a payload is a FLAG_KEY_TYPE_* constant, or the flag of the key object
	// that is being copied (clone), or comes from the snapshot loader (which branches on it, R-C19-records) — never a
	// value computed from a request: the payload stored beside it has one fixed Go type, and every consumer trusts the flag
	for _, fn := range c.SrcFuncs() {
		if loaderExempt(fn) {
			continue
		}
		k := 0
		for _, in := range instrsOf(fn) {
			st, ok := isStoreTo(in, fFlags)
			if !ok {
				continue
			}
			k++
			key := fmt.Sprintf("%s:flag-producer#%d", fnName(fn), k)
			v := stripValue(st.Val)
			if constName(v) != "" {
				c.S.OK("R-payload-agree", key, c.Pos(st.Pos()), "the key type is the constant "+constName(v))
				continue
			}
			if _, f := loadedField(v); f == fFlags {
				c.S.OK("R-payload-agree", key, c.Pos(st.Pos()), "the key type is copied from the key object being duplicated")
				continue
			}
			if _, isParam := v.(*ssa.Parameter); isParam {
				// judged at the call sites: every argument a constant or a copied flag
				okAll, n := true, 0
				idx := -1
				for i, q := range fn.Params {
					if ssa.Value(q) == v {
						idx = i
					}
				}
				if node := c.CG.Nodes[fn]; node != nil && idx >= 0 {
					for _, e := range node.In {
						args := e.Site.Common().Args
						if e.Site.Common().IsInvoke() || idx >= len(args) {
							okAll = false
							continue
						}
						n++
						a := stripValue(args[idx])
						if _, f := loadedField(a); constName(a) == "" && f != fFlags {
							okAll = false
						}
					}
				}
				if okAll && n > 0 {
					c.S.OK("R-payload-agree", key, c.Pos(st.Pos()), "every caller passes a key-type constant")
					continue
				}
			}
			c.S.Bad("R-payload-agree", key, c.Pos(st.Pos()), fmt.Sprintf("%s sets a key's type flag to a value that is neither a FLAG_KEY_TYPE_* constant nor the flag of the object being copied (%T): the payload stored beside it has a fixed Go type, so a flag chosen by the request makes every later command of the claimed type assert the wrong payload type and panic", fnName(fn), v))
		}
	}
	// consumers: TypeAssert(load payload) dominated by the true edge of a flag test with a constant
	for _, fn := range c.SrcFuncs() {
		ord := map[string]int{}
		for _, in := range instrsOf(fn) {
			ta, ok := in.(*ssa.TypeAssert)
			if !ok {
				continue
			}
			if _, f := loadedField(ta.X); f != fPayload {
				continue
			}
			// the flag tests whose true edge every way into the assertion passes (nearest test on each way): one test in
			// the common case, several for `case hasFlag(HASH), hasFlag(SET):` where one Go type serves both
			flagTest := func(d *ssa.BasicBlock) string {
				ifi, ok := d.Instrs[len(d.Instrs)-1].(*ssa.If)
				if !ok {
					return ""
				}
				call, ok := ifi.Cond.(*ssa.Call)
				if !ok || len(call.Call.Args) != 2 {
					return ""
				}
				if _, f := loadedField(call.Call.Args[0]); f != fFlags {
					return ""
				}
				return constName(call.Call.Args[1])
			}
			flagSet := map[string]bool{}
			unflaggedWay := false
			seenB := map[*ssa.BasicBlock]bool{}
			var back func(b *ssa.BasicBlock)
			back = func(b *ssa.BasicBlock) {
				if seenB[b] {
					return
				}
				seenB[b] = true
				if len(b.Preds) == 0 {
					unflaggedWay = true
					return
				}
				for _, d := range b.Preds {
					if n := flagTest(d); n != "" && d.Succs[0] == b && d.Succs[1] != b {
						flagSet[n] = true
						continue
					}
					back(d)
				}
			}
			back(ta.Block())
			var flags []string
			for n := range flagSet {
				flags = append(flags, n)
			}
			sort.Strings(flags)
			flag := strings.Join(flags, "+")
			T := typeString(ta.AssertedType)
			if flag == "" || unflaggedWay {
				ord["unflagged"]++
				key := fmt.Sprintf("%s:unflagged .(%s)#%d", fnName(fn), T, ord["unflagged"])
				c.S.Bad("R-payload-agree", key, c.Pos(ta.Pos()), fmt.Sprintf("%s asserts payload.(%s) without a dominating test of the key's type flag: hashes and sets share one Go type, so the type of the key is not established (set commands would work on hashes and vice versa)", fnName(fn), T))
				continue
			}
			ord[flag]++
			key := fmt.Sprintf("%s:%s", fnName(fn), flag)
			if ord[flag] > 1 {
				key += fmt.Sprintf("#%d", ord[flag])
			}
			if len(flags) > 1 {
				allAgree := true
				for _, n := range flags {
					if !canon[n][T] {
						allAgree = false
					}
				}
				if allAgree {
					c.S.OK("R-payload-agree", key, c.Pos(ta.Pos()), "asserts "+T+", the type producers store for each of "+flag)
				} else {
					c.S.Bad("R-payload-agree", key, c.Pos(ta.Pos()), fmt.Sprintf("%s asserts payload.(%s) on a branch shared by %s, but producers do not store that type for all of them: the assertion panics for keys of the other type", fnName(fn), T, flag))
				}
				continue
			}
			if canon[flag][T] {
				c.S.OK("R-payload-agree", key, c.Pos(ta.Pos()), "asserts "+T+", the type producers store for "+flag)
			} else {
				var want []string
				for t := range canon[flag] {
					want = append(want, t)
				}
				sort.Strings(want)
				c.S.Bad("R-payload-agree", key, c.Pos(ta.Pos()), fmt.Sprintf("%s asserts payload.(%s) under %s but producers store %s: the assertion panics for every key of that type", fnName(fn), T, flag, strings.Join(want, "/")))
			}
		}
	}
}

const textCtor = "R-ctor-agree: every function that builds a list by allocating nodes in a loop (clone, load) sets the complete field set of the doubly linked list — node prev, next, element and list head, tail, count; a constructor that omits one yields a list other commands see as empty or cannot traverse"

func ruleCtorAgree(c *Ctx) {
	c.S.Rule("R-ctor-agree", textCtor, 2)
	p := c.Prog
	need := []string{"listItem.prev", "listItem.next", "listItem.element", "storeList.head", "storeList.tail", "storeList.count"}
	n := 0
	// functions that allocate a list node, directly or in a static callee (helpers such as pushBack)
	var allocsNode func(fn *ssa.Function, depth int) bool
	allocsNode = func(fn *ssa.Function, depth int) bool {
		if fn == nil || fn.Blocks == nil || depth > 3 {
			return false
		}
		for _, in := range instrsOf(fn) {
			if al, ok := in.(*ssa.Alloc); ok && p.isPkgType(al.Type(), "listItem") {
				return true
			}
			if call, ok := in.(ssa.CallInstruction); ok {
				if g := call.Common().StaticCallee(); g != nil && p.InPkg(g) && g != fn && allocsNode(g, depth+1) {
					return true
				}
			}
		}
		return false
	}
	var storesOf func(fn *ssa.Function, have map[string]bool, depth int)
	storesOf = func(fn *ssa.Function, have map[string]bool, depth int) {
		if fn == nil || fn.Blocks == nil || depth > 3 {
			return
		}
		for _, in := range instrsOf(fn) {
			if st, ok := in.(*ssa.Store); ok {
				if fa, ok := st.Addr.(*ssa.FieldAddr); ok {
					f := fieldOf(fa)
					have[p.ownerName(f)+"."+f.Name()] = true
				}
				// a store through a cursor that holds the address of a link (`link := &l.head; *link = item; link = &item.next`)
				if _, isPhi := st.Addr.(*ssa.Phi); isPhi {
					for _, leaf := range phiLeaves(st.Addr, map[ssa.Value]bool{}) {
						if fa, ok := leaf.(*ssa.FieldAddr); ok {
							f := fieldOf(fa)
							have[p.ownerName(f)+"."+f.Name()] = true
						}
					}
				}
				// a store through the address a helper handed back (`*list.nextSlot(last) = item`): the fields whose
				// addresses that helper can return
				if sl, ok := st.Addr.(*ssa.Call); ok {
					if g := sl.Call.StaticCallee(); g != nil && p.InPkg(g) {
						for _, gb := range g.Blocks {
							if ret, ok := gb.Instrs[len(gb.Instrs)-1].(*ssa.Return); ok && len(ret.Results) == 1 {
								for _, leaf := range phiLeaves(ret.Results[0], map[ssa.Value]bool{}) {
									if fa, ok := leaf.(*ssa.FieldAddr); ok {
										f := fieldOf(fa)
										have[p.ownerName(f)+"."+f.Name()] = true
									}
								}
							}
						}
					}
				}
			}
			if call, ok := in.(ssa.CallInstruction); ok && depth < 3 {
				if g := call.Common().StaticCallee(); g != nil && p.InPkg(g) && g != fn {
					// only helpers that work on the list (take a list or a node)
					takes := false
					for _, a := range call.Common().Args {
						if p.isPkgType(a.Type(), "listItem") || p.isPkgType(a.Type(), "storeList") {
							takes = true
						}
					}
					if takes {
						storesOf(g, have, depth+1)
					}
				}
			}
		}
	}
	for _, fn := range c.SrcFuncs() {
		// allocates a listItem inside a loop — itself, or (when it also makes the list header) through a helper it calls in the loop?
		inLoop := false
		makesHeader := false
		for _, in := range instrsOf(fn) {
			if al, ok := in.(*ssa.Alloc); ok && p.isPkgType(al.Type(), "storeList") {
				makesHeader = true
			}
		}
		for _, in := range instrsOf(fn) {
			if al, ok := in.(*ssa.Alloc); ok && p.isPkgType(al.Type(), "listItem") {
				if reachableFrom(al.Block(), nil)[al.Block()] && blockInCycle(al.Block()) {
					inLoop = true
				}
			}
			if call, ok := in.(ssa.CallInstruction); ok && makesHeader && blockInCycle(in.Block()) {
				if g := call.Common().StaticCallee(); g != nil && p.InPkg(g) && g != fn && allocsNode(g, 1) {
					inLoop = true
				}
			}
		}
		if !inLoop {
			continue
		}
		n++
		have := map[string]bool{}
		storesOf(fn, have, 0)
		var missing []string
		for _, f := range need {
			if !have[f] {
				missing = append(missing, f)
			}
		}
		key := fnName(fn) + ":list-constructor"
		if len(missing) == 0 {
			c.S.OK("R-ctor-agree", key, c.Pos(fn.Pos()), "sets prev, next, element, head, tail, count")
		} else {
			c.S.Bad("R-ctor-agree", key, c.Pos(fn.Pos()), fmt.Sprintf("%s builds a list node by node but never sets %s", fnName(fn), strings.Join(missing, ", ")))
		}
	}
	if n == 0 {
		c.S.Undecided("R-ctor-agree", "none", "-", "no function builds a list in a loop")
	}
}

func blockInCycle(b *ssa.BasicBlock) bool {
	for _, s := range b.Succs {
		if s == b || reachableFrom(s, nil)[b] {
			return true
		}
	}
	return false
}

// ---------------------------------------------------------------- R-C02-msetnx-phase

const textMsetnx = "R-C02-msetnx-phase: in the function that implements the all-or-nothing multi-key conditional write, no key creation can be followed (on any control-flow path) by the existence check that makes the command reply 0: the check phase strictly precedes the write phase"

func ruleMsetnxPhase(c *Ctx) {
	c.S.Rule("R-C02-msetnx-phase", textMsetnx, 1)
	hs, err := c.M.Handlers()
	if err != nil || hs["msetnx"] == nil {
		c.S.Undecided("R-C02-msetnx-phase", "handler", "-", "no msetnx handler")
		return
	}
	lm := c.M.Locks()
	n := 0
	// key creators and existence checks, directly or through a helper (installStringUnlocked → newStoreKeyUnlocked)
	var creator func(g *ssa.Function, d int) bool
	creator = func(g *ssa.Function, d int) bool {
		if g == nil || g.Blocks == nil || d > 3 || !c.InPkg(g) {
			return false
		}
		res := g.Signature.Results()
		if res.Len() == 1 && c.isPkgType(res.At(0).Type(), "storeKey") && returnsFreshAlloc(g) {
			return true
		}
		for _, in := range instrsOf(g) {
			if call, ok := in.(*ssa.Call); ok && call.Call.StaticCallee() != g && creator(call.Call.StaticCallee(), d+1) {
				return true
			}
		}
		return false
	}
	var lookup func(g *ssa.Function, d int) bool
	lookup = func(g *ssa.Function, d int) bool {
		if g == nil || g.Blocks == nil || d > 2 || !c.InPkg(g) || creator(g, 0) {
			return false
		}
		res := g.Signature.Results()
		if res.Len() == 2 && c.isPkgType(res.At(0).Type(), "storeKey") {
			return true
		}
		if d == 0 && !(res.Len() == 1 && types.Identical(res.At(0).Type(), types.Typ[types.Bool])) {
			return false // a helper counts as a check only when it answers yes/no
		}
		for _, in := range instrsOf(g) {
			if call, ok := in.(*ssa.Call); ok && call.Call.StaticCallee() != g && lookup(call.Call.StaticCallee(), d+1) {
				return true
			}
		}
		return false
	}
	for fn := range c.M.Reach(hs["msetnx"]) {
		var lookups, creates []*ssa.Call
		for _, in := range instrsOf(fn) {
			call, ok := in.(*ssa.Call)
			if !ok || call.Call.StaticCallee() == nil {
				continue
			}
			g := call.Call.StaticCallee()
			if !blockInCycle(call.Block()) {
				// a phase moved into a helper that has the loop (`storeStringsUnlocked(keys, values)`, `anyExists(keys)`)
				if c.InPkg(g) && g.Blocks != nil {
					for _, in2 := range instrsOf(g) {
						c2, ok := in2.(*ssa.Call)
						if !ok || c2.Call.StaticCallee() == nil || !blockInCycle(c2.Block()) {
							continue
						}
						if creator(c2.Call.StaticCallee(), 0) {
							creates = append(creates, call)
						} else if lookup(c2.Call.StaticCallee(), 0) {
							lookups = append(lookups, call)
						}
					}
				}
				continue
			}
			if lookup(g, 0) {
				lookups = append(lookups, call)
			}
			if creator(g, 0) {
				creates = append(creates, call)
			}
		}
		if len(lookups) == 0 || len(creates) == 0 || !lm.LocallyHeld(creates[0]).has(lm.DB) {
			continue
		}
		n++
		key := fnName(fn) + ":check-before-write"
		bad := false
		for _, w := range creates {
			after := reachableFrom(w.Block(), nil)
			for _, r := range lookups {
				if after[r.Block()] {
					bad = true
					c.S.Bad("R-C02-msetnx-phase", key, c.Pos(r.Pos()), fmt.Sprintf("%s: an existence check can run after a key has already been created in the same command: MSETNX may set some keys and then answer 0", fnName(fn)))
				}
			}
		}
		if !bad {
			c.S.OK("R-C02-msetnx-phase", key, c.Pos(fn.Pos()), "no path from a key creation to an existence check")
		}
	}
	if n == 0 {
		c.S.Undecided("R-C02-msetnx-phase", "shape", "-", "no function reachable from MSETNX both checks and creates keys in loops under the lock")
	}
}
