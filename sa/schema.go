package main

// Name anchors that survive a rename.
//
// The rules name the state they talk about (storeKey.expiresAt, clientState.blocked, global clients …). A maintainer
// who renames one of these identifiers changes no behaviour, so a check must not fail on it. frozenSchema (generated
// from the tree the rules were confirmed on: `rdcheck dump schema`) records, for every struct type of the package, its
// field names with their types, and the package-level variables with theirs. When a name is gone:
//   - a type is the struct type that is new (not in the frozen schema) and shares most field names with the recorded one;
//   - a field is the new field of the resolved type with the recorded type (if several fields were renamed at once: the
//     same position among the new fields of that type);
//   - a package-level variable is the new variable of the recorded type.
// Everything is reported under the frozen (canonical) names, so obligation keys and known findings stay stable.
// A name that cannot be resolved this way stays unresolved and the rule that needs it says so.

import (
	"fmt"
	"go/types"
	"sort"
	"strings"

	"golang.org/x/tools/go/ssa"
)

type frozenField struct{ name, typ string }

// frozenNamedT: a named type that is not a struct — its underlying type, the constants declared with it and its methods.
type frozenNamedT struct {
	underlying string
	consts     []string
	methods    []string
}

type schemaRes struct {
	typeOf   map[string]*types.Named // frozen type name -> current type
	canonT   map[*types.Named]string // current type -> frozen name
	fieldOf  map[string]*types.Var   // "T.f" (frozen) -> current field
	canonF   map[*types.Var]string   // current field -> frozen field name
	globalOf map[string]*ssa.Global
	canonG   map[*ssa.Global]string
	notes    []string
}

func (p *Prog) schema() *schemaRes {
	if p.sch != nil {
		return p.sch
	}
	s := &schemaRes{typeOf: map[string]*types.Named{}, canonT: map[*types.Named]string{}, fieldOf: map[string]*types.Var{},
		canonF: map[*types.Var]string{}, globalOf: map[string]*ssa.Global{}, canonG: map[*ssa.Global]string{}}
	p.sch = s
	sc := p.Pkg.Types.Scope()
	structOf := func(name string) (*types.Named, *types.Struct) {
		tn, ok := sc.Lookup(name).(*types.TypeName)
		if !ok {
			return nil, nil
		}
		n, _ := tn.Type().(*types.Named)
		if n == nil {
			return nil, nil
		}
		st, _ := n.Underlying().(*types.Struct)
		return n, st
	}
	// --- types
	var newStructs []string
	for _, n := range sc.Names() {
		if _, st := structOf(n); st != nil {
			if _, frozen := frozenSchema[n]; !frozen {
				newStructs = append(newStructs, n)
			}
		}
	}
	var frozenNames []string
	for n := range frozenSchema {
		frozenNames = append(frozenNames, n)
	}
	sort.Strings(frozenNames)
	taken := map[string]bool{}
	for _, fnm := range frozenNames {
		if n, st := structOf(fnm); st != nil {
			s.typeOf[fnm] = n
			s.canonT[n] = fnm
			continue
		}
		// gone: the new struct that shares most field names
		best, bestScore := "", 0.0
		want := frozenSchema[fnm]
		for _, cand := range newStructs {
			if taken[cand] {
				continue
			}
			_, st := structOf(cand)
			have := map[string]bool{}
			for i := 0; i < st.NumFields(); i++ {
				have[st.Field(i).Name()] = true
			}
			hit := 0
			for _, f := range want {
				if have[f.name] {
					hit++
				}
			}
			score := 0.0
			if len(want) > 0 {
				score = float64(hit) / float64(len(want))
			}
			if st.NumFields() == 0 && len(want) == 0 {
				score = 0 // empty structs are not matched by shape
			}
			if score > bestScore {
				best, bestScore = cand, score
			}
		}
		if best != "" && bestScore >= 0.6 {
			n, _ := structOf(best)
			taken[best] = true
			s.typeOf[fnm] = n
			s.canonT[n] = fnm
			s.notes = append(s.notes, fmt.Sprintf("type %s is now %s (matched by its fields)", fnm, best))
		}
	}
	// --- named types that are not structs (status enums, string kinds, function types): the new type with the same
	// underlying type that shares most constants and methods with the recorded one
	namedOf := func(name string) *types.Named {
		tn, ok := sc.Lookup(name).(*types.TypeName)
		if !ok || tn.IsAlias() {
			return nil
		}
		n, _ := tn.Type().(*types.Named)
		return n
	}
	describe := func(n *types.Named) (string, map[string]bool) {
		feat := map[string]bool{}
		for i := 0; i < n.NumMethods(); i++ {
			feat["m:"+n.Method(i).Name()] = true
		}
		for _, cn := range sc.Names() {
			if k, ok := sc.Lookup(cn).(*types.Const); ok && types.Identical(k.Type(), n) {
				feat["c:"+cn] = true
			}
		}
		return typeString(n.Underlying()), feat
	}
	var newNamed []string
	for _, nm := range sc.Names() {
		if n := namedOf(nm); n != nil {
			if _, isStruct := n.Underlying().(*types.Struct); isStruct {
				continue
			}
			if _, frozen := frozenNamed[nm]; !frozen {
				newNamed = append(newNamed, nm)
			}
		}
	}
	var fnn []string
	for nm := range frozenNamed {
		fnn = append(fnn, nm)
	}
	sort.Strings(fnn)
	for _, fnm := range fnn {
		if n := namedOf(fnm); n != nil {
			s.typeOf[fnm] = n
			s.canonT[n] = fnm
			continue
		}
		rec := frozenNamed[fnm]
		want := map[string]bool{}
		for _, c := range rec.consts {
			want["c:"+c] = true
		}
		for _, m := range rec.methods {
			want["m:"+m] = true
		}
		best, bestHit, ties := "", 0, 0
		for _, cand := range newNamed {
			if taken[cand] {
				continue
			}
			u, feat := describe(namedOf(cand))
			if u != rec.underlying {
				continue
			}
			hit := 0
			for f := range want {
				if feat[f] {
					hit++
				}
			}
			if hit > bestHit {
				best, bestHit, ties = cand, hit, 0
			} else if hit == bestHit && hit > 0 {
				ties++
			}
		}
		if len(want) == 0 {
			// nothing but the underlying type to go by (a function type): the only new type with it
			var same []string
			for _, cand := range newNamed {
				if u, _ := describe(namedOf(cand)); u == rec.underlying && !taken[cand] {
					same = append(same, cand)
				}
			}
			best, ties, bestHit = "", 0, 0
			if len(same) == 1 {
				best = same[0]
			}
		}
		if best != "" && ties == 0 && bestHit*10 >= len(want)*6 {
			n := namedOf(best)
			taken[best] = true
			s.typeOf[fnm] = n
			s.canonT[n] = fnm
			s.notes = append(s.notes, fmt.Sprintf("type %s is now %s (matched by its constants and methods)", fnm, best))
		}
	}
	// type strings with renamed types mapped back to their frozen names
	canonTypeString := func(t types.Type) string {
		str := typeString(t)
		for n, fnm := range s.canonT {
			if n.Obj().Name() != fnm {
				str = replaceIdent(str, n.Obj().Name(), fnm)
			}
		}
		return str
	}
	// --- fields
	for _, fnm := range frozenNames {
		n := s.typeOf[fnm]
		if n == nil {
			continue
		}
		st := n.Underlying().(*types.Struct)
		cur := map[string]*types.Var{}
		for i := 0; i < st.NumFields(); i++ {
			cur[st.Field(i).Name()] = st.Field(i)
		}
		frozenHas := map[string]bool{}
		for _, f := range frozenSchema[fnm] {
			frozenHas[f.name] = true
		}
		// gone and new fields, grouped by type, in declaration order
		goneByType := map[string][]string{}
		for _, f := range frozenSchema[fnm] {
			if v := cur[f.name]; v != nil {
				s.fieldOf[fnm+"."+f.name] = v
				s.canonF[v] = f.name
			} else {
				goneByType[f.typ] = append(goneByType[f.typ], f.name)
			}
		}
		newByType := map[string][]*types.Var{}
		for i := 0; i < st.NumFields(); i++ {
			v := st.Field(i)
			if !frozenHas[v.Name()] {
				ts := canonTypeString(v.Type())
				newByType[ts] = append(newByType[ts], v)
			}
		}
		for ts, gone := range goneByType {
			nw := newByType[ts]
			if len(nw) != len(gone) {
				continue // ambiguous: leave unresolved
			}
			for i, g := range gone {
				s.fieldOf[fnm+"."+g] = nw[i]
				s.canonF[nw[i]] = g
				s.notes = append(s.notes, fmt.Sprintf("field %s.%s is now %s (matched by its type %s)", fnm, g, nw[i].Name(), ts))
			}
		}
	}
	// --- package-level variables
	curG := map[string]*ssa.Global{}
	for name, m := range p.SPkg.Members {
		if g, ok := m.(*ssa.Global); ok {
			curG[name] = g
		}
	}
	goneByType := map[string][]string{}
	var gnames []string
	for name := range frozenGlobals {
		gnames = append(gnames, name)
	}
	sort.Strings(gnames)
	for _, name := range gnames {
		if g := curG[name]; g != nil {
			s.globalOf[name] = g
			s.canonG[g] = name
		} else {
			goneByType[frozenGlobals[name]] = append(goneByType[frozenGlobals[name]], name)
		}
	}
	newByType := map[string][]*ssa.Global{}
	var cnames []string
	for name := range curG {
		cnames = append(cnames, name)
	}
	sort.Strings(cnames)
	for _, name := range cnames {
		if _, frozen := frozenGlobals[name]; !frozen && !strings.HasPrefix(name, "init$") {
			ts := canonTypeString(deref(curG[name].Type()))
			newByType[ts] = append(newByType[ts], curG[name])
		}
	}
	for ts, gone := range goneByType {
		nw := newByType[ts]
		if len(nw) != len(gone) || len(gone) != 1 {
			continue
		}
		s.globalOf[gone[0]] = nw[0]
		s.canonG[nw[0]] = gone[0]
		s.notes = append(s.notes, fmt.Sprintf("package-level %s is now %s (matched by its type %s)", gone[0], nw[0].Name(), ts))
	}
	sort.Strings(s.notes)
	return s
}

// replaceIdent replaces whole-identifier occurrences of old in a type string.
func replaceIdent(s, old, new string) string {
	var b strings.Builder
	i := 0
	isId := func(c byte) bool {
		return c == '_' || (c >= 'a' && c <= 'z') || (c >= 'A' && c <= 'Z') || (c >= '0' && c <= '9')
	}
	for i < len(s) {
		if strings.HasPrefix(s[i:], old) && (i == 0 || !isId(s[i-1])) && (i+len(old) == len(s) || !isId(s[i+len(old)])) {
			b.WriteString(new)
			i += len(old)
			continue
		}
		b.WriteByte(s[i])
		i++
	}
	return b.String()
}

// canonTypeName: the frozen name of a (possibly renamed) package type.
func (p *Prog) canonTypeName(n *types.Named) string {
	if n == nil {
		return ""
	}
	if c, ok := p.schema().canonT[n]; ok {
		return c
	}
	return n.Obj().Name()
}

// canonFieldName: the frozen name of a (possibly renamed) field.
func (p *Prog) canonFieldName(f *types.Var) string {
	if c, ok := p.schema().canonF[f]; ok {
		return c
	}
	return f.Name()
}

// canonGlobalName: the frozen name of a (possibly renamed) package-level variable.
func (p *Prog) canonGlobalName(g *ssa.Global) string {
	if c, ok := p.schema().canonG[g]; ok {
		return c
	}
	return g.Name()
}

// dumpSchema prints schema_frozen.go for the loaded tree.
func dumpSchema(p *Prog) {
	sc := p.Pkg.Types.Scope()
	fmt.Println("package main\n\n// Code generated by `rdcheck dump schema` from the tree the rules were confirmed on. DO NOT EDIT by hand:\n// regenerate after a deliberate change of the analysed package's data model (see schema.go).\n")
	fmt.Println("var frozenSchema = map[string][]frozenField{")
	for _, n := range sc.Names() {
		tn, ok := sc.Lookup(n).(*types.TypeName)
		if !ok {
			continue
		}
		st, ok := tn.Type().Underlying().(*types.Struct)
		if !ok {
			continue
		}
		fmt.Printf("\t%q: {", n)
		for i := 0; i < st.NumFields(); i++ {
			fmt.Printf("{%q, %q}, ", st.Field(i).Name(), typeString(st.Field(i).Type()))
		}
		fmt.Println("},")
	}
	fmt.Println("}\n\nvar frozenNamed = map[string]frozenNamedT{")
	for _, n := range sc.Names() {
		tn, ok := sc.Lookup(n).(*types.TypeName)
		if !ok || tn.IsAlias() {
			continue
		}
		nt, ok := tn.Type().(*types.Named)
		if !ok {
			continue
		}
		if _, isStruct := nt.Underlying().(*types.Struct); isStruct {
			continue
		}
		var consts, methods []string
		for _, cn := range sc.Names() {
			if k, ok := sc.Lookup(cn).(*types.Const); ok && types.Identical(k.Type(), nt) {
				consts = append(consts, cn)
			}
		}
		for i := 0; i < nt.NumMethods(); i++ {
			methods = append(methods, nt.Method(i).Name())
		}
		fmt.Printf("\t%q: {%q, %#v, %#v},\n", n, typeString(nt.Underlying()), consts, methods)
	}
	fmt.Println("}\n\n// frozenFuncs: the functions of the confirmed tree (a known finding whose function has been renamed or whose code has\n// moved into a new helper is still that finding, see KnownFile.match)\nvar frozenFuncs = map[string]bool{")
	var fns []string
	for _, fn := range p.SrcFuncs() {
		fns = append(fns, fnName(fn))
	}
	sort.Strings(fns)
	for i, f := range fns {
		if i == 0 || f != fns[i-1] {
			fmt.Printf("\t%q: true,\n", f)
		}
	}
	fmt.Println("}\n\nvar frozenGlobals = map[string]string{")
	var names []string
	for name, m := range p.SPkg.Members {
		if _, ok := m.(*ssa.Global); ok && !strings.HasPrefix(name, "init$") {
			names = append(names, name)
		}
	}
	sort.Strings(names)
	for _, name := range names {
		g := p.SPkg.Members[name].(*ssa.Global)
		fmt.Printf("\t%q: %q,\n", name, typeString(deref(g.Type())))
	}
	fmt.Println("}")
}
