#!/bin/sh
# wrapper used by MANIFEST commands: (re)build the checker if needed, then run it.
# usage: ./rd check <property> <tier>
set -e
VERIF_DIR="$(cd "$(dirname "$0")" && pwd)"
export VERIF_DIR
export GOFLAGS=-mod=mod GOPROXY=off GOSUMDB=off GOTOOLCHAIN=local GOWORK=off
stale() {
  [ ! -x "$VERIF_DIR/bin/rdcheck" ] || [ -n "$(find "$VERIF_DIR/sa" -name '*.go' -newer "$VERIF_DIR/bin/rdcheck" 2>/dev/null | head -1)" ]
}
build() {
  # built beside the target and moved into place, so that a check started at the same time never runs a half-written file
  if stale; then
    tmp="$VERIF_DIR/bin/rdcheck.$$"
    (cd "$VERIF_DIR/sa" && go build -o "$tmp" .) >&2
    mv -f "$tmp" "$VERIF_DIR/bin/rdcheck"
  fi
}
if stale; then
  mkdir -p "$VERIF_DIR/bin"
  if command -v flock >/dev/null 2>&1; then
    exec 9>"$VERIF_DIR/bin/.build.lock"
    flock 9
    build
    exec 9>&-
  else
    build
  fi
fi
cmd="$1"; shift
case "$cmd" in
  check) exec "$VERIF_DIR/bin/rdcheck" check -property "$1" -tier "${2:-quick}" -root "${REPO_ROOT:-/repo}" ;;
  *) exec "$VERIF_DIR/bin/rdcheck" "$cmd" "$@" ;;
esac
