package main

// Rules for MULTI/EXEC (C09) and WATCH (C10).

import (
	"fmt"
	"go/token"
	"go/types"
	"sort"
	"strings"

	"golang.org/x/tools/go/ssa"
)

// txnAnchors locates the functions the transaction rules talk about, structurally.
type txnAnchors struct {
	fQueue, fWatches *types.Var
	fMode            *types.Var    // a boolean “in MULTI” field, when the queue is a plain slice and its nil-ness is not the mode
	dispatchHandler  *ssa.Function // contains the handler dispatch site
	dispatchSite     ssa.CallInstruction
	prepare          *ssa.Function // decides "queued or run now" and produces the response (appends itself or through appender)
	appender         *ssa.Function // contains the append to *cs.cmdQueue (prepare, or a helper of it that reports `queued`)
	appendCall       *ssa.Call     // the call of appender in prepare (nil when prepare appends itself)
	appendStore      *ssa.Store    // the store of the appended slice
	handlers         map[string]*ssa.Function
	errs             []string
}

func (c *Ctx) txn() *txnAnchors {
	t := &txnAnchors{handlers: map[string]*ssa.Function{}}
	t.fQueue = c.Field("clientState", "cmdQueue")
	t.fWatches = c.Field("clientState", "watches")
	if t.fQueue == nil || t.fWatches == nil {
		t.errs = append(t.errs, "clientState.cmdQueue / clientState.watches not found")
		return t
	}
	lm := c.M.Locks()
	for site := range lm.handlerDynSites {
		t.dispatchHandler = site.Parent()
		t.dispatchSite = site
	}
	if t.dispatchHandler == nil {
		t.errs = append(t.errs, "no handler dispatch site found")
	}
	// prepare: stores through the pointer held in cs.cmdQueue
	for _, fn := range c.SrcFuncs() {
		for _, in := range instrsOf(fn) {
			st, ok := in.(*ssa.Store)
			if !ok {
				continue
			}
			_, f := loadedField(st.Addr)
			if f != t.fQueue {
				// the queue may be a plain slice field: `cs.cmdQueue = append(cs.cmdQueue, ctx)`
				if fa, ok := st.Addr.(*ssa.FieldAddr); ok && fieldOf(fa) == t.fQueue {
					f = t.fQueue
				}
			}
			if f == t.fQueue {
				if call, ok := st.Val.(*ssa.Call); ok {
					if b, ok := call.Call.Value.(*ssa.Builtin); ok && b.Name() == "append" {
						t.prepare, t.appendStore = fn, st
					}
				}
			}
		}
	}
	if t.prepare == nil {
		t.errs = append(t.errs, "no function appends to *clientState.cmdQueue")
	} else {
		t.appender = t.prepare
		hasResp := func(fn *ssa.Function) bool {
			res := fn.Signature.Results()
			for i := 0; i < res.Len(); i++ {
				if _, isIface := res.At(i).Type().Underlying().(*types.Interface); isIface {
					return true
				}
			}
			return false
		}
		// the append may sit in a helper that reports "queued" to the function that builds the response
		for depth := 0; depth < 2 && !hasResp(t.prepare); depth++ {
			node := c.CG.Nodes[t.prepare]
			if node == nil || len(node.In) != 1 {
				break
			}
			call, ok := node.In[0].Site.(*ssa.Call)
			if !ok || call.Call.StaticCallee() != t.prepare {
				break
			}
			if depth == 0 {
				t.appendCall = call
			}
			t.prepare = node.In[0].Caller.Func
		}
		if !hasResp(t.prepare) {
			t.prepare, t.appendCall = t.appender, nil
		}
	}
	hs, err := c.M.Handlers()
	if err != nil {
		t.errs = append(t.errs, err.Error())
		return t
	}
	for _, tok := range []string{"multi", "exec", "discard", "watch", "unwatch"} {
		if hs[tok] == nil {
			t.errs = append(t.errs, "no handler for "+tok)
		} else {
			t.handlers[tok] = hs[tok]
		}
	}
	// the mode: nil-ness of the queue pointer, or — when the queue is not a pointer — the boolean field of the connection
	// that the MULTI handler (with what it calls) sets to true
	if _, isPtr := t.fQueue.Type().Underlying().(*types.Pointer); !isPtr && t.handlers["multi"] != nil {
		for f := range c.M.Reach(t.handlers["multi"]) {
			for _, in := range instrsOf(f) {
				st, ok := in.(*ssa.Store)
				if !ok {
					continue
				}
				fa, ok := st.Addr.(*ssa.FieldAddr)
				if !ok || c.ownerName(fieldOf(fa)) != "clientState" {
					continue
				}
				if k, isC := st.Val.(*ssa.Const); isC && k.Value != nil && k.Value.String() == "true" {
					t.fMode = fieldOf(fa)
				}
			}
		}
	}
	return t
}

// endsMulti: the instruction puts the connection back into normal mode (queue pointer set to nil, or mode flag cleared)
func (t *txnAnchors) endsMulti(in ssa.Instruction) bool {
	if t.fMode != nil {
		st, ok := isStoreTo(in, t.fMode)
		if !ok {
			return false
		}
		k, isC := st.Val.(*ssa.Const)
		return isC && k.Value != nil && k.Value.String() == "false"
	}
	st, ok := isStoreTo(in, t.fQueue)
	if !ok {
		return false
	}
	cst, isC := st.Val.(*ssa.Const)
	return isC && cst.Value == nil
}

// queueNilTest finds `cs.cmdQueue == nil` / `!= nil` in fn and returns the successor taken when the queue is non-nil.
func (t *txnAnchors) queueNonNilSucc(fn *ssa.Function) (*ssa.BasicBlock, *ssa.BasicBlock, *ssa.If) {
	for _, b := range fn.Blocks {
		ifi, ok := b.Instrs[len(b.Instrs)-1].(*ssa.If)
		if !ok {
			continue
		}
		if t.fMode != nil {
			cond, neg := ifi.Cond, false
			for {
				u, ok := cond.(*ssa.UnOp)
				if !ok || u.Op != token.NOT {
					break
				}
				cond, neg = u.X, !neg
			}
			if _, f := loadedField(cond); f == t.fMode {
				if neg {
					return b.Succs[1], b.Succs[0], ifi
				}
				return b.Succs[0], b.Succs[1], ifi
			}
			continue
		}
		bo, ok := ifi.Cond.(*ssa.BinOp)
		if !ok || (bo.Op != token.EQL && bo.Op != token.NEQ) {
			continue
		}
		_, f1 := loadedField(bo.X)
		_, f2 := loadedField(bo.Y)
		if f1 != t.fQueue && f2 != t.fQueue {
			continue
		}
		if bo.Op == token.EQL {
			return b.Succs[1], b.Succs[0], ifi
		}
		return b.Succs[0], b.Succs[1], ifi
	}
	return nil, nil, nil
}

func isStoreTo(in ssa.Instruction, f *types.Var) (*ssa.Store, bool) {
	st, ok := in.(*ssa.Store)
	if !ok {
		return nil, false
	}
	fa, ok := st.Addr.(*ssa.FieldAddr)
	if !ok || fieldOf(fa) != f {
		return nil, false
	}
	return st, true
}

// isErrorReplyStore: stores a respErrorString into a reply's data.
func (c *Ctx) isErrorReplyStore(in ssa.Instruction) bool {
	st, ok := in.(*ssa.Store)
	if !ok {
		return false
	}
	mi, ok := st.Val.(*ssa.MakeInterface)
	if !ok {
		return false
	}
	return c.isPkgType(mi.X.Type(), "respErrorString")
}

const textC09Reset = "R-C09-reset: in the EXEC and DISCARD handlers every path that starts with a non-nil MULTI queue stores nil into cmdQueue and a fresh map into watches before it returns (also on the WATCH-abort path) — afterwards the connection is back in normal mode"

func ruleC09Reset(c *Ctx) {
	c.S.Rule("R-C09-reset", textC09Reset, 4)
	t := c.txn()
	for _, e := range t.errs {
		c.S.Undecided("R-C09-reset", "anchors:"+e, "-", e)
	}
	if len(t.errs) > 0 {
		return
	}
	for _, tok := range []string{"exec", "discard"} {
		h := t.handlers[tok]
		nonNil, _, ifi := t.queueNonNilSucc(h)
		if nonNil == nil {
			c.S.Undecided("R-C09-reset", fnName(h)+":queue-test", c.Pos(h.Pos()), "handler has no test of cmdQueue against nil")
			continue
		}
		events := map[string]Event{
			"cmdQueue=nil": t.endsMulti,
			"watches=fresh-map": func(in ssa.Instruction) bool {
				st, ok := isStoreTo(in, t.fWatches)
				if !ok {
					return false
				}
				_, isMk := st.Val.(*ssa.MakeMap)
				return isMk
			},
		}
		for _, name := range sortedKeys(events) {
			cm := c.M.newCover(events[name])
			key := fnName(h) + ":" + name
			if cm.exitReachableWithoutE(h, nonNil, 0) {
				c.S.Bad("R-C09-reset", key, c.Pos(ifi.Pos()), fmt.Sprintf("%s: some path from the non-nil-queue branch returns without %s (the connection stays in MULTI / keeps its watches)", fnName(h), name))
			} else {
				c.S.OK("R-C09-reset", key, c.Pos(ifi.Pos()), "performed on every path from the non-nil-queue branch to every return")
			}
		}
	}
}

const textC09Queue = "R-C09-queue-only: while a MULTI queue exists, a command other than multi/exec/discard/watch is only appended to the queue: the append site is guarded by `cmdQueue != nil` and by the control table, every return after it carries a non-nil response, and in the dispatcher the handler call is dominated by `response == nil`"

func ruleC09QueueOnly(c *Ctx) {
	c.S.Rule("R-C09-queue-only", textC09Queue, 4)
	t := c.txn()
	for _, e := range t.errs {
		c.S.Undecided("R-C09-queue-only", "anchors:"+e, "-", e)
	}
	if len(t.errs) > 0 {
		return
	}
	// (1) control table
	ctl, ok := c.boolTable("unqueuedCmdTable")
	if !ok {
		c.S.Undecided("R-C09-queue-only", "control-table", "-", "unqueuedCmdTable literal not found")
	} else {
		missing := []string{}
		for _, k := range []string{"multi", "exec", "discard", "watch"} {
			if !ctl[k] {
				missing = append(missing, k)
			}
		}
		extra := []string{}
		for k, v := range ctl {
			if v && k != "multi" && k != "exec" && k != "discard" && k != "watch" {
				extra = append(extra, k)
			}
		}
		if len(missing) > 0 {
			c.S.Bad("R-C09-queue-only", "control-table", c.Pos(c.globalInit("unqueuedCmdTable").Pos()), "transaction control commands missing from the bypass table (they would be queued): "+strings.Join(missing, ","))
		} else if len(extra) > 0 {
			c.S.Bad("R-C09-queue-only", "control-table", c.Pos(c.globalInit("unqueuedCmdTable").Pos()), "commands that must be queued bypass the queue: "+strings.Join(extra, ","))
		} else {
			c.S.Trivial("R-C09-queue-only", "control-table", c.Pos(c.globalInit("unqueuedCmdTable").Pos()), "exactly multi, exec, discard, watch bypass the queue")
		}
	}
	// (2) append guarded by queue != nil (in the function that appends)
	p := t.prepare
	nonNil, _, _ := t.queueNonNilSucc(t.appender)
	ab := t.appendStore.Block()
	if nonNil == nil || !(nonNil == ab || nonNil.Dominates(ab)) {
		c.S.Bad("R-C09-queue-only", fnName(p)+":append-guard", c.Pos(t.appendStore.Pos()), "the queue append is not dominated by the `cmdQueue != nil` branch")
	} else {
		c.S.OK("R-C09-queue-only", fnName(p)+":append-guard", c.Pos(t.appendStore.Pos()), "append dominated by the non-nil-queue branch")
	}
	// (3) every return reachable from the append carries a non-nil response
	respIdx := -1
	res := p.Signature.Results()
	for i := 0; i < res.Len(); i++ {
		if _, isIface := res.At(i).Type().Underlying().(*types.Interface); isIface {
			respIdx = i
		}
	}
	if respIdx < 0 {
		c.S.Undecided("R-C09-queue-only", fnName(p)+":response", c.Pos(p.Pos()), "no interface-typed response result")
	} else {
		bad := false
		// where the response must be non-nil from: the append itself, or — when a helper appends and reports it — the side
		// of the branch on the helper's result that corresponds to "appended"
		from := ab
		if t.appendCall != nil {
			from = nil
			fixed := boolResultsAfter(t.appendStore)
			if len(fixed) == 1 {
				for idx, val := range fixed {
					var res ssa.Value = t.appendCall
					if t.appendCall.Call.Signature().Results().Len() > 1 {
						res = nil
						for _, r := range referrers(t.appendCall) {
							if ex, ok := r.(*ssa.Extract); ok && ex.Index == idx {
								res = ex
							}
						}
					}
					for _, b := range p.Blocks {
						ifi, ok := b.Instrs[len(b.Instrs)-1].(*ssa.If)
						if !ok || res == nil {
							continue
						}
						cond, neg := ifi.Cond, false
						if u, isU := cond.(*ssa.UnOp); isU && u.Op == token.NOT {
							cond, neg = u.X, true
						}
						if cond == res {
							side := 0
							if val == neg {
								side = 1
							}
							from = b.Succs[side]
						}
					}
				}
			}
			if from == nil {
				c.S.Bad("R-C09-queue-only", fnName(p)+":queued-reply", c.Pos(t.appendCall.Pos()), "the helper that appends to the queue does not report it by a fixed boolean that the caller branches on: a queued command can also be executed")
				bad = true
				from = t.appendCall.Block()
			}
		}
		for b := range reachableFrom(from, nil) {
			ret, ok := b.Instrs[len(b.Instrs)-1].(*ssa.Return)
			if !ok {
				continue
			}
			v := ret.Results[respIdx]
			if !nonNilOnPathsFrom(v, from, b) {
				bad = true
				c.S.Bad("R-C09-queue-only", fnName(p)+":queued-reply", c.Pos(ret.Pos()), "a return after the queue append can carry a nil response: the command would be queued AND executed")
			}
		}
		if !bad {
			c.S.OK("R-C09-queue-only", fnName(p)+":queued-reply", c.Pos(t.appendStore.Pos()), "every return after the append yields a non-nil response")
		}
	}
	// (4) dispatcher: handler call dominated by response == nil
	found := false
	for _, fn := range c.SrcFuncs() {
		var prepCall *ssa.Call
		var dhCall *ssa.Call
		for _, in := range instrsOf(fn) {
			if call, ok := in.(*ssa.Call); ok {
				switch call.Call.StaticCallee() {
				case t.prepare:
					prepCall = call
				case t.dispatchHandler:
					dhCall = call
				}
			}
		}
		if prepCall == nil || dhCall == nil {
			continue
		}
		found = true
		key := fnName(fn) + ":handler-after-nil-response"
		ok := false
		for _, rr := range referrers(prepCall) {
			ex, isEx := rr.(*ssa.Extract)
			if !isEx || ex.Index != respIdx {
				continue
			}
			for _, r2 := range referrers(ex) {
				bo, isB := r2.(*ssa.BinOp)
				if !isB {
					continue
				}
				for _, r3 := range referrers(bo) {
					ifi, isIf := r3.(*ssa.If)
					if !isIf {
						continue
					}
					idx := 1 // response != nil -> false edge
					if bo.Op == token.EQL {
						idx = 0
					}
					s := ifi.Block().Succs[idx]
					if s == dhCall.Block() || s.Dominates(dhCall.Block()) {
						ok = true
					}
				}
			}
		}
		if ok {
			c.S.OK("R-C09-queue-only", key, c.Pos(dhCall.Pos()), "dispatchHandler is reached only when prepare produced no response")
		} else {
			c.S.Bad("R-C09-queue-only", key, c.Pos(dhCall.Pos()), "the handler is invoked without testing that prepare produced no response (queued commands would execute immediately)")
		}
	}
	if !found {
		c.S.Undecided("R-C09-queue-only", "dispatcher", "-", "no function calls both prepare and dispatchHandler")
	}
}

// nonNilOnPathsFrom: value v (possibly a phi) is certainly non-nil when control came through block `from`.
func nonNilOnPathsFrom(v ssa.Value, from, at *ssa.BasicBlock) bool {
	switch x := v.(type) {
	case *ssa.Const:
		return x.Value != nil
	case *ssa.MakeInterface:
		return true
	case *ssa.Phi:
		reach := reachableFrom(from, nil)
		for i, e := range x.Edges {
			pred := x.Block().Preds[i]
			if !(reach[pred] || pred == from) {
				continue
			}
			if !nonNilOnPathsFrom(e, from, pred) {
				return false
			}
		}
		return true
	case *ssa.UnOp:
		// load of a named-result local: look at the stores that reach from `from`
		if al, ok := x.X.(*ssa.Alloc); ok {
			reach := reachableFrom(from, nil)
			reach[from] = true
			okAny := false
			for _, rr := range referrers(al) {
				if st, ok := rr.(*ssa.Store); ok && st.Addr == al && reach[st.Block()] {
					if !nonNilOnPathsFrom(st.Val, from, st.Block()) {
						return false
					}
					okAny = true
				}
			}
			return okAny
		}
	}
	return false
}

const textC09Excl = "R-C09-exclusive: the EXEC handler replays the queue while it holds the database exclusively (acquired before, released on every exit — see lock-balanced) and, before each replayed command, rewrites that command's lock id to its own so that nested lock() calls are re-entrant"

func ruleC09Exclusive(c *Ctx) {
	c.S.Rule("R-C09-exclusive", textC09Excl, 2)
	t := c.txn()
	if len(t.errs) > 0 {
		c.S.Undecided("R-C09-exclusive", "anchors", "-", strings.Join(t.errs, "; "))
		return
	}
	lm := c.M.Locks()
	h := t.handlers["exec"]
	fID := c.Field("dataStoreCommand", "id")
	// the function with the replay loop: the EXEC handler itself, or a helper it calls (replayQueued(ctx)); then the
	// call of the helper in the handler is where the lock must be held
	replayFn := h
	var viaCall *ssa.Call
	hasDispatch := func(g *ssa.Function) bool {
		for _, in := range instrsOf(g) {
			if call, ok := in.(*ssa.Call); ok && call.Call.StaticCallee() == t.dispatchHandler {
				return true
			}
		}
		return false
	}
	if !hasDispatch(h) {
		for _, in := range instrsOf(h) {
			call, ok := in.(*ssa.Call)
			if !ok {
				continue
			}
			g := call.Call.StaticCallee()
			if g == nil || !c.InPkg(g) || g == h {
				continue
			}
			if hasDispatch(g) {
				replayFn, viaCall = g, call
				continue
			}
			for _, in2 := range instrsOf(g) {
				if c2, ok := in2.(*ssa.Call); ok && c2.Call.StaticCallee() != nil && hasDispatch(c2.Call.StaticCallee()) && viaCall == nil {
					replayFn, viaCall = c2.Call.StaticCallee(), call
				}
			}
		}
	}
	n := 0
	for _, in := range instrsOf(replayFn) {
		call, ok := in.(*ssa.Call)
		if !ok || call.Call.StaticCallee() != t.dispatchHandler {
			continue
		}
		n++
		if lm.DB >= 0 && (lm.LocallyHeld(call).has(lm.DB) || (viaCall != nil && lm.LocallyHeld(viaCall).has(lm.DB))) {
			c.S.OK("R-C09-exclusive", fnName(h)+":replay-under-lock", c.Pos(call.Pos()), "database lock held at the replay call")
		} else {
			c.S.Bad("R-C09-exclusive", fnName(h)+":replay-under-lock", c.Pos(call.Pos()), "queued commands are replayed without holding the database lock: other clients can interleave")
		}
		// id rewrite: store to <queued ctx>.dsc.id of a load of ctx.dsc.id, before the call in the same block
		okID := false
		if len(call.Call.Args) >= 2 {
			queued := call.Call.Args[1]
			for _, in2 := range call.Block().Instrs {
				if in2 == in {
					break
				}
				st, isSt := isStoreTo(in2, fID)
				if !isSt {
					continue
				}
				fa := st.Addr.(*ssa.FieldAddr)
				base, _ := loadedField(fa.X) // <x>.dsc
				_, srcF := loadedField(st.Val)
				if base == queued && srcF == fID {
					okID = true
				}
			}
		}
		if okID {
			c.S.OK("R-C09-exclusive", fnName(h)+":id-rewrite", c.Pos(call.Pos()), "queued command's lock id := EXEC's lock id before it is dispatched")
		} else {
			c.S.Bad("R-C09-exclusive", fnName(h)+":id-rewrite", c.Pos(call.Pos()), "the replayed command keeps its own lock id: its lock() would block on the mutex EXEC already holds (self-deadlock)")
		}
	}
	if n == 0 {
		c.S.Undecided("R-C09-exclusive", fnName(h)+":replay", c.Pos(h.Pos()), "EXEC handler does not call the dispatcher")
		return
	}
	// one exclusive section spans the whole replay: inside the loop that replays the queue nothing (other than the
	// replayed command itself, whose nested lock/unlock are no-ops under the exclusive hold) releases the database lock
	var yields []string
	for _, in := range instrsOf(replayFn) {
		call, ok := in.(*ssa.Call)
		if !ok || call.Call.StaticCallee() != t.dispatchHandler {
			continue
		}
		loopBlk := call.Block()
		for _, b := range replayFn.Blocks {
			if !(plainReachAvoid(loopBlk, b, nil) && plainReachAvoid(b, loopBlk, nil)) && b != loopBlk {
				continue
			}
			if !blockInCycle(loopBlk) {
				continue
			}
			for _, in2 := range b.Instrs {
				c2, ok := in2.(*ssa.Call)
				if !ok || c2 == call {
					continue
				}
				if op, cls, _ := lm.lockOp(c2); op < 0 && cls == lm.DB {
					yields = append(yields, fmt.Sprintf("unlock at %s", c.Pos(c2.Pos())))
				}
				for _, g := range c.Callees(c2) {
					if everReleasesDB(c, lm, g, map[*ssa.Function]bool{}) {
						yields = append(yields, fmt.Sprintf("%s at %s", fnName(g), c.Pos(c2.Pos())))
					}
				}
			}
		}
	}
	if len(yields) == 0 {
		c.S.OK("R-C09-exclusive", fnName(h)+":no-release-in-replay-loop", c.Pos(h.Pos()), "nothing inside the replay loop releases the database lock")
	} else {
		sort.Strings(yields)
		c.S.Bad("R-C09-exclusive", fnName(h)+":no-release-in-replay-loop", c.Pos(h.Pos()), "the replay loop of EXEC releases the database lock between queued commands ("+yields[0]+"): other clients run in the middle of the transaction and see it half-done")
	}
}

const textC09Abort = "R-C09-abort-flag: a command rejected while queueing (unknown command, bad arity) must make the following EXEC execute nothing: on the error-reply paths of the function that queues commands there is, guarded by `cmdQueue != nil`, a store into connection state that the EXEC handler reads"

func ruleC09AbortFlag(c *Ctx) {
	c.S.Rule("R-C09-abort-flag", textC09Abort, 1)
	t := c.txn()
	if len(t.errs) > 0 {
		c.S.Undecided("R-C09-abort-flag", "anchors", "-", strings.Join(t.errs, "; "))
		return
	}
	p := t.prepare
	// fields of clientState read by the EXEC handler (transitively within 2 calls)
	read := map[*types.Var]bool{}
	for f := range c.M.Reach(t.handlers["exec"]) {
		if f == t.dispatchHandler {
			continue
		}
		for _, in := range instrsOf(f) {
			if u, ok := in.(*ssa.UnOp); ok && u.Op == token.MUL {
				if fa, ok := u.X.(*ssa.FieldAddr); ok && c.ownerName(fieldOf(fa)) == "clientState" {
					read[fieldOf(fa)] = true
				}
			}
		}
	}
	// error-reply sites in prepare: stores of a respErrorString into the response
	nErr, nFlag := 0, 0
	var firstBad ssa.Instruction
	for _, in := range instrsOf(p) {
		isErr := false
		switch x := in.(type) {
		case *ssa.MakeInterface:
			if c.isPkgType(x.X.Type(), "respErrorString") {
				isErr = true
			}
		case *ssa.Call:
			// a parsing phase that hands back the error reply (`req, response := cd.parseRequest(l, input)`)
			if g := x.Call.StaticCallee(); g != nil && c.InPkg(g) && g != p && returnsResp(c, g) {
				for _, in3 := range instrsOf(g) {
					if mi, ok := in3.(*ssa.MakeInterface); ok && c.isPkgType(mi.X.Type(), "respErrorString") {
						isErr = true
					}
				}
			}
		}
		if !isErr {
			continue
		}
		nErr++
		// is there, in the same block region (dominated by this block or dominating it up to the return),
		// a store to a clientState field that EXEC reads (other than the queue itself)?
		flagged := false
		for b := range reachableFrom(in.Block(), nil) {
			for _, in2 := range b.Instrs {
				if st, ok := in2.(*ssa.Store); ok {
					if fa, ok := st.Addr.(*ssa.FieldAddr); ok && c.ownerName(fieldOf(fa)) == "clientState" && read[fieldOf(fa)] {
						flagged = true
					}
				}
				if call, ok := in2.(*ssa.Call); ok {
					if g := call.Call.StaticCallee(); g != nil && c.InPkg(g) {
						for _, in3 := range instrsOf(g) {
							if st, ok := in3.(*ssa.Store); ok {
								if fa, ok := st.Addr.(*ssa.FieldAddr); ok && c.ownerName(fieldOf(fa)) == "clientState" && read[fieldOf(fa)] {
									flagged = true
								}
							}
						}
					}
				}
			}
		}
		if flagged {
			nFlag++
		} else if firstBad == nil {
			firstBad = in
		}
	}
	key := fnName(p) + ":error-while-queueing"
	switch {
	case nErr == 0:
		c.S.Undecided("R-C09-abort-flag", key, c.Pos(p.Pos()), "no error reply is built in the queueing function")
	case nFlag == nErr:
		c.S.OK("R-C09-abort-flag", key, c.Pos(p.Pos()), fmt.Sprintf("all %d error-reply paths mark connection state that EXEC reads", nErr))
	default:
		c.S.Bad("R-C09-abort-flag", key, c.Pos(c.InstrPos(firstBad)), fmt.Sprintf("%d of %d error-reply paths of %s leave no trace in connection state: a rejected command inside MULTI does not make EXEC abort", nErr-nFlag, nErr, fnName(p)))
	}
}

const textC09Inert = "R-C09-errors-inert: the error branches of the transaction control handlers (WATCH inside MULTI, nested MULTI, EXEC/DISCARD without MULTI) neither follow nor precede a store to cmdQueue or watches — the transaction state is left as it was"

func ruleC09ErrorsInert(c *Ctx) {
	c.S.Rule("R-C09-errors-inert", textC09Inert, 4)
	t := c.txn()
	if len(t.errs) > 0 {
		c.S.Undecided("R-C09-errors-inert", "anchors", "-", strings.Join(t.errs, "; "))
		return
	}
	for _, tok := range []string{"multi", "exec", "discard", "watch"} {
		h := t.handlers[tok]
		n := 0
		for _, in := range instrsOf(h) {
			if !c.isErrorReplyStore(in) {
				continue
			}
			n++
			key := fmt.Sprintf("%s:error-reply#%d", fnName(h), n)
			// stores/updates of queue or watches on any path through this instruction
			bad := ""
			before := map[*ssa.BasicBlock]bool{}
			for _, b := range h.Blocks {
				if reachableFrom(b, nil)[in.Block()] || b == in.Block() {
					before[b] = true
				}
			}
			after := reachableFrom(in.Block(), nil)
			for _, b := range h.Blocks {
				if !(before[b] || after[b]) {
					continue
				}
				for _, in2 := range b.Instrs {
					touches := false
					if st, ok := in2.(*ssa.Store); ok {
						if fa, ok := st.Addr.(*ssa.FieldAddr); ok && (fieldOf(fa) == t.fQueue || fieldOf(fa) == t.fWatches || (t.fMode != nil && fieldOf(fa) == t.fMode)) {
							touches = true
						}
					}
					grows := false
					if mu, ok := in2.(*ssa.MapUpdate); ok {
						if _, f := loadedField(mu.Map); f == t.fWatches {
							touches = true
							grows = true // a registration (resets are plain stores and belong to every exit of EXEC/DISCARD)
						}
					}
					if !touches {
						continue
					}
					if grows && b != in.Block() && before[b] {
						// some path registers a watch and then answers this error (the registration need not dominate the
						// reply: a loop over the keys runs zero or more times)
						bad = "on a path that leads to the error reply (a refused command has registered watches)"
						continue
					}
					// same block: order matters
					if b == in.Block() {
						bad = "in the same block"
					} else if before[b] && b.Dominates(in.Block()) || after[b] {
						// must lie on a path that includes the error store
						bad = "on a path through the error reply"
					}
				}
			}
			if bad != "" {
				c.S.Bad("R-C09-errors-inert", key, c.Pos(c.InstrPos(in)), fmt.Sprintf("%s modifies the MULTI queue or the watch set %s", fnName(h), bad))
			} else {
				c.S.OK("R-C09-errors-inert", key, c.Pos(c.InstrPos(in)), "no store to cmdQueue/watches on any path through this error reply")
			}
		}
		if n == 0 && tok != "discard" {
			c.S.Undecided("R-C09-errors-inert", fnName(h)+":error-reply", c.Pos(h.Pos()), "handler builds no error reply")
		}
	}
}

const textA2Reentrant = "A2-reentrant: nothing that EXEC can replay acquires the database mutex non-re-entrantly (a raw Lock or acquireExclusive outside the owner-token test) unless the call chain is guarded by `ctx.multi == false` — otherwise `MULTI; <cmd>; EXEC` deadlocks holding the database lock"

func ruleA2Reentrant(c *Ctx) {
	c.S.Rule("A2-reentrant", textA2Reentrant, 1)
	lm := c.M.Locks()
	hs, err := c.M.Handlers()
	if err != nil || lm.DB < 0 {
		c.S.Undecided("A2-reentrant", "model", "-", "handlers / DB class unavailable")
		return
	}
	ctl, _ := c.boolTable("unqueuedCmdTable")
	// multiFalseGuarded: block dominated by the false successor of a test of cmdContext.multi
	guarded := func(b *ssa.BasicBlock) bool {
		for _, d := range b.Parent().Blocks {
			ifi, ok := d.Instrs[len(d.Instrs)-1].(*ssa.If)
			if !ok {
				continue
			}
			trueIsSet, ok := lm.multiTest(ifi.Cond)
			if !ok {
				continue
			}
			idx := 1
			if !trueIsSet {
				idx = 0
			}
			s := d.Succs[idx]
			if len(s.Preds) == 1 && (s == b || s.Dominates(b)) {
				return true
			}
		}
		return false
	}
	// raw acquisitions of DB: Lock on the DB class in a block that is not the CAS-failed successor of the token test
	rawAcquire := func(fn *ssa.Function) []ssa.Instruction {
		var out []ssa.Instruction
		for _, in := range instrsOf(fn) {
			call, ok := in.(*ssa.Call)
			if !ok {
				continue
			}
			if op, cls, _ := lm.lockOp(call); op > 0 && cls == lm.DB {
				// inside the re-entrant wrapper?
				re := false
				for _, pr := range in.Block().Preds {
					if ifi, ok := pr.Instrs[len(pr.Instrs)-1].(*ssa.If); ok {
						if _, _, isTok := lm.tokenCAS(ifi.Cond); isTok {
							re = true
						}
					}
				}
				if !re {
					out = append(out, in)
				}
			}
		}
		return out
	}
	type item struct {
		fn    *ssa.Function
		chain []string
		bind  map[*ssa.Parameter]*ssa.Function // function-typed parameters bound to a closure at the call site
	}
	reported := map[string]bool{}
	n := 0
	toks, _ := c.M.HandlerTokens()
	for _, tok := range toks {
		if ctl[tok] {
			continue
		}
		h := hs[tok]
		seen := map[string]bool{}
		work := []item{{h, []string{fnName(h)}, nil}}
		found := ""
		var foundPos token.Pos
		for len(work) > 0 && found == "" {
			it := work[0]
			work = work[1:]
			sig := fnName(it.fn)
			for _, pp := range it.fn.Params {
				if g := it.bind[pp]; g != nil {
					sig += "|" + fnName(g)
				}
			}
			if seen[sig] {
				continue
			}
			seen[sig] = true
			for _, in := range rawAcquire(it.fn) {
				if !guarded(in.Block()) {
					found = strings.Join(it.chain, " -> ") + " acquires " + lm.names[lm.DB] + " at " + c.Pos(c.InstrPos(in))
					foundPos = c.InstrPos(in)
				}
			}
			for _, in := range instrsOf(it.fn) {
				call, ok := in.(ssa.CallInstruction)
				if !ok || lm.handlerDynSites[call] || guarded(in.Block()) {
					continue
				}
				if _, isGo := in.(*ssa.Go); isGo {
					continue
				}
				var cals []*ssa.Function
				if pp, isParam := call.Common().Value.(*ssa.Parameter); isParam && it.bind[pp] != nil {
					cals = []*ssa.Function{it.bind[pp]} // the closure the caller passed
				} else {
					cals = append(cals, c.Callees(call)...)
				}
				inPkgCallee := false
				for _, g := range cals {
					if c.InPkg(g) && len(g.Blocks) > 0 {
						inPkgCallee = true
					}
				}
				closures := map[int]*ssa.Function{}
				for i, a := range call.Common().Args {
					if mc, ok := stripValue(a).(*ssa.MakeClosure); ok {
						if g, ok := mc.Fn.(*ssa.Function); ok {
							closures[i] = g
							if !inPkgCallee {
								cals = append(cals, g) // external higher-order function: assume it calls the closure
							}
						}
					}
				}
				for _, g := range cals {
					if !c.InPkg(g) || len(g.Blocks) == 0 {
						continue
					}
					var bind map[*ssa.Parameter]*ssa.Function
					if len(closures) > 0 && len(g.Params) == len(call.Common().Args) {
						bind = map[*ssa.Parameter]*ssa.Function{}
						for i, cl := range closures {
							bind[g.Params[i]] = cl
						}
					}
					// forward bindings when a bound parameter is passed on
					for i, a := range call.Common().Args {
						if pp, ok := a.(*ssa.Parameter); ok && it.bind[pp] != nil && i < len(g.Params) {
							if bind == nil {
								bind = map[*ssa.Parameter]*ssa.Function{}
							}
							bind[g.Params[i]] = it.bind[pp]
						}
					}
					work = append(work, item{g, append(append([]string{}, it.chain...), fnName(g)), bind})
				}
			}
		}
		n++
		key := fnName(h)
		if reported[key] {
			continue
		}
		reported[key] = true
		if found != "" {
			c.S.Bad("A2-reentrant", key, c.Pos(foundPos), fmt.Sprintf("replayable by EXEC (token %s): %s — EXEC already holds that mutex", tok, found))
		} else {
			c.S.OK("A2-reentrant", key, c.Pos(h.Pos()), "no non-re-entrant acquisition of the database mutex reachable without a `!ctx.multi` guard")
		}
	}
	if n == 0 {
		c.S.Undecided("A2-reentrant", "handlers", "-", "no queueable handlers")
	}
}

const textC09Bind = "R-C09-bind: the database a prepared (possibly queued) command is bound to never changes after the command context is built: no store to dataStoreCommand.ds outside its constructor — EXEC holds exactly the database its queued commands were bound to"

func ruleC09Bind(c *Ctx) {
	c.S.Rule("R-C09-bind", textC09Bind, 1)
	f := c.Field("dataStoreCommand", "ds")
	if f == nil {
		c.S.Undecided("R-C09-bind", "anchor", "-", "dataStoreCommand.ds not found")
		return
	}
	for _, fn := range c.SrcFuncs() {
		n := 0
		for _, in := range instrsOf(fn) {
			st, ok := isStoreTo(in, f)
			if !ok {
				continue
			}
			n++
			key := fmt.Sprintf("%s:store#%d", fnName(fn), n)
			if isFresh(st.Addr.(*ssa.FieldAddr).X) {
				c.S.OK("R-C09-bind", key, c.Pos(st.Pos()), "constructor of the command's lock object")
			} else {
				c.S.Bad("R-C09-bind", key, c.Pos(st.Pos()), fmt.Sprintf("%s re-binds an existing command to another database: under EXEC it would run on a database EXEC does not hold", fnName(fn)))
			}
		}
	}
}

const textC09Replay = "R-C09-replay-unconditional: in the function through which EXEC replays the queued commands, whether the handler runs depends only on the command (handler table, test hook and its result) — no branch that can skip the handler reads state that another goroutine may change meanwhile (mutex- or atomic-guarded fields such as a connection's close flag): otherwise a transaction is cut short in the middle and the commands already run stay applied"

// allowed shared reads in front of the handler call, with the reason
var replayAllowed = map[string]string{
	"dataStoreSet.phook": "the test hook installed by the embedding test; it replaces the handler, it does not drop the command",
}

func ruleC09Replay(c *Ctx) {
	c.S.Rule("R-C09-replay-unconditional", textC09Replay, 2)
	gt := c.M.Guards()
	var D *ssa.Function
	var H *ssa.Call
	for _, fn := range c.SrcFuncs() {
		for _, in := range instrsOf(fn) {
			call, ok := in.(*ssa.Call)
			if !ok || call.Call.IsInvoke() || call.Call.StaticCallee() != nil {
				continue
			}
			if _, isB := call.Call.Value.(*ssa.Builtin); isB {
				continue
			}
			hv := call.Call.Value
			if u, ok := hv.(*ssa.UnOp); ok && u.Op == token.MUL {
				if _, isFV := u.X.(*ssa.FreeVar); isFV {
					hv = u.X
				}
			}
			switch hv.(type) {
			case *ssa.FreeVar, *ssa.Parameter:
				continue // a helper that is handed one particular handler (the retry closure of a blocking command) is not the dispatcher
			}
			if n, ok := call.Call.Value.Type().(*types.Named); ok && (n.Obj().Name() == "cmdHandler" || (curProg != nil && curProg.isPkgType(n, "cmdHandler"))) {
				D, H = fn, call
			}
		}
	}
	if D == nil {
		c.S.Undecided("R-C09-replay-unconditional", "dispatch-site", "-", "no call through a cmdHandler value found")
		return
	}
	shared := func(f *types.Var) (string, bool) {
		if f == nil {
			return "", false
		}
		g, ok := gt.byField[f]
		if !ok || (g.mode != gLocked && g.mode != gAtomic) {
			return "", false
		}
		name := c.ownerName(f) + "." + f.Name()
		if _, ok := replayAllowed[name]; ok {
			return "", false
		}
		return name, true
	}
	// does function g (transitively, static and interface callees) read shared mutable state?
	memo := map[*ssa.Function]string{}
	var readsShared func(g *ssa.Function, depth int) string
	readsShared = func(g *ssa.Function, depth int) string {
		if r, ok := memo[g]; ok {
			return r
		}
		memo[g] = ""
		if depth > 6 || !c.InPkg(g) {
			return ""
		}
		for _, a := range c.Accesses(g) {
			if a.Write {
				continue
			}
			if name, ok := shared(a.Field); ok {
				memo[g] = name + " (read in " + fnName(g) + ")"
				return memo[g]
			}
		}
		for _, in := range instrsOf(g) {
			if call, ok := in.(ssa.CallInstruction); ok {
				if _, isGo := in.(*ssa.Go); isGo {
					continue
				}
				for _, h := range c.Callees(call) {
					if r := readsShared(h, depth+1); r != "" {
						memo[g] = r
						return r
					}
				}
			}
		}
		return ""
	}
	var slice func(v ssa.Value, seen map[ssa.Value]bool) string
	slice = func(v ssa.Value, seen map[ssa.Value]bool) string {
		if v == nil || seen[v] {
			return ""
		}
		seen[v] = true
		switch x := v.(type) {
		case *ssa.UnOp:
			if fa, ok := x.X.(*ssa.FieldAddr); ok {
				if name, ok := shared(fieldOf(fa)); ok {
					return name
				}
			}
			return slice(x.X, seen)
		case *ssa.BinOp:
			if r := slice(x.X, seen); r != "" {
				return r
			}
			return slice(x.Y, seen)
		case *ssa.Phi:
			for _, e := range x.Edges {
				if r := slice(e, seen); r != "" {
					return r
				}
			}
		case *ssa.Extract:
			return slice(x.Tuple, seen)
		case *ssa.Call:
			if x == H {
				return "" // the handler's own result
			}
			for _, g := range c.Callees(x) {
				if r := readsShared(g, 0); r != "" {
					return r
				}
			}
			for _, a := range x.Call.Args {
				if r := slice(a, seen); r != "" {
					return r
				}
			}
		case *ssa.TypeAssert:
			return slice(x.X, seen)
		case *ssa.Convert:
			return slice(x.X, seen)
		case *ssa.ChangeType:
			return slice(x.X, seen)
		case *ssa.Lookup:
			return slice(x.X, seen)
		case *ssa.FieldAddr:
			if name, ok := shared(fieldOf(x)); ok {
				return name
			}
		}
		return ""
	}
	reach := func(from *ssa.BasicBlock) bool { return from == H.Block() || plainReachAvoid(from, H.Block(), nil) }
	n := 0
	for _, b := range D.Blocks {
		ifi, ok := b.Instrs[len(b.Instrs)-1].(*ssa.If)
		if !ok || !reach(b) {
			continue
		}
		r0, r1 := reach(b.Succs[0]), reach(b.Succs[1])
		if r0 == r1 {
			continue
		}
		n++
		key := fmt.Sprintf("%s:skip-branch#%d", fnName(D), n)
		if r := slice(ifi.Cond, map[ssa.Value]bool{}); r != "" {
			c.S.Bad("R-C09-replay-unconditional", key, c.Pos(c.InstrPos(ifi)), fmt.Sprintf("%s can skip the handler depending on %s, which another goroutine can change while EXEC replays the queue: the rest of a running transaction is dropped", fnName(D), r))
		} else {
			c.S.OK("R-C09-replay-unconditional", key, c.Pos(c.InstrPos(ifi)), "the branch depends on the command, the handler table or the test hook only")
		}
	}
}

// everReleasesDB: g (or something it calls statically) contains a release of the database mutex — even if it takes the
// lock again before returning, other clients get in between.
func everReleasesDB(c *Ctx, lm *LockModel, g *ssa.Function, seen map[*ssa.Function]bool) bool {
	if seen[g] || !c.InPkg(g) {
		return false
	}
	seen[g] = true
	for _, in := range instrsOf(g) {
		call, ok := in.(ssa.CallInstruction)
		if !ok {
			continue
		}
		if cv, ok := in.(*ssa.Call); ok {
			if op, cls, _ := lm.lockOp(cv); op < 0 && cls == lm.DB {
				return true
			}
		}
		if d, ok := in.(*ssa.Defer); ok {
			_ = d
		}
		if h := call.Common().StaticCallee(); h != nil && everReleasesDB(c, lm, h, seen) {
			return true
		}
	}
	return false
}

const textWatchDB = "R-C10-watch-db: when the watch list of a connection is evaluated, the database asked about a watched key is the one recorded in the watch entry itself (the entry is keyed by database and name), never the connection's currently selected database — WATCH k; SELECT n; MULTI; EXEC must still notice a change of k in the database where it was watched"

func ruleC10WatchDB(c *Ctx) {
	c.S.Rule("R-C10-watch-db", textWatchDB, 1)
	fWatches := c.Field("clientState", "watches")
	if fWatches == nil {
		c.S.Undecided("R-C10-watch-db", "anchor", "-", "clientState.watches not found")
		return
	}
	n := 0
	for _, fn := range c.SrcFuncs() {
		var rng *ssa.Range
		for _, in := range instrsOf(fn) {
			if r, ok := in.(*ssa.Range); ok {
				if _, f := loadedField(r.X); f == fWatches {
					rng = r
				}
			}
		}
		if rng == nil {
			continue
		}
		isSrc := func(v ssa.Value) bool { return v == rng.X }
		k := 0
		for _, in := range instrsOf(fn) {
			call, ok := in.(*ssa.Call)
			if !ok || !blockInCycle(call.Block()) {
				continue
			}
			g := call.Call.StaticCallee()
			if g == nil || g.Signature.Recv() == nil || !c.isPkgType(g.Signature.Recv().Type(), "dataStore") || len(call.Call.Args) == 0 {
				continue
			}
			k++
			n++
			key := fmt.Sprintf("%s:%s#%d", fnName(fn), g.Name(), k)
			recv := call.Call.Args[0]
			fromEntry := rangeSource(recv, isSrc, nil)
			if !fromEntry {
				// the entry (a struct key) copied into a local: watch := <key>; watch.ds
				if u, ok := recv.(*ssa.UnOp); ok {
					if fa, ok := u.X.(*ssa.FieldAddr); ok {
						if al, ok := fa.X.(*ssa.Alloc); ok {
							for _, r := range referrers(al) {
								if st, ok := r.(*ssa.Store); ok && st.Addr == ssa.Value(al) && rangeSource(st.Val, isSrc, nil) {
									fromEntry = true
								}
							}
						}
					}
				}
			}
			if fromEntry {
				c.S.OK("R-C10-watch-db", key, c.Pos(call.Pos()), "the database comes from the watch entry")
			} else {
				c.S.Bad("R-C10-watch-db", key, c.Pos(call.Pos()), fmt.Sprintf("%s asks a database that is not taken from the watch entry (the connection's current database?) about the watched key: after a SELECT the wrong keyspace is consulted", fnName(fn)))
			}
		}
	}
	if n == 0 {
		c.S.Undecided("R-C10-watch-db", "sites", "-", "no loop over the watch list that consults a database was found")
	}
}
