package main

// A4-inert — "a command that fails for any reason leaves every key, value and expiry unchanged".
//
// Structural form: inside one command (handler or store-layer method) no failure point is reachable, in the
// function's control-flow graph, from a point where database state has already been changed. Both sets are closed
// over callees: a call to a function that may change state is a change point, a call to a function that may report
// a failure is a failure point (the callee's own interior is judged when the callee is analysed). The dispatcher and
// EXEC, which run *several* commands one after another, are outside the scope: the dynamic call through a handler
// value is neutral.

import (
	"fmt"
	"go/token"
	"go/types"
	"sort"
	"strings"

	"golang.org/x/tools/go/ssa"
)

const textA4Inert = "A4-inert: within one command no failure point (a reply error being produced, a failure result being returned, a call to a function that can report failure) is reachable on any control-flow path from a point where database state has already been changed (a mutation site of the M6 model, or a call to a function that can change state) — validation precedes the first write, so a failing command is inert"

type inertPoint struct {
	blk  *ssa.BasicBlock
	idx  int // instruction index; len(Instrs) = end of block
	what string
	in   ssa.Instruction
}

type inertModel struct {
	c       *Ctx
	mayMut  map[*ssa.Function]bool
	mayFail map[*ssa.Function]bool
	fails   map[*ssa.Function][]inertPoint // own failure points
	muts    map[*ssa.Function][]inertPoint // own mutation points
	handler types.Type
}

// failEnc: status enumerations of the store layer and the smallest constant that means "the command fails"
// (read from the const blocks of dataStoreCommands.go: valueExists{EXISTS, DOESNT_EXIST, WRONG_TYPE, WRONG_FORMAT,
// OVERFLOW}, keyOpResult{COMPLETED, MISSING_SOURCE, DESTINATION_EXISTS}); the anchors are verified on every run.
var failEnc = map[string]struct {
	min   int64
	first string
}{
	"valueExists": {2, "VALUE_WRONG_TYPE"},
	"keyOpResult": {1, "RESULT_MISSING_SOURCE"},
}

func (c *Ctx) isFailType(t types.Type) bool {
	if p, ok := t.(*types.Pointer); ok {
		return c.isPkgType(p.Elem(), "respErrorString")
	}
	if n, ok := t.(*types.Named); ok {
		if _, ok := failEnc[n.Obj().Name()]; ok && c.isPkgType(t, n.Obj().Name()) {
			return true
		}
	}
	return t.String() == "error"
}

func (c *Ctx) failEncOf(t types.Type) (int64, bool) {
	if n, ok := t.(*types.Named); ok {
		if e, ok := failEnc[n.Obj().Name()]; ok && c.isPkgType(t, n.Obj().Name()) {
			return e.min, true
		}
	}
	return 0, false
}

func (c *Ctx) isRespErr(t types.Type) bool {
	return c.isPkgType(t, "respErrorString") || c.isPkgType(t, "respBlobError")
}

// failingLeaves follows phis from v and reports (via f) every leaf that is a definite failure value together with the
// place where it enters: the leaf instruction itself, or the end of the predecessor block for a phi edge.
func (im *inertModel) failingLeaves(v ssa.Value, at inertPoint, isBool bool, seen map[ssa.Value]bool, f func(inertPoint)) {
	if seen[v] {
		return
	}
	seen[v] = true
	switch x := v.(type) {
	case *ssa.Phi:
		for i, e := range x.Edges {
			pred := x.Block().Preds[i]
			im.failingLeaves(e, inertPoint{blk: pred, idx: len(pred.Instrs) - 1, in: pred.Instrs[len(pred.Instrs)-1]}, isBool, seen, f)
		}
	case *ssa.Const:
		if min, ok := im.c.failEncOf(x.Type()); ok {
			if x.Value != nil && x.Int64() >= min {
				f(at)
			}
		} else if isBool {
			if x.Value != nil && x.Value.String() == "true" {
				f(at)
			}
		} else if !x.IsNil() {
			f(at)
		}
	case *ssa.Global, *ssa.Alloc, *ssa.FieldAddr, *ssa.IndexAddr:
		if !isBool {
			f(at)
		}
	case *ssa.MakeInterface:
		f(inertPoint{blk: x.Block(), idx: instrIndex(x), in: x})
	}
}

// methods of the dictionary that insert or remove (from the M6 model); set by inert()
var inertDictWriters = map[*ssa.Function]bool{}

func isNamed(t types.Type, name string) bool {
	n, ok := t.(*types.Named)
	if !ok {
		return false
	}
	if n.Obj().Name() == name {
		return true
	}
	return curProg != nil && curProg.isPkgType(n, name) // renamed package type (schema.go)
}

func (c *Ctx) inert() *inertModel {
	im := &inertModel{c: c, mayMut: map[*ssa.Function]bool{}, mayFail: map[*ssa.Function]bool{},
		fails: map[*ssa.Function][]inertPoint{}, muts: map[*ssa.Function][]inertPoint{}}
	mm := c.M.Muts()
	for f := range mm.dictStore {
		inertDictWriters[f] = true
	}
	for f := range mm.dictRem {
		inertDictWriters[f] = true
	}
	for fn, ss := range mm.sites {
		for _, s := range ss {
			b, i := s.start()
			im.muts[fn] = append(im.muts[fn], inertPoint{blk: b, idx: i, what: s.What, in: s.In})
			im.mayMut[fn] = true
		}
	}
	for _, fn := range c.SrcFuncs() {
		if fn.Blocks == nil {
			continue
		}
		res := fn.Signature.Results()
		failIdx := map[int]bool{}
		boolIdx := map[int]bool{}
		resName := map[string]int{}
		for i := 0; i < res.Len(); i++ {
			r := res.At(i)
			if c.isFailType(r.Type()) {
				failIdx[i] = true
				resName[r.Name()] = i
			}
			if b, ok := r.Type().Underlying().(*types.Basic); ok && b.Kind() == types.Bool && r.Name() == "wrongType" {
				failIdx[i] = true
				boolIdx[i] = true
				resName[r.Name()] = i
			}
		}
		add := func(p inertPoint, what string) {
			p.what = what
			im.fails[fn] = append(im.fails[fn], p)
			im.mayFail[fn] = true
		}
		for _, in := range instrsOf(fn) {
			switch x := in.(type) {
			case *ssa.MakeInterface:
				if c.isRespErr(x.X.Type()) {
					add(inertPoint{blk: x.Block(), idx: instrIndex(x), in: x}, "error reply produced")
				}
			case *ssa.Return:
				for i, r := range x.Results {
					if !failIdx[i] {
						continue
					}
					im.failingLeaves(r, inertPoint{blk: x.Block(), idx: instrIndex(x), in: x}, boolIdx[i], map[ssa.Value]bool{}, func(p inertPoint) {
						add(p, "failure result "+res.At(i).Name()+" returned")
					})
				}
			case *ssa.Store:
				if a, ok := x.Addr.(*ssa.Alloc); ok {
					if i, ok := resName[a.Comment]; ok && a.Comment != "" {
						im.failingLeaves(x.Val, inertPoint{blk: x.Block(), idx: instrIndex(x), in: x}, boolIdx[i], map[ssa.Value]bool{}, func(p inertPoint) {
							add(p, "failure result "+a.Comment+" set")
						})
					}
				}
			}
		}
	}
	// closure over callees
	for changed := true; changed; {
		changed = false
		for _, fn := range c.SrcFuncs() {
			for _, in := range instrsOf(fn) {
				call, ok := in.(*ssa.Call)
				if !ok || im.neutralCall(call) {
					continue
				}
				for _, g := range c.Callees(call) {
					if !c.InPkg(g) {
						continue
					}
					if im.mayMut[g] && !im.mayMut[fn] {
						im.mayMut[fn] = true
						changed = true
					}
					if im.mayFail[g] && !im.mayFail[fn] && im.failPropagates(call, g) {
						im.mayFail[fn] = true
						changed = true
					}
				}
			}
		}
	}
	return im
}

// neutralCall: the dynamic call through a command-handler value (dispatcher, EXEC replay) runs another command.
func (im *inertModel) neutralCall(call *ssa.Call) bool {
	if call.Call.IsInvoke() || call.Call.StaticCallee() != nil {
		return false
	}
	if n, ok := call.Call.Value.Type().(*types.Named); ok && (n.Obj().Name() == "cmdHandler" || (curProg != nil && curProg.isPkgType(n, "cmdHandler"))) {
		return true
	}
	sig, ok := call.Call.Value.Type().Underlying().(*types.Signature)
	if !ok || sig.Params().Len() != 2 {
		return false
	}
	return strings.HasSuffix(sig.Params().At(0).Type().String(), "cmdContext")
}

// failPropagates: the caller looks at a failure result of the callee (or the callee produces the error reply
// itself). A callee whose failure results are all discarded by this call cannot make the caller fail through them,
// but an error reply it produced is still a failure of the command.
func (im *inertModel) failPropagates(call *ssa.Call, g *ssa.Function) bool {
	return true
}

// classifiesOutcome: the failure point is a call to a function that changes nothing and whose arguments are all
// results of the call that is the change point (or constants): it only translates that call's outcome into a status
// (e.g. keyOpOutcome(newSk, destExists)); on the failing outcome the callee — itself subject to the rule — changed nothing.
func (im *inertModel) classifiesOutcome(m, f inertPoint) bool {
	mc, ok := m.in.(*ssa.Call)
	if !ok {
		return false
	}
	fc, ok := f.in.(*ssa.Call)
	if !ok || len(fc.Call.Args) == 0 {
		return false
	}
	for _, g := range im.c.Callees(fc) {
		if im.mayMut[g] {
			return false
		}
	}
	n := 0
	for _, a := range fc.Call.Args {
		if _, isC := a.(*ssa.Const); isC {
			continue
		}
		// the caller's own reply slot handed in to be filled (`listErrorReply(&output, err)`)
		if al, isAl := a.(*ssa.Alloc); isAl && al.Parent() == fc.Parent() {
			continue
		}
		if !inertDerives(a, mc, 0) {
			return false
		}
		n++
	}
	return n > 0
}

func (im *inertModel) pointsOf(fn *ssa.Function) (muts, fails []inertPoint) {
	c := im.c
	muts = append(muts, im.muts[fn]...)
	fails = append(fails, im.fails[fn]...)
	for _, in := range instrsOf(fn) {
		call, ok := in.(*ssa.Call)
		if !ok || im.neutralCall(call) {
			continue
		}
		for _, g := range c.Callees(call) {
			if !c.InPkg(g) {
				continue
			}
			if im.mayMut[g] {
				muts = append(muts, inertPoint{blk: call.Block(), idx: instrIndex(call) + 1, what: "call " + fnName(g) + " (can change state)", in: call})
			}
			if im.mayFail[g] {
				fails = append(fails, inertPoint{blk: call.Block(), idx: instrIndex(call), what: "call " + fnName(g) + " (can fail)", in: call})
			}
		}
	}
	return
}

// derivesFrom: v is computed from the results of call m (through extracts, comparisons, conversions, phis).
func inertDerives(v ssa.Value, m ssa.Value, depth int) bool {
	if depth > 8 || v == nil {
		return false
	}
	if v == m {
		return true
	}
	switch x := v.(type) {
	case *ssa.Extract:
		return inertDerives(x.Tuple, m, depth+1)
	case *ssa.BinOp:
		return inertDerives(x.X, m, depth+1) || inertDerives(x.Y, m, depth+1)
	case *ssa.UnOp:
		if x.Op == token.MUL {
			// a local variable cell (named result) that the call's result was stored into
			root := x.X
			for {
				if fa, ok := root.(*ssa.FieldAddr); ok {
					root = fa.X
					continue
				}
				break
			}
			if al, ok := root.(*ssa.Alloc); ok {
				for _, r := range referrers(al) {
					if st, ok := r.(*ssa.Store); ok && st.Addr == ssa.Value(al) && inertDerives(st.Val, m, depth+1) {
						return true
					}
				}
				return false
			}
		}
		return inertDerives(x.X, m, depth+1)
	case *ssa.Convert:
		return inertDerives(x.X, m, depth+1)
	case *ssa.ChangeType:
		return inertDerives(x.X, m, depth+1)
	case *ssa.Phi:
		for _, e := range x.Edges {
			if inertDerives(e, m, depth+1) {
				return true
			}
		}
	case *ssa.Call:
		// len(values) and the like
		if _, ok := x.Call.Value.(*ssa.Builtin); ok {
			for _, a := range x.Call.Args {
				if inertDerives(a, m, depth+1) {
					return true
				}
			}
		}
	case *ssa.Field:
		return inertDerives(x.X, m, depth+1)
	}
	return false
}

func plainReachAvoid(from, to, avoid *ssa.BasicBlock) bool {
	seen := map[*ssa.BasicBlock]bool{}
	work := []*ssa.BasicBlock{from}
	for len(work) > 0 {
		b := work[len(work)-1]
		work = work[:len(work)-1]
		if seen[b] {
			continue
		}
		seen[b] = true
		if b == to {
			return true
		}
		if b == avoid {
			continue
		}
		work = append(work, b.Succs...)
	}
	return false
}

// isEmptyDictCall: a call of the dictionary constructor (a new, empty dictionary). The constructor is identified by
// shape, not by name: a parameterless package function returning *redisDict whose every return value is an object
// allocated in it and which calls no method of the dictionary (nothing is inserted).
var emptyCtorMemo = map[*ssa.Function]bool{}

func isEmptyDictCtor(g *ssa.Function) bool {
	if v, ok := emptyCtorMemo[g]; ok {
		return v
	}
	r := false
	if g != nil && g.Signature.Recv() == nil && g.Signature.Params().Len() == 0 && g.Signature.Results().Len() == 1 && len(g.Blocks) > 0 {
		if p, ok := g.Signature.Results().At(0).Type().(*types.Pointer); ok {
			if n, ok := p.Elem().(*types.Named); ok && (n.Obj().Name() == "redisDict" || (curProg != nil && curProg.isPkgType(n, "redisDict"))) && returnsFreshAlloc(g) {
				r = true
				for _, in := range instrsOf(g) {
					if call, ok := in.(*ssa.Call); ok {
						if h := call.Call.StaticCallee(); h != nil && h.Signature.Recv() != nil {
							r = false // calls a method (possibly an insertion)
						}
					}
				}
			}
		}
	}
	emptyCtorMemo[g] = r
	return r
}

func isEmptyDictCall(v ssa.Value) bool {
	c, ok := v.(*ssa.Call)
	if !ok {
		return false
	}
	return isEmptyDictCtor(c.Call.StaticCallee())
}

// lookupOnEmpty: cond is the "found" result of a lookup in a dictionary that is known to be new and empty on this path.
func lookupOnEmpty(cond ssa.Value, empty map[ssa.Value]bool) bool {
	ex, ok := cond.(*ssa.Extract)
	if !ok || ex.Index != 1 {
		return false
	}
	call, ok := ex.Tuple.(*ssa.Call)
	if !ok {
		return false
	}
	g := call.Call.StaticCallee()
	// a lookup: a method of the dictionary with a (value, found bool) result that does not modify the dictionary
	if g == nil || g.Signature.Recv() == nil || len(call.Call.Args) == 0 || g.Signature.Results().Len() != 2 || inertDictWriters[g] {
		return false
	}
	if rp, ok := g.Signature.Recv().Type().(*types.Pointer); !ok || !isNamed(rp.Elem(), "redisDict") {
		return false
	}
	if b, ok := g.Signature.Results().At(1).Type().Underlying().(*types.Basic); !ok || b.Kind() != types.Bool {
		return false
	}
	r := call.Call.Args[0]
	return empty[r] || isEmptyDictCall(r)
}

// inertReaches: is there a feasible CFG path from just after m to f that is not decided by an outcome of m itself?
//   - when m is a call, a branch on m's results with only one arm leading to f separates the outcomes of m: the arm
//     that leads to f is the outcome "m failed" (or "m did nothing"), on which m — itself subject to this rule — has
//     changed nothing; a path that comes back to m executes m again and is judged from there;
//   - a lookup in a dictionary that was created empty on this very path finds nothing (the edge "found" is pruned).
func inertReaches(m, f inertPoint) bool {
	mcall, mIsCall := m.in.(*ssa.Call)
	var barrier *ssa.BasicBlock
	if mIsCall && f.blk != m.blk {
		barrier = m.blk
	}
	decides := func(b *ssa.BasicBlock) bool {
		if !mIsCall {
			return false
		}
		ifi, ok := b.Instrs[len(b.Instrs)-1].(*ssa.If)
		if !ok || !inertDerives(ifi.Cond, mcall, 0) {
			return false
		}
		r0 := plainReachAvoid(b.Succs[0], f.blk, barrier)
		r1 := plainReachAvoid(b.Succs[1], f.blk, barrier)
		return r0 != r1
	}
	if m.blk == f.blk && m.idx <= f.idx {
		return true
	}
	type state struct {
		b   *ssa.BasicBlock
		key string
	}
	type item struct {
		b     *ssa.BasicBlock
		empty map[ssa.Value]bool
	}
	keyOf := func(e map[ssa.Value]bool) string {
		var ks []string
		for v := range e {
			ks = append(ks, v.Name())
		}
		sort.Strings(ks)
		return strings.Join(ks, ",")
	}
	enter := func(from, to *ssa.BasicBlock, empty map[ssa.Value]bool) map[ssa.Value]bool {
		ne := map[ssa.Value]bool{}
		for v := range empty {
			if p, ok := v.(*ssa.Phi); ok && p.Block() == to {
				continue
			}
			ne[v] = true
		}
		idx := -1
		for i, p := range to.Preds {
			if p == from {
				idx = i
			}
		}
		for _, in := range to.Instrs {
			p, ok := in.(*ssa.Phi)
			if !ok {
				break
			}
			if idx >= 0 && (isEmptyDictCall(p.Edges[idx]) || empty[p.Edges[idx]]) {
				ne[p] = true
			}
		}
		return ne
	}
	succsOf := func(b *ssa.BasicBlock, empty map[ssa.Value]bool) []*ssa.BasicBlock {
		if ifi, ok := b.Instrs[len(b.Instrs)-1].(*ssa.If); ok && lookupOnEmpty(ifi.Cond, empty) {
			return b.Succs[1:]
		}
		return b.Succs
	}
	seen := map[state]bool{}
	var work []item
	if !decides(m.blk) {
		for _, s := range succsOf(m.blk, nil) {
			work = append(work, item{s, enter(m.blk, s, nil)})
		}
	}
	for len(work) > 0 {
		it := work[len(work)-1]
		work = work[:len(work)-1]
		st := state{it.b, keyOf(it.empty)}
		if seen[st] {
			continue
		}
		seen[st] = true
		if it.b == f.blk {
			return true
		}
		if it.b == barrier || decides(it.b) {
			continue
		}
		for _, s := range succsOf(it.b, it.empty) {
			work = append(work, item{s, enter(it.b, s, it.empty)})
		}
	}
	return false
}

func ruleA4Inert(c *Ctx) {
	c.S.Rule("A4-inert", textA4Inert, 20)
	im := c.inert()
	dead := map[string]bool{}
	for _, d := range c.M.Muts().dead {
		dead[d] = true
	}
	for _, fn := range c.SrcFuncs() {
		if fn.Blocks == nil || dead[fnName(fn)] {
			continue
		}
		if why, ok := inertExempt[fnName(fn)]; ok {
			c.S.Trivial("A4-inert", fnName(fn)+":exempt", c.Pos(fn.Pos()), why)
			continue
		}
		muts, fails := im.pointsOf(fn)
		if len(muts) > 0 {
			if bad := im.noChangeAfterFailedStatus(fn, muts); len(bad) > 0 {
				for i, b := range bad {
					if i >= 3 {
						break
					}
					c.S.Bad("A4-inert", fmt.Sprintf("%s:change-after-failed-status#%d", fnName(fn), i+1), c.Pos(fn.Pos()), fnName(fn)+": "+b+" — the command answers an error (or 0) and has changed the key all the same")
				}
			}
		}
		if len(muts) == 0 || len(fails) == 0 {
			continue
		}
		type pair struct{ m, f inertPoint }
		var bad []pair
		for _, m := range muts {
			for _, f := range fails {
				if m.in == f.in {
					continue // the same call: judged inside the callee
				}
				if im.classifiesOutcome(m, f) {
					continue // the "failure" is a pure function of the outcome of the change point itself
				}
				if inertReaches(m, f) {
					bad = append(bad, pair{m, f})
				}
			}
		}
		if len(bad) == 0 {
			c.S.OK("A4-inert", fnName(fn)+":validate-before-write", c.Pos(fn.Pos()),
				fmt.Sprintf("%d change point(s), %d failure point(s); no failure point is reachable after a change", len(muts), len(fails)))
			continue
		}
		sort.Slice(bad, func(i, j int) bool {
			return c.InstrPos(bad[i].f.in) < c.InstrPos(bad[j].f.in)
		})
		seen := map[string]bool{}
		for _, p := range bad {
			k := fmt.Sprintf("%s:%s=>%s", fnName(fn), shortWhat(p.m.what), shortWhat(p.f.what))
			if seen[k] {
				continue
			}
			seen[k] = true
			c.S.Bad("A4-inert", k, c.Pos(c.InstrPos(p.f.in)),
				fmt.Sprintf("%s: after %s (at %s) a path leads to a failure: %s — the command fails with the change already made", fnName(fn), p.m.what, c.Pos(c.InstrPos(p.m.in)), p.f.what))
		}
	}
}

func shortWhat(s string) string {
	s = strings.TrimSuffix(strings.TrimSuffix(s, " (can change state)"), " (can fail)")
	return strings.ReplaceAll(s, " ", "_")
}

// inertExempt: functions that legitimately run several independent commands or steps, with the reason.
var inertExempt = map[string]string{}

// ---------------------------------------------------------------- no change after a failed status

// statusDomain describes the values a status result can take and which of them mean "the command fails".
type statusDomain struct {
	all, failing uint32
	kind         string // enum | bool | ptr
}

func (c *Ctx) statusDomainOf(res *types.Var) (statusDomain, bool) {
	t := res.Type()
	if min, ok := c.failEncOf(t); ok {
		n := uint32(5)
		if isNamed(t, "keyOpResult") {
			n = 3
		}
		all := uint32(1)<<n - 1
		var failing uint32
		for i := uint32(0); i < n; i++ {
			if int64(i) >= min {
				failing |= 1 << i
			}
		}
		return statusDomain{all, failing, "enum"}, true
	}
	if b, ok := t.Underlying().(*types.Basic); ok && b.Kind() == types.Bool && res.Name() == "wrongType" {
		return statusDomain{3, 2, "bool"}, true
	}
	if p, ok := t.(*types.Pointer); ok && c.isPkgType(p.Elem(), "respErrorString") {
		return statusDomain{3, 2, "ptr"}, true
	}
	if t.String() == "error" {
		return statusDomain{3, 2, "ptr"}, true
	}
	return statusDomain{}, false
}

// refine: the possible values of v on the successor `succIdx` of an If with condition cond.
func refineStatus(cond ssa.Value, v ssa.Value, d statusDomain, m uint32, succIdx int) uint32 {
	truth := succIdx == 0
	switch x := cond.(type) {
	case *ssa.UnOp:
		if x.Op == token.NOT {
			return refineStatus(x.X, v, d, m, 1-succIdx)
		}
	case *ssa.BinOp:
		if x.Op != token.EQL && x.Op != token.NEQ {
			return m
		}
		var other ssa.Value
		if sameStatus(x.X, v) {
			other = x.Y
		} else if sameStatus(x.Y, v) {
			other = x.X
		} else {
			return m
		}
		k, ok := other.(*ssa.Const)
		if !ok {
			return m
		}
		var bit uint32
		switch d.kind {
		case "enum":
			if k.Value == nil {
				return m
			}
			bit = 1 << uint32(k.Int64())
		case "bool":
			bit = 1
			if k.Value != nil && k.Value.String() == "true" {
				bit = 2
			}
		case "ptr":
			if !k.IsNil() {
				return m
			}
			bit = 1 // nil
		}
		eq := (x.Op == token.EQL) == truth
		if eq {
			return m & bit
		}
		return m &^ bit
	}
	if sameStatus(cond, v) && d.kind == "bool" {
		if truth {
			return m & 2
		}
		return m & 1
	}
	return m
}

// sameStatus: the same SSA value, or another extract of the same result of the same call.
func sameStatus(a, v ssa.Value) bool {
	if a == v {
		return true
	}
	ea, ok1 := a.(*ssa.Extract)
	ev, ok2 := v.(*ssa.Extract)
	if ok1 && ok2 && ea.Tuple == ev.Tuple && ea.Index == ev.Index {
		return true
	}
	// reload of a local cell (a named result kept in memory because of a defer) that the status was stored into
	if u, ok := a.(*ssa.UnOp); ok && u.Op == token.MUL {
		if al, ok := u.X.(*ssa.Alloc); ok {
			for _, r := range referrers(al) {
				if st, ok := r.(*ssa.Store); ok && st.Addr == ssa.Value(al) && st.Val != a && sameStatus(st.Val, v) {
					return true
				}
			}
		}
	}
	return false
}

// noChangeAfterFailedStatus: on no path a change point is executed while a status obtained from a callee earlier on
// that path may still be a failing one.
func (im *inertModel) noChangeAfterFailedStatus(fn *ssa.Function, muts []inertPoint) []string {
	c := im.c
	var out []string
	for _, in := range instrsOf(fn) {
		call, ok := in.(*ssa.Call)
		if !ok || im.neutralCall(call) {
			continue
		}
		g := call.Call.StaticCallee()
		if g == nil || !c.InPkg(g) || !im.mayFail[g] {
			continue
		}
		res := g.Signature.Results()
		for i := 0; i < res.Len(); i++ {
			d, ok := c.statusDomainOf(res.At(i))
			if !ok {
				continue
			}
			// can g return a failing value in this position at all?
			if !im.returnsFailing(g, i) {
				continue
			}
			var v ssa.Value
			if res.Len() == 1 {
				v = call
			} else {
				for _, r := range referrers(call) {
					if ex, ok := r.(*ssa.Extract); ok && ex.Index == i {
						v = ex
					}
				}
			}
			if v == nil || len(referrers(v)) == 0 {
				continue // result discarded
			}
			// only statuses this function treats as a failure of the command: it hands the status on as its own
			// result, or produces a failure on a branch decided by it (a status that is merely looked at — "weight
			// key missing or of another type: use 0" — is not a failure of the command)
			if !im.treatedAsFailure(fn, v, d) {
				continue
			}
			// the callee may only ever return some of the values of the enumeration
			if d.kind == "enum" {
				if mask, ok := possibleStatusConsts(g, i, 0); ok && mask != 0 {
					d.all &= mask
					if d.all&d.failing == 0 {
						continue
					}
				}
			}
			// forward data flow of the possible values
			state := map[*ssa.BasicBlock]uint32{}
			start := call.Block()
			type item struct {
				b    *ssa.BasicBlock
				from int // first instruction index to look at
				m    uint32
			}
			work := []item{{start, instrIndex(call) + 1, d.all}}
			for len(work) > 0 {
				it := work[len(work)-1]
				work = work[:len(work)-1]
				if it.m&d.failing != 0 {
					for _, mp := range muts {
						if mp.in == ssa.Instruction(call) {
							continue
						}
						if mp.blk == it.b && mp.idx > it.from-1 && mp.idx >= it.from {
							out = append(out, fmt.Sprintf("%s (at %s) can run although %s, obtained from %s at %s, may still report a failure", mp.what, c.Pos(c.InstrPos(mp.in)), res.At(i).Name(), fnName(g), c.Pos(call.Pos())))
						}
					}
				}
				last := it.b.Instrs[len(it.b.Instrs)-1]
				for si, s := range it.b.Succs {
					m := it.m
					if ifi, ok := last.(*ssa.If); ok {
						m = refineStatus(ifi.Cond, v, d, m, si)
					}
					if m == 0 {
						continue
					}
					if s == start {
						continue // the call is executed again: a new status
					}
					if old, seen := state[s]; seen && old|m == old {
						continue
					}
					state[s] |= m
					work = append(work, item{s, 0, state[s]})
				}
			}
		}
	}
	sort.Strings(out)
	var uniq []string
	for i, s := range out {
		if i == 0 || s != out[i-1] {
			uniq = append(uniq, s)
		}
	}
	return uniq
}

// treatedAsFailure: v reaches a failure-result position of a return of fn, or a branch on v dominates a failure point.
func (im *inertModel) treatedAsFailure(fn *ssa.Function, v ssa.Value, d statusDomain) bool {
	res := fn.Signature.Results()
	for _, b := range fn.Blocks {
		ret, ok := b.Instrs[len(b.Instrs)-1].(*ssa.Return)
		if !ok {
			continue
		}
		for i, r := range ret.Results {
			if i >= res.Len() {
				continue
			}
			if _, isStatus := im.c.statusDomainOf(res.At(i)); !isStatus {
				continue
			}
			for _, leaf := range phiLeaves(r, map[ssa.Value]bool{}) {
				if sameStatus(leaf, v) {
					return true
				}
			}
		}
	}
	for _, b := range fn.Blocks {
		ifi, ok := b.Instrs[len(b.Instrs)-1].(*ssa.If)
		if !ok {
			continue
		}
		onV := false
		switch x := ifi.Cond.(type) {
		case *ssa.BinOp:
			onV = sameStatus(x.X, v) || sameStatus(x.Y, v)
		default:
			onV = sameStatus(ifi.Cond, v)
		}
		if !onV {
			continue
		}
		for si, s := range b.Succs {
			if len(s.Preds) != 1 {
				continue
			}
			// the arm on which the status can still be a failing value
			if refineStatus(ifi.Cond, v, d, d.all, si)&d.failing == 0 {
				continue
			}
			for _, fp := range im.fails[fn] {
				if fp.blk == s || s.Dominates(fp.blk) {
					return true
				}
			}
		}
	}
	return false
}

// returnsFailing: some return of g carries a failing constant (or a propagated status) in result position idx.
func (im *inertModel) returnsFailing(g *ssa.Function, idx int) bool {
	for _, p := range im.fails[g] {
		if strings.HasPrefix(p.what, "failure result") {
			return true
		}
	}
	// propagated from a callee
	for _, b := range g.Blocks {
		if ret, ok := b.Instrs[len(b.Instrs)-1].(*ssa.Return); ok && idx < len(ret.Results) {
			for _, leaf := range phiLeaves(ret.Results[idx], map[ssa.Value]bool{}) {
				switch leaf.(type) {
				case *ssa.Extract, *ssa.Call:
					return true
				}
			}
		}
	}
	return false
}

// possibleStatusConsts: the set of constants function g can return in result position idx (following statuses handed on
// from static callees); ok=false if some return value is not a constant.
func possibleStatusConsts(g *ssa.Function, idx int, depth int) (uint32, bool) {
	if depth > 3 || len(g.Blocks) == 0 {
		return 0, false
	}
	var mask uint32
	for _, b := range g.Blocks {
		ret, ok := b.Instrs[len(b.Instrs)-1].(*ssa.Return)
		if !ok || idx >= len(ret.Results) {
			continue
		}
		for _, leaf := range phiLeaves(ret.Results[idx], map[ssa.Value]bool{}) {
			switch x := leaf.(type) {
			case *ssa.Const:
				if x.Value == nil || x.Int64() < 0 || x.Int64() > 30 {
					return 0, false
				}
				mask |= 1 << uint32(x.Int64())
			case *ssa.Extract:
				call, ok := x.Tuple.(*ssa.Call)
				if !ok || call.Call.StaticCallee() == nil {
					return 0, false
				}
				m2, ok := possibleStatusConsts(call.Call.StaticCallee(), x.Index, depth+1)
				if !ok {
					return 0, false
				}
				mask |= m2
			case *ssa.Call:
				if x.Call.StaticCallee() == nil {
					return 0, false
				}
				m2, ok := possibleStatusConsts(x.Call.StaticCallee(), 0, depth+1)
				if !ok {
					return 0, false
				}
				mask |= m2
			default:
				return 0, false
			}
		}
	}
	return mask, true
}
