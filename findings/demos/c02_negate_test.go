package redisemu

import (
	"strings"
	"testing"
)

// C02/C03: the smallest int64 cannot be negated. DECRBY k -9223372036854775808 must be refused
// ("decrement would overflow"), not executed as an increment by the same (negative) amount;
// LPOS … RANK -9223372036854775808 must be refused as out of range.
func TestDemoC02DecrByMinInt(t *testing.T) {
	s := startDemo(t, "")
	defer s.stop()
	c := s.dial(t)
	c.do("SET", "k", "0")
	got := c.do("DECRBY", "k", "-9223372036854775808")
	if !strings.HasPrefix(got, "-ERR") {
		t.Errorf("DECRBY k -9223372036854775808: got %s, want an error (the decrement cannot be negated)", got)
	}
	expect(t, "value after the refused DECRBY", c.do("GET", "k"), "\"0\"")
}

func TestDemoC03LposRankMinInt(t *testing.T) {
	s := startDemo(t, "")
	defer s.stop()
	c := s.dial(t)
	c.do("RPUSH", "l", "a", "b", "a")
	got := c.do("LPOS", "l", "a", "RANK", "-9223372036854775808")
	if !strings.HasPrefix(got, "-ERR") {
		t.Errorf("LPOS l a RANK -9223372036854775808: got %s, want an error (the rank cannot be negated)", got)
	}
}
