package redisemu

import (
	"os"
	"os/exec"
	"strings"
	"testing"
	"time"

	"github.com/jimsnab/go-lane"
)

func TestDemoC20CloseLeavesConnectionsServing(t *testing.T) {
	s := startDemo(t, "")
	c := s.dial(t)
	c.do("SET", "a", "1")
	done := make(chan struct{})
	go func() { s.stop(); close(done) }()
	select {
	case <-done:
	case <-time.After(3 * time.Second):
		t.Fatal("Close did not return")
	}
	r := c.do("GET", "a")
	if r == `"1"` {
		t.Errorf("after RequestTermination+WaitForTermination returned, a previously connected client still reads data: GET a = %s", r)
	}
}

func TestDemoC20InstancesShareClients(t *testing.T) {
	s1 := startDemo(t, "")
	defer s1.stop()
	s2 := startDemo(t, "")
	defer s2.stop()
	c1 := s1.dial(t)
	c2 := s2.dial(t)
	c2.do("CLIENT", "SETNAME", "other-emulator")
	r := c1.do("CLIENT", "LIST")
	if strings.Contains(r, "other-emulator") {
		t.Errorf("CLIENT LIST on emulator 1 lists a client connected to emulator 2: %s", r)
	}
}

// run as a child process: starting a second emulator on a busy port must not terminate the process
func TestDemoC20ListenFailureExits(t *testing.T) {
	if os.Getenv("RD_CHILD") == "1" {
		l := lane.NewNullLane(nil)
		e1, _ := NewEmulator(l, 21990, "", "", nil)
		e1.Start()
		e2, _ := NewEmulator(l, 21990, "", "", nil)
		e2.Start() // port busy
		os.Stdout.WriteString("SURVIVED\n")
		e1.RequestTermination()
		return
	}
	cmd := exec.Command(os.Args[0], "-test.run", "^TestDemoC20ListenFailureExits$")
	cmd.Env = append(os.Environ(), "RD_CHILD=1")
	out, err := cmd.CombinedOutput()
	if !strings.Contains(string(out), "SURVIVED") {
		t.Errorf("starting an emulator on a busy port terminated the whole process: err=%v output=%q", err, strings.TrimSpace(string(out)))
	}
}
