package redisemu

import (
	"testing"
	"time"
)

func TestDemoC06SRemEmpty(t *testing.T) {
	s := startDemo(t, "")
	defer s.stop()
	c := s.dial(t)
	c.do("SADD", "s", "m")
	c.do("SREM", "s", "m")
	expect(t, "EXISTS s after removing the last member", c.do("EXISTS", "s"), ":0")
	expect(t, "TYPE s", c.do("TYPE", "s"), "+none")
}

func TestDemoC06SMoveEmpty(t *testing.T) {
	s := startDemo(t, "")
	defer s.stop()
	c := s.dial(t)
	c.do("SADD", "s", "m")
	c.do("SMOVE", "s", "d", "m")
	expect(t, "EXISTS s after moving the last member away", c.do("EXISTS", "s"), ":0")
}

func expiredKey(t *testing.T, c *demoCli, k string) {
	c.do("SET", k, "v", "PX", "40")
	time.Sleep(120 * time.Millisecond)
}

func TestDemoC07RenameExpired(t *testing.T) {
	s := startDemo(t, "")
	defer s.stop()
	c := s.dial(t)
	expiredKey(t, c, "k")
	expect(t, "RENAME of an expired key", c.do("RENAME", "k", "k2"), "-ERR no such key")
	expiredKey(t, c, "k5")
	expect(t, "COPY of an expired key", c.do("COPY", "k5", "k6"), ":0")
	expiredKey(t, c, "k3")
	c.do("SET", "k4", "x")
	expect(t, "RENAMENX onto an expired key", c.do("RENAMENX", "k4", "k3"), ":1")
}

func TestDemoC07RandomKeyDbSizeExpired(t *testing.T) {
	s := startDemo(t, "")
	defer s.stop()
	c := s.dial(t)
	expiredKey(t, c, "k")
	expect(t, "RANDOMKEY with only an expired key", c.do("RANDOMKEY"), "(nil)")
	expect(t, "DBSIZE with only an expired key", c.do("DBSIZE"), ":0")
}

func TestDemoC10WatchExpiredStored(t *testing.T) {
	s := startDemo(t, "")
	defer s.stop()
	c := s.dial(t)
	expiredKey(t, c, "k") // expired, still stored
	c.do("WATCH", "k")
	c.do("MULTI")
	c.do("PING")
	expect(t, "EXEC with an untouched (already expired) watched key", c.do("EXEC"), "[+PONG]")
}

func TestDemoC09ExecAbortResets(t *testing.T) {
	s := startDemo(t, "")
	defer s.stop()
	c1, c2 := s.dial(t), s.dial(t)
	c1.do("SET", "k", "1")
	c1.do("WATCH", "k")
	c2.do("SET", "k", "2")
	c1.do("MULTI")
	c1.do("PING")
	r := c1.do("EXEC")
	if r != "(nil)" && r != "(nil-array)" && r != "_" {
		t.Errorf("EXEC after a watched key changed: got %s, want a null reply", r)
	}
	expect(t, "PING after the aborted EXEC", c1.do("PING"), "+PONG")
}

func TestDemoC09QueueErrorAborts(t *testing.T) {
	s := startDemo(t, "")
	defer s.stop()
	c := s.dial(t)
	c.do("MULTI")
	c.do("SET", "a", "1")
	t.Logf("bad command inside MULTI -> %s", c.do("NOSUCHCOMMAND"))
	t.Logf("EXEC -> %s", c.do("EXEC"))
	expect(t, "GET a after EXEC of a transaction that contained a rejected command", c.do("GET", "a"), "(nil)")
}

func TestDemoHangC09ClientListInMulti(t *testing.T) {
	s := startDemo(t, "")
	defer s.stop()
	c := s.dial(t)
	c.do("MULTI")
	c.do("CLIENT", "LIST")
	c.send("EXEC")
	r := c.read(2 * time.Second)
	if len(r) > 9 && r[:9] == "<timeout/" {
		t.Errorf("MULTI; CLIENT LIST; EXEC never answers (self-deadlock on the database mutex): %s", r)
	}
}

func TestDemoC10WatchInPlace(t *testing.T) {
	s := startDemo(t, "")
	defer s.stop()
	c1, c2 := s.dial(t), s.dial(t)
	type tc struct {
		name  string
		setup []string
		mod   []string
	}
	for _, x := range []tc{
		{"RPUSH", []string{"RPUSH", "wl", "a"}, []string{"RPUSH", "wl", "b"}},
		{"LPOP", []string{"RPUSH", "wp", "a", "b"}, []string{"LPOP", "wp"}},
		{"HSET", []string{"HSET", "wh", "f", "1"}, []string{"HSET", "wh", "f", "2"}},
		{"SADD", []string{"SADD", "ws", "a"}, []string{"SADD", "ws", "b"}},
		{"EXPIRE", []string{"SET", "we", "v"}, []string{"EXPIRE", "we", "100"}},
		{"LSET", []string{"RPUSH", "wt", "a"}, []string{"LSET", "wt", "0", "z"}},
		{"HINCRBY", []string{"HSET", "wi", "n", "1"}, []string{"HINCRBY", "wi", "n", "1"}},
		{"SREM", []string{"SADD", "wr", "a", "b"}, []string{"SREM", "wr", "a"}},
		{"PERSIST", []string{"SET", "wq", "v", "EX", "100"}, []string{"PERSIST", "wq"}},
	} {
		c1.do(x.setup...)
		c1.do("WATCH", x.setup[1])
		c2.do(x.mod...)
		c1.do("MULTI")
		c1.do("PING")
		r := c1.do("EXEC")
		if r == "[+PONG]" {
			t.Errorf("%s on a watched key by another client: EXEC still ran (%s)", x.name, r)
			c1.do("UNWATCH")
		} else {
			t.Logf("%s: EXEC -> %s", x.name, r)
			c1.do("DISCARD")
		}
	}
}

func TestDemoC13SortLimitIgnored(t *testing.T) {
	s := startDemo(t, "")
	defer s.stop()
	c := s.dial(t)
	c.do("RPUSH", "l", "3", "1", "2")
	expect(t, "SORT l LIMIT 0 1", c.do("SORT", "l", "LIMIT", "0", "1"), `["1"]`)
}
