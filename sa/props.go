package main

import (
	"fmt"
	"golang.org/x/tools/go/ssa"
	"path/filepath"
	"strings"
)

// fileScope builds an A7 scope predicate: sites located in functions defined in one of the files.
func fileScope(c *Ctx, files ...string) func(fn string) bool {
	return func(fn string) bool {
		f := c.Fn(fn)
		if f == nil {
			// closures: strip the $n suffix
			if i := strings.Index(fn, "$"); i > 0 {
				f = c.Fn(fn[:i])
			}
		}
		if f == nil {
			return false
		}
		base := filepath.Base(c.Fset.Position(f.Pos()).Filename)
		for _, x := range files {
			if x == base {
				return true
			}
		}
		return false
	}
}

// command families by token, as enumerated in the property statements (the handler table maps tokens to functions, so
// moving or renaming a handler does not change a family)
var familyTokens = map[string][]string{
	"string": {"set", "setnx", "setex", "psetex", "get", "getset", "getdel", "getex", "mget", "mset", "msetnx", "append", "strlen", "getrange", "substr", "setrange", "incr", "decr", "incrby", "decrby", "incrbyfloat", "lcs"},
	"list": {"lpush", "rpush", "lpushx", "rpushx", "lpop", "rpop", "llen", "lindex", "lrange", "lset", "linsert", "lrem", "ltrim", "lpos", "lmove", "rpoplpush", "lmpop",
		"blpop", "brpop", "blmove", "brpoplpush", "blmpop"},
	"hash": {"hset", "hmset", "hsetnx", "hget", "hmget", "hgetall", "hkeys", "hvals", "hlen", "hexists", "hstrlen", "hdel", "hincrby", "hincrbyfloat", "hrandfield", "hscan"},
	"set":  {"sadd", "srem", "scard", "sismember", "smismember", "smembers", "smove", "srandmember", "spop", "sscan", "sinter", "sunion", "sdiff", "sinterstore", "sunionstore", "sdiffstore", "sintercard"},
}

// tokenScope: the commands of one family, for rules that iterate over command tokens
func tokenScope(fam string) func(tok string, cmd *GCmd) bool {
	set := map[string]bool{}
	for _, t := range familyTokens[fam] {
		set[t] = true
	}
	return func(tok string, cmd *GCmd) bool { return set[tok] }
}

// familyHandlers: the handler functions of a family (tokens that the table does not have are ignored; at least half
// of the family must resolve or the scope is reported as unresolved).
func familyHandlers(c *Ctx, fam string) (map[*ssa.Function]bool, error) {
	hs, err := c.M.Handlers()
	if err != nil {
		return nil, err
	}
	out := map[*ssa.Function]bool{}
	n := 0
	for _, t := range familyTokens[fam] {
		if h := hs[t]; h != nil {
			out[h] = true
			n++
		}
	}
	if n*2 < len(familyTokens[fam]) {
		return nil, fmt.Errorf("only %d of the %d commands of the %s family are in the handler table", n, len(familyTokens[fam]), fam)
	}
	return out, nil
}

// family restricts a whole-program rule to the obligations that lie in functions reachable (call graph, without
// `go` edges) from the command handlers defined in the given files: the check of a command family does not answer for
// the other families. Obligations whose key does not name a function are kept. minCount replaces the rule's floor.
func family(minCount int, fam string, rule func(*Ctx)) func(*Ctx) {
	return func(c *Ctx) {
		files := []string{"the " + fam + " commands"}
		reach := map[string]bool{}
		hs, err := familyHandlers(c, fam)
		if err != nil {
			c.S.Rule("family-scope", "the commands of a family resolve through the handler table", 0)
			c.S.Undecided("family-scope", fam, "-", err.Error())
			rule(c)
			return
		}
		for h := range hs {
			for f := range c.M.Reach(h) {
				reach[fnName(f)] = true
			}
		}
		tmp := &Sink{prop: c.S.prop, config: c.S.config, rules: map[string]*RuleInfo{}, notes: c.S.notes}
		rule(&Ctx{Prog: c.Prog, S: tmp, M: c.M})
		for _, id := range tmp.order {
			r := tmp.rules[id]
			fl := r.Floor
			if fl > minCount {
				fl = minCount
			}
			c.S.Rule(id, r.Text+" [restricted to the functions reachable from the handlers of "+strings.Join(files, ", ")+"]", fl)
		}
		for _, o := range tmp.obs {
			rest := strings.TrimPrefix(o.Key, o.Rule+":")
			fn := rest
			if i := strings.Index(rest, ":"); i >= 0 {
				fn = rest[:i]
			}
			known := c.Fn(fn) != nil
			if !known {
				if i := strings.Index(fn, "$"); i > 0 {
					known = c.Fn(fn[:i]) != nil
				}
			}
			if known && !reach[fn] {
				continue
			}
			c.S.obs = append(c.S.obs, o)
		}
	}
}

func a7Files(floor int, files ...string) func(*Ctx) {
	return func(c *Ctx) { ruleA7(fileScope(c, files...), floor)(c) }
}

// a7Family: the handler/grammar agreement for the handlers of one command family (and their closures)
func a7Family(floor int, fam string) func(*Ctx) {
	return func(c *Ctx) {
		hs, err := familyHandlers(c, fam)
		if err != nil {
			c.S.Rule("family-scope", "the commands of a family resolve through the handler table", 0)
			c.S.Undecided("family-scope", fam, "-", err.Error())
			return
		}
		names := map[string]bool{}
		for h := range hs {
			for f := range c.M.Reach(h) {
				names[fnName(f)] = true
			}
		}
		scope := func(fn string) bool {
			if i := strings.Index(fn, "$"); i > 0 {
				fn = fn[:i]
			}
			return names[fn]
		}
		ruleA7(scope, floor)(c)
	}
}

var commonAssumptions = []string{
	"the analysed program is the non-test package in /repo as type-checked by go/types under the listed build configurations; _test.go files are excluded (tests call *Unlocked internals directly)",
	"dynamic calls are resolved by the VTA call graph (an over-approximation); must-reach style rules use static callees only",
	"lock analysis is by lock class (mutex field / global), not by instance: holding database A's mutex while touching database B's data is not seen",
}

func init() {
	reg := func(id, expl, notDecided string, extraAssume []string, rules ...func(*Ctx)) {
		register(&PropSpec{ID: id, Explanation: expl, NotDecided: notDecided, Assumptions: append(append([]string{}, extraAssume...), commonAssumptions...), Rules: rules})
	}
	reg("C01",
		"Structure of the connection loop and of the serializer, decided on all paths: (R-C01-rearm) the per-command goroutine writes exactly once and re-arms the read only after a successful write, the socket is read only under the wait state, dispatching and re-arming are exclusive — one command in flight, replies in request order; (R-C01-consume) the buffer is advanced by exactly the length the parser returned for the dispatched value, is otherwise only appended to, and no parser object survives a read — replies depend on the concatenated bytes only; (R-C01-lenprefix) every length prefix is len() of the payload written; (R-C01-line) the line emitter strips CR/LF or no simple/error string embeds request bytes.",
		"that the parser answers 'need more' for every strict prefix of a frame (argued from its left-to-right determinism, not checked)",
		nil, ruleC01Rearm, ruleC01Consume, ruleC01LenPrefix, ruleC01Line, ruleC01Frame, ruleParserBounds, rulePoolEscape, ruleC01SingleWriter, ruleBytesOpaque, ruleFormatConst, ruleC01PayloadUntouched, ruleReplyNotDropped, ruleC01EndsOnReadError, ruleStringerIdentity, ruleC01InvalidZeroLength, ruleMakeLenAppend)
	reg("C02",
		"Structural clauses of the string/counter family: command identity from the normalised token (R-cmdident), the signed-overflow idiom compares with the other addend (R-overflow-idiom) or, written with sign tests, separates exactly the overflowing sign combinations (R-overflow-signs, 19 combinations enumerated), a sum of two outside 64-bit numbers is overflow-tested and a negated one excludes the smallest integer (R-overflow-checked), floats become reply text in fixed notation (R-float-text), MSETNX checks before it writes (R-C02-msetnx-phase), every argument the handlers read is produced by the grammar with that type (A7, redisKeys.go), the string commands flagged readonly reach no mutation site (A5-readonly). (A4-inert, string family) no failure point is reachable after a change point: validation precedes the first write.",
		"reply values, clamping arithmetic of GETRANGE/SETRANGE, LCS output, float formatting, TTL classes (keep/reset/from-argument)",
		nil, ruleCmdIdent, ruleOverflowIdiom, ruleOverflowSigns, family(0, "string", ruleOverflowChecked), family(0, "string", ruleBytesOpaque), ruleParseBase10, ruleFloatFinite, ruleFloatText, ruleMsetnxPhase, rulePayloadDistinctBacking, ruleLoopElementFresh, ruleTypeBeforeReply, a7Family(15, "string"), ruleReadonly(tokenScope("string")), family(3, "string", ruleA4Inert))
	reg("C03",
		"Structural clauses of the list family: no push onto a list that may just have been detached from the keyspace (R-C03-detached: LMOVE with source = destination), emptiness test after every unlink (A4-empty), an element is inserted after every creation of an empty list (A4-nonempty-create), list constructors set the complete link/count field set (R-ctor-agree), typed-accessor results are nil-tested before use (R-typed-nil), argument agreement with the grammar (A7, redisList.go). (R-list-shape) every function that writes list links is executed symbolically path by path from a well-formed list and leaves the written heap well formed: back links, head.prev=nil, tail.next=nil, head nil iff tail nil, count adjusted by the nodes linked/detached; (R-list-unlinked-use) a detached node is not followed; (A4-inert) failed list commands change nothing.",
		"which element a command selects (index normalisation, LPOS/LREM/LINSERT/LTRIM ranges, counts) and the replies — runtime values; the shape rule covers the link-writing primitives, not the choice of node they are applied to",
		nil, ruleDetached, ruleListShape, ruleListUnlinkedUse, ruleEmptyRemovesOwnKey, ruleTypeBeforeReply, ruleLoopElementFresh, ruleListCacheInvalidated, ruleListPopPrecondition, family(0, "list", ruleOverflowChecked), family(1, "list", ruleA8), ruleReadonly(tokenScope("list")), family(3, "list", ruleA4Empty), family(1, "list", ruleNonEmptyCreate), ruleCtorAgree, family(3, "list", ruleTypedNil), family(3, "list", ruleA4Inert), a7Family(15, "list"))
	reg("C04",
		"Structural clauses of the hash family: sibling handlers' distinguishing parameter is used by the shared helper (R-sibling-param: HSETNX), overflow test (R-overflow-idiom / R-overflow-signs: HINCRBY), fixed-notation float text (R-float-text: HINCRBYFLOAT), emptiness test after field removal (A4-empty), insertion after creation (A4-nonempty-create), nil-tested accessors (R-typed-nil), argument agreement (A7, redisHashTable.go). (A4-inert, hash family) failed hash commands change nothing.",
		"field/value contents, HRANDFIELD distribution, float formatting, dictionary growth/shrink arithmetic",
		nil, ruleSiblingParam, ruleOverflowIdiom, ruleOverflowSigns, family(0, "hash", ruleOverflowChecked), ruleFloatText, ruleDictReadersPure, ruleDictIterateModify, ruleParseBase10, ruleDictKeyCompare, ruleFloatFinite, ruleDictScanComplete, ruleDictShrinkFactor, ruleEmptyRemovesOwnKey, ruleTypeBeforeReply, ruleLoopElementFresh, ruleReadonly(tokenScope("hash")), family(1, "hash", ruleA4Empty), family(1, "hash", ruleNonEmptyCreate), family(3, "hash", ruleTypedNil), family(3, "hash", ruleA4Inert), a7Family(12, "hash"))
	reg("C05",
		"Structural clauses of the set family: commands flagged readonly (SINTER/SUNION/SDIFF/SMEMBERS/…) reach no mutation site of database state — the algebra workers never modify an operand, they work on fresh dictionaries (A5-readonly; write commands reach one); emptiness test after member removal (A4-empty), insertion after creation (A4-nonempty-create), nil-tested accessors, argument agreement (A7, redisSet.go). (R-payload-own) every installed payload is a new object or the same key's own, never an operand's dictionary; (R-store-nonempty) a computed set is installed only when its count is not zero; (R-C05-operand-loop) workers leave the operand loop early only for failure or the absorbing empty set; (R-C05-self-move) SMOVE compares its two key names; (A4-inert) failed set commands change nothing.",
		"that the computed set equals the mathematical result (membership is a runtime value); SRANDMEMBER/SPOP selection; replies such as the 0/1 of SMOVE",
		nil, ruleReadonly(tokenScope("set")), rulePayloadOwn, ruleOperandLoop, ruleStoreNonEmpty, ruleSelfMove, ruleDictReadersPure, ruleDictIterateModify, ruleDictKeyCompare, ruleScanPatternApplied, ruleC05SmoveReply, ruleC05SingleOperand, ruleDictScanComplete, ruleDictShrinkFactor, ruleEmptyRemovesOwnKey, ruleTypeBeforeReply, ruleLoopElementFresh, rulePayloadStoreTyped, ruleC05OperandPerIteration, ruleStoreDestSettled, family(2, "set", ruleA4Empty), family(1, "set", ruleNonEmptyCreate), family(3, "set", ruleTypedNil), family(3, "set", ruleA4Inert), a7Family(10, "set"))
	reg("C06",
		"Structural necessary conditions of keyspace discipline, decided for every site of the current source: (A4-empty) after every site that can shrink a list/hash/set every path to the end of the critical section tests the aggregate's count against zero and removes the key on the empty side; (A4-nonempty-create) an element is inserted after every creation of an empty aggregate; (R-payload-agree) every type assertion on a key's payload is dominated by a test of the key-type flag and asserts the Go type producers store for that flag; (R-ctor-agree) list constructors (COPY, load) set the full field set; (R-typed-nil) typed-accessor results are nil-tested before dereference (WRONGTYPE before any use); (A7, redisCore.go) options of the keyspace commands are producible by the grammar; (A6) the keyspace commands (EXISTS, TYPE, RENAME(NX), COPY, KEYS, RANDOMKEY, DBSIZE ...) see the keyspace only through an expiry filter, so an expired key is absent for them as the property demands. (A4-inert) in every handler and store method no failure point is reachable after a change point; (R-payload-own, R-store-nonempty) payload objects are never shared between keys and computed aggregates are installed only when non-empty.",
		"glob matching, SORT ordering, DBSIZE/KEYS values, deep-copy equality of COPY/RENAME as values",
		nil, ruleA4Empty, ruleNonEmptyCreate, rulePayloadAgree, ruleDictValueAgree, ruleBytesOpaque, ruleStoreReplaces, ruleStringPayloadNonNil, ruleSortKeysDefined, ruleDictKeyCompare, ruleCloneCarries, ruleWrongTypeReported, ruleTypeBeforeReply, rulePayloadDistinctBacking, rulePayloadStoreTyped, ruleListPopPrecondition, ruleStoreDestSettled, ruleScanPatternApplied, ruleCtorAgree, ruleTypedNil, ruleA6, ruleA4Inert, rulePayloadOwn, ruleStoreNonEmpty, ruleSameKeyOrder, ruleDictReadersPure, ruleMakeLenAppend, ruleDictScanComplete, ruleDictShrinkFactor, ruleEmptyRemovesOwnKey, a7Files(20, "redisCore.go"))
	reg("C07",
		"A6 (who-may-read the keyspace raw): every read of a database's keyspace dictionary goes through an expiry filter (tests isExpired, yields (nil,false) on the expired edge), or is an iteration that tests isExpired per element, or is the snapshot writer (identified as the function that drives the gob encoder). This is exactly the universally quantified 'every command treats an expired key as missing' clause.",
		"deadline arithmetic, TTL/PTTL/EXPIRETIME values, NX/XX/GT/LT comparisons, which commands keep/reset/set the deadline, behaviour at the deadline instant (time is a runtime quantity)",
		nil, ruleA6, ruleReplaceClearsTTL, ruleInplaceKeepsTTL, ruleC07AbsDeadline, ruleStoreReplaces, ruleCloneCarries, ruleC07GetexNeedsOption, ruleC07DeadlineBase, ruleC07MoverCallers, ruleOptionsBeforeChange)
	reg("C08",
		"Under the lock-class assumption: (A1-DB) every access to database state happens with the database mutex held on every path from every root; (lock-balanced) no function returns with the mutex possibly still held; (A3) every keyspace command opens at most one critical section (blocking commands: per attempt). Together this is the static form of strict two-phase locking with one lock, which implies atomicity of single-database commands. (A1-payload-bytes) published byte payloads are never written in place; (R-C14-dbtable, R-C14-select) there is one database object and one mutex per index — the premise of the lock-class abstraction.",
		"real-time ordering across connections beyond mutual exclusion; cross-database scenarios; wrap-around of the 27-bit command id compared by the re-entrant lock",
		[]string{"the owner-token protocol: ds.multiLock equals a command's id only while the EXEC (or exclusive section) that published it holds ds.mu, and cmdContext.multi is true for a queued command only while that EXEC replays it"},
		ruleA1("A1-guarded", onlyDB), ruleLockBalanced(nil), ruleA3, ruleA1PayloadBytes, ruleC14DbTable, ruleC14Select, ruleTokenFresh, ruleTokenIdFromAdd, ruleC14CreateInLookupSection, ruleSharedLockReadonly, ruleGuardedBackingEscape, ruleC16ForeignDbOwnLock, ruleC16GlobalStateGlobalLock)
	reg("C09",
		"Structure of the MULTI/EXEC implementation, decided on all paths: state reset on every exit of EXEC/DISCARD; commands are only queued while a queue exists (append guard, non-nil response after append, handler call dominated by response==nil, control table = {multi,exec,discard,watch}); EXEC replays under the exclusive database hold with the lock id rewritten; a prepared command is never re-bound to another database; error branches of the control commands do not touch queue/watches; a command rejected while queueing leaves a mark EXEC reads; nothing replayable takes the database mutex non-re-entrantly. (R-C09-replay-unconditional) in the replay function no branch that can skip the handler reads state that another goroutine can change. (R-cmdident) the table of commands that run at once inside MULTI is consulted with the case-normalised name.",
		"isolation against other connections beyond the lock argument of C08; reply contents and their order inside the EXEC reply",
		nil, ruleC09Reset, ruleC09QueueOnly, ruleC09Exclusive, ruleC09AbortFlag, ruleC09ErrorsInert, ruleA2Reentrant, ruleC09Bind, ruleC09Replay, ruleCmdIdent, ruleC09OneReply, ruleC09OwnCommandObject, ruleC09CheckInSection, ruleC09QueueStartsEmpty, ruleC09RejectKeepsMode)
	reg("C10",
		"A4-version: 'every kind of modification is visible to the comparison at EXEC' is a claim over all write sites: every mutation site of database state (including replacement of the whole keyspace by a flush) has, on every path through it inside its critical section, an event that gives the key a new version id or removes it from the keyspace. A6: the version comparison and the capture at WATCH use the expiry-aware lookup. R-C09-reset: the watch set is cleared on every exit of EXEC/DISCARD.",
		"the 'iff' across arbitrary interleavings (follows from C08's lock argument plus this rule); expiry-as-modification timing; re-WATCH of an already watched key",
		[]string{"a helper that looks the key up and bumps its version is given the key of the object being modified (the not-found edge of that lookup is not followed)"},
		ruleA4Version, ruleA6, ruleC09Reset, ruleFreshID, ruleC10WatchDB, ruleNameObjectAgree, ruleC10BumpNeedsChange, ruleParallelIndex, ruleC10WatchAccumulates, ruleC10BumpNamesKey)
	reg("C11",
		"Structure of the block/wake protocol, decided on all paths of the current source: try → register → try again → wait; a waiter that was woken (and thereby unlinked from every queue) registers again before it waits again; registrations are disposed on every exit; waiters are woken before the database mutex is released, through a buffered channel; every function that can make a list non-empty releases the lock through the waking wrapper and records how many elements it inserted. The wake in the release wrapper dominates every return (no path skips it, e.g. when the pusher owns the exclusive lock).",
		"FIFO fairness, exactly-once delivery across interleavings, element order — schedule properties; no model of the scheduler is built (that would be a different technique family); RENAME/COPY/RESTORE placing a list under a waited key",
		nil, ruleC11Protocol, ruleC11Wake, ruleC11UnlinkAll, ruleDeferCurrentValue, ruleNameObjectAgree, ruleC11RegisterAll, ruleC11DeleteOwnQueue, ruleC11WakeCount, ruleC11OneWakePerClient, ruleDeferNotInLoop, ruleParamSliceNotReordered)
	reg("C12",
		"Structure of how a blocking wait ends: the select has exactly the three arms mailbox/timer/wake; capture is paired with releaseCapture on all paths; registration is unreachable when the command runs from EXEC; CLIENT UNBLOCK's reply depends on the unblock result; closing/killing a connection reaches the unblock of its blocked command. (R-C12-deadline) the wait timer is armed with a remaining time computed from the clock where it is armed; (R-C12-timeout-agree) all blocking commands convert their timeout argument by the same expression; (R-C12-write-deadline) a write deadline, if any, is taken after the command ran; (R-C12-state-cas) the capture state changes only by CompareAndSwap between named states or by its transient owner.",
		"timing ('no earlier than t', 'promptly'); races between unblock, push and timer",
		nil, ruleC12, ruleC12Deadline, ruleC12TimeoutAgree, ruleC12Mailbox, ruleC12WriteDeadline, ruleC12StateCAS, ruleC12PendingReset, ruleDeferCurrentValue, ruleReplyNotDropped, ruleC12TransientLeft, ruleDeferNotInLoop, ruleC12AlwaysBlockingPath, ruleC12DeadlineExact)
	reg("C13",
		"No path of these crash/stall classes is reachable from the socket: (A7) every single-result type assertion on a value taken from a command's args agrees with what the grammar-driven parser stores for every token that reaches it, and every panic in the default arm of a key switch has a case for every producible key; (R-typed-nil) no nil typed-accessor result is dereferenced; (R-payload-agree) no payload assertion can fail for a key type; (lock-balanced, A2-reentrant) no command returns holding, or self-deadlocks on, the database mutex; (R-cmdident) handler behaviour does not depend on the client's spelling of the command.",
		"bounds safety of indexes computed from server-side lengths or by bit arithmetic (bitMath.go, bitmapUtils.go are outside A8), explicit panic() calls guarding internal invariants, termination of loops, memory growth, reply latency",
		nil, ruleA7(nil, 120, true), ruleA8, ruleLockBalanced(nil), ruleA2Reentrant, ruleTypedNil, rulePayloadAgree, ruleCmdIdent, ruleIndex0("respDeserializer.go", "clientCxn.go", "cmdDispatcher.go", "redisArgParser.go"), ruleValidateAll, ruleParserBounds, ruleHashKey, ruleDictValueAgree, ruleIndexVar("redisGlob.go"), ruleFormatConst, ruleC09OwnCommandObject)
	reg("C14",
		"(R-C14-dbtable) entries of the database table are inserted only when absent and after the index range test, and are never deleted or replaced (a flush empties a database in place), so every connection that selected a database keeps seeing it; (R-C14-select) the connection's selection changes only under the validity result, and a command is bound to the database of the connection it was prepared for; (A1 modes) per-connection session state is not touched through another connection's clientState. (R-C14-enumerate) index loops over the database table cover exactly the indexes the guarded creator admits; range enumerations are complete by construction.",
		"values returned by DBSIZE, cross-connection visibility timing",
		nil, ruleC14DbTable, ruleC14Select, ruleC14Enumerate, ruleC14DescribeParam, ruleC14IndexUnnarrowed, ruleC14FlushAlways, ruleC19FileIndex, ruleC14TableCache, ruleC14HandlerBoundDb, ruleC14CreateInLookupSection, ruleC14FlushAllEach, ruleC10WatchDB, ruleC09QueueOnly, ruleA1ModesFor("dataStore.waitingClients", "clientState.selectedDb", "clientState.ds", "clientState.name", "clientState.cmdQueue", "clientState.watches", "clientState.respVersion", "clientState.noEvict", "clientState.libName", "clientState.libVer", "clientState.multiInProgress"))
	reg("C15",
		"(R-C15-exhaustive) every RESP type that reply-producing code or the request parser can put into a value is a case of the type switches that consume it (serialize, resp3To2, toNative, String); (R-C15-closure) the down-converter produces only RESP2 kinds and recurses into children; (R-C15-downconvert) the RESP2 branch of the dispatcher applies it to every handler/hook result; (R-C15-hello) the protocol version is only set under a guard restricting it to 2 or 3 whose failing side answers an error; the version field is confined to its connection (A1); (R-float-text) doubles become text in fixed notation at every site. Down-conversion helpers never return their input collection (no partial-depth shortcut).",
		"element order/nesting equality between the two encodings; boolean → 0/1 and other value-level conversions",
		nil, ruleC15Exhaustive, ruleC15Closure, ruleC15Downconvert, ruleC15Hello, ruleC15HelloStored, ruleC15UnconvertedSafe, ruleStringerIdentity, ruleC15ChildrenConverted, ruleC15VersionAfterHandler, ruleC15HelloReportsNew, ruleFloatText, ruleA1ModesFor("clientState.respVersion"))
	reg("C16",
		"A1 in full: guarded-by lockset over all lock classes, atomics-only fields, immutable-after-construction fields, connection-confined session state (foreign *clientState taint), run-loop confinement of the connection buffer, append aliasing on the shared grammar slices, immutability of published payload bytes, lock-balanced, and (A1-unlisted-global) package-level variables outside the table that connection code writes at run time have one lock class in common at every access. A race is a property of pairs of code paths; A1 enumerates every access path to every shared field listed in the guarded-by table.",
		"lock-instance confusion; races inside dependencies; fields of realRedisClient (talks to a real server)",
		[]string{"the two hand-offs the confinement argument relies on: `go cc.run()` after construction, and the csceCh channel that sequences the reader goroutine and the per-command goroutine of one connection"},
		ruleA1("A1-guarded", anyClass), ruleA1Modes, ruleUnlistedGlobal, ruleAppendAlias, ruleA1PayloadBytes, rulePoolEscape, ruleTokenFresh, ruleTokenIdFromAdd, ruleSharedLockReadonly, ruleGuardedBackingEscape, ruleC16NewSharedField, ruleC16ForeignDbOwnLock, ruleC16GoCaptures, ruleC16GlobalStateGlobalLock, ruleLockBalanced(nil))
	reg("C19",
		"(A4-dirty) every mutation site of database state marks the database dirty on every path inside its critical section; (R-C19-all-dbs) the saver ranges over the whole database table; (R-C19-records) writer and loader agree on the record stream: no stored entry is skipped, every header/key-object field is written and read back, both branch on every key type; (R-C19-atomic-replace) the snapshot is written to a temporary file, closed, then renamed; (R-C14-dbtable) a flushed database keeps its table entry, so its emptiness is saved; (R-payload-agree/R-ctor-agree) writer and loader use the canonical payload types and build complete lists. (R-C14-enumerate) the enumeration of databases to save is complete.",
		"gob round-trip equality of values; on-disk states at crash points beyond the create/rename structure (needs execution or a file-system model)",
		nil, ruleA4Dirty, ruleC19AllDbs, ruleC14Enumerate, ruleC19Records, ruleC19Atomic, ruleC19Startup, ruleC14DbTable, rulePayloadAgree, ruleCtorAgree, ruleStringPayloadNonNil, ruleC19ErrorUsed, ruleC19SaverEnds, ruleC19FinalSaveUncond, ruleC19FileIndex, ruleC19DirtyAfterReplace, ruleC19DecodeFresh, ruleC19DiscoverParse, ruleC19DiscoverNeedsPath, ruleC14TableCache, ruleC19WalkContinues, ruleC19HeaderCount, ruleC19LoadRecordComplete, ruleC19SaveNotThrottled)
	reg("C20",
		"Structure of start-up and shutdown: RequestTermination reaches a close request for the registered connections and WaitForTermination waits for their goroutines; no process-terminating call is reachable from the API; package-level state written at run time is instance-agnostic; the port retry loop depends on an error its callee can return. (R-C20-cancel-exits) the termination arm of a select in a goroutine loop never flows back to the select; (R-C20-term-releases) RequestTermination releases listener and cancel function on every path except the nil side of a test of that very field.",
		"timing of Close, port release by the OS",
		nil, ruleC20Close, ruleC20NoExit, ruleC20InstanceState, ruleC20Retry, ruleC20CancelExits, ruleC20TermPass, ruleC20Accounted, ruleC20Callback, ruleC20APIOwnInstance, ruleC20CountedNoSend, ruleC19SaverEnds, ruleC19FinalSaveUncond, ruleC20DoneLane, ruleC20NoGlobalAlias, ruleC20ListenerAtOnce, ruleC20AddThenGo, ruleC19DiscoverNeedsPath, ruleC19SaveNotThrottled, ruleC20LoadAtStart)
}
