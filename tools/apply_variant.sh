#!/bin/sh
# usage: tools/apply_variant.sh <diff> <dir>   — scratch copy of /repo with one variant applied (for debugging rules)
set -e
rm -rf "$2"; mkdir -p "$2"; rsync -a --exclude .git /repo/ "$2"/; cd "$2"; git apply --whitespace=nowarn "$1"
