package main

import (
	"encoding/json"
	"flag"
	"fmt"
	"os"
	"path/filepath"
	"runtime/debug"
	"sort"
	"strconv"
	"strings"
	"time"
)

// PropSpec ties a property id to the rules that decide its claimed clauses.
type PropSpec struct {
	ID          string
	Explanation string
	NotDecided  string
	Assumptions []string
	Rules       []func(*Ctx)
}

// Ctx is what a rule sees: the loaded program, the shared models and the obligation sink.
type Ctx struct {
	*Prog
	S *Sink
	M *Models
}

var registry = map[string]*PropSpec{}

func register(ps *PropSpec) { registry[ps.ID] = ps }

func verifDir() string {
	if d := os.Getenv("VERIF_DIR"); d != "" {
		return d
	}
	if wd, err := os.Getwd(); err == nil {
		if _, err := os.Stat(filepath.Join(wd, "properties.jsonl")); err == nil {
			return wd
		}
	}
	if exe, err := os.Executable(); err == nil {
		d := filepath.Dir(filepath.Dir(exe))
		if _, err := os.Stat(filepath.Join(d, "properties.jsonl")); err == nil {
			return d
		}
	}
	return "/verif"
}

func main() {
	if len(os.Args) < 2 {
		usage()
	}
	switch os.Args[1] {
	case "check":
		os.Exit(cmdCheck(os.Args[2:]))
	case "all":
		os.Exit(cmdAll(os.Args[2:]))
	case "explain":
		os.Exit(cmdExplain(os.Args[2:]))
	case "selftest":
		os.Exit(cmdSelftest(os.Args[2:]))
	case "dump":
		os.Exit(cmdDump(os.Args[2:]))
	default:
		usage()
	}
}

func usage() {
	fmt.Fprintln(os.Stderr, "usage: rdcheck check -property Cxx -tier quick|thorough [-root /repo]\n       rdcheck all [-root /repo]\n       rdcheck explain <report.json>\n       rdcheck selftest [-property Cxx]\n       rdcheck dump <what> [-root /repo]")
	os.Exit(2)
}

func seedFromEnv() int64 {
	if s := os.Getenv("VERIF_SEED"); s != "" {
		if n, err := strconv.ParseInt(s, 10, 64); err == nil {
			return n
		}
	}
	return 0
}

// runProperty runs all rules of one property on one loaded program.
func runProperty(p *Prog, m *Models, spec *PropSpec, s *Sink) {
	s.config = p.Config.Label
	if s.funcs == nil {
		s.funcs = map[string]bool{}
	}
	for _, fn := range p.SrcFuncs() {
		s.funcs[fnName(fn)] = true
	}
	ctx := &Ctx{Prog: p, S: s, M: m}
	for _, r := range spec.Rules {
		func() {
			defer func() {
				if rec := recover(); rec != nil {
					s.Rule("checker-panic", "the checker must not panic; a panic is an undecided obligation", 0)
					s.Undecided("checker-panic", fmt.Sprintf("%v", rec), "-", string(debug.Stack()))
				}
			}()
			r(ctx)
		}()
	}
	s.finishConfig()
}

func configsFor(tier string) []BuildConfig {
	if tier == "thorough" {
		return []BuildConfig{cfgDefault, cfgVerif, cfg386}
	}
	return []BuildConfig{cfgDefault}
}

func cmdCheck(args []string) int {
	fs := flag.NewFlagSet("check", flag.ExitOnError)
	prop := fs.String("property", "", "property id")
	tier := fs.String("tier", os.Getenv("VERIF_TIER"), "quick|thorough")
	root := fs.String("root", "/repo", "repository root")
	noSelf := fs.Bool("noselftest", false, "skip the self-test battery in the thorough tier")
	fs.Parse(args)
	if *tier == "" {
		*tier = "quick"
	}
	spec := registry[*prop]
	if spec == nil {
		fmt.Fprintf(os.Stderr, "unknown or unclaimed property %q\n", *prop)
		return 2
	}
	started := time.Now()
	vd := verifDir()
	s := newSink(spec.ID)
	st := runStats{}
	for _, bc := range configsFor(*tier) {
		p, err := Load(*root, bc)
		s.config = bc.Label
		if err != nil {
			s.Rule("load", "the repository must load and type-check under every analysed build configuration", 0)
			s.Undecided("load", bc.Label, "-", err.Error())
			st.Configs = append(st.Configs, bc.Label+" (failed)")
			continue
		}
		st.Configs = append(st.Configs, bc.Label)
		st.Packages = len(p.SSA.AllPackages())
		st.Functions = len(p.SrcFuncs())
		edges := 0
		for _, n := range p.CG.Nodes {
			edges += len(n.Out)
		}
		st.CGEdges = edges
		runProperty(p, newModels(p), spec, s)
		p = nil
		debug.FreeOSMemory()
	}
	if *tier == "thorough" && !*noSelf {
		st.SelfTest = runSelfTests(vd, *root, spec.ID)
	}
	return conclude(vd, *root, *tier, seedFromEnv(), s, st, spec, started)
}

// cmdAll is a development helper: every property on one load, summary only; writes nothing.
func cmdAll(args []string) int {
	fs := flag.NewFlagSet("all", flag.ExitOnError)
	root := fs.String("root", "/repo", "repository root")
	verbose := fs.Bool("v", false, "print every non-discharged obligation")
	only := fs.String("only", "", "comma-separated property ids")
	list := fs.String("list", "", "also print discharged obligations whose key contains this text")
	fs.Parse(args)
	p, err := Load(*root, cfgDefault)
	if err != nil {
		fmt.Println("load error:", err)
		return 1
	}
	m := newModels(p)
	kf, _ := loadKnown(verifDir())
	ids := []string{}
	for id := range registry {
		if *only == "" || strings.Contains(","+*only+",", ","+id+",") {
			ids = append(ids, id)
		}
	}
	sort.Strings(ids)
	rc := 0
	for _, id := range ids {
		s := newSink(id)
		runProperty(p, m, registry[id], s)
		d, v, u, k := 0, 0, 0, 0
		for _, o := range s.obs {
			switch o.Status {
			case stDischarged:
				d++
				if *list != "" && strings.Contains(o.Key, *list) {
					fmt.Printf("   ok        %s  %s  %s\n", o.Key, o.Pos, o.Detail)
				}
			case stViolated:
				if kf != nil && kf.matchIn(id, o.Key, o.Alt, s.funcs) != nil {
					k++
					if *verbose {
						fmt.Printf("   known     %s  %s  %s\n", o.Key, o.Pos, o.Detail)
						if o.Alt != "" {
							fmt.Printf("             alt=%s\n", o.Alt)
						}
					}
				} else {
					v++
					fmt.Printf("   VIOLATED  %s  %s  %s\n", o.Key, o.Pos, o.Detail)
				}
			default:
				u++
				fmt.Printf("   UNDECIDED %s  %s  %s\n", o.Key, o.Pos, o.Detail)
			}
		}
		fmt.Printf("%s: obligations=%d discharged=%d known=%d violated=%d undecided=%d\n", id, len(s.obs), d, k, v, u)
		if v+u > 0 {
			rc = 1
		}
	}
	return rc
}

func cmdExplain(args []string) int {
	if len(args) < 1 {
		usage()
	}
	b, err := os.ReadFile(args[0])
	if err != nil {
		fmt.Println(err)
		return 2
	}
	var rep Report
	if err := json.Unmarshal(b, &rep); err != nil {
		fmt.Println(err)
		return 2
	}
	fmt.Printf("property : %s\nrule     : %s\n           %s\nconstruct: %s\nposition : %s\nstatus   : %s\ndetail   : %s\n",
		rep.Property, rep.Oblig.Rule, rep.RuleText, rep.Oblig.Key, rep.Oblig.Pos, rep.Oblig.Status, rep.Oblig.Detail)
	// re-run the property on the recorded root and show whether the obligation still fails
	spec := registry[rep.Property]
	if spec == nil {
		return 0
	}
	root := rep.Root
	if len(args) > 1 {
		root = args[1]
	}
	p, err := Load(root, cfgDefault)
	if err != nil {
		fmt.Println("re-run: load error:", err)
		return 1
	}
	s := newSink(spec.ID)
	runProperty(p, newModels(p), spec, s)
	for _, o := range s.obs {
		if o.Key == rep.Oblig.Key {
			fmt.Printf("re-run on %s: %s at %s: %s\n", root, o.Status, o.Pos, o.Detail)
			if o.Status != stDischarged {
				return 1
			}
			return 0
		}
	}
	fmt.Printf("re-run on %s: obligation %s no longer exists\n", root, rep.Oblig.Key)
	return 0
}
