package redisemu

import (
	"os"
	"path/filepath"
	"testing"
	"time"
)

// persistCase: setup commands, wait for the periodic saver (dirty flag cleared), the in-place command,
// clean shutdown, restart on the same path, probe.
func persistCase(t *testing.T, setup [][]string, change []string, probe []string, want string) {
	dir, _ := os.MkdirTemp("", "rdpersist")
	defer os.RemoveAll(dir)
	base := filepath.Join(dir, "db")
	s := startDemo(t, base)
	c := s.dial(t)
	for _, cmd := range setup {
		c.do(cmd...)
	}
	time.Sleep(1600 * time.Millisecond) // periodic save runs every second and clears the dirty flag
	t.Logf("%v -> %s", change, c.do(change...))
	s.stop()
	s2 := startDemo(t, base)
	defer s2.stop()
	c2 := s2.dial(t)
	got := c2.do(probe...)
	if want == ">0" {
		if got == ":-1" || got == ":-2" {
			t.Errorf("after restart %v: got %s, want a positive TTL", probe, got)
		} else {
			t.Logf("after restart %v: %s", probe, got)
		}
		return
	}
	expect(t, "after restart "+probe[0]+" "+probe[1], got, want)
}

func TestDemoC19Expire(t *testing.T) {
	persistCase(t, [][]string{{"SET", "k", "v"}}, []string{"EXPIRE", "k", "1000"}, []string{"TTL", "k"}, ">0")
}
func TestDemoC19Persist(t *testing.T) {
	persistCase(t, [][]string{{"SET", "k", "v", "EX", "1000"}}, []string{"PERSIST", "k"}, []string{"TTL", "k"}, ":-1")
}
func TestDemoC19GetEx(t *testing.T) {
	persistCase(t, [][]string{{"SET", "k", "v"}}, []string{"GETEX", "k", "EX", "1000"}, []string{"TTL", "k"}, ">0")
}
func TestDemoC19LSet(t *testing.T) {
	persistCase(t, [][]string{{"RPUSH", "l", "a"}}, []string{"LSET", "l", "0", "b"}, []string{"LINDEX", "l", "0"}, `"b"`)
}
func TestDemoC19SRem(t *testing.T) {
	persistCase(t, [][]string{{"SADD", "s", "a", "b"}}, []string{"SREM", "s", "a"}, []string{"SISMEMBER", "s", "a"}, ":0")
}
func TestDemoC19SMove(t *testing.T) {
	persistCase(t, [][]string{{"SADD", "s", "a", "b"}, {"SADD", "d", "a"}}, []string{"SMOVE", "s", "d", "a"}, []string{"SISMEMBER", "s", "a"}, ":0")
}
func TestDemoC19Unlink(t *testing.T) {
	persistCase(t, [][]string{{"SET", "k", "v"}}, []string{"UNLINK", "k"}, []string{"EXISTS", "k"}, ":0")
}
func TestDemoC19HIncrByFloat(t *testing.T) {
	persistCase(t, [][]string{{"HSET", "h", "a", "1"}}, []string{"HINCRBYFLOAT", "h", "nf", "1.5"}, []string{"HGET", "h", "nf"}, `"1.5"`)
}
