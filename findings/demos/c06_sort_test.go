package redisemu

import "testing"

// C06: SORT without BY orders the elements themselves — numerically, or as text with ALPHA.
func TestDemoC06SortSorts(t *testing.T) {
	s := startDemo(t, "")
	defer s.stop()
	c := s.dial(t)
	c.do("RPUSH", "l", "3", "1", "10", "2")
	expect(t, "SORT l", c.do("SORT", "l"), "[\"1\" \"2\" \"3\" \"10\"]")
	expect(t, "SORT l DESC", c.do("SORT", "l", "DESC"), "[\"10\" \"3\" \"2\" \"1\"]")
	expect(t, "SORT l ALPHA", c.do("SORT", "l", "ALPHA"), "[\"1\" \"10\" \"2\" \"3\"]")
	c.do("SADD", "s", "b", "c", "a")
	expect(t, "SORT s ALPHA", c.do("SORT", "s", "ALPHA"), "[\"a\" \"b\" \"c\"]")
	expect(t, "SORT s (not numbers)", c.do("SORT", "s"), "-ERR One or more scores can't be converted into double")
	expect(t, "SORT l STORE d", c.do("SORT", "l", "STORE", "d"), ":4")
	expect(t, "LRANGE d", c.do("LRANGE", "d", "0", "-1"), "[\"1\" \"2\" \"3\" \"10\"]")
}

// SORT … BY pattern and SORT … LIMIT offset count take effect.
func TestDemoC06SortByAndLimit(t *testing.T) {
	s := startDemo(t, "")
	defer s.stop()
	c := s.dial(t)
	c.do("RPUSH", "l", "3", "1", "10", "2")
	c.do("MSET", "w_3", "1", "w_1", "4", "w_10", "2", "w_2", "3")
	expect(t, "SORT l LIMIT 0 2", c.do("SORT", "l", "LIMIT", "0", "2"), "[\"1\" \"2\"]")
	expect(t, "SORT l LIMIT 3 10", c.do("SORT", "l", "LIMIT", "3", "10"), "[\"10\"]")
	expect(t, "SORT l BY w_*", c.do("SORT", "l", "BY", "w_*"), "[\"3\" \"10\" \"2\" \"1\"]")
	expect(t, "SORT l BY nosort", c.do("SORT", "l", "BY", "nosort"), "[\"3\" \"1\" \"10\" \"2\"]")
}
