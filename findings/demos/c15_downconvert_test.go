package redisemu

import (
	"strings"
	"testing"
)

// C15: under RESP2 a verbatim string (INFO, CLIENT LIST) is a bulk string of its text — lines intact,
// no "txt:" prefix — and a boolean is the integer 0/1.
func TestDemoC15VerbatimUnderResp2(t *testing.T) {
	s := startDemo(t, "")
	defer s.stop()
	c := s.dial(t)
	c.send("INFO", "server")
	r := c.read(2e9)
	if !strings.HasPrefix(r, "\"# Server") || !strings.Contains(r, "\\r\\nredis_version:") {
		t.Errorf("INFO server on a RESP2 connection: got %.80s…, want a bulk string \"# Server\\r\\nredis_version:…\"", r)
	}
	c.send("CLIENT", "LIST")
	r = c.read(2e9)
	if !strings.HasPrefix(r, "\"addr=") || !strings.HasSuffix(r, "\\n\"") {
		t.Errorf("CLIENT LIST on a RESP2 connection: got %.60s…, want a bulk string \"addr=…\\n\"", r)
	}
	b := resp3To2(respValue{data: respBool(true)})
	if string(b.serialize()) != ":1\r\n" {
		t.Errorf("RESP2 form of the boolean true: got %q, want \":1\\r\\n\"", string(b.serialize()))
	}
}
