#!/bin/sh
# usage: findings/run_demo.sh <go-test-run-regex> [repo_dir] [extra go test flags...]
# Copies repo_dir (default /repo) to a scratch directory, adds the demonstration tests, runs them, removes the copy.
# A demonstration test asserts the behaviour the property demands: it FAILS while the defect exists.
set -u
RUN="$1"; REPO="${2:-/repo}"; shift; [ $# -gt 0 ] && shift
HERE="$(cd "$(dirname "$0")" && pwd)"
D="$(mktemp -d /tmp/rddemo.XXXXXX)"
trap 'rm -rf "$D"' EXIT
rsync -a --exclude .git "$REPO"/ "$D"/
cp "$HERE"/demos/*_test.go "$D"/
cd "$D" && GOFLAGS=-mod=mod GOPROXY=off GOSUMDB=off GOTOOLCHAIN=local go test -vet=off -count=1 -timeout 120s -run "$RUN" "$@" . 2>&1 | grep -v "^=== RUN" | head -n ${DEMO_LINES:-80}
