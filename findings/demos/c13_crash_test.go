package redisemu

import (
	"os"
	"os/exec"
	"strings"
	"testing"
	"time"
)

// each case is sent by one client; afterwards a second client must still get +PONG (the process is alive
// and serving). Cases run in a child process because a panic in a command goroutine kills the process.
var crashCases = []struct {
	name  string
	setup [][]string
	cmd   []string
	raw   string
}{
	{name: "LPOP huge count", setup: [][]string{{"RPUSH", "l", "a"}}, cmd: []string{"LPOP", "l", "4611686018427387904"}},
	{name: "RPOP huge count", setup: [][]string{{"RPUSH", "l", "a"}}, cmd: []string{"RPOP", "l", "4611686018427387904"}},
	{name: "LMPOP huge count", setup: [][]string{{"RPUSH", "l", "a"}}, cmd: []string{"LMPOP", "1", "l", "LEFT", "COUNT", "4611686018427387904"}},
	{name: "SCAN huge count", setup: [][]string{{"SET", "a", "1"}}, cmd: []string{"SCAN", "0", "COUNT", "4611686018427387904"}},
	{name: "HSCAN huge count", setup: [][]string{{"HSET", "h", "a", "1"}}, cmd: []string{"HSCAN", "h", "0", "COUNT", "4611686018427387904"}},
	{name: "HRANDFIELD min count", setup: [][]string{{"HSET", "h", "a", "1"}}, cmd: []string{"HRANDFIELD", "h", "-9223372036854775808"}},
	{name: "SRANDMEMBER min count", setup: [][]string{{"SADD", "s", "a"}}, cmd: []string{"SRANDMEMBER", "s", "-9223372036854775808"}},
	{name: "SRANDMEMBER huge count", setup: [][]string{{"SADD", "s", "a"}}, cmd: []string{"SRANDMEMBER", "s", "4611686018427387904"}},
	{name: "SETBIT huge offset", cmd: []string{"SETBIT", "k", "9223372036854775807", "1"}},
	{name: "SETRANGE negative offset", setup: [][]string{{"SET", "k", "abc"}}, cmd: []string{"SETRANGE", "k", "-1", "x"}},
	{name: "SETRANGE huge offset", cmd: []string{"SETRANGE", "k", "4611686018427387904", "x"}},
	{name: "BITFIELD negative offset", cmd: []string{"BITFIELD", "k", "SET", "u8", "-8", "1"}},
	{name: "array with absurd length", raw: "*9999999999999\r\n"},
	{name: "bulk with absurd length", raw: "*1\r\n$9223372036854775806\r\nPING\r\n"},
	{name: "map with absurd length", raw: "%9999999999999\r\n"},
	{name: "set with absurd length", raw: "~9999999999999\r\n"},
	{name: "blank line", raw: "\r\n"},
	{name: "BITFIELD GET negative offset", setup: [][]string{{"SET", "str", "abc"}}, cmd: []string{"BITFIELD", "str", "GET", "u8", "-8"}},
	{name: "BITFIELD_RO GET negative offset on a missing key", cmd: []string{"BITFIELD_RO", "nokey", "GET", "u8", "-8"}},
	{name: "RESTORE with a length field larger than the payload", cmd: []string{"RESTORE", "r", "0", "\x01\x01\xff\xff\xff\xff" + restoreSum("\x01\x01\xff\xff\xff\xff")}},
	{name: "COMMAND GETKEYS with too large numkeys", cmd: []string{"COMMAND", "GETKEYS", "LMPOP", "99", "a", "LEFT"}},
	{name: "RESTORE of a payload that claims to be a hash, then HGET", setup: [][]string{{"RESTORE", "r", "0", "\x01\x02\x00\x00\x00\x02a" + restoreSum("\x01\x02\x00\x00\x00\x02a")}}, cmd: []string{"HGET", "r", "f"}},
	{name: "DUMP of a list restored under another name, then LRANGE", setup: [][]string{{"RPUSH", "l", "a"}, {"RESTORE", "l2", "0", "\x01\x08\x00\x00\x00\x00" + restoreSum("\x01\x08\x00\x00\x00\x00")}}, cmd: []string{"LRANGE", "l2", "0", "-1"}},
	{name: "wire set with an array as member", raw: "~1\r\n*0\r\n"},
	{name: "wire map with an array as key", raw: "%1\r\n*0\r\n+x\r\n"},
	{name: "wire attribute map with an array as key", raw: "|1\r\n*0\r\n+x\r\n"},
	{name: "BITCOUNT of an empty string", setup: [][]string{{"SET", "e", ""}}, cmd: []string{"BITCOUNT", "e"}},
	{name: "SORT of a set", setup: [][]string{{"SADD", "s", "b", "a"}}, cmd: []string{"SORT", "s", "ALPHA"}},
	{name: "BITCOUNT of an empty string with a range", setup: [][]string{{"SET", "e", ""}}, cmd: []string{"BITCOUNT", "e", "0", "-1"}},
}

func TestDemoC13Child(t *testing.T) {
	name := os.Getenv("RD_CASE")
	if name == "" {
		t.Skip("child only")
	}
	for _, cs := range crashCases {
		if cs.name != name {
			continue
		}
		s := startDemo(t, "")
		c := s.dial(t)
		for _, st := range cs.setup {
			c.do(st...)
		}
		if cs.raw != "" {
			c.raw(cs.raw)
		} else {
			c.send(cs.cmd...)
		}
		r := c.read(1500 * time.Millisecond)
		c2 := s.dial(t)
		p := c2.do("PING")
		os.Stdout.WriteString("REPLY=" + r + "\nPING=" + p + "\n")
	}
}

func TestDemoC13Crashes(t *testing.T) {
	only := os.Getenv("RD_ONLY")
	for _, cs := range crashCases {
		if only != "" && !strings.Contains(cs.name, only) {
			continue
		}
		cmd := exec.Command(os.Args[0], "-test.run", "^TestDemoC13Child$", "-test.timeout", "20s")
		cmd.Env = append(os.Environ(), "RD_CASE="+cs.name)
		out, _ := cmd.CombinedOutput()
		txt := string(out)
		if !strings.Contains(txt, "PING=+PONG") {
			first := ""
			for _, l := range strings.Split(txt, "\n") {
				if strings.HasPrefix(l, "panic:") || strings.HasPrefix(l, "fatal error:") || strings.HasPrefix(l, "runtime:") {
					first = l
					break
				}
			}
			t.Errorf("%s: the process did not survive / stopped serving (%s)", cs.name, first)
		} else {
			t.Logf("%s: survived (%s)", cs.name, strings.Split(strings.SplitN(txt, "REPLY=", 2)[1], "\n")[0])
		}
	}
}

// restoreSum: the trailer RESTORE expects (same rotate/xor checksum as the emulator's DUMP)
func restoreSum(content string) string {
	sum := uint64(0)
	for _, b := range []byte(content) {
		sum = sum<<10 | sum>>54
		sum ^= uint64(b)
	}
	out := make([]byte, 8)
	for i := 7; i >= 0; i-- {
		out[i] = byte(sum)
		sum >>= 8
	}
	return string(out)
}
