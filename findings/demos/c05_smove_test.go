package redisemu

import "testing"

// C05: SMOVE answers 1 when it moved the member, also when the destination held it already.
func TestDemoC05SmoveReply(t *testing.T) {
	s := startDemo(t, "")
	defer s.stop()
	c := s.dial(t)
	c.do("SADD", "s1", "a", "b")
	c.do("SADD", "s2", "a")
	expect(t, "SMOVE s1 s2 a (a in both)", c.do("SMOVE", "s1", "s2", "a"), ":1")
	expect(t, "SISMEMBER s1 a", c.do("SISMEMBER", "s1", "a"), ":0")
	expect(t, "SMOVE s1 s2 b", c.do("SMOVE", "s1", "s2", "b"), ":1")
	expect(t, "SMOVE s1 s2 zz (not a member)", c.do("SMOVE", "s2", "s1", "zz"), ":0")
	expect(t, "SCARD s2", c.do("SCARD", "s2"), ":2")
}
