package main

// A3 — number of separate database critical sections a function can open on one path (0, 1, 2=many).

import (
	"strings"

	"golang.org/x/tools/go/ssa"
)

type SectionModel struct {
	m   *Models
	sec map[*ssa.Function]int
	// witness: per function the call sites (in order found) at which a new section is opened
	wit map[*ssa.Function][]ssa.Instruction
}

var sectionModels = map[*Models]*SectionModel{}

func (m *Models) Sections() *SectionModel {
	if s, ok := sectionModels[m]; ok {
		return s
	}
	sm := &SectionModel{m: m, sec: map[*ssa.Function]int{}, wit: map[*ssa.Function][]ssa.Instruction{}}
	sectionModels[m] = sm
	lm := m.Locks()
	p := m.p
	if lm.DB < 0 {
		return sm
	}
	for changed := true; changed; {
		changed = false
		for _, fn := range p.SrcFuncs() {
			n, w := sm.count(fn, lm)
			if n != sm.sec[fn] {
				sm.sec[fn] = n
				sm.wit[fn] = w
				changed = true
			}
		}
	}
	return sm
}

func sat(n int) int {
	if n > 2 {
		return 2
	}
	return n
}

// count: max number of DB sections opened on a path through fn, entered with the lock not held.
func (sm *SectionModel) count(fn *ssa.Function, lm *LockModel) (int, []ssa.Instruction) {
	p := sm.m.p
	in := map[*ssa.BasicBlock]int{}
	seen := map[*ssa.BasicBlock]bool{fn.Blocks[0]: true}
	work := []*ssa.BasicBlock{fn.Blocks[0]}
	best := 0
	witSet := map[ssa.Instruction]bool{}
	var wit []ssa.Instruction
	for len(work) > 0 {
		b := work[0]
		work = work[1:]
		n := in[b]
		for _, ins := range b.Instrs {
			var c ssa.CallInstruction
			switch x := ins.(type) {
			case *ssa.Call:
				c = x
			default:
				continue
			}
			if !lm.Reachable(ins) {
				continue
			}
			held := lm.LocallyHeld(ins).has(lm.DB)
			add := 0
			if op, cls, _ := lm.lockOp(c); op > 0 && cls == lm.DB {
				if !held {
					add = 1
				}
			} else if op == 0 && !held {
				for _, g := range p.Callees(c) {
					if lm.handlerDynSites[c] {
						continue
					}
					if s := sm.sec[g]; s > add {
						add = s
					}
				}
			}
			if add > 0 {
				n = sat(n + add)
				if !witSet[ins] {
					witSet[ins] = true
					wit = append(wit, ins)
				}
			}
		}
		if len(b.Succs) == 0 {
			if n > best {
				best = n
			}
		}
		for _, s := range b.Succs {
			if !seen[s] || n > in[s] {
				seen[s] = true
				if n > in[s] {
					in[s] = n
				}
				work = append(work, s)
			}
		}
	}
	// deferred calls that open sections (rare) are ignored: a deferred unlock closes, never opens
	return best, wit
}

// a3Exempt: commands that by definition span several databases; the class-based count cannot tell the
// instances apart.
var a3Exempt = map[string]string{
	"flushall": "empties every database in turn, one critical section per database instance",
}

const textA3 = "A3: a keyspace command (one that has key specs or the readonly/write flag in the embedded command info) opens at most one critical section of the database mutex on any path — the whole read-modify-write of the command happens under one hold; blocking commands are judged per attempt (each closure they hand to the wait loop)"

func ruleA3(c *Ctx) {
	c.S.Rule("A3-sections", textA3, 80)
	g, err := c.M.Grammar()
	if err != nil {
		c.S.Undecided("A3-sections", "grammar", "-", err.Error())
		return
	}
	hs, err := c.M.Handlers()
	if err != nil {
		c.S.Undecided("A3-sections", "handlers", "-", err.Error())
		return
	}
	sm := c.M.Sections()
	toks, _ := c.M.HandlerTokens()
	done := map[string]bool{}
	for _, tok := range toks {
		cmd := g.Cmds[tok]
		if cmd == nil || !cmd.HasInfo {
			continue
		}
		if !(cmd.KeySpecs > 0 || cmd.hasFlag("readonly") || cmd.hasFlag("write")) {
			continue
		}
		h := hs[tok]
		if cmd.hasFlag("blocking") {
			// per attempt: closures created on the way to the wait loop that yield a reply
			for f := range c.M.Reach(h) {
				for _, in := range instrsOf(f) {
					mc, ok := in.(*ssa.MakeClosure)
					if !ok {
						continue
					}
					cl := mc.Fn.(*ssa.Function)
					if cl.Signature.Params().Len() != 0 || cl.Signature.Results().Len() != 1 || !c.isPkgType(cl.Signature.Results().At(0).Type(), "respValue") {
						continue
					}
					key := "attempt:" + fnName(cl)
					if done[key] {
						continue
					}
					done[key] = true
					c.reportSections(sm, key, cl, "one attempt of blocking command "+tok)
				}
			}
			continue
		}
		key := fnName(h)
		if done[key] {
			continue
		}
		done[key] = true
		if why, ok := a3Exempt[tok]; ok {
			c.S.Trivial("A3-sections", key, c.Pos(h.Pos()), "exempt: "+why)
			continue
		}
		c.reportSections(sm, key, h, "command "+tok)
	}
}

func (c *Ctx) reportSections(sm *SectionModel, key string, fn *ssa.Function, what string) {
	n := sm.sec[fn]
	if n <= 1 {
		c.S.OK("A3-sections", key, c.Pos(fn.Pos()), what+": at most one critical section on every path")
		return
	}
	var at []string
	for _, w := range sm.wit[fn] {
		at = append(at, c.Pos(c.InstrPos(w)))
	}
	c.S.Bad("A3-sections", key, c.Pos(fn.Pos()), what+" takes and releases the database lock more than once on one path (sections opened at "+strings.Join(at, ", ")+"): other clients can observe or interleave with the half-done command")
}
