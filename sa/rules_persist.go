package main

// Rules for persistence (C19) and the database table (C14).

import (
	"fmt"
	"go/ast"
	"go/token"
	"go/types"
	"sort"
	"strings"

	"golang.org/x/tools/go/ssa"
)

type persistAnchors struct {
	writer, loader *ssa.Function // functions that create a gob Encoder / Decoder
	errs           []string
}

func (c *Ctx) persist() *persistAnchors {
	pa := &persistAnchors{}
	for _, fn := range c.SrcFuncs() {
		for _, in := range instrsOf(fn) {
			call, ok := in.(*ssa.Call)
			if !ok {
				continue
			}
			switch fullCalleeName(call) {
			case "encoding/gob.NewEncoder":
				pa.writer = fn
			case "encoding/gob.NewDecoder":
				pa.loader = fn
			}
		}
	}
	if pa.writer == nil || pa.loader == nil {
		pa.errs = append(pa.errs, "snapshot writer / loader (gob.NewEncoder / gob.NewDecoder callers) not found")
	}
	return pa
}

// ---------------------------------------------------------------- R-C19-all-dbs

const textAllDbs = "R-C19-all-dbs: the saver visits every database: the loop that saves databases is a `range` over the database table (or over a snapshot map/slice filled by ranging over the table) — a counting loop over indexes skips databases created lazily by SELECT"

func ruleC19AllDbs(c *Ctx) {
	c.S.Rule("R-C19-all-dbs", textAllDbs, 1)
	pa := c.persist()
	if len(pa.errs) > 0 {
		c.S.Undecided("R-C19-all-dbs", "anchors", "-", pa.errs[0])
		return
	}
	fDbs := c.Field("dataStoreSet", "dbs")
	// functions that (transitively) reach the writer and iterate: find the function that calls something
	// reaching the writer from inside a cycle and has access to the table
	n := 0
	for _, fn := range c.SrcFuncs() {
		touchesTable := false
		for _, in := range instrsOf(fn) {
			if _, f := loadedField(valueOf(in)); f == fDbs {
				touchesTable = true
			}
			// or through a helper that returns a collection built from the table
			if call, ok := in.(*ssa.Call); ok {
				if g := call.Call.StaticCallee(); g != nil && c.InPkg(g) && g.Signature.Results().Len() >= 1 {
					switch g.Signature.Results().At(0).Type().Underlying().(type) {
					case *types.Map, *types.Slice:
						for _, in2 := range instrsOf(g) {
							if _, f := loadedField(valueOf(in2)); f == fDbs {
								touchesTable = true
							}
						}
					}
				}
			}
		}
		if !touchesTable {
			continue
		}
		for _, in := range instrsOf(fn) {
			call, ok := in.(*ssa.Call)
			if !ok {
				continue
			}
			reaches := false
			for _, g := range c.Callees(call) {
				if c.InPkg(g) && c.M.Reach(g)[pa.writer] {
					reaches = true
				}
			}
			if !reaches {
				continue
			}
			n++
			key := fnName(fn) + ":save-loop"
			// the database being saved must come from a range over a map/slice whose content is the table
			ok2, why := c.fromTableRange(call, fDbs)
			if ok2 {
				c.S.OK("R-C19-all-dbs", key, c.Pos(call.Pos()), "every entry of the database table is visited ("+why+")")
			} else {
				c.S.Bad("R-C19-all-dbs", key, c.Pos(call.Pos()), fmt.Sprintf("%s does not save the databases by ranging over the database table (%s): databases with sparse indexes are never written", fnName(fn), why))
			}
		}
	}
	if n == 0 {
		c.S.Undecided("R-C19-all-dbs", "save-loop", "-", "no function touching the database table calls into the snapshot writer")
	}
}

func valueOf(in ssa.Instruction) ssa.Value {
	if v, ok := in.(ssa.Value); ok {
		return v
	}
	return nil
}

// fromTableRange: some argument/receiver chain of call derives from Next(Range(X)) with X the table
// or a local container filled from a range over the table.
func (c *Ctx) fromTableRange(call *ssa.Call, fDbs *types.Var) (bool, string) {
	fn := call.Parent()
	isTable := func(v ssa.Value) bool {
		_, f := loadedField(v)
		return f == fDbs
	}
	// containers filled from a range over the table
	filled := map[ssa.Value]bool{}
	for _, in := range instrsOf(fn) {
		switch x := in.(type) {
		case *ssa.MapUpdate:
			if rangeSource(x.Value, isTable, nil) {
				filled[x.Map] = true
			}
		case *ssa.Call:
			if b, ok := x.Call.Value.(*ssa.Builtin); ok && b.Name() == "append" && len(x.Call.Args) == 2 {
				// append(s, v) inside a range over the table: the varargs slice holds v
				if sl, ok := x.Call.Args[1].(*ssa.Slice); ok {
					if al, ok := sl.X.(*ssa.Alloc); ok {
						for _, rr := range referrers(al) {
							if ia, ok := rr.(*ssa.IndexAddr); ok {
								for _, r3 := range referrers(ia) {
									if st, ok := r3.(*ssa.Store); ok && rangeSource(st.Val, isTable, nil) {
										filled[x] = true
									}
								}
							}
						}
					}
				}
			}
		}
	}
	isContainer := func(v ssa.Value) bool {
		if isTable(v) {
			return true
		}
		if filled[v] {
			return true
		}
		if phi, ok := v.(*ssa.Phi); ok {
			for _, e := range phi.Edges {
				if filled[e] {
					return true
				}
			}
		}
		// result of a helper that returns a snapshot of the table
		if cl, ok := v.(*ssa.Call); ok {
			if g := cl.Call.StaticCallee(); g != nil && c.InPkg(g) {
				for _, in := range instrsOf(g) {
					if _, f := loadedField(valueOf(in)); f == fDbs {
						return true
					}
				}
			}
		}
		return false
	}
	for _, a := range call.Call.Args {
		if rangeSource(a, isContainer, map[ssa.Value]bool{}) {
			return true, "range over the table or its snapshot"
		}
	}
	return false, "the saved database is not the element of a range over the table"
}

// rangeSource: v derives from the key/value of Next(Range(X)) (map) or from an element of a ranged
// slice X, with isSrc(X).
func rangeSource(v ssa.Value, isSrc func(ssa.Value) bool, seen map[ssa.Value]bool) bool {
	if seen == nil {
		seen = map[ssa.Value]bool{}
	}
	if v == nil || seen[v] {
		return false
	}
	seen[v] = true
	switch x := v.(type) {
	case *ssa.Extract:
		if n, ok := x.Tuple.(*ssa.Next); ok {
			if r, ok := n.Iter.(*ssa.Range); ok {
				return isSrc(r.X)
			}
		}
		return rangeSource(x.Tuple, isSrc, seen)
	case *ssa.UnOp:
		if ia, ok := x.X.(*ssa.IndexAddr); ok {
			return isSrc(ia.X)
		}
		// a row built in a local struct (`dbTableEntry{index: index, ds: ds}`): what was stored into its fields
		if al, ok := x.X.(*ssa.Alloc); ok {
			for _, r := range referrers(al) {
				if fa, ok := r.(*ssa.FieldAddr); ok {
					for _, r2 := range referrers(fa) {
						if st, ok := r2.(*ssa.Store); ok && st.Addr == ssa.Value(fa) && rangeSource(st.Val, isSrc, seen) {
							return true
						}
					}
				}
			}
			return false
		}
		return rangeSource(x.X, isSrc, seen)
	case *ssa.Field:
		return rangeSource(x.X, isSrc, seen)
	case *ssa.Alloc:
		// a local copy of a row (`for _, entry := range entries`): what was stored into it, whole or by field
		for _, r := range referrers(x) {
			switch y := r.(type) {
			case *ssa.Store:
				if y.Addr == ssa.Value(x) && rangeSource(y.Val, isSrc, seen) {
					return true
				}
			case *ssa.FieldAddr:
				for _, r2 := range referrers(y) {
					if st, ok := r2.(*ssa.Store); ok && st.Addr == ssa.Value(y) && rangeSource(st.Val, isSrc, seen) {
						return true
					}
				}
			}
		}
		return false
	case *ssa.Call:
		// method call on the ranged element (ds.newDataStoreCommand())
		for _, a := range x.Call.Args {
			if rangeSource(a, isSrc, seen) {
				return true
			}
		}
	case *ssa.Phi:
		for _, e := range x.Edges {
			if rangeSource(e, isSrc, seen) {
				return true
			}
		}
	case *ssa.FieldAddr:
		return rangeSource(x.X, isSrc, seen)
	case *ssa.MakeInterface:
		return rangeSource(x.X, isSrc, seen)
	}
	return false
}

// ---------------------------------------------------------------- R-C19-records

const textRecords = "R-C19-records: the snapshot writer and loader agree on the record stream: (a) the header's key count is the keyspace count and the writer emits a record for every stored entry (no path from a non-nil entry back to the loop head without encoding it), (b) every field of the persisted headers is written by the writer and read by the loader, (c) every field of a key object is saved and restored, (d) both branch on every key type"

// helperClosure: fn and the package functions it calls statically (transitively, small depth) — a refactoring that
// moves part of a function into helpers must not change what a rule about "the writer" or "the loader" sees.
func (c *Ctx) helperClosure(fn *ssa.Function, depth int) []*ssa.Function {
	seen := map[*ssa.Function]bool{}
	var out []*ssa.Function
	var rec func(f *ssa.Function, d int)
	rec = func(f *ssa.Function, d int) {
		if seen[f] || d > depth {
			return
		}
		seen[f] = true
		out = append(out, f)
		for _, af := range f.AnonFuncs {
			rec(af, d)
		}
		for _, in := range instrsOf(f) {
			if call, ok := in.(ssa.CallInstruction); ok {
				if g := call.Common().StaticCallee(); g != nil && c.InPkg(g) && len(g.Blocks) > 0 {
					rec(g, d+1)
				}
			}
		}
	}
	rec(fn, 0)
	return out
}

// mustPass: every path from the entry of g to a return passes an instruction satisfying pred (directly or through a
// callee that must pass it).
func (c *Ctx) mustPass(g *ssa.Function, pred func(ssa.Instruction) bool, depth int) bool {
	if len(g.Blocks) == 0 || depth > 3 {
		return false
	}
	hit := func(b *ssa.BasicBlock) bool {
		for _, in := range b.Instrs {
			if pred(in) {
				return true
			}
			if call, ok := in.(*ssa.Call); ok {
				if h := call.Call.StaticCallee(); h != nil && c.InPkg(h) && h != g && c.mustPass(h, pred, depth+1) {
					return true
				}
			}
		}
		return false
	}
	seen := map[*ssa.BasicBlock]bool{}
	stack := []*ssa.BasicBlock{g.Blocks[0]}
	for len(stack) > 0 {
		b := stack[len(stack)-1]
		stack = stack[:len(stack)-1]
		if seen[b] {
			continue
		}
		seen[b] = true
		if hit(b) {
			continue
		}
		if _, ok := b.Instrs[len(b.Instrs)-1].(*ssa.Return); ok {
			return false
		}
		stack = append(stack, b.Succs...)
	}
	return true
}

func ruleC19Records(c *Ctx) {
	c.S.Rule("R-C19-records", textRecords, 4)
	pa := c.persist()
	if len(pa.errs) > 0 {
		c.S.Undecided("R-C19-records", "anchors", "-", pa.errs[0])
		return
	}
	W, L := pa.writer, pa.loader
	// (a) every non-nil entry is encoded
	isEncodeCall := func(in ssa.Instruction) bool {
		call, ok := in.(*ssa.Call)
		return ok && strings.HasSuffix(fullCalleeName(call), "encoding/gob.Encoder).Encode")
	}
	isEncode := func(in ssa.Instruction) bool {
		if isEncodeCall(in) {
			return true
		}
		// a helper that encodes on every path (write one record)
		if call, ok := in.(*ssa.Call); ok {
			if g := call.Call.StaticCallee(); g != nil && c.InPkg(g) {
				return c.mustPass(g, isEncodeCall, 0)
			}
		}
		return false
	}
	fBuckets := c.Field("redisDict", "buckets")
	var itemLoad ssa.Value
	for _, in := range instrsOf(W) {
		if u, ok := in.(*ssa.UnOp); ok && u.Op == token.MUL {
			if ia, ok := u.X.(*ssa.IndexAddr); ok {
				if _, f := loadedField(ia.X); f == fBuckets {
					itemLoad = u
				}
			}
		}
	}
	// the same walk through the dictionary's own iterator: `for it := data.createIterator(); it.next(); { … }`
	var iterNext *ssa.Call
	if itemLoad == nil {
		for _, in := range instrsOf(W) {
			call, ok := in.(*ssa.Call)
			if !ok || !blockInCycle(call.Block()) || len(call.Call.Args) == 0 {
				continue
			}
			g := call.Call.StaticCallee()
			if g == nil || !c.InPkg(g) || g.Signature.Results().Len() != 1 {
				continue
			}
			if bt, isB := g.Signature.Results().At(0).Type().Underlying().(*types.Basic); !isB || bt.Kind() != types.Bool {
				continue
			}
			mk, ok := call.Call.Args[0].(*ssa.Call)
			if !ok {
				continue
			}
			if h := mk.Call.StaticCallee(); h != nil && h.Signature.Recv() != nil && c.isPkgType(h.Signature.Recv().Type(), "redisDict") && len(mk.Call.Args) > 0 {
				if _, f := loadedField(mk.Call.Args[0]); f == c.Field("dataStore", "data") {
					if ifi, isIf := call.Block().Instrs[len(call.Block().Instrs)-1].(*ssa.If); isIf && ifi.Cond == ssa.Value(call) {
						iterNext = call
					}
				}
			}
		}
	}
	if itemLoad == nil && iterNext == nil {
		c.S.Undecided("R-C19-records", fnName(W)+":entries", c.Pos(W.Pos()), "the writer does not iterate the keyspace buckets")
	} else {
		var blk, start *ssa.BasicBlock
		var at ssa.Instruction
		if itemLoad != nil {
			at = itemLoad.(ssa.Instruction)
			blk = at.Block()
			// non-nil successor of the nil test on the entry
			start = nonNilSucc(blk, itemLoad)
		} else {
			at = iterNext
			blk = iterNext.Block()
			start = blk.Succs[0] // the iterator has an entry
		}
		if start == nil {
			start = blk
		}
		// can we get from start back to the loop head (blk) without an Encode?
		skip := false
		seen := map[*ssa.BasicBlock]bool{}
		stack := []*ssa.BasicBlock{start}
		for len(stack) > 0 && !skip {
			b := stack[len(stack)-1]
			stack = stack[:len(stack)-1]
			if seen[b] {
				continue
			}
			seen[b] = true
			enc := false
			for _, in := range b.Instrs {
				if isEncode(in) {
					enc = true
				}
			}
			if enc {
				continue
			}
			for _, s := range b.Succs {
				if s == blk || (s.Dominates(blk) && blockInCycle(s) && s != start) {
					// back at (or above) the loop head without having encoded this entry
					if reachableFrom(s, nil)[blk] || s == blk {
						skip = true
					}
				} else {
					stack = append(stack, s)
				}
			}
		}
		key := fnName(W) + ":every-entry-encoded"
		if skip {
			c.S.Bad("R-C19-records", key, c.Pos(c.InstrPos(at)), "the writer can skip a stored entry without encoding it while the header announces the full count: the loader hits EOF and the whole database comes back empty")
		} else {
			c.S.OK("R-C19-records", key, c.Pos(c.InstrPos(at)), "no path from a non-nil entry to the next iteration bypasses Encode")
		}
	}
	// (b),(c) field sets
	storedFields := func(fn0 *ssa.Function, typ string) map[string]bool {
		out := map[string]bool{}
		for _, fn := range c.helperClosure(fn0, 2) {
			for _, in := range instrsOf(fn) {
				if st, ok := in.(*ssa.Store); ok {
					if fa, ok := st.Addr.(*ssa.FieldAddr); ok && c.ownerName(fieldOf(fa)) == typ {
						out[fieldOf(fa).Name()] = true
					}
				}
			}
		}
		return out
	}
	readFields := func(fn0 *ssa.Function, typ string) map[string]bool {
		out := map[string]bool{}
		for _, fn := range c.helperClosure(fn0, 2) {
			for _, in := range instrsOf(fn) {
				if u, ok := in.(*ssa.UnOp); ok && u.Op == token.MUL {
					if fa, ok := u.X.(*ssa.FieldAddr); ok && c.ownerName(fieldOf(fa)) == typ {
						out[fieldOf(fa).Name()] = true
					}
				}
				if f, ok := in.(*ssa.Field); ok && c.ownerName(fieldOf(f)) == typ {
					out[fieldOf(f).Name()] = true
				}
			}
		}
		return out
	}
	allFields := func(typ string) []string {
		nt := c.NamedType(typ)
		if nt == nil {
			return nil
		}
		st := nt.Underlying().(*types.Struct)
		var out []string
		for i := 0; i < st.NumFields(); i++ {
			// the fields of an embedded helper struct are fields of the object
			if st.Field(i).Embedded() {
				if est, ok := deref(st.Field(i).Type()).Underlying().(*types.Struct); ok {
					for j := 0; j < est.NumFields(); j++ {
						out = append(out, est.Field(j).Name())
					}
					continue
				}
			}
			out = append(out, st.Field(i).Name())
		}
		return out
	}
	check := func(what, typ string, have map[string]bool, fn *ssa.Function, verb string, except map[string]string) {
		var missing []string
		for _, f := range allFields(typ) {
			if _, ex := except[f]; ex {
				continue
			}
			if !have[f] {
				missing = append(missing, f)
			}
		}
		key := fmt.Sprintf("%s:%s %s", fnName(fn), verb, typ)
		if len(allFields(typ)) == 0 {
			c.S.Undecided("R-C19-records", key, c.Pos(fn.Pos()), "type "+typ+" not found")
		} else if len(missing) == 0 {
			c.S.OK("R-C19-records", key, c.Pos(fn.Pos()), what+": all fields covered")
		} else {
			sort.Strings(missing)
			c.S.Bad("R-C19-records", key, c.Pos(fn.Pos()), fmt.Sprintf("%s: %s never %s %s.%s — that part of the acknowledged state does not survive a restart", what, fnName(fn), verb, typ, strings.Join(missing, ", ")))
		}
	}
	check("file header", "persistHeader", storedFields(W, "persistHeader"), W, "writes", nil)
	check("file header", "persistHeader", readFields(L, "persistHeader"), L, "reads", nil)
	check("key header", "persistKeyHeader", storedFields(W, "persistKeyHeader"), W, "writes", nil)
	check("key header", "persistKeyHeader", readFields(L, "persistKeyHeader"), L, "reads", nil)
	check("key object", "storeKey", readFields(W, "storeKey"), W, "reads", nil)
	check("key object", "storeKey", storedFields(L, "storeKey"), L, "writes", nil)
	// (d) key types
	flagsTested := func(fn0 *ssa.Function) map[string]bool {
		out := map[string]bool{}
		sc := c.Pkg.Types.Scope()
		for _, fn := range c.helperClosure(fn0, 2) {
			for _, in := range instrsOf(fn) {
				call, ok := in.(*ssa.Call)
				if !ok || len(call.Call.Args) != 2 {
					continue
				}
				cst, ok := stripValue(call.Call.Args[1]).(*ssa.Const)
				if !ok || cst.Value == nil {
					continue
				}
				for _, n := range sc.Names() {
					if strings.HasPrefix(n, "FLAG_KEY_TYPE_") {
						if k, ok := sc.Lookup(n).(*types.Const); ok && k.Val().ExactString() == cst.Value.ExactString() && types.Identical(k.Type(), cst.Type()) {
							out[n] = true
						}
					}
				}
			}
			// a table-driven dispatch: the key-type constants listed in the initialiser of a package-level table that the
			// writer/loader (or a helper of it) consults count as handled
			for _, in := range instrsOf(fn) {
				var ops []*ssa.Value
				for _, op := range in.Operands(ops) {
					g, ok := (*op).(*ssa.Global)
					if !ok || g.Pkg != c.SPkg {
						continue
					}
					init := c.globalInit(g.Name())
					if init == nil {
						continue
					}
					ast.Inspect(init, func(nd ast.Node) bool {
						if id, ok := nd.(*ast.Ident); ok && strings.HasPrefix(id.Name, "FLAG_KEY_TYPE_") {
							if _, isConst := sc.Lookup(id.Name).(*types.Const); isConst {
								out[id.Name] = true
							}
						}
						return true
					})
				}
			}
		}
		return out
	}
	var allFlags []string
	for _, n := range c.Pkg.Types.Scope().Names() {
		if strings.HasPrefix(n, "FLAG_KEY_TYPE_") {
			allFlags = append(allFlags, n)
		}
	}
	for _, fn := range []*ssa.Function{W, L} {
		have := flagsTested(fn)
		var missing []string
		for _, f := range allFlags {
			if !have[f] {
				missing = append(missing, f)
			}
		}
		key := fnName(fn) + ":key-types"
		if len(missing) == 0 && len(allFlags) >= 4 {
			c.S.OK("R-C19-records", key, c.Pos(fn.Pos()), fmt.Sprintf("branches on all %d key types", len(allFlags)))
		} else {
			c.S.Bad("R-C19-records", key, c.Pos(fn.Pos()), fmt.Sprintf("%s has no branch for key type(s) %s", fnName(fn), strings.Join(missing, ", ")))
		}
	}
}

// ---------------------------------------------------------------- R-C19-atomic-replace

const textAtomic = "R-C19-atomic-replace: the snapshot writer does not create (truncate) the final file: it writes a different path and renames it onto the final name after the file was closed — a save interrupted at any point leaves the previous snapshot intact"

func ruleC19Atomic(c *Ctx) {
	c.S.Rule("R-C19-atomic-replace", textAtomic, 1)
	pa := c.persist()
	if len(pa.errs) > 0 {
		c.S.Undecided("R-C19-atomic-replace", "anchors", "-", pa.errs[0])
		return
	}
	// the function that opens the snapshot file: the encoder function itself or a direct caller of it
	W := pa.writer
	opens := func(fn *ssa.Function) bool {
		for _, in := range instrsOf(fn) {
			if call, ok := in.(*ssa.Call); ok {
				if n := fullCalleeName(call); n == "os.Create" || n == "os.OpenFile" {
					return true
				}
			}
		}
		return false
	}
	if !opens(W) {
		// the nearest function above the encoder that opens the file (the save may be split into open / write-and-close)
		for _, fn := range c.SrcFuncs() {
			if !opens(fn) {
				continue
			}
			for _, in := range instrsOf(fn) {
				if call, ok := in.(*ssa.Call); ok && call.Call.StaticCallee() == pa.writer {
					W = fn
				}
			}
		}
		if !opens(W) {
			for _, fn := range c.SrcFuncs() {
				if opens(fn) && c.M.Reach(fn)[pa.writer] {
					W = fn
				}
			}
		}
	}
	// the file may be created by a helper that returns it together with the temporary name
	// (`f, tmpName, discard, err := createTempSnapshot(fileName)`): then the helper's creation is judged inside the helper
	// (its path must not be the helper's own parameter), and the rename in the caller must move the name the helper returned
	var opener *ssa.Function // helper with the os.Create
	var openCall *ssa.Call   // its call in W
	if !opens(W) {
		for _, fn := range c.SrcFuncs() {
			if fn != pa.writer && !c.M.Reach(fn)[pa.writer] {
				continue
			}
			for _, in := range instrsOf(fn) {
				call, ok := in.(*ssa.Call)
				if !ok {
					continue
				}
				h := call.Call.StaticCallee()
				if h == nil || !c.InPkg(h) || !opens(h) {
					continue
				}
				returnsFile := false
				for i := 0; i < h.Signature.Results().Len(); i++ {
					if typeString(h.Signature.Results().At(i).Type()) == "*File" {
						returnsFile = true
					}
				}
				if returnsFile {
					W, opener, openCall = fn, h, call
				}
			}
		}
	}
	// helpers that close the file they are given on every path to their return
	var closesAlways func(g *ssa.Function, depth int) bool
	closesAlways = func(g *ssa.Function, depth int) bool {
		if g == nil || g.Blocks == nil || depth > 3 || !c.InPkg(g) {
			return false
		}
		closing := func(b *ssa.BasicBlock) bool {
			for _, in := range b.Instrs {
				if call, ok := in.(*ssa.Call); ok {
					if fullCalleeName(call) == "(*os.File).Close" || closesAlways(call.Call.StaticCallee(), depth+1) {
						return true
					}
				}
			}
			return false
		}
		seen := map[*ssa.BasicBlock]bool{}
		work := []*ssa.BasicBlock{g.Blocks[0]}
		for len(work) > 0 {
			b := work[len(work)-1]
			work = work[:len(work)-1]
			if seen[b] || closing(b) {
				continue
			}
			seen[b] = true
			if _, isRet := b.Instrs[len(b.Instrs)-1].(*ssa.Return); isRet {
				return false
			}
			work = append(work, b.Succs...)
		}
		return true
	}
	// the write may sit in a helper that is handed the TEMPORARY name (`ds.writeTempFile(tmpName)`: create, encode, close)
	// while its only caller builds that name and renames: then the caller is the function that is judged, and the helper
	// call stands for "created and closed"
	var tmpHelperCall *ssa.Call
	if opens(W) {
		var hc *ssa.Call
		for _, in := range instrsOf(W) {
			if call, ok := in.(*ssa.Call); ok {
				if n := fullCalleeName(call); n == "os.Create" || n == "os.OpenFile" {
					hc = call
				}
			}
		}
		if hc != nil {
			if prm, isP := resolveLocal(hc.Call.Args[0]).(*ssa.Parameter); isP {
				pidx := -1
				for i, q := range W.Params {
					if q == prm {
						pidx = i
					}
				}
				if node := c.CG.Nodes[W]; node != nil && len(node.In) == 1 && pidx >= 0 {
					site, _ := node.In[0].Site.(*ssa.Call)
					caller := node.In[0].Caller.Func
					if site != nil && caller != nil && pidx < len(site.Call.Args) {
						a := site.Call.Args[pidx]
						derived := true
						for _, leaf := range phiLeaves(a, map[ssa.Value]bool{}) {
							if _, ok := leaf.(*ssa.Parameter); ok {
								derived = false
							}
						}
						// closed on every way out once the file exists (the error side of the creation has nothing to close)
						closedAfter := func() bool {
							isClose := func(in ssa.Instruction) bool {
								call, ok := in.(*ssa.Call)
								return ok && (fullCalleeName(call) == "(*os.File).Close" || closesAlways(call.Call.StaticCallee(), 1))
							}
							seen := map[*ssa.BasicBlock]bool{}
							okAll := true
							var walk func(b *ssa.BasicBlock, start int)
							walk = func(b *ssa.BasicBlock, start int) {
								for _, in := range b.Instrs[start:] {
									if isClose(in) {
										return
									}
									if _, isRet := in.(*ssa.Return); isRet {
										okAll = false
										return
									}
								}
								for si, sc := range b.Succs {
									// the branch on the creation's own error: its non-nil side has no file
									if ifi, ok := b.Instrs[len(b.Instrs)-1].(*ssa.If); ok {
										if bo, ok := ifi.Cond.(*ssa.BinOp); ok && (bo.Op == token.NEQ || bo.Op == token.EQL) {
											x := bo.X
											if isNilConst(x) {
												x = bo.Y
											}
											fromCreate := false
											if e, ok := resolveLocal(x).(*ssa.Extract); ok && e.Tuple == ssa.Value(hc) {
												fromCreate = true
											}
											// the error kept in a cell (a named result that a deferred closure reads): the load in the
											// creation's own block, after the creation's error was stored there
											if u, ok := x.(*ssa.UnOp); ok && u.Op == token.MUL && b == hc.Block() {
												for _, in2 := range b.Instrs {
													if st, ok := in2.(*ssa.Store); ok && st.Addr == u.X {
														if e, ok := st.Val.(*ssa.Extract); ok && e.Tuple == ssa.Value(hc) {
															fromCreate = true
														}
													}
												}
											}
											if fromCreate {
												if (bo.Op == token.NEQ && si == 0) || (bo.Op == token.EQL && si == 1) {
													continue
												}
											}
										}
									}
									if !seen[sc] {
										seen[sc] = true
										walk(sc, 0)
									}
								}
							}
							walk(hc.Block(), instrIndex(hc)+1)
							return okAll
						}
						if derived && closedAfter() {
							tmpHelperCall = site
							W = caller
						}
					}
				}
			}
		}
	}
	var create, rename *ssa.Call
	var closes []*ssa.Call
	createsFinal := func(call *ssa.Call) bool {
		for _, leaf := range phiLeaves(call.Call.Args[0], map[ssa.Value]bool{}) {
			if _, ok := leaf.(*ssa.Parameter); ok {
				return true
			}
		}
		return false
	}
	for _, in := range instrsOf(W) {
		if call, ok := in.(*ssa.Call); ok {
			switch fullCalleeName(call) {
			case "os.Create", "os.OpenFile":
				if create == nil || !createsFinal(create) {
					create = call // (a call that can create the final name is the one that is judged)
				}
			case "os.Rename":
				rename = call
			case "(*os.File).Close":
				closes = append(closes, call)
			default:
				if closesAlways(call.Call.StaticCallee(), 0) {
					closes = append(closes, call)
				}
			}
		}
	}
	var closeCall *ssa.Call
	for _, cl := range closes {
		if rename != nil && instrDominates(cl, rename) {
			closeCall = cl
		}
	}
	key := fnName(W) + ":create-then-rename"
	if tmpHelperCall != nil && create == nil {
		pidx := 0
		for i, a := range tmpHelperCall.Call.Args {
			if _, isStr := a.Type().Underlying().(*types.Basic); isStr && i > 0 {
				pidx = i
			}
		}
		isP := func(v ssa.Value) bool { _, ok := v.(*ssa.Parameter); return ok }
		switch {
		case rename == nil:
			c.S.Bad("R-C19-atomic-replace", key, c.Pos(tmpHelperCall.Pos()), "the writer creates a temporary file but never renames it onto the final name")
		case !isP(rename.Call.Args[1]) || rename.Call.Args[0] != tmpHelperCall.Call.Args[pidx]:
			c.S.Bad("R-C19-atomic-replace", key, c.Pos(rename.Pos()), "the rename does not move the file the helper wrote onto the final name")
		case !instrDominates(tmpHelperCall, rename):
			c.S.Bad("R-C19-atomic-replace", key, c.Pos(rename.Pos()), "the file is renamed onto the final name before the helper has written and closed it")
		default:
			c.S.OK("R-C19-atomic-replace", key, c.Pos(rename.Pos()), "temporary file written and closed by "+fnName(tmpHelperCall.Call.StaticCallee())+", then renamed onto the final name")
		}
	}
	if create == nil && opener != nil {
		// judged through the helper
		var hcreate *ssa.Call
		for _, in := range instrsOf(opener) {
			if call, ok := in.(*ssa.Call); ok {
				if n := fullCalleeName(call); n == "os.Create" || n == "os.OpenFile" {
					hcreate = call
				}
			}
		}
		pathIsParam := false
		for _, leaf := range phiLeaves(hcreate.Call.Args[0], map[ssa.Value]bool{}) {
			if _, ok := leaf.(*ssa.Parameter); ok {
				pathIsParam = true
			}
		}
		// which result of the helper is the created path?
		tmpIdx := -1
		for _, b := range opener.Blocks {
			if ret, ok := b.Instrs[len(b.Instrs)-1].(*ssa.Return); ok {
				for i, r := range ret.Results {
					same := r == hcreate.Call.Args[0]
					// a named result captured by the returned cleanup closure lives in a cell: two loads of that cell
					if u1, ok := r.(*ssa.UnOp); ok && !same {
						if u2, ok := hcreate.Call.Args[0].(*ssa.UnOp); ok && u1.X == u2.X {
							if _, isAl := u1.X.(*ssa.Alloc); isAl {
								same = true
							}
						}
					}
					if same {
						tmpIdx = i
					}
				}
			}
		}
		movesTmp := false
		if rename != nil && tmpIdx >= 0 {
			if ex, ok := rename.Call.Args[0].(*ssa.Extract); ok && ex.Tuple == ssa.Value(openCall) && ex.Index == tmpIdx {
				movesTmp = true
			}
		}
		isP := func(v ssa.Value) bool { _, ok := v.(*ssa.Parameter); return ok }
		switch {
		case pathIsParam:
			c.S.Bad("R-C19-atomic-replace", key, c.Pos(hcreate.Pos()), "the helper creates (truncates) the file under the name it was given — the final snapshot name: a crash or error in the middle leaves a partial file")
		case rename == nil:
			c.S.Bad("R-C19-atomic-replace", key, c.Pos(openCall.Pos()), "the writer creates a temporary file but never renames it onto the final name")
		case !isP(rename.Call.Args[1]) || !movesTmp:
			c.S.Bad("R-C19-atomic-replace", key, c.Pos(rename.Pos()), "the rename does not move the file the helper created onto the final name")
		case closeCall == nil:
			c.S.Bad("R-C19-atomic-replace", key, c.Pos(rename.Pos()), "the file is renamed onto the final name before it has been closed")
		default:
			c.S.OK("R-C19-atomic-replace", key, c.Pos(rename.Pos()), "temporary file (created by "+fnName(opener)+"), closed, then renamed onto the final name")
		}
	} else if create == nil && tmpHelperCall == nil {
		c.S.Undecided("R-C19-atomic-replace", key, c.Pos(W.Pos()), "the writer does not open a file with os.Create/os.OpenFile")
		return
	}
	// the path may be the final name on some way into the call (`target := tmp; if first { target = fileName }`)
	isParam := func(v ssa.Value) bool {
		for _, leaf := range phiLeaves(v, map[ssa.Value]bool{}) {
			if _, ok := leaf.(*ssa.Parameter); ok {
				return true
			}
		}
		return false
	}
	switch {
	case create == nil:
		// judged through the opener helper above
	case isParam(create.Call.Args[0]):
		c.S.Bad("R-C19-atomic-replace", key, c.Pos(create.Pos()), "the writer creates (truncates) the final snapshot file and streams into it: a crash or error in the middle leaves a partial file that loads as an empty or unreadable database")
	case rename == nil:
		c.S.Bad("R-C19-atomic-replace", key, c.Pos(create.Pos()), "the writer creates a temporary file but never renames it onto the final name")
	case !isParam(rename.Call.Args[1]) || rename.Call.Args[0] != create.Call.Args[0]:
		c.S.Bad("R-C19-atomic-replace", key, c.Pos(rename.Pos()), "the rename does not move the created file onto the final name")
	case closeCall == nil:
		c.S.Bad("R-C19-atomic-replace", key, c.Pos(rename.Pos()), "the file is renamed onto the final name before it has been closed (the deferred Close runs after the rename)")
	default:
		c.S.OK("R-C19-atomic-replace", key, c.Pos(rename.Pos()), "temporary file, closed, then renamed onto the final name")
	}
	// the final name is never removed: between an unlink and the rename the database has no snapshot at all
	removedFinal := false
	for _, in := range instrsOf(W) {
		if call, ok := in.(*ssa.Call); ok {
			if n := fullCalleeName(call); (n == "os.Remove" || n == "os.RemoveAll") && len(call.Call.Args) > 0 && isParam(call.Call.Args[0]) {
				removedFinal = true
				c.S.Bad("R-C19-atomic-replace", fnName(W)+":final-name-never-removed", c.Pos(call.Pos()), "the writer removes the final snapshot file (before renaming the new one onto it): a crash in between restarts with an empty database")
			}
		}
	}
	if !removedFinal {
		c.S.OK("R-C19-atomic-replace", fnName(W)+":final-name-never-removed", c.Pos(W.Pos()), "only the temporary file is ever removed")
	}
	// the dirty flag is cleared only after the write succeeded: on the nil-error side of the writer call
	fDirty := c.Field("redisDict", "dirty")
	n := 0
	// a helper that does nothing but clear the flag (`clearDirtyUnlocked`) is the clearing event at its call sites
	clearsDirty := func(in ssa.Instruction) bool {
		st, ok := isStoreTo(in, fDirty)
		if !ok {
			return false
		}
		k, isC := st.Val.(*ssa.Const)
		if !isC || k.Value == nil || k.Value.String() != "false" {
			return false
		}
		return !isFreshDeep(st.Addr.(*ssa.FieldAddr).X, 0)
	}
	clearer := map[*ssa.Function]bool{}
	for _, fn := range c.SrcFuncs() {
		if c.M.Reach(fn)[pa.writer] {
			continue
		}
		for _, in := range instrsOf(fn) {
			if clearsDirty(in) {
				clearer[fn] = true
			}
		}
	}
	for _, fn := range c.SrcFuncs() {
		for _, in := range instrsOf(fn) {
			var st ssa.Instruction
			if clearsDirty(in) {
				st = in
			} else if call, ok := in.(*ssa.Call); ok && clearer[call.Call.StaticCallee()] {
				st = in
			}
			if st == nil {
				continue
			}
			// only the store that belongs to a save: the function calls (reaches) the writer
			var wcall *ssa.Call
			for _, in2 := range instrsOf(fn) {
				if call, ok := in2.(*ssa.Call); ok {
					if g := call.Call.StaticCallee(); g != nil && c.InPkg(g) && (g == W || g == pa.writer || c.M.Reach(g)[pa.writer]) {
						wcall = call
					}
				}
			}
			if wcall == nil {
				continue
			}
			n++
			key := fmt.Sprintf("%s:dirty-cleared-after-success", fnName(fn))
			okEdge := false
			for _, rr := range referrers(wcall) {
				var errv ssa.Value
				switch x := rr.(type) {
				case *ssa.Extract:
					errv = x
				case *ssa.BinOp:
					errv = wcall
					_ = x
				case *ssa.Store:
					errv = wcall
				}
				if errv == nil {
					continue
				}
			}
			// find the nil-test of the error produced by the writer call
			for _, b := range fn.Blocks {
				ifi, ok := b.Instrs[len(b.Instrs)-1].(*ssa.If)
				if !ok {
					continue
				}
				bo, ok := ifi.Cond.(*ssa.BinOp)
				if !ok || (bo.Op != token.NEQ && bo.Op != token.EQL) || !(isNilConst(bo.X) || isNilConst(bo.Y)) {
					continue
				}
				tested := bo.X
				if isNilConst(bo.X) {
					tested = bo.Y
				}
				if !sameStatus(tested, wcall) {
					continue
				}
				nilSide := b.Succs[1]
				if bo.Op == token.EQL {
					nilSide = b.Succs[0]
				}
				if len(nilSide.Preds) == 1 && (nilSide == st.Block() || nilSide.Dominates(st.Block())) && instrDominates(wcall, st) {
					okEdge = true
				}
			}
			if okEdge {
				c.S.OK("R-C19-atomic-replace", key, c.Pos(st.Pos()), "the database counts as clean only after the snapshot was written without error")
			} else {
				c.S.Bad("R-C19-atomic-replace", key, c.Pos(st.Pos()), fmt.Sprintf("%s clears the dirty flag on a path that is not the success side of the snapshot write: after a failed save the changes count as saved and are never written again", fnName(fn)))
			}
		}
	}
	if n == 0 {
		c.S.Undecided("R-C19-atomic-replace", "dirty-cleared", "-", "no function clears the dirty flag around a call of the snapshot writer")
	}
}

// ---------------------------------------------------------------- C14: database table

const textDbTable = "R-C14-dbtable: entries of the database table are created only by the guarded creator (index 0..15) and are never deleted or replaced, because connections cache the *dataStore they selected; a flush empties the database in place"

func ruleC14DbTable(c *Ctx) {
	c.S.Rule("R-C14-dbtable", textDbTable, 1)
	fDbs := c.Field("dataStoreSet", "dbs")
	if fDbs == nil {
		c.S.Undecided("R-C14-dbtable", "anchor", "-", "dataStoreSet.dbs not found")
		return
	}
	for _, fn := range c.SrcFuncs() {
		n := 0
		for _, in := range instrsOf(fn) {
			switch x := in.(type) {
			case *ssa.Store:
				if fa, ok := x.Addr.(*ssa.FieldAddr); ok && fieldOf(fa) == fDbs {
					n++
					key := fmt.Sprintf("%s:assign#%d", fnName(fn), n)
					if isFresh(fa.X) {
						c.S.OK("R-C14-dbtable", key, c.Pos(x.Pos()), "initialisation of a fresh table")
					} else {
						c.S.Bad("R-C14-dbtable", key, c.Pos(x.Pos()), fmt.Sprintf("%s replaces the whole database table: connections keep using the old database objects", fnName(fn)))
					}
				}
			case *ssa.Call:
				if b, ok := x.Call.Value.(*ssa.Builtin); ok && b.Name() == "delete" {
					if _, f := loadedField(x.Call.Args[0]); f == fDbs {
						n++
						c.S.Bad("R-C14-dbtable", fmt.Sprintf("%s:delete#%d", fnName(fn), n), c.Pos(x.Pos()), fmt.Sprintf("%s deletes a database from the table: connections that selected it keep the old object, new ones get a different one", fnName(fn)))
					}
				}
			case *ssa.MapUpdate:
				if _, f := loadedField(x.Map); f != fDbs {
					continue
				}
				n++
				key := fmt.Sprintf("%s:insert#%d", fnName(fn), n)
				// must be guarded by "not present" and by the index range test
				guardedAbsent := false
				guardedRange := false
				for _, d := range fn.Blocks {
					ifi, ok := d.Instrs[len(d.Instrs)-1].(*ssa.If)
					if !ok {
						continue
					}
					dominatesTrue := len(d.Succs[0].Preds) == 1 && (d.Succs[0] == x.Block() || d.Succs[0].Dominates(x.Block()))
					dominatesFalse := len(d.Succs[1].Preds) == 1 && (d.Succs[1] == x.Block() || d.Succs[1].Dominates(x.Block()))
					// `if exists { } else { insert }` / `if !exists { insert }`
					cond := ifi.Cond
					neg := false
					if u, ok := cond.(*ssa.UnOp); ok && u.Op == token.NOT {
						cond, neg = u.X, true
					}
					if ex, ok := cond.(*ssa.Extract); ok && ex.Index == 1 {
						if lk, ok := ex.Tuple.(*ssa.Lookup); ok {
							if _, f := loadedField(lk.X); f == fDbs {
								if (neg && dominatesTrue) || (!neg && dominatesFalse) {
									guardedAbsent = true
								}
							}
						}
					}
					// range test on the index: comparisons of x.Key with constants; the insert lies on the side
					// where the index is within range (not on the bail-out side)
					if bo, ok := ifi.Cond.(*ssa.BinOp); ok {
						if (bo.X == x.Key || bo.Y == x.Key) && (bo.Op == token.LSS || bo.Op == token.GTR || bo.Op == token.LEQ || bo.Op == token.GEQ) {
							if dominatesFalse || dominatesTrue {
								guardedRange = true
							}
						}
					}
				}
				switch {
				case !guardedAbsent:
					c.S.Bad("R-C14-dbtable", key, c.Pos(x.Pos()), fmt.Sprintf("%s stores into the database table without first establishing that the index has no database: an existing database (and everything its connections cached) is replaced", fnName(fn)))
				case !guardedRange:
					c.S.Bad("R-C14-dbtable", key, c.Pos(x.Pos()), fmt.Sprintf("%s creates a database without a range test on the index", fnName(fn)))
				default:
					c.S.OK("R-C14-dbtable", key, c.Pos(x.Pos()), "insert only when absent and after the index range test")
				}
			}
		}
	}
}

const textSelect = "R-C14-select: SELECT changes the connection's database only for a valid index (the stores to selectedDb/ds are dominated by the validity test), and a command context is bound to the database of the very connection it was prepared for"

func ruleC14Select(c *Ctx) {
	c.S.Rule("R-C14-select", textSelect, 2)
	fSel, fDs := c.Field("clientState", "selectedDb"), c.Field("clientState", "ds")
	fCtxDsc, fCtxCs := c.Field("cmdContext", "dsc"), c.Field("cmdContext", "cs")
	if fSel == nil || fDs == nil || fCtxDsc == nil || fCtxCs == nil {
		c.S.Undecided("R-C14-select", "anchors", "-", "clientState.selectedDb/ds or cmdContext.dsc/cs not found")
		return
	}
	for _, fn := range c.SrcFuncs() {
		for _, in := range instrsOf(fn) {
			st, ok := in.(*ssa.Store)
			if !ok {
				continue
			}
			fa, ok := st.Addr.(*ssa.FieldAddr)
			if !ok {
				continue
			}
			f := fieldOf(fa)
			switch f {
			case fSel, fDs:
				if isFresh(fa.X) {
					if f == fDs {
						// a new connection starts in the database whose index the constructor leaves in selectedDb (0 when
						// it stores none): the database object comes from a lookup in the table by that constant index
						want := int64(0)
						for _, in2 := range instrsOf(fn) {
							if st2, ok := isStoreTo(in2, fSel); ok && sameBase(st2.Addr.(*ssa.FieldAddr).X, fa.X) {
								if k, isC := constInt(st2.Val); isC {
									want = k
								} else {
									want = -1
								}
							}
						}
						okInit := false
						v := st.Val
						if ex, isEx := v.(*ssa.Extract); isEx {
							v = ex.Tuple
						}
						if call, isCall := v.(*ssa.Call); isCall && call.Call.StaticCallee() != nil && c.InPkg(call.Call.StaticCallee()) {
							for _, a := range call.Call.Args {
								if k, isC := constInt(a); isC && k == want {
									if _, isInt := a.Type().Underlying().(*types.Basic); isInt {
										okInit = true
									}
								}
							}
						}
						key := fmt.Sprintf("%s:init %s", fnName(fn), f.Name())
						if okInit {
							c.S.OK("R-C14-select", key, c.Pos(st.Pos()), fmt.Sprintf("a new connection is bound to the database looked up by index %d, the index it reports", want))
						} else {
							c.S.Bad("R-C14-select", key, c.Pos(st.Pos()), fmt.Sprintf("%s binds a new connection to a database that is not looked up by the index the connection reports as selected (%d): commands of the new connection can run against another database than SELECT/CLIENT INFO say", fnName(fn), want))
						}
						continue
					}
					c.S.Trivial("R-C14-select", fmt.Sprintf("%s:init %s", fnName(fn), f.Name()), c.Pos(st.Pos()), "constructor")
					continue
				}
				key := fmt.Sprintf("%s:store %s", fnName(fn), f.Name())
				// dominated by the `valid` edge of a (ds, valid) lookup
				ok2 := false
				for _, d := range fn.Blocks {
					ifi, isIf := d.Instrs[len(d.Instrs)-1].(*ssa.If)
					if !isIf {
						continue
					}
					cond := ifi.Cond
					neg := false
					if u, isU := cond.(*ssa.UnOp); isU && u.Op == token.NOT {
						cond, neg = u.X, true
					}
					cond = resolveLocal(cond)
					ex, isEx := cond.(*ssa.Extract)
					if !isEx {
						continue
					}
					if _, isCall := ex.Tuple.(*ssa.Call); !isCall {
						continue
					}
					idx := 0
					if neg {
						idx = 1
					}
					s := d.Succs[idx]
					if len(s.Preds) == 1 && (s == st.Block() || s.Dominates(st.Block())) {
						ok2 = true
					}
				}
				if ok2 {
					c.S.OK("R-C14-select", key, c.Pos(st.Pos()), "dominated by the validity result of the database lookup")
				} else {
					c.S.Bad("R-C14-select", key, c.Pos(st.Pos()), fmt.Sprintf("%s changes the connection's %s without a dominating validity test: an out-of-range SELECT changes the selection", fnName(fn), f.Name()))
				}
			case fCtxDsc:
				// ctx.dsc = X.ds.newDataStoreCommand() with X the same cs stored into ctx.cs
				key := fmt.Sprintf("%s:bind dsc", fnName(fn))
				var csStored ssa.Value
				for _, in2 := range instrsOf(fn) {
					if st2, ok := isStoreTo(in2, fCtxCs); ok && st2.Addr.(*ssa.FieldAddr).X == fa.X {
						csStored = st2.Val
					}
				}
				okBind := false
				if call, ok := st.Val.(*ssa.Call); ok && len(call.Call.Args) > 0 {
					if base, f2 := loadedField(call.Call.Args[0]); f2 == fDs && csStored != nil && base == csStored {
						okBind = true
					}
				}
				// or through a method of that connection all of whose returns are such a call on its receiver
				if call, ok := st.Val.(*ssa.Call); ok && !okBind && len(call.Call.Args) > 0 && csStored != nil && call.Call.Args[0] == csStored {
					if g := call.Call.StaticCallee(); g != nil && c.InPkg(g) && len(g.Params) > 0 {
						all, any := true, false
						for _, b := range g.Blocks {
							if ret, ok := b.Instrs[len(b.Instrs)-1].(*ssa.Return); ok && len(ret.Results) >= 1 {
								any = true
								inner, ok := ret.Results[0].(*ssa.Call)
								if !ok || len(inner.Call.Args) == 0 {
									all = false
									continue
								}
								if base, f2 := loadedField(inner.Call.Args[0]); f2 != fDs || base != ssa.Value(g.Params[0]) {
									all = false
								}
							}
						}
						okBind = all && any
					}
				}
				if okBind {
					c.S.OK("R-C14-select", key, c.Pos(st.Pos()), "command bound to the selected database of its own connection")
				} else {
					c.S.Bad("R-C14-select", key, c.Pos(st.Pos()), fmt.Sprintf("%s binds a command to a database that is not `cs.ds` of the connection stored in the same context", fnName(fn)))
				}
			}
		}
	}
}

// resolveLocal: a load of a local variable cell that is assigned exactly once yields the assigned value.
func resolveLocal(v ssa.Value) ssa.Value {
	u, ok := v.(*ssa.UnOp)
	if !ok || u.Op != token.MUL {
		return v
	}
	al, ok := u.X.(*ssa.Alloc)
	if !ok {
		return v
	}
	var val ssa.Value
	for _, rr := range referrers(al) {
		if st, ok := rr.(*ssa.Store); ok && st.Addr == al {
			if val != nil {
				return v
			}
			val = st.Val
		}
	}
	if val == nil {
		return v
	}
	return val
}

const textDbEnumerate = "R-C14-enumerate: the database table is enumerated by ranging over it; an index loop over the table (a lookup with a loop counter as key) must cover exactly the indexes the guarded creator admits (0..max from its range check) — FLUSHALL, the saver and every 'all databases' helper reach every database"

// ruleC14Enumerate: range check of the creator vs. bounds of index loops over the table.
func ruleC14Enumerate(c *Ctx) {
	c.S.Rule("R-C14-enumerate", textDbEnumerate, 2)
	fDbs := c.Field("dataStoreSet", "dbs")
	if fDbs == nil {
		c.S.Undecided("R-C14-enumerate", "anchor", "-", "dataStoreSet.dbs not found")
		return
	}
	// the creator's admitted maximum: in a function that inserts into the table with a parameter as key, a comparison
	// of that parameter with a constant (index > K  or index >= K)
	maxIdx, haveMax := int64(-1), false
	for _, fn := range c.SrcFuncs() {
		for _, in := range instrsOf(fn) {
			mu, ok := in.(*ssa.MapUpdate)
			if !ok {
				continue
			}
			if _, f := loadedField(mu.Map); f != fDbs {
				continue
			}
			p, ok := mu.Key.(*ssa.Parameter)
			if !ok {
				continue
			}
			for _, in2 := range instrsOf(fn) {
				bo, ok := in2.(*ssa.BinOp)
				if !ok || bo.X != ssa.Value(p) {
					continue
				}
				k, isC := constInt(bo.Y)
				if !isC {
					continue
				}
				switch bo.Op {
				case token.GTR:
					maxIdx, haveMax = k, true
				case token.GEQ:
					maxIdx, haveMax = k-1, true
				}
			}
		}
	}
	if !haveMax {
		c.S.Undecided("R-C14-enumerate", "creator-range-check", "-", "no range check (index > K) found in the function that inserts into the table")
		return
	}
	c.S.OK("R-C14-enumerate", "creator-range-check", "-", fmt.Sprintf("the creator admits indexes 0..%d", maxIdx))
	for _, fn := range c.SrcFuncs() {
		n := 0
		for _, in := range instrsOf(fn) {
			var m, key ssa.Value
			switch x := in.(type) {
			case *ssa.Lookup:
				m, key = x.X, x.Index
			default:
				continue
			}
			if _, f := loadedField(m); f != fDbs {
				continue
			}
			if r, isRange := m.(*ssa.Range); isRange {
				_ = r
				continue
			}
			n++
			k := fmt.Sprintf("%s:lookup#%d", fnName(fn), n)
			phi, isPhi := key.(*ssa.Phi)
			if !isPhi || !blockInCycle(in.Block()) {
				c.S.Trivial("R-C14-enumerate", k, c.Pos(c.InstrPos(in)), "a single lookup, not an enumeration")
				continue
			}
			// loop counter: find the bound
			last, found := int64(0), false
			start, haveStart := int64(0), false
			for _, e := range phi.Edges {
				if v, isC := constInt(e); isC {
					start, haveStart = v, true
				}
			}
			for _, r := range referrers(phi) {
				bo, ok := r.(*ssa.BinOp)
				if !ok || bo.X != ssa.Value(phi) {
					continue
				}
				kk, isC := constInt(bo.Y)
				if !isC {
					continue
				}
				switch bo.Op {
				case token.LSS:
					last, found = kk-1, true
				case token.LEQ:
					last, found = kk, true
				}
			}
			switch {
			case !found || !haveStart:
				c.S.Undecided("R-C14-enumerate", k, c.Pos(c.InstrPos(in)), "index loop over the database table whose bounds are not constants: cannot be compared with the creator's range check")
			case start == 0 && last == maxIdx:
				c.S.OK("R-C14-enumerate", k, c.Pos(c.InstrPos(in)), fmt.Sprintf("index loop 0..%d agrees with the creator's range check", last))
			default:
				c.S.Bad("R-C14-enumerate", k, c.Pos(c.InstrPos(in)), fmt.Sprintf("%s enumerates the databases with an index loop %d..%d, but the creator admits 0..%d: some database is never visited (FLUSHALL / save skip it)", fnName(fn), start, last, maxIdx))
			}
		}
	}
	// range-based enumerations are complete by construction; count them for the record
	nr := 0
	for _, fn := range c.SrcFuncs() {
		for _, in := range instrsOf(fn) {
			if r, ok := in.(*ssa.Range); ok {
				if _, f := loadedField(r.X); f == fDbs {
					nr++
					c.S.Trivial("R-C14-enumerate", fmt.Sprintf("%s:range#%d", fnName(fn), nr), c.Pos(r.Pos()), "range over the table")
				}
			}
		}
	}
}

// ---------------------------------------------------------------- R-C19-startup

const textC19Startup = "R-C19-startup: the scan of the persist directory at start-up survives what it can find there: (walk-err) a directory-walk callback tests its error parameter before it touches the entry parameter (the entry is nil when the directory does not exist yet — the very first start with a new persist path); (table-lookup) no single-result read of the database table is dereferenced — a file named like a snapshot of database 16 must not make the start-up use a table entry that was never created"

func ruleC19Startup(c *Ctx) {
	c.S.Rule("R-C19-startup", textC19Startup, 1)
	fDbs := c.Field("dataStoreSet", "dbs")
	if fDbs == nil {
		c.S.Undecided("R-C19-startup", "anchor", "-", "dataStoreSet.dbs not found")
		return
	}
	n := 0
	for _, fn := range c.SrcFuncs() {
		// (walk-err) closures passed to filepath.WalkDir / filepath.Walk
		for _, in := range instrsOf(fn) {
			call, ok := in.(*ssa.Call)
			if !ok {
				continue
			}
			name := fullCalleeName(call)
			if name != "path/filepath.WalkDir" && name != "path/filepath.Walk" && name != "io/fs.WalkDir" {
				continue
			}
			var cb *ssa.Function
			for _, a := range call.Call.Args {
				switch x := stripValue(a).(type) {
				case *ssa.MakeClosure:
					cb, _ = x.Fn.(*ssa.Function)
				case *ssa.Function:
					cb = x
				}
			}
			if cb == nil || len(cb.Params) < 3 {
				continue
			}
			n++
			key := fnName(cb) + ":walk-err"
			entry, errp := cb.Params[len(cb.Params)-2], cb.Params[len(cb.Params)-1]
			bad := ""
			for _, in2 := range instrsOf(cb) {
				ci, ok := in2.(ssa.CallInstruction)
				if !ok || !ci.Common().IsInvoke() || ci.Common().Value != ssa.Value(entry) {
					continue
				}
				// dominated by the nil side of a test of err, or the non-nil side of a test of the entry
				guarded := false
				for _, d := range cb.Blocks {
					for _, v := range []ssa.Value{errp, entry} {
						nn := nonNilSucc(d, v)
						if nn == nil {
							continue
						}
						side := nn
						if v == ssa.Value(errp) {
							side = d.Succs[0]
							if side == nn {
								side = d.Succs[1]
							}
						}
						if len(side.Preds) == 1 && (side == in2.Block() || side.Dominates(in2.Block())) {
							guarded = true
						}
					}
				}
				if !guarded && bad == "" {
					bad = c.Pos(c.InstrPos(in2))
				}
			}
			if bad != "" {
				c.S.Bad("R-C19-startup", key, bad, fmt.Sprintf("the directory-walk callback in %s uses its entry parameter without having tested its error parameter: when the persist directory does not exist (first start with a new path) the entry is nil and the start-up panics", fnName(fn)))
			} else {
				c.S.OK("R-C19-startup", key, c.Pos(cb.Pos()), "the entry is used only after the error parameter was tested")
			}
		}
		// (table-lookup) single-result reads of the database table that are dereferenced
		k := 0
		for _, in := range instrsOf(fn) {
			lk, ok := in.(*ssa.Lookup)
			if !ok || lk.CommaOk {
				continue
			}
			if _, f := loadedField(lk.X); f != fDbs {
				continue
			}
			k++
			n++
			key := fmt.Sprintf("%s:table-lookup#%d", fnName(fn), k)
			deref := false
			for _, r := range referrers(lk) {
				switch x := r.(type) {
				case ssa.CallInstruction:
					if len(x.Common().Args) > 0 && x.Common().Args[0] == ssa.Value(lk) && !knownNonNilIn(lk, r.Block()) {
						deref = true
					}
				case *ssa.FieldAddr:
					if !knownNonNilIn(lk, r.Block()) {
						deref = true
					}
				}
			}
			if deref {
				c.S.Bad("R-C19-startup", key, c.Pos(lk.Pos()), fmt.Sprintf("%s reads the database table with the single-result form and uses the entry without a nil test: an index that was never created (a stray file named like the snapshot of database 16) is a nil dereference at start-up", fnName(fn)))
			} else {
				c.S.OK("R-C19-startup", key, c.Pos(lk.Pos()), "the entry is nil-tested before use")
			}
		}
	}
	if n == 0 {
		c.S.Trivial("R-C19-startup", "none", "-", "no directory walk and no single-result read of the database table")
	}
}
