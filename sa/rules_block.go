package main

// Rules for blocking list commands (C11, C12).

import (
	"fmt"
	"go/token"
	"go/types"
	"strings"

	"golang.org/x/tools/go/ssa"
)

type blockAnchors struct {
	worker   *ssa.Function // the function with the register / attempt / wait cycle
	selectFn *ssa.Function // contains the select (the worker, a closure of it, or a function it calls)
	sel      *ssa.Select
	wakeFn   *ssa.Function          // sends on wakeSignal.ready
	wakeRel  map[*ssa.Function]bool // release wrappers that wake before unlocking
	fReady   *types.Var
	errs     []string
	c        *Ctx
	stepMemo map[*ssa.Function]string
}

// isReg: the instruction registers the waiter — a call (through a parameter, a closure, an interface or a helper) that
// yields the *wakeSignal the command will wait on.
func (a *blockAnchors) isReg(in ssa.Instruction) (*ssa.Call, bool) {
	call, ok := in.(*ssa.Call)
	if !ok {
		return nil, false
	}
	res := call.Call.Signature().Results()
	if res.Len() == 1 && a.c.isPkgType(res.At(0).Type(), "wakeSignal") {
		if _, isPtr := res.At(0).Type().(*types.Pointer); isPtr {
			return call, true
		}
	}
	// a step method of a method object (`lb.register()`): a small function without results of its own that does nothing
	// but register (keeps the signal in a field)
	if a.stepKind(call.Call.StaticCallee()) == "reg" {
		return call, true
	}
	return nil, false
}

// stepKind: g is a step of the blocking protocol moved into a method of its own — "reg" when it contains a direct
// registration, "op" when it contains a direct attempt; never both, and it does not wait.
func (a *blockAnchors) stepKind(g *ssa.Function) string {
	if g == nil || !a.c.InPkg(g) || len(g.Blocks) == 0 || len(g.Blocks) > 8 || g.Signature.Recv() == nil {
		return ""
	}
	if a.stepMemo == nil {
		a.stepMemo = map[*ssa.Function]string{}
	}
	if k, ok := a.stepMemo[g]; ok {
		return k
	}
	a.stepMemo[g] = ""
	regs, ops, waits := 0, 0, false
	for _, in := range instrsOf(g) {
		if c2, ok := in.(*ssa.Call); ok {
			if c2.Call.StaticCallee() != nil && a.c.InPkg(c2.Call.StaticCallee()) {
				continue // only direct steps: no chains of wrappers
			}
			res := c2.Call.Signature().Results()
			if res.Len() == 1 && a.c.isPkgType(res.At(0).Type(), "wakeSignal") {
				regs++
			}
			if c2.Call.StaticCallee() == nil && res.Len() == 1 && a.c.isPkgType(res.At(0).Type(), "respValue") && c2.Call.Signature().Params().Len() == 0 {
				if _, isB := c2.Call.Value.(*ssa.Builtin); !isB {
					ops++
				}
			}
		}
		if _, ok := in.(*ssa.Select); ok {
			waits = true
		}
	}
	k := ""
	switch {
	case waits:
	case regs > 0 && ops == 0:
		k = "reg"
	case ops > 0 && regs == 0:
		k = "op"
	}
	a.stepMemo[g] = k
	return k
}

// isOp: the instruction is an attempt of the command — a call of a function value (parameter, closure, interface
// method) that yields the reply.
func (a *blockAnchors) isOp(in ssa.Instruction) (*ssa.Call, bool) {
	call, ok := in.(*ssa.Call)
	if !ok {
		return nil, false
	}
	if c2, isStep := a.isOpStep(in); isStep {
		return c2, true
	}
	if call.Call.StaticCallee() != nil {
		return nil, false
	}
	if _, isB := call.Call.Value.(*ssa.Builtin); isB {
		return nil, false
	}
	res := call.Call.Signature().Results()
	if res.Len() == 1 && a.c.isPkgType(res.At(0).Type(), "respValue") && call.Call.Signature().Params().Len() == 0 {
		return call, true
	}
	return nil, false
}

// isOpStep: a call of a step method that makes the attempt (`lb.try()`).
func (a *blockAnchors) isOpStep(in ssa.Instruction) (*ssa.Call, bool) {
	call, ok := in.(*ssa.Call)
	if ok && a.stepKind(call.Call.StaticCallee()) == "op" {
		return call, true
	}
	return nil, false
}

// reachesSelect: calling g ends up in the function that holds the blocking select (g itself, a closure made in place, or
// a function it calls, two levels).
func (a *blockAnchors) reachesSelect(g *ssa.Function, depth int) bool {
	if g == nil || depth > 2 {
		return false
	}
	if g == a.selectFn {
		return true
	}
	for _, in := range instrsOf(g) {
		if call, ok := in.(*ssa.Call); ok {
			var h *ssa.Function
			if mc, ok := call.Call.Value.(*ssa.MakeClosure); ok {
				h, _ = mc.Fn.(*ssa.Function)
			} else {
				h = call.Call.StaticCallee()
			}
			if h != nil && h != g && a.c.InPkg(h) && a.reachesSelect(h, depth+1) {
				return true
			}
		}
	}
	return false
}

// waitsIn: the instructions of w that perform the wait (the select itself, or the call that reaches it).
func (a *blockAnchors) waitsIn(w *ssa.Function) []ssa.Instruction {
	var out []ssa.Instruction
	if a.selectFn == w {
		return []ssa.Instruction{a.sel}
	}
	for _, in := range instrsOf(w) {
		if call, ok := in.(*ssa.Call); ok {
			var h *ssa.Function
			if mc, ok := call.Call.Value.(*ssa.MakeClosure); ok {
				h, _ = mc.Fn.(*ssa.Function)
			} else {
				h = call.Call.StaticCallee()
			}
			if h != nil && a.c.InPkg(h) && a.reachesSelect(h, 0) {
				out = append(out, in)
			}
		}
	}
	return out
}

func (c *Ctx) blocking() *blockAnchors {
	a := &blockAnchors{wakeRel: map[*ssa.Function]bool{}, c: c}
	a.fReady = c.Field("wakeSignal", "ready")
	if a.fReady == nil {
		a.errs = append(a.errs, "wakeSignal.ready not found")
		return a
	}
	// the blocking wait: the select with an arm on a wake signal's channel
	for _, fn := range c.SrcFuncs() {
		for _, in := range instrsOf(fn) {
			if s, ok := in.(*ssa.Select); ok {
				for _, st := range s.States {
					if _, f := loadedField(st.Chan); f == a.fReady {
						a.selectFn, a.sel = fn, s
					}
				}
			}
		}
	}
	if a.sel == nil {
		a.errs = append(a.errs, "no select waits on a wake signal (no select in the blocking worker)")
		return a
	}
	// the worker: registers (a call yielding *wakeSignal), attempts (a call of a function value yielding the reply) and
	// waits (reaches the select) — the function that does all three, nearest to the select
	best := -1
	for _, fn := range c.SrcFuncs() {
		regs, ops := 0, 0
		for _, in := range instrsOf(fn) {
			if _, ok := a.isReg(in); ok {
				regs++
			}
			if _, ok := a.isOp(in); ok {
				ops++
			}
		}
		if regs == 0 || ops == 0 || len(a.waitsIn(fn)) == 0 {
			continue
		}
		score := regs + ops
		if score > best {
			best, a.worker = score, fn
		}
	}
	if a.worker == nil {
		a.errs = append(a.errs, "no function registers a wake signal, attempts the command and waits (no function takes a registration callback returning *wakeSignal)")
		return a
	}
	for _, fn := range c.SrcFuncs() {
		for _, in := range instrsOf(fn) {
			if s, ok := in.(*ssa.Send); ok {
				if _, f := loadedField(s.Chan); f == a.fReady {
					a.wakeFn = fn
				}
			}
		}
	}
	if a.wakeFn == nil {
		a.errs = append(a.errs, "no function sends on wakeSignal.ready")
		return a
	}
	lm := c.M.Locks()
	for _, fn := range c.SrcFuncs() {
		var wakeCall, unlockCall ssa.Instruction
		for _, in := range instrsOf(fn) {
			call, ok := in.(*ssa.Call)
			if !ok {
				continue
			}
			if op, cls, _ := lm.lockOp(call); op < 0 && cls == lm.DB {
				unlockCall = in
			}
			// … or through the ordinary release wrapper (`wake; dsc.unlock()`)
			if g := call.Call.StaticCallee(); g != nil && g != fn && lm.fl[g] != nil && (lm.fl[g].removes.has(lm.DB) || lm.fl[g].condRemoves.has(lm.DB)) && !c.M.Reach(g)[a.wakeFn] &&
				len(fn.Blocks) <= 6 && fn.Signature.Recv() != nil && g.Signature.Recv() != nil && types.Identical(fn.Signature.Recv().Type(), g.Signature.Recv().Type()) {
				unlockCall = in // a small method that wakes and then calls its sibling release method
			}
			for _, g := range c.Callees(call) {
				if g == a.wakeFn || (c.InPkg(g) && c.M.Reach(g)[a.wakeFn] && len(g.Blocks) <= 3) {
					wakeCall = in
				}
			}
		}
		if wakeCall != nil && unlockCall != nil {
			a.wakeRel[fn] = true
		}
	}
	if len(a.wakeRel) == 0 {
		a.errs = append(a.errs, "no release wrapper wakes waiters")
	}
	return a
}

// calleeIsParam: call through the given function-typed parameter (possibly spilled to a cell).
func callsParam(in ssa.Instruction, p *ssa.Parameter) (*ssa.Call, bool) {
	call, ok := in.(*ssa.Call)
	if !ok {
		return nil, false
	}
	v := call.Call.Value
	// captured parameter: *cell where cell holds p
	isP := func(v ssa.Value) bool {
		if v == ssa.Value(p) {
			return true
		}
		if u, ok := v.(*ssa.UnOp); ok && u.Op == token.MUL {
			if al, ok := u.X.(*ssa.Alloc); ok {
				for _, rr := range referrers(al) {
					if st, ok := rr.(*ssa.Store); ok && st.Addr == al && st.Val == ssa.Value(p) {
						return true
					}
				}
			}
		}
		return false
	}
	if isP(v) {
		return call, true
	}
	// the function value handed to a helper that calls it on every path (reenter(ds, ws, blockFn))
	if g := call.Call.StaticCallee(); g != nil && g.Blocks != nil {
		for k, a := range call.Call.Args {
			if isP(a) && k < len(g.Params) && alwaysCallsParam(g, g.Params[k], 0) {
				return call, true
			}
		}
	}
	return nil, false
}

// alwaysCallsParam: every path from the entry of g to a return calls the function-valued parameter q.
func alwaysCallsParam(g *ssa.Function, q *ssa.Parameter, depth int) bool {
	if depth > 2 {
		return false
	}
	calls := func(b *ssa.BasicBlock) bool {
		for _, in := range b.Instrs {
			if in == nil {
				continue
			}
			if _, ok := callsParamDepth(in, q, depth+1); ok {
				return true
			}
		}
		return false
	}
	seen := map[*ssa.BasicBlock]bool{}
	work := []*ssa.BasicBlock{g.Blocks[0]}
	for len(work) > 0 {
		b := work[len(work)-1]
		work = work[:len(work)-1]
		if seen[b] || calls(b) {
			continue
		}
		seen[b] = true
		if _, isRet := b.Instrs[len(b.Instrs)-1].(*ssa.Return); isRet {
			return false
		}
		work = append(work, b.Succs...)
	}
	return true
}

func callsParamDepth(in ssa.Instruction, p *ssa.Parameter, depth int) (*ssa.Call, bool) {
	call, ok := in.(*ssa.Call)
	if !ok {
		return nil, false
	}
	if call.Call.Value == ssa.Value(p) {
		return call, true
	}
	if g := call.Call.StaticCallee(); g != nil && g.Blocks != nil && depth <= 2 {
		for k, a := range call.Call.Args {
			if a == ssa.Value(p) && k < len(g.Params) && alwaysCallsParam(g, g.Params[k], depth) {
				return call, true
			}
		}
	}
	return nil, false
}

const textC11Order = "R-C11-protocol: the block/wake protocol of the blocking worker has the shape that excludes lost wake-ups: (try-after-register) the registration dominates a retry of the attempt which dominates the first wait; (reregister) on every way from a failed retry after a wake-up back to the wait the waiter is registered again — the wake path unlinks the woken waiter from every queue; (leave) every registration is disposed on all exits"

func ruleC11Protocol(c *Ctx) {
	c.S.Rule("R-C11-protocol", textC11Order, 3)
	a := c.blocking()
	for _, e := range a.errs {
		c.S.Undecided("R-C11-protocol", "anchors:"+e, "-", e)
	}
	if len(a.errs) > 0 {
		return
	}
	w := a.worker
	var regs, ops []*ssa.Call
	for _, in := range instrsOf(w) {
		if call, ok := a.isReg(in); ok {
			regs = append(regs, call)
		}
		if call, ok := a.isOp(in); ok {
			ops = append(ops, call)
		}
	}
	// the wait: the select, or the call (of a closure made in place, of a named function) that reaches it
	waits := a.waitsIn(w)
	if len(regs) == 0 || len(ops) == 0 || len(waits) == 0 {
		c.S.Undecided("R-C11-protocol", fnName(w)+":shape", c.Pos(w.Pos()), fmt.Sprintf("registrations=%d attempts=%d waits=%d", len(regs), len(ops), len(waits)))
		return
	}
	wait := waits[0]
	// (1) try-after-register
	ok1 := false
	for _, r := range regs {
		for _, o := range ops {
			if instrDominates(r, o) && instrDominates(o, wait) {
				ok1 = true
			}
		}
	}
	key := fnName(w) + ":try-after-register"
	if ok1 {
		c.S.OK("R-C11-protocol", key, c.Pos(c.InstrPos(wait)), "register → retry → wait")
	} else {
		c.S.Bad("R-C11-protocol", key, c.Pos(c.InstrPos(wait)), "the first wait is not preceded by a retry of the attempt made after the registration: a push between the first attempt and the registration is missed (the client blocks although its list is non-empty)")
	}
	// (2) re-register on the cycle wait → failed retry → wait, unless the wake path keeps the waiter linked
	wakeUnlinks := false
	for _, in := range instrsOf(a.wakeFn) {
		if call, ok := in.(*ssa.Call); ok {
			if g := call.Call.StaticCallee(); g != nil && c.InPkg(g) {
				// does it clear queue links? look for stores of nil into signalListTuple fields / map deletes downstream
				for f := range c.M.Reach(g) {
					for _, in2 := range instrsOf(f) {
						if st, ok := in2.(*ssa.Store); ok {
							if fa, ok := st.Addr.(*ssa.FieldAddr); ok && c.ownerName(fieldOf(fa)) == "signalListTuple" && isNilConst(st.Val) {
								wakeUnlinks = true
							}
						}
					}
				}
			}
		}
	}
	key = fnName(w) + ":reregister"
	if !blockInCycle(wait.Block()) {
		c.S.Trivial("R-C11-protocol", key, c.Pos(c.InstrPos(wait)), "the wait is not in a loop")
	} else if !wakeUnlinks {
		c.S.OK("R-C11-protocol", key, c.Pos(c.InstrPos(wait)), "the wake path leaves the waiter linked")
	} else {
		// every cycle through the wait must pass a registration call
		isReg := func(in ssa.Instruction) bool { _, ok := a.isReg(in); return ok }
		cm := &CoverModel{m: c.M, mm: c.M.Muts(), isEvent: isReg, always: map[*ssa.Function]bool{}}
		// can we go from after the wait back to the wait without registering?
		back := false
		type pt struct {
			b *ssa.BasicBlock
			i int
		}
		seen := map[*ssa.BasicBlock]bool{}
		stack := []pt{{wait.Block(), instrIndex(wait) + 1}}
		for len(stack) > 0 && !back {
			cur := stack[len(stack)-1]
			stack = stack[:len(stack)-1]
			blocked := false
			for i := cur.i; i < len(cur.b.Instrs); i++ {
				if cm.isEvent(cur.b.Instrs[i]) {
					blocked = true
					break
				}
			}
			if blocked {
				continue
			}
			for _, s := range cur.b.Succs {
				if s == wait.Block() {
					back = true
					break
				}
				if !seen[s] {
					seen[s] = true
					stack = append(stack, pt{s, 0})
				}
			}
		}
		if back {
			c.S.Bad("R-C11-protocol", key, c.Pos(c.InstrPos(wait)), "a woken waiter is unlinked from every wait queue by the wake path, and after a failed retry (the element was taken by someone else) the worker goes back to waiting without registering again: no later push can wake it — it stays blocked while its list is non-empty")
		} else {
			c.S.OK("R-C11-protocol", key, c.Pos(c.InstrPos(wait)), "every way back to the wait passes a new registration")
		}
	}
	// (3) leave: after each registration, no return without disposing (deferred or direct)
	for i, r := range regs {
		key := fmt.Sprintf("%s:leave#%d", fnName(w), i+1)
		disposes := func(in ssa.Instruction) bool {
			var cc ssa.CallInstruction
			switch x := in.(type) {
			case *ssa.Defer:
				cc = x
			case *ssa.Call:
				cc = x
			default:
				return false
			}
			for _, g := range c.Callees(cc) {
				if !c.InPkg(g) {
					continue
				}
				// a function (or deferred closure) every path of which ends up closing ws.ready — a disposal that is
				// skipped under a condition (“only when the command has no reply”) leaves registrations behind
				if alwaysDisposes(c, a, g, 0) {
					return true
				}
			}
			return false
		}
		cm := &CoverModel{m: c.M, mm: c.M.Muts(), isEvent: disposes, always: map[*ssa.Function]bool{}}
		if cm.exitReachableWithoutE(w, r.Block(), instrIndex(r)+1) {
			c.S.Bad("R-C11-protocol", key, c.Pos(r.Pos()), "a registration can be left behind: some path to a return neither defers nor calls the disposal of the wake signal (a stale waiter swallows later wake-ups)")
		} else {
			c.S.OK("R-C11-protocol", key, c.Pos(r.Pos()), "disposal of the wake signal is deferred/called on every path after the registration")
		}
	}
}

// alwaysDisposes: every path from the entry of g to a return passes close(ws.ready), directly or through a static callee
// that always does (depth 3).
func alwaysDisposes(c *Ctx, a *blockAnchors, g *ssa.Function, depth int) bool {
	if g == nil || g.Blocks == nil || depth > 3 {
		return false
	}
	hits := func(b *ssa.BasicBlock) bool {
		for _, in := range b.Instrs {
			call, ok := in.(*ssa.Call)
			if !ok {
				continue
			}
			if bi, ok := call.Call.Value.(*ssa.Builtin); ok && bi.Name() == "close" {
				if _, fld := loadedField(call.Call.Args[0]); fld == a.fReady {
					return true
				}
			}
			if h := call.Call.StaticCallee(); h != nil && h != g && c.InPkg(h) && alwaysDisposes(c, a, h, depth+1) {
				return true
			}
		}
		return false
	}
	seen := map[*ssa.BasicBlock]bool{}
	work := []*ssa.BasicBlock{g.Blocks[0]}
	for len(work) > 0 {
		b := work[len(work)-1]
		work = work[:len(work)-1]
		if seen[b] || hits(b) {
			continue
		}
		seen[b] = true
		if _, isRet := b.Instrs[len(b.Instrs)-1].(*ssa.Return); isRet {
			return false
		}
		work = append(work, b.Succs...)
	}
	return true
}

const textC11Wake = "R-C11-wake: (in-lock) the release wrapper that wakes waiters does so before it releases the database mutex, and the wake channel has constant capacity ≥ 1 so the send cannot block under the lock; (push-wakes) every function that inserts into a list it may have just created leaves its critical section through that wrapper and records the number of inserted elements"

func ruleC11Wake(c *Ctx) {
	c.S.Rule("R-C11-wake", textC11Wake, 4)
	a := c.blocking()
	if len(a.errs) > 0 {
		c.S.Undecided("R-C11-wake", "anchors", "-", strings.Join(a.errs, "; "))
		return
	}
	lm := c.M.Locks()
	// (1) wake before unlock in the wrapper(s)
	for fn := range a.wakeRel {
		var wakeCall ssa.Instruction
		for _, in := range instrsOf(fn) {
			if call, ok := in.(*ssa.Call); ok {
				for _, g := range c.Callees(call) {
					if g == a.wakeFn || (c.InPkg(g) && c.M.Reach(g)[a.wakeFn]) {
						wakeCall = in
					}
				}
			}
		}
		okOrder := true
		for _, in := range instrsOf(fn) {
			if call, ok := in.(*ssa.Call); ok {
				if op, cls, _ := lm.lockOp(call); op < 0 && cls == lm.DB {
					if !instrDominates(wakeCall, in) {
						okOrder = false
					}
				}
			}
		}
		// (1b) the wake is unconditional: its block dominates every return of the wrapper — also on the path on which
		// the caller owns the exclusive lock (a push queued in MULTI/EXEC wakes waiters like any other)
		always := wakeCall != nil
		if wakeCall != nil {
			for _, b := range fn.Blocks {
				if _, isRet := b.Instrs[len(b.Instrs)-1].(*ssa.Return); isRet && !(wakeCall.Block() == b || wakeCall.Block().Dominates(b)) {
					always = false
				}
			}
		}
		if always {
			c.S.OK("R-C11-wake", fnName(fn)+":wake-unconditional", c.Pos(c.InstrPos(wakeCall)), "the wake lies on every path through the wrapper")
		} else {
			c.S.Bad("R-C11-wake", fnName(fn)+":wake-unconditional", c.Pos(fn.Pos()), "the wrapper can return without waking the waiters (the wake is conditional, e.g. skipped when the caller owns the exclusive lock): a push inside MULTI/EXEC leaves blocked clients asleep next to a non-empty list")
		}
		key := fnName(fn) + ":wake-before-unlock"
		if okOrder {
			c.S.OK("R-C11-wake", key, c.Pos(c.InstrPos(wakeCall)), "waiters are woken while the database mutex is still held")
		} else {
			c.S.Bad("R-C11-wake", key, c.Pos(c.InstrPos(wakeCall)), "the mutex is released before the waiters are woken: the wait table is touched without the lock and a waiter can miss the element")
		}
	}
	// (2) channel capacity
	for _, fn := range c.SrcFuncs() {
		for _, in := range instrsOf(fn) {
			st, ok := isStoreTo(in, a.fReady)
			if !ok {
				continue
			}
			key := fnName(fn) + ":ready-capacity"
			if mk, ok := st.Val.(*ssa.MakeChan); ok {
				if k, isC := constInt(mk.Size); isC && k >= 1 {
					c.S.OK("R-C11-wake", key, c.Pos(st.Pos()), fmt.Sprintf("buffered, capacity %d", k))
					continue
				}
			}
			c.S.Bad("R-C11-wake", key, c.Pos(st.Pos()), "the wake channel is unbuffered (or of unknown capacity): the push blocks under the database lock until the woken client reads it")
		}
	}
	// (3) push-wakes
	mm := c.M.Muts()
	fCount := c.Field("storeList", "count")
	fElems := c.Field("unblockKey", "elements")
	// insert primitives without a pivot (can make an empty list non-empty)
	insertPrim := map[*ssa.Function]bool{}
	for _, fn := range c.SrcFuncs() {
		pivot := false
		for _, p := range fn.Params {
			if c.isPkgType(p.Type(), "listItem") {
				pivot = true
			}
		}
		if pivot {
			continue
		}
		for _, s := range mm.sites[fn] {
			if s.Field == fCount && !s.Shrinks {
				insertPrim[fn] = true
			}
		}
	}
	for _, fn := range c.SrcFuncs() {
		var inserts []ssa.Instruction
		for _, in := range instrsOf(fn) {
			if call, ok := in.(*ssa.Call); ok && insertPrim[call.Call.StaticCallee()] {
				inserts = append(inserts, in)
			}
		}
		if len(inserts) == 0 || !lm.LocallyHeld(inserts[0]).has(lm.DB) {
			continue
		}
		// how does fn release the lock? Through the waking wrapper — called or deferred directly, or from a function
		// (a deferred closure, a small helper) every releasing call of which goes through the waking wrapper
		var releasesOnlyThroughWake func(g *ssa.Function, d int) bool
		releasesOnlyThroughWake = func(g *ssa.Function, d int) bool {
			if a.wakeRel[g] {
				return true
			}
			if d > 2 || g.Blocks == nil {
				return false
			}
			n := 0
			for _, in2 := range instrsOf(g) {
				var c2 ssa.CallInstruction
				switch x := in2.(type) {
				case *ssa.Defer:
					c2 = x
				case *ssa.Call:
					c2 = x
				default:
					continue
				}
				h := c2.Common().StaticCallee()
				if h == nil {
					continue
				}
				hl := lm.fl[h]
				if hl == nil || !(hl.removes.has(lm.DB) || hl.condRemoves.has(lm.DB)) {
					continue
				}
				n++
				if !releasesOnlyThroughWake(h, d+1) {
					return false
				}
			}
			return n > 0
		}
		viaWake := false
		plain := false
		for _, in := range instrsOf(fn) {
			var cc ssa.CallInstruction
			switch x := in.(type) {
			case *ssa.Defer:
				cc = x
			case *ssa.Call:
				cc = x
			default:
				continue
			}
			g := cc.Common().StaticCallee()
			if g == nil {
				// the release function an acquirer handed back (`uk, release := dsc.lockedProducer(key); defer release()`)
				if g0 := scopedOrigin(cc.Common().Value); g0 != nil {
					if gl := lm.fl[g0]; gl != nil && gl.scoped && gl.scopedRel.has(lm.DB) {
						allWake := len(gl.scopedTargets) > 0 && gl.scopedDirect == 0
						for _, t := range gl.scopedTargets {
							if !releasesOnlyThroughWake(t, 0) {
								allWake = false
							}
						}
						if allWake {
							viaWake = true
						} else {
							plain = true
						}
					}
				}
				continue
			}
			fl := lm.fl[g]
			if fl == nil || !(fl.removes.has(lm.DB) || fl.condRemoves.has(lm.DB)) {
				continue
			}
			if releasesOnlyThroughWake(g, 0) {
				viaWake = true
			} else {
				plain = true
			}
		}
		key := fnName(fn) + ":release-wakes"
		switch {
		case viaWake && !plain:
			// elements recorded on every path through an insert: in the key object handed to the waking release, or in a
			// local that the deferred waking closure reads when it builds that object (`pushed++` … `elements: pushed`)
			countCells := map[ssa.Value]bool{}
			for _, in := range instrsOf(fn) {
				d, ok := in.(*ssa.Defer)
				if !ok {
					continue
				}
				mc, ok := d.Call.Value.(*ssa.MakeClosure)
				if !ok {
					continue
				}
				g, _ := mc.Fn.(*ssa.Function)
				if g == nil || !releasesOnlyThroughWake(g, 0) {
					continue
				}
				for _, in2 := range instrsOf(g) {
					st, ok := isStoreTo(in2, fElems)
					if !ok {
						continue
					}
					if u, ok := stripValue(st.Val).(*ssa.UnOp); ok && u.Op == token.MUL {
						if fv, ok := u.X.(*ssa.FreeVar); ok {
							for i, v2 := range g.FreeVars {
								if v2 == fv && i < len(mc.Bindings) {
									countCells[mc.Bindings[i]] = true
								}
							}
						}
					}
				}
			}
			isElems := func(in ssa.Instruction) bool {
				if _, ok := isStoreTo(in, fElems); ok {
					return true
				}
				if st, ok := in.(*ssa.Store); ok && countCells[st.Addr] {
					if k, isConst := constInt(st.Val); isConst && k == 0 {
						return false // the initialisation
					}
					return true
				}
				return false
			}
			cm := &CoverModel{m: c.M, mm: mm, isEvent: isElems, always: map[*ssa.Function]bool{}}
			missing := false
			for _, ins := range inserts {
				if !cm.covered(ins) {
					missing = true
				}
			}
			if missing {
				c.S.Bad("R-C11-wake", key, c.Pos(c.InstrPos(inserts[0])), fmt.Sprintf("%s inserts into a list but on some path does not record the number of inserted elements for the wake-up: waiters are not woken", fnName(fn)))
			} else {
				c.S.OK("R-C11-wake", key, c.Pos(c.InstrPos(inserts[0])), "releases through the waking wrapper and records the number of inserted elements")
			}
		default:
			c.S.Bad("R-C11-wake", key, c.Pos(c.InstrPos(inserts[0])), fmt.Sprintf("%s can make a list non-empty but releases the database lock without waking waiters: a client blocked on that key stays blocked although the list is non-empty", fnName(fn)))
		}
	}
}

const textC12 = "R-C12-select: the blocking wait ends in exactly three ways — the connection's unblock mailbox (obtained from capture()), a timer built for the command's timeout, and the wake signal; capture() is paired with releaseCapture() on all paths; waiting (registration, capture) is not reachable when the command runs from EXEC; CLIENT UNBLOCK's reply 1 depends on a value returned by the unblock operation; closing or killing a connection reaches the unblock of its blocked command"

func ruleC12(c *Ctx) {
	c.S.Rule("R-C12-select", textC12, 4)
	a := c.blocking()
	if len(a.errs) > 0 {
		c.S.Undecided("R-C12-select", "anchors", "-", strings.Join(a.errs, "; "))
		return
	}
	lm := c.M.Locks()
	sf := a.selectFn
	// (1) arms
	var captureFn, releaseFn *ssa.Function
	fBlocked := c.Field("clientState", "blocked")
	for _, fn := range c.SrcFuncs() {
		if fn.Signature.Recv() == nil || !c.isPkgType(fn.Signature.Recv().Type(), "clientState") {
			continue
		}
		res := fn.Signature.Results()
		if res.Len() == 1 {
			if _, isChan := res.At(0).Type().Underlying().(*types.Chan); isChan {
				captureFn = fn
			}
		}
	}
	// releaseCapture: the method on clientState that drains the mailbox (a select with default, in the method itself, in a
	// closure or in a helper method it calls) and resets the blocking state (an atomic operation on clientState.blocked)
	var drains func(fn *ssa.Function, depth int) bool
	drains = func(fn *ssa.Function, depth int) bool {
		if fn == nil || fn.Blocks == nil || depth > 2 {
			return false
		}
		for _, f := range append([]*ssa.Function{fn}, fn.AnonFuncs...) {
			for _, in := range instrsOf(f) {
				if s, ok := in.(*ssa.Select); ok && !s.Blocking {
					return true
				}
				if call, ok := in.(*ssa.Call); ok {
					if g := call.Call.StaticCallee(); g != nil && g != fn && g.Signature.Recv() != nil && c.isPkgType(g.Signature.Recv().Type(), "clientState") && drains(g, depth+1) {
						return true
					}
				}
			}
		}
		return false
	}
	var touchesStateD func(fn *ssa.Function, depth int) bool
	touchesStateD = func(fn *ssa.Function, depth int) bool {
		if fn == nil || fn.Blocks == nil || depth > 2 {
			return false
		}
		for _, f := range append([]*ssa.Function{fn}, fn.AnonFuncs...) {
			for _, in := range instrsOf(f) {
				call, ok := in.(*ssa.Call)
				if !ok {
					continue
				}
				if strings.HasPrefix(fullCalleeName(call), "sync/atomic.") && len(call.Call.Args) > 0 {
					if fa, ok := call.Call.Args[0].(*ssa.FieldAddr); ok && fieldOf(fa) == fBlocked {
						return true
					}
				}
				if g := call.Call.StaticCallee(); g != nil && g != fn && g.Signature.Recv() != nil && c.isPkgType(g.Signature.Recv().Type(), "clientState") && touchesStateD(g, depth+1) {
					return true
				}
			}
		}
		return false
	}
	touchesState := func(fn *ssa.Function) bool { return touchesStateD(fn, 0) }
	var drainOnly *ssa.Function
	for _, fn := range c.SrcFuncs() {
		if fn.Signature.Recv() == nil || !c.isPkgType(fn.Signature.Recv().Type(), "clientState") || fn == captureFn {
			continue
		}
		if drains(fn, 0) {
			if touchesState(fn) {
				releaseFn = fn
			} else {
				drainOnly = fn
			}
		}
	}
	if releaseFn == nil {
		releaseFn = drainOnly
	}
	kinds := map[string]int{}
	for _, st := range a.sel.States {
		if st.Dir != types.RecvOnly {
			kinds["send"]++
			continue
		}
		switch {
		case derivesFromCall(st.Chan, captureFn):
			kinds["mailbox"]++
		case isTimerC(st.Chan):
			kinds["timer"]++
		case func() bool { _, f := loadedField(st.Chan); return f == a.fReady }():
			kinds["wake"]++
		default:
			kinds["other"]++
		}
	}
	key := fnName(sf) + ":arms"
	if a.sel.Blocking && len(a.sel.States) == 3 && kinds["mailbox"] == 1 && kinds["timer"] == 1 && kinds["wake"] == 1 {
		c.S.OK("R-C12-select", key, c.Pos(a.sel.Pos()), "blocking select on unblock mailbox, timeout timer and wake signal")
	} else {
		c.S.Bad("R-C12-select", key, c.Pos(a.sel.Pos()), fmt.Sprintf("the blocking wait does not have exactly the three arms mailbox/timer/wake (found %v, blocking=%v): the command cannot be ended by timeout, CLIENT UNBLOCK or a push", kinds, a.sel.Blocking))
	}
	// (2) capture/release pairing
	if captureFn == nil || releaseFn == nil {
		c.S.Undecided("R-C12-select", "capture-pair", "-", "capture()/releaseCapture() not identified")
	} else {
		for _, in := range instrsOf(sf) {
			call, ok := in.(*ssa.Call)
			if !ok || call.Call.StaticCallee() != captureFn {
				continue
			}
			rel := func(in ssa.Instruction) bool {
				switch x := in.(type) {
				case *ssa.Defer:
					return x.Call.StaticCallee() == releaseFn
				case *ssa.Call:
					return x.Call.StaticCallee() == releaseFn
				}
				return false
			}
			cm := &CoverModel{m: c.M, mm: c.M.Muts(), isEvent: rel, always: map[*ssa.Function]bool{}}
			key := fnName(sf) + ":capture-release"
			if cm.exitReachableWithoutE(sf, call.Block(), instrIndex(call)+1) {
				c.S.Bad("R-C12-select", key, c.Pos(call.Pos()), "the connection can stay captured after the wait ends: the next blocking command of this connection spins forever in capture()")
			} else {
				c.S.OK("R-C12-select", key, c.Pos(call.Pos()), "releaseCapture is deferred/called on every path after capture")
			}
		}
	}
	// (3) no waiting under EXEC: registration call dominated by the multi==false edge
	w := a.worker
	for _, in := range instrsOf(w) {
		call, ok := a.isReg(in)
		if !ok {
			continue
		}
		guarded := false
		for _, d := range w.Blocks {
			ifi, isIf := d.Instrs[len(d.Instrs)-1].(*ssa.If)
			if !isIf {
				continue
			}
			trueIsSet, isM := lm.multiTest(ifi.Cond)
			if !isM {
				continue
			}
			idx := 1
			if !trueIsSet {
				idx = 0
			}
			s := d.Succs[idx]
			if len(s.Preds) == 1 && (s == call.Block() || s.Dominates(call.Block())) {
				guarded = true
			}
		}
		key := fnName(w) + ":no-wait-in-exec"
		if guarded {
			c.S.OK("R-C12-select", key, c.Pos(call.Pos()), "registration is reached only when the command does not run from EXEC")
		} else {
			c.S.Bad("R-C12-select", key, c.Pos(call.Pos()), "a blocking command replayed by EXEC can register and wait: EXEC then blocks holding the database exclusively")
		}
	}
	_ = fBlocked
	// (4) CLIENT UNBLOCK reply depends on the unblock result
	hs, _ := c.M.Handlers()
	if h := hs["client|unblock"]; h != nil {
		var unblockFn *ssa.Function
		for _, in := range instrsOf(h) {
			if call, ok := in.(*ssa.Call); ok {
				if g := call.Call.StaticCallee(); g != nil && g.Signature.Recv() != nil && c.isPkgType(g.Signature.Recv().Type(), "clientState") {
					unblockFn = g
				}
			}
		}
		key := fnName(h) + ":reply-depends-on-unblock"
		if unblockFn == nil {
			c.S.Undecided("R-C12-select", key, c.Pos(h.Pos()), "CLIENT UNBLOCK handler calls no clientState method")
		} else if unblockFn.Signature.Results().Len() == 0 {
			c.S.Bad("R-C12-select", key, c.Pos(h.Pos()), fmt.Sprintf("%s answers 1 whenever the id exists: %s returns nothing, so the reply cannot say whether the client was actually blocked", fnName(h), fnName(unblockFn)))
		} else {
			c.S.OK("R-C12-select", key, c.Pos(h.Pos()), "the unblock operation reports whether a block was ended")
		}
	}
	// (5) closing a connection reaches the unblock
	unblock := unblockPoster(c)
	if unblock == nil {
		c.S.Undecided("R-C12-select", "close-unblocks", "-", "no clientState method posts to the unblock mailbox")
	} else {
		for _, name := range []string{"(*clientCxn).RequestClose", "(*clientCxn).onTerminate"} {
			fn := c.Fn(name)
			if fn == nil {
				continue
			}
			key := name + ":reaches-unblock"
			if c.M.Reach(fn)[unblock] {
				c.S.OK("R-C12-select", key, c.Pos(fn.Pos()), "ends the connection's blocked command")
			} else {
				c.S.Bad("R-C12-select", key, c.Pos(fn.Pos()), fmt.Sprintf("%s never reaches %s: a blocked command of a closed or killed connection keeps waiting and later consumes an element nobody will receive", name, fnName(unblock)))
			}
		}
	}
}

// unblockPoster: the clientState method that posts to the unblock mailbox (ends a blocked command from outside).
func unblockPoster(c *Ctx) *ssa.Function {
	var unblock *ssa.Function
	for _, fn := range c.SrcFuncs() {
		// a method of clientState, or a closure made inside one (the post may sit in a retry closure)
		method := fn
		for method.Parent() != nil {
			method = method.Parent()
		}
		if method.Signature.Recv() != nil && c.isPkgType(method.Signature.Recv().Type(), "clientState") {
			for _, in := range instrsOf(fn) {
				if s, ok := in.(*ssa.Send); ok {
					if _, isChan := s.Chan.Type().Underlying().(*types.Chan); isChan && derivesFieldChan(c, s.Chan, "clientState", "unblockCh") {
						unblock = method
					}
				}
			}
		}
	}
	return unblock
}

func derivesFromCall(v ssa.Value, fn *ssa.Function) bool {
	if fn == nil {
		return false
	}
	seen := map[ssa.Value]bool{}
	var walk func(v ssa.Value) bool
	walk = func(v ssa.Value) bool {
		if v == nil || seen[v] {
			return false
		}
		seen[v] = true
		switch x := v.(type) {
		case *ssa.Call:
			return x.Call.StaticCallee() == fn
		case *ssa.UnOp:
			if al, ok := x.X.(*ssa.Alloc); ok {
				for _, rr := range referrers(al) {
					if st, ok := rr.(*ssa.Store); ok && st.Addr == al && walk(st.Val) {
						return true
					}
				}
			}
			return walk(x.X)
		case *ssa.Phi:
			for _, e := range x.Edges {
				if walk(e) {
					return true
				}
			}
		case *ssa.FreeVar:
			return walk(bindingOf(x))
		}
		return false
	}
	return walk(v)
}

func isTimerC(v ssa.Value) bool {
	_, f := loadedField(v)
	if f == nil || f.Name() != "C" {
		return false
	}
	u := v.(*ssa.UnOp)
	fa := u.X.(*ssa.FieldAddr)
	n, ok := deref(fa.X.Type()).(*types.Named)
	return ok && n.Obj().Pkg() != nil && n.Obj().Pkg().Path() == "time" && n.Obj().Name() == "Timer"
}

func derivesFieldChan(c *Ctx, v ssa.Value, owner, field string) bool {
	_, f := loadedField(v)
	return f != nil && f.Name() == field && c.ownerName(f) == owner
}

const textC12Deadline = "R-C12-deadline: the timer of the blocking wait is armed with a remaining time — a duration obtained from time.Until / Time.Sub inside the function that arms it — never with the command's full timeout: the wait is repeated after a wake-up whose retry finds nothing, and re-arming the full timeout would let the command end later than t"

func ruleC12Deadline(c *Ctx) {
	c.S.Rule("R-C12-deadline", textC12Deadline, 1)
	a := c.blocking()
	if len(a.errs) > 0 || a.sel == nil {
		c.S.Undecided("R-C12-deadline", "anchors", "-", strings.Join(a.errs, "; "))
		return
	}
	n := 0
	for _, st := range a.sel.States {
		if !isTimerC(st.Chan) {
			continue
		}
		// the timer object
		u := st.Chan.(*ssa.UnOp)
		tm := u.X.(*ssa.FieldAddr).X
		call, ok := tm.(*ssa.Call)
		if !ok {
			if ld, ok2 := tm.(*ssa.UnOp); ok2 {
				// timer kept in a local cell
				if al, ok3 := ld.X.(*ssa.Alloc); ok3 {
					for _, r := range referrers(al) {
						if s2, ok4 := r.(*ssa.Store); ok4 && s2.Addr == ssa.Value(al) {
							call, ok = s2.Val.(*ssa.Call)
						}
					}
				}
			}
		}
		n++
		key := fmt.Sprintf("%s:timer#%d", fnName(a.selectFn), n)
		// the timer may be made by a helper (armWaitTimer(deadline)): the creation inside the helper is judged, and a
		// duration the helper receives as a parameter is followed to the helper's call site
		paramArg := map[*ssa.Parameter]ssa.Value{}
		for d := 0; call != nil && d < 3; d++ {
			g := call.Call.StaticCallee()
			if g == nil || !c.InPkg(g) || g.Blocks == nil {
				break
			}
			var inner *ssa.Call
			for _, b := range g.Blocks {
				if ret, ok := b.Instrs[len(b.Instrs)-1].(*ssa.Return); ok && len(ret.Results) > 0 {
					for _, leaf := range phiLeaves(ret.Results[0], map[ssa.Value]bool{}) {
						if ic, ok := leaf.(*ssa.Call); ok {
							inner = ic
						}
					}
				}
			}
			if inner == nil {
				break
			}
			for i, p := range g.Params {
				if i < len(call.Call.Args) {
					paramArg[p] = call.Call.Args[i]
				}
			}
			call = inner
		}
		if call == nil || len(call.Call.Args) == 0 {
			c.S.Undecided("R-C12-deadline", key, c.Pos(a.sel.Pos()), "the creation of the wait timer could not be found")
			continue
		}
		remaining := false
		var walk func(v ssa.Value, d int)
		seen := map[ssa.Value]bool{}
		walk = func(v ssa.Value, d int) {
			if v == nil || seen[v] || d > 10 {
				return
			}
			seen[v] = true
			switch x := v.(type) {
			case *ssa.Call:
				name := fullCalleeName(x)
				if name == "time.Until" || name == "(time.Time).Sub" {
					remaining = true
					return
				}
				for _, ar := range x.Call.Args {
					walk(ar, d+1)
				}
			case *ssa.BinOp:
				walk(x.X, d+1)
				walk(x.Y, d+1)
			case *ssa.Convert:
				walk(x.X, d+1)
			case *ssa.ChangeType:
				walk(x.X, d+1)
			case *ssa.Parameter:
				walk(paramArg[x], d+1)
			case *ssa.Phi:
				for _, e := range x.Edges {
					walk(e, d+1)
				}
			case *ssa.UnOp:
				if al, ok := x.X.(*ssa.Alloc); ok {
					for _, r := range referrers(al) {
						if s2, ok := r.(*ssa.Store); ok && s2.Addr == ssa.Value(al) {
							walk(s2.Val, d+1)
						}
					}
				}
			}
		}
		walk(call.Call.Args[0], 0)
		if remaining {
			c.S.OK("R-C12-deadline", key, c.Pos(call.Pos()), "the timer is armed with the time remaining until the deadline")
		} else {
			c.S.Bad("R-C12-deadline", key, c.Pos(call.Pos()), "the wait timer is armed with a duration that is not computed from the clock where it is armed (no time.Until / Time.Sub): every repetition of the wait gets the full timeout again")
		}
	}
	if n == 0 {
		c.S.Undecided("R-C12-deadline", "timer", c.Pos(a.sel.Pos()), "the blocking select has no timer arm")
	}
}

const textC12Agree = "R-C12-timeout-agree: every blocking command converts its timeout argument to the worker's nanosecond parameter by the same expression (sibling agreement over the call sites of the block helpers): a command that converts differently (other unit, an extra truncation) waits a different time than its siblings for the same argument, and a sub-unit timeout can become 0 = wait forever"

func ruleC12TimeoutAgree(c *Ctx) {
	c.S.Rule("R-C12-timeout-agree", textC12Agree, 3)
	a := c.blocking()
	if len(a.errs) > 0 || a.worker == nil {
		c.S.Undecided("R-C12-timeout-agree", "anchors", "-", strings.Join(a.errs, "; "))
		return
	}
	// helpers: the worker and functions that pass an int64 parameter straight on to it
	type hp struct {
		fn  *ssa.Function
		idx int
	}
	var helpers []hp
	for i, p := range a.worker.Params {
		if b, ok := p.Type().Underlying().(*types.Basic); ok && b.Kind() == types.Int64 {
			helpers = append(helpers, hp{a.worker, i})
		}
	}
	for changed := true; changed; {
		changed = false
		for _, fn := range c.SrcFuncs() {
			for _, in := range instrsOf(fn) {
				call, ok := in.(*ssa.Call)
				if !ok {
					continue
				}
				g := call.Call.StaticCallee()
				for _, h := range helpers {
					if g != h.fn || h.idx >= len(call.Call.Args) {
						continue
					}
					if p, ok := call.Call.Args[h.idx].(*ssa.Parameter); ok {
						for i, q := range fn.Params {
							if q == p {
								dup := false
								for _, h2 := range helpers {
									if h2.fn == fn && h2.idx == i {
										dup = true
									}
								}
								if !dup {
									helpers = append(helpers, hp{fn, i})
									changed = true
								}
							}
						}
					}
				}
			}
		}
	}
	var canon func(v ssa.Value, d int) string
	canon = func(v ssa.Value, d int) string {
		if d > 10 {
			return "…"
		}
		switch x := v.(type) {
		case *ssa.Const:
			if x.Value == nil {
				return "nil"
			}
			return x.Value.String()
		case *ssa.Convert:
			return types.TypeString(x.Type(), func(*types.Package) string { return "" }) + "(" + canon(x.X, d+1) + ")"
		case *ssa.ChangeType:
			return canon(x.X, d+1)
		case *ssa.BinOp:
			return "(" + canon(x.X, d+1) + " " + x.Op.String() + " " + canon(x.Y, d+1) + ")"
		case *ssa.TypeAssert:
			return canon(x.X, d+1)
		case *ssa.Extract:
			return canon(x.Tuple, d+1)
		case *ssa.Lookup:
			return "args[" + canon(x.Index, d+1) + "]"
		case *ssa.Call:
			s := fullCalleeName(x) + "("
			for i, ar := range x.Call.Args {
				if i > 0 {
					s += ","
				}
				s += canon(ar, d+1)
			}
			return s + ")"
		}
		return "?" + v.Type().String()
	}
	type site struct {
		fn   *ssa.Function
		call *ssa.Call
		expr string
	}
	var sites []site
	for _, fn := range c.SrcFuncs() {
		for _, in := range instrsOf(fn) {
			call, ok := in.(*ssa.Call)
			if !ok {
				continue
			}
			g := call.Call.StaticCallee()
			for _, h := range helpers {
				if g != h.fn || h.idx >= len(call.Call.Args) {
					continue
				}
				if _, isParam := call.Call.Args[h.idx].(*ssa.Parameter); isParam {
					continue
				}
				sites = append(sites, site{fn, call, canon(call.Call.Args[h.idx], 0)})
			}
		}
	}
	cnt := map[string]int{}
	for _, s := range sites {
		cnt[s.expr]++
	}
	best, bn := "", 0
	for e, k := range cnt {
		if k > bn || (k == bn && e < best) {
			best, bn = e, k
		}
	}
	ord := map[string]int{}
	for _, s := range sites {
		ord[fnName(s.fn)]++
		key := fmt.Sprintf("%s:timeout#%d", fnName(s.fn), ord[fnName(s.fn)])
		if s.expr == best {
			c.S.OK("R-C12-timeout-agree", key, c.Pos(s.call.Pos()), "converts the timeout as "+s.expr)
		} else {
			c.S.Bad("R-C12-timeout-agree", key, c.Pos(s.call.Pos()), fmt.Sprintf("%s converts its timeout as %s while %d sibling(s) use %s", fnName(s.fn), s.expr, bn, best))
		}
	}
}

const textC11Unlink = "R-C11-unlink-all: before a waiter's wake signal is sent, the waiter is unlinked from the queue of every key it waits on (a call, dominating the send, of the function that loops until the signal's list of registrations is empty): a stale registration under another key would swallow a later push's wake-up while the real oldest waiter of that key sleeps on"

func ruleC11UnlinkAll(c *Ctx) {
	c.S.Rule("R-C11-unlink-all", textC11Unlink, 1)
	a := c.blocking()
	if len(a.errs) > 0 {
		c.S.Undecided("R-C11-unlink-all", "anchors", "-", strings.Join(a.errs, "; "))
		return
	}
	fHead := c.Field("wakeSignal", "objectsHead")
	if fHead == nil {
		c.S.Undecided("R-C11-unlink-all", "anchor", "-", "wakeSignal.objectsHead not found")
		return
	}
	// full-unlink functions: a *wakeSignal parameter whose objectsHead is tested against nil in a loop condition
	full := map[*ssa.Function]int{}
	for _, fn := range c.SrcFuncs() {
		for pi, p := range fn.Params {
			if !c.isPkgType(p.Type(), "wakeSignal") {
				continue
			}
			for _, b := range fn.Blocks {
				ifi, ok := b.Instrs[len(b.Instrs)-1].(*ssa.If)
				if !ok || !blockInCycle(b) {
					continue
				}
				bo, ok := ifi.Cond.(*ssa.BinOp)
				if !ok || (bo.Op != token.NEQ && bo.Op != token.EQL) {
					continue
				}
				for _, v := range []ssa.Value{bo.X, bo.Y} {
					// the tested value is the signal's list head on every way into the test
					// (`for ws.objectsHead != nil` as well as `for ref := ws.objectsHead; ref != nil; ref = ws.objectsHead`)
					leaves := phiLeaves(v, map[ssa.Value]bool{})
					all := len(leaves) > 0
					for _, lf := range leaves {
						if base, f := loadedField(lf); f != fHead || base != ssa.Value(p) {
							all = false
						}
					}
					if all && !isNilConst(v) {
						full[fn] = pi
					}
				}
			}
		}
	}
	if len(full) == 0 {
		c.S.Undecided("R-C11-unlink-all", "full-unlink", "-", "no function loops until a wake signal's registration list is empty")
		return
	}
	n := 0
	for _, fn := range c.SrcFuncs() {
		k := 0
		for _, in := range instrsOf(fn) {
			snd, ok := in.(*ssa.Send)
			if !ok {
				continue
			}
			sig, f := loadedField(snd.Chan)
			if f != a.fReady {
				continue
			}
			k++
			n++
			key := fmt.Sprintf("%s:wake#%d", fnName(fn), k)
			okUnlink := false
			for _, in2 := range instrsOf(fn) {
				call, ok := in2.(*ssa.Call)
				if !ok {
					continue
				}
				g := call.Call.StaticCallee()
				pi, isFull := full[g]
				if !isFull || pi >= len(call.Call.Args) {
					continue
				}
				if call.Call.Args[pi] == sig && instrDominates(in2, in) {
					okUnlink = true
				}
			}
			if okUnlink {
				c.S.OK("R-C11-unlink-all", key, c.Pos(snd.Pos()), "the signal is unlinked from all its queues before it is sent")
			} else {
				c.S.Bad("R-C11-unlink-all", key, c.Pos(snd.Pos()), fmt.Sprintf("%s sends a wake signal on a path on which the waiter was not unlinked from all the queues it is registered in: its stale entry under another key takes the wake-up of a later push and the oldest real waiter of that key stays blocked", fnName(fn)))
			}
		}
	}
	if n == 0 {
		c.S.Undecided("R-C11-unlink-all", "sends", "-", "no send on wakeSignal.ready found")
	}
}

const textC12Mailbox = "R-C12-mailbox: an unblock request is posted to a connection's mailbox only while that connection is captured in a blocking wait: the send lies on the true side of one equality test of the connection's blocking state (read atomically) with a constant — never for an idle connection, where the posted item would end the connection's NEXT blocking command at once"

func ruleC12Mailbox(c *Ctx) {
	c.S.Rule("R-C12-mailbox", textC12Mailbox, 1)
	fCh := c.Field("clientState", "unblockCh")
	fBlocked := c.Field("clientState", "blocked")
	if fCh == nil || fBlocked == nil {
		c.S.Undecided("R-C12-mailbox", "anchors", "-", "clientState.unblockCh / blocked not found")
		return
	}
	fromState := func(v ssa.Value) bool {
		call, ok := v.(*ssa.Call)
		if !ok || !strings.HasPrefix(fullCalleeName(call), "sync/atomic.") || len(call.Call.Args) == 0 {
			return false
		}
		fa, ok := call.Call.Args[0].(*ssa.FieldAddr)
		return ok && fieldOf(fa) == fBlocked
	}
	// the state that means "captured in a blocking wait": the state the capture function (the method that hands out the
	// mailbox channel) moves the connection to
	captured, haveCaptured := int64(0), false
	for _, fn := range c.SrcFuncs() {
		if fn.Signature.Recv() == nil || !c.isPkgType(fn.Signature.Recv().Type(), "clientState") || fn.Signature.Results().Len() != 1 {
			continue
		}
		if _, isChan := fn.Signature.Results().At(0).Type().Underlying().(*types.Chan); !isChan {
			continue
		}
		for _, in := range instrsOf(fn) {
			call, ok := in.(*ssa.Call)
			if !ok {
				continue
			}
			if strings.HasPrefix(fullCalleeName(call), "sync/atomic.") && fromState(call) {
				if k, isC := constInt(call.Call.Args[len(call.Call.Args)-1]); isC {
					captured, haveCaptured = k, true
				}
			} else if g := call.Call.StaticCallee(); g != nil && c.InPkg(g) && len(call.Call.Args) >= 2 {
				// a transition helper (setLock(from, to)): the last constant argument is the new state
				touches := false
				for _, in2 := range instrsOf(g) {
					if c2, ok := in2.(*ssa.Call); ok && strings.HasPrefix(fullCalleeName(c2), "sync/atomic.") && fromState(c2) {
						touches = true
					}
				}
				if k, isC := constInt(call.Call.Args[len(call.Call.Args)-1]); isC && touches {
					captured, haveCaptured = k, true
				}
			}
		}
	}
	isCaptured := func(v ssa.Value) bool {
		k, isC := constInt(v)
		return isC && (!haveCaptured || k == captured)
	}
	n := 0
	for _, fn := range c.SrcFuncs() {
		k := 0
		for _, in := range instrsOf(fn) {
			snd, ok := in.(*ssa.Send)
			if !ok {
				continue
			}
			if _, f := loadedField(snd.Chan); f != fCh {
				continue
			}
			k++
			n++
			key := fmt.Sprintf("%s:post#%d", fnName(fn), k)
			guarded := false
			for _, b := range fn.Blocks {
				ifi, ok := b.Instrs[len(b.Instrs)-1].(*ssa.If)
				if !ok {
					continue
				}
				// … or the success side of a CompareAndSwap of the state from one named state
				cond, neg := ifi.Cond, false
				for {
					u, isU := cond.(*ssa.UnOp)
					if !isU || u.Op != token.NOT {
						break
					}
					cond, neg = u.X, !neg
				}
				if cas, isCall := cond.(*ssa.Call); isCall && strings.HasPrefix(fullCalleeName(cas), "sync/atomic.CompareAndSwap") && fromState(cas) && len(cas.Call.Args) == 3 {
					if isCaptured(cas.Call.Args[1]) {
						s := b.Succs[0]
						if neg {
							s = b.Succs[1]
						}
						if len(s.Preds) == 1 && (s == snd.Block() || s.Dominates(snd.Block())) {
							guarded = true
						}
					}
					continue
				}
				bo, ok := ifi.Cond.(*ssa.BinOp)
				if !ok || bo.Op != token.EQL {
					continue
				}
				if !isCaptured(bo.Y) || !fromState(bo.X) {
					continue
				}
				s := b.Succs[0]
				if len(s.Preds) == 1 && (s == snd.Block() || s.Dominates(snd.Block())) {
					guarded = true
				}
			}
			if guarded {
				c.S.OK("R-C12-mailbox", key, c.Pos(snd.Pos()), "posted only in the captured state")
			} else {
				c.S.Bad("R-C12-mailbox", key, c.Pos(snd.Pos()), fmt.Sprintf("%s can post an unblock request to a connection that is not captured in a blocking wait: the item stays in the mailbox and ends that connection's next blocking command immediately", fnName(fn)))
			}
		}
	}
	if n == 0 {
		c.S.Undecided("R-C12-mailbox", "sends", "-", "no send on clientState.unblockCh found")
	}
}
