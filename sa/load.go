package main

// Loading: go/packages (LoadAllSyntax) -> go/ssa -> VTA call graph.
// Everything is rebuilt from the -root working tree on every run.

import (
	"fmt"
	"go/ast"
	"go/token"
	"go/types"
	"os"
	"path/filepath"
	"sort"
	"strings"

	"golang.org/x/tools/go/callgraph"
	"golang.org/x/tools/go/callgraph/cha"
	"golang.org/x/tools/go/callgraph/vta"
	"golang.org/x/tools/go/packages"
	"golang.org/x/tools/go/ssa"
	"golang.org/x/tools/go/ssa/ssautil"
)

// BuildConfig names one way of building /repo (the source set and int width may differ).
type BuildConfig struct {
	Label string
	Tags  string
	Env   []string // extra env, e.g. GOARCH=386
}

var (
	cfgDefault = BuildConfig{Label: "default"}
	cfgVerif   = BuildConfig{Label: "tags=verif", Tags: "verif"}
	cfg386     = BuildConfig{Label: "GOARCH=386", Env: []string{"GOARCH=386"}}
)

type Prog struct {
	Root   string
	Config BuildConfig
	Fset   *token.FileSet
	All    []*packages.Package
	Pkg    *packages.Package
	SSA    *ssa.Program
	SPkg   *ssa.Package
	CG     *callgraph.Graph

	srcFuncs  []*ssa.Function                         // functions (incl. closures, methods) of the target package
	siteOut   map[ssa.CallInstruction][]*ssa.Function // resolved callees per call site (VTA)
	fnByName  map[string]*ssa.Function
	fileCache map[string][]byte
	promoted  map[*types.Var]string // fields of embedded helper structs -> the struct that used to own them (promotedOwner)
	funcDecl  map[*ssa.Function]*ast.FuncDecl
	sch       *schemaRes // name anchors resolved against the frozen schema (schema.go)
	// higher-order helpers (`dict.forEach(visit)`): the call of the function-valued parameter inside the helper is
	// resolved per call site of the helper, not to every function ever passed to it
	liftedAwayR  map[ssa.CallInstruction]bool
	liftedExtraR map[ssa.CallInstruction][]*ssa.Function
	liftedAway   map[ssa.CallInstruction]bool
	liftedExtra  map[ssa.CallInstruction][]*ssa.Function
}

func baseEnv() []string {
	env := []string{}
	for _, kv := range os.Environ() {
		if strings.HasPrefix(kv, "GOWORK=") || strings.HasPrefix(kv, "GOFLAGS=") ||
			strings.HasPrefix(kv, "GOPROXY=") || strings.HasPrefix(kv, "GOSUMDB=") ||
			strings.HasPrefix(kv, "GOTOOLCHAIN=") || strings.HasPrefix(kv, "GOARCH=") {
			continue
		}
		env = append(env, kv)
	}
	env = append(env, "GOWORK=off", "GOFLAGS=-mod=mod", "GOPROXY=off", "GOSUMDB=off", "GOTOOLCHAIN=local")
	return env
}

// Load type-checks the package in root (non-test files) and builds SSA + VTA.
func Load(root string, bc BuildConfig) (p *Prog, err error) {
	defer func() {
		if r := recover(); r != nil {
			err = fmt.Errorf("loader panic: %v", r)
		}
	}()
	abs, err := filepath.Abs(root)
	if err != nil {
		return nil, err
	}
	fset := token.NewFileSet()
	cfg := &packages.Config{
		Mode:  packages.LoadAllSyntax,
		Dir:   abs,
		Fset:  fset,
		Env:   append(baseEnv(), bc.Env...),
		Tests: false,
	}
	if bc.Tags != "" {
		cfg.BuildFlags = []string{"-tags=" + bc.Tags}
	}
	pkgs, err := packages.Load(cfg, ".")
	if err != nil {
		return nil, fmt.Errorf("packages.Load: %w", err)
	}
	if len(pkgs) != 1 {
		return nil, fmt.Errorf("expected exactly 1 root package in %s, got %d", abs, len(pkgs))
	}
	var errs []string
	packages.Visit(pkgs, nil, func(pk *packages.Package) {
		for _, e := range pk.Errors {
			errs = append(errs, e.Error())
		}
	})
	if len(errs) > 0 {
		if len(errs) > 8 {
			errs = errs[:8]
		}
		return nil, fmt.Errorf("type/load errors: %s", strings.Join(errs, "; "))
	}
	root0 := pkgs[0]
	if root0.Types == nil || len(root0.Syntax) == 0 {
		return nil, fmt.Errorf("root package has no syntax")
	}
	prog, spkgs := ssautil.AllPackages(pkgs, ssa.InstantiateGenerics)
	prog.Build()
	var sp *ssa.Package
	for i, pk := range pkgs {
		if pk == root0 {
			sp = spkgs[i]
		}
	}
	if sp == nil {
		return nil, fmt.Errorf("no SSA package for root")
	}
	p = &Prog{Root: abs, Config: bc, Fset: fset, All: pkgs, Pkg: root0, SSA: prog, SPkg: sp,
		fileCache: map[string][]byte{}}

	all := ssautil.AllFunctions(prog)
	p.CG = vta.CallGraph(all, cha.CallGraph(prog))

	for fn := range all {
		if fn.Pkg == sp || (fn.Pkg == nil && fnInPkg(fn, sp)) {
			if strings.HasPrefix(fn.Synthetic, "wrapper for") {
				// the forwarding wrappers the compiler makes for promoted methods and for value methods called through
				// a pointer are not code of the package: they are analysed through their callees
				continue
			}
			p.srcFuncs = append(p.srcFuncs, fn)
		}
	}
	sort.Slice(p.srcFuncs, func(i, j int) bool {
		a, b := p.srcFuncs[i], p.srcFuncs[j]
		if a.Pos() != b.Pos() {
			return a.Pos() < b.Pos()
		}
		return a.String() < b.String()
	})
	p.fnByName = map[string]*ssa.Function{}
	for _, fn := range p.srcFuncs {
		p.fnByName[fnName(fn)] = fn
	}
	p.siteOut = map[ssa.CallInstruction][]*ssa.Function{}
	for _, n := range p.CG.Nodes {
		for _, e := range n.Out {
			if e.Site != nil {
				p.siteOut[e.Site] = append(p.siteOut[e.Site], e.Callee.Func)
			}
		}
	}
	p.liftHigherOrder()
	p.funcDecl = map[*ssa.Function]*ast.FuncDecl{}
	for _, f := range root0.Syntax {
		for _, d := range f.Decls {
			if fd, ok := d.(*ast.FuncDecl); ok {
				if obj, ok := root0.TypesInfo.Defs[fd.Name].(*types.Func); ok {
					if fn := prog.FuncValue(obj); fn != nil {
						p.funcDecl[fn] = fd
					}
				}
			}
		}
	}
	if len(p.srcFuncs) < 200 {
		return nil, fmt.Errorf("only %d source functions found in %s (floor 200): wrong package?", len(p.srcFuncs), abs)
	}
	return p, nil
}

func fnInPkg(fn *ssa.Function, sp *ssa.Package) bool {
	for f := fn; f != nil; f = f.Parent() {
		if f.Pkg == sp {
			return true
		}
	}
	// bound-method wrappers and thunks have no Pkg; attribute by receiver/object package
	if fn.Object() != nil && fn.Object().Pkg() == sp.Pkg {
		return true
	}
	if fn.Synthetic != "" && fn.Signature != nil {
		// e.g. "bound method wrapper for func (*T).m"
		if strings.Contains(fn.String(), sp.Pkg.Path()+".") || strings.Contains(fn.String(), sp.Pkg.Name()+".") {
			for _, b := range fn.Blocks {
				for _, in := range b.Instrs {
					if c, ok := in.(ssa.CallInstruction); ok {
						if cal := c.Common().StaticCallee(); cal != nil && cal.Pkg == sp {
							return true
						}
					}
				}
			}
		}
	}
	return false
}

// fnName gives a stable, package-path-free name: "fnExec", "(*dataStoreCommand).lock",
// "(*clientCxn).onDispatchCommand$1".
func fnName(fn *ssa.Function) string {
	s := fn.String()
	if fn.Pkg != nil {
		s = strings.ReplaceAll(s, fn.Pkg.Pkg.Path()+".", "")
	} else if par := fn.Parent(); par != nil && par.Pkg != nil {
		s = strings.ReplaceAll(s, par.Pkg.Pkg.Path()+".", "")
	} else if fn.Object() != nil && fn.Object().Pkg() != nil {
		s = strings.ReplaceAll(s, fn.Object().Pkg().Path()+".", "")
	}
	return s
}

// Fn looks a source function up by its stable name; nil if it does not exist.
func (p *Prog) Fn(name string) *ssa.Function { return p.fnByName[name] }

// SrcFuncs are all functions of the analysed package that have a body.
func (p *Prog) SrcFuncs() []*ssa.Function {
	out := make([]*ssa.Function, 0, len(p.srcFuncs))
	for _, f := range p.srcFuncs {
		if len(f.Blocks) > 0 {
			out = append(out, f)
		}
	}
	return out
}

// Callees resolves a call site: the static callee, or the VTA callee set.
func (p *Prog) Callees(c ssa.CallInstruction) []*ssa.Function {
	if f := c.Common().StaticCallee(); f != nil {
		if extra := p.liftedExtra[c]; len(extra) > 0 {
			return append([]*ssa.Function{f}, extra...)
		}
		return []*ssa.Function{f}
	}
	if p.liftedAway[c] {
		return nil
	}
	out := p.siteOut[c]
	sort.Slice(out, func(i, j int) bool { return out[i].String() < out[j].String() })
	return out
}

// CalleesReach: like Callees, with the calls that locking helpers make through their function parameters attributed to
// the helpers' call sites as well (for rules about what a command can reach, not about what it holds while it does).
func (p *Prog) CalleesReach(c ssa.CallInstruction) []*ssa.Function {
	if p.liftedAwayR[c] {
		return nil
	}
	out := p.Callees(c)
	if extra := p.liftedExtraR[c]; len(extra) > 0 {
		out = append(append([]*ssa.Function{}, out...), extra...)
	}
	return out
}

// CalleesData: the callees of a call site for analyses that follow values (arguments into parameters, results back): the
// static callee or the VTA set, without the lifting of higher-order helpers — the values a visitor receives are passed at
// the call inside the helper, not at the helper's call site.
func (p *Prog) CalleesData(c ssa.CallInstruction) []*ssa.Function {
	if f := c.Common().StaticCallee(); f != nil {
		return []*ssa.Function{f}
	}
	out := p.siteOut[c]
	sort.Slice(out, func(i, j int) bool { return out[i].String() < out[j].String() })
	return out
}

func (p *Prog) InPkg(fn *ssa.Function) bool {
	if fn == nil {
		return false
	}
	return fn.Pkg == p.SPkg || fnInPkg(fn, p.SPkg)
}

// Pos renders a position relative to the root: "file.go:123".
func (p *Prog) Pos(pos token.Pos) string {
	if !pos.IsValid() {
		return "-"
	}
	ps := p.Fset.Position(pos)
	rel, err := filepath.Rel(p.Root, ps.Filename)
	if err != nil || strings.HasPrefix(rel, "..") {
		rel = filepath.Base(ps.Filename)
	}
	return fmt.Sprintf("%s:%d", rel, ps.Line)
}

// InstrPos finds the best available position for an instruction.
func (p *Prog) InstrPos(in ssa.Instruction) token.Pos {
	if in.Pos().IsValid() {
		return in.Pos()
	}
	// walk operands
	var ops []*ssa.Value
	ops = in.Operands(ops)
	for _, o := range ops {
		if *o != nil {
			if v, ok := (*o).(ssa.Instruction); ok && v.Pos().IsValid() {
				return v.Pos()
			}
		}
	}
	if in.Parent() != nil {
		return in.Parent().Pos()
	}
	return token.NoPos
}

// NamedType finds a package-level named type.
func (p *Prog) NamedType(name string) *types.Named {
	obj := p.Pkg.Types.Scope().Lookup(name)
	if tn, ok := obj.(*types.TypeName); ok {
		if n, _ := tn.Type().(*types.Named); n != nil {
			// a new type that took the name of a recorded one is not the recorded one; the exact name wins otherwise
			return n
		}
	}
	// renamed struct type: resolved against the frozen schema
	if _, frozen := frozenSchema[name]; frozen {
		return p.schema().typeOf[name]
	}
	if _, frozen := frozenNamed[name]; frozen {
		return p.schema().typeOf[name]
	}
	return nil
}

// Field finds field `field` of struct type `typ`; nil if missing.
func (p *Prog) Field(typ, field string) *types.Var {
	n := p.NamedType(typ)
	if n == nil {
		return nil
	}
	st, ok := n.Underlying().(*types.Struct)
	if !ok {
		return nil
	}
	for i := 0; i < st.NumFields(); i++ {
		if st.Field(i).Name() == field {
			return st.Field(i)
		}
	}
	// renamed field: resolved against the frozen schema
	if f := p.schema().fieldOf[typ+"."+field]; f != nil {
		return f
	}
	// moved into an embedded helper struct (`type clientState struct { captureGate; … }`): the promoted field
	for i := 0; i < st.NumFields(); i++ {
		e := st.Field(i)
		if !e.Embedded() {
			continue
		}
		if est, ok := deref(e.Type()).Underlying().(*types.Struct); ok {
			for j := 0; j < est.NumFields(); j++ {
				if est.Field(j).Name() == field {
					return est.Field(j)
				}
			}
		}
	}
	return nil
}

// promotedOwner: a field of a struct that is embedded in a package struct which, in the frozen schema, owned a field
// of that name itself is reported as that struct's field ("RedisEmu.mu" stays "RedisEmu.mu" after mu moved into an
// embedded emuShutdown).
func (p *Prog) promotedOwner(f *types.Var) string {
	if p.promoted == nil {
		p.promoted = map[*types.Var]string{}
		sc := p.Pkg.Types.Scope()
		for _, n := range sc.Names() {
			tn, ok := sc.Lookup(n).(*types.TypeName)
			if !ok {
				continue
			}
			named, ok := tn.Type().(*types.Named)
			if !ok {
				continue
			}
			st, ok := named.Underlying().(*types.Struct)
			if !ok {
				continue
			}
			owner := p.canonTypeName(named)
			frozen := map[string]bool{}
			for _, ff := range frozenSchema[owner] {
				frozen[ff.name] = true
			}
			if len(frozen) == 0 {
				continue
			}
			direct := map[string]bool{}
			for i := 0; i < st.NumFields(); i++ {
				direct[st.Field(i).Name()] = true
			}
			for i := 0; i < st.NumFields(); i++ {
				e := st.Field(i)
				if !e.Embedded() {
					continue
				}
				if est, ok := deref(e.Type()).Underlying().(*types.Struct); ok {
					for j := 0; j < est.NumFields(); j++ {
						g := est.Field(j)
						if frozen[g.Name()] && !direct[g.Name()] {
							p.promoted[g] = owner
						}
					}
				}
			}
		}
	}
	return p.promoted[f]
}

// Global finds a package-level variable.
func (p *Prog) Global(name string) *ssa.Global {
	if m, ok := p.SPkg.Members[name]; ok {
		if g, ok := m.(*ssa.Global); ok {
			return g
		}
	}
	// renamed variable: resolved against the frozen schema
	return p.schema().globalOf[name]
}

// fieldOf returns the struct field addressed/read by a FieldAddr or Field instruction.
func fieldOf(v ssa.Value) *types.Var {
	switch x := v.(type) {
	case *ssa.FieldAddr:
		st := deref(x.X.Type()).Underlying().(*types.Struct)
		return st.Field(x.Field)
	case *ssa.Field:
		st := x.X.Type().Underlying().(*types.Struct)
		return st.Field(x.Field)
	}
	return nil
}

func deref(t types.Type) types.Type {
	if pt, ok := t.Underlying().(*types.Pointer); ok {
		return pt.Elem()
	}
	return t
}

// ownerName returns the name of the named struct type that declares field f ("" if unknown).
func (p *Prog) ownerName(f *types.Var) string {
	if f == nil {
		return ""
	}
	if o := p.promotedOwner(f); o != "" {
		return o
	}
	sc := p.Pkg.Types.Scope()
	for _, n := range sc.Names() {
		tn, ok := sc.Lookup(n).(*types.TypeName)
		if !ok {
			continue
		}
		st, ok := tn.Type().Underlying().(*types.Struct)
		if !ok {
			continue
		}
		for i := 0; i < st.NumFields(); i++ {
			if st.Field(i) == f {
				if n, ok := tn.Type().(*types.Named); ok {
					return p.canonTypeName(n) // reported under the name the rules know (schema.go)
				}
				return tn.Name()
			}
		}
	}
	return ""
}

func (p *Prog) source(file string) []byte {
	if b, ok := p.fileCache[file]; ok {
		return b
	}
	b, _ := os.ReadFile(file)
	p.fileCache[file] = b
	return b
}

// liftHigherOrder makes the call graph context-sensitive for one idiom: a small package function H with a function-
// valued parameter q that H only ever *calls* (never stores, returns or passes on), that starts no goroutine and touches
// no mutex. When every call site of H passes a function that is known there (a closure made in place, a named function,
// a bound method), the call `q(...)` inside H is attributed to each call site of H instead of to H: the site
// `d.forEach(func…)` calls forEach and that one closure. Without this, extracting a loop into `forEach(visit)` merges
// every visitor into every caller (a read-only command "reaches" the mutation made by another command's visitor).
func (p *Prog) liftHigherOrder() {
	p.liftedAway = map[ssa.CallInstruction]bool{}
	p.liftedExtra = map[ssa.CallInstruction][]*ssa.Function{}
	// the same attribution for helpers that lock (`setAlgebra(compute, finish)` takes the database lock and calls both):
	// kept apart, for rules that only ask what a command can reach — the lock analysis needs those calls inside the helper
	p.liftedAwayR = map[ssa.CallInstruction]bool{}
	p.liftedExtraR = map[ssa.CallInstruction][]*ssa.Function{}
	type hp struct {
		h     *ssa.Function
		idx   int
		syncy bool
	}
	var cands []hp
	// touchesSync: the function, or anything it calls (the function-valued parameters aside), starts a goroutine or
	// calls into package sync — the calls it makes through its parameter must then keep their place inside it
	// computed as a least fixed point over the package's call edges (a depth-first walk with a memo gives answers that
	// depend on the order of the walk when functions call each other in a cycle)
	direct := map[*ssa.Function]bool{}
	edges := map[*ssa.Function][]*ssa.Function{}
	var all []*ssa.Function
	seenFn := map[*ssa.Function]bool{}
	var collect func(f *ssa.Function)
	collect = func(f *ssa.Function) {
		if f == nil || seenFn[f] {
			return
		}
		seenFn[f] = true
		all = append(all, f)
		for _, in := range instrsOf(f) {
			switch x := in.(type) {
			case *ssa.Go:
				direct[f] = true
			case ssa.CallInstruction:
				if _, isParam := x.Common().Value.(*ssa.Parameter); isParam {
					continue
				}
				cal := []*ssa.Function{}
				if g := x.Common().StaticCallee(); g != nil {
					cal = append(cal, g)
				} else {
					cal = append(cal, p.siteOut[x]...)
				}
				for _, g := range cal {
					if g.Pkg != nil && g.Pkg.Pkg.Path() == "sync" {
						direct[f] = true
					} else if g.Pkg == p.SPkg || fnInPkg(g, p.SPkg) {
						edges[f] = append(edges[f], g)
						collect(g)
					}
				}
			}
		}
	}
	for _, h := range p.srcFuncs {
		collect(h)
	}
	touches := map[*ssa.Function]bool{}
	for f := range direct {
		touches[f] = true
	}
	for changed := true; changed; {
		changed = false
		for _, f := range all {
			if touches[f] {
				continue
			}
			for _, g := range edges[f] {
				if touches[g] {
					touches[f] = true
					changed = true
					break
				}
			}
		}
	}
	touchesSync := func(f *ssa.Function, depth int) bool { return touches[f] }
	for _, h := range p.srcFuncs {
		if h.Blocks == nil {
			continue
		}
		syncy := touchesSync(h, 0)
		for i, q := range h.Params {
			if _, isSig := q.Type().Underlying().(*types.Signature); !isSig {
				continue
			}
			onlyCalled := len(referrers(q)) > 0
			for _, r := range referrers(q) {
				call, ok := r.(*ssa.Call)
				if !ok || call.Call.Value != ssa.Value(q) {
					onlyCalled = false
					break
				}
				for _, a := range call.Call.Args {
					if a == ssa.Value(q) {
						onlyCalled = false
					}
				}
			}
			if onlyCalled {
				cands = append(cands, hp{h, i, syncy})
			}
		}
	}
	for _, cd := range cands {
		// every call site of H must be a static call that passes a known function
		type siteFn struct {
			site ssa.CallInstruction
			fn   *ssa.Function
		}
		var resolved []siteFn
		ok := true
		nsites := 0
		for _, fn := range p.srcFuncs {
			for _, in := range instrsOf(fn) {
				// H used as a value anywhere: give up
				var ops []*ssa.Value
				for _, op := range in.Operands(ops) {
					if *op == ssa.Value(cd.h) {
						if ci, isCall := in.(ssa.CallInstruction); !isCall || ci.Common().Value != ssa.Value(cd.h) {
							ok = false
						}
					}
				}
				ci, isCall := in.(ssa.CallInstruction)
				if !isCall || ci.Common().StaticCallee() != cd.h {
					continue
				}
				nsites++
				if cd.idx >= len(ci.Common().Args) {
					ok = false
					continue
				}
				var g *ssa.Function
				switch a := stripValue(ci.Common().Args[cd.idx]).(type) {
				case *ssa.MakeClosure:
					g, _ = a.Fn.(*ssa.Function)
				case *ssa.Function:
					g = a
				}
				if g == nil {
					ok = false
					continue
				}
				resolved = append(resolved, siteFn{ci, g})
			}
		}
		if !ok || nsites == 0 {
			continue
		}
		if cd.syncy {
			for _, r := range referrers(cd.h.Params[cd.idx]) {
				if call, isCall := r.(*ssa.Call); isCall {
					p.liftedAwayR[call] = true
				}
			}
			for _, sf := range resolved {
				p.liftedExtraR[sf.site] = append(p.liftedExtraR[sf.site], sf.fn)
			}
			continue
		}
		for _, r := range referrers(cd.h.Params[cd.idx]) {
			if call, isCall := r.(*ssa.Call); isCall {
				p.liftedAway[call] = true
			}
		}
		for _, sf := range resolved {
			p.liftedExtra[sf.site] = append(p.liftedExtra[sf.site], sf.fn)
			// a bound-method closure (`m.forEach(newDict.store)`): the wrapper's one call is the method
			if sf.fn.Synthetic != "" && len(sf.fn.Blocks) == 1 {
				for _, in := range sf.fn.Blocks[0].Instrs {
					if c2, ok := in.(*ssa.Call); ok && c2.Call.StaticCallee() != nil {
						p.liftedExtra[sf.site] = append(p.liftedExtra[sf.site], c2.Call.StaticCallee())
					}
				}
			}
		}
	}
}
