package redisemu

import (
	"os"
	"path/filepath"
	"testing"
)

func TestDemoC14FlushSeenByOthers(t *testing.T) {
	s := startDemo(t, "")
	defer s.stop()
	c1, c2 := s.dial(t), s.dial(t)
	c1.do("SET", "a", "1")
	expect(t, "c2 FLUSHDB", c2.do("FLUSHDB"), "+OK")
	expect(t, "c1 GET a after another client's FLUSHDB", c1.do("GET", "a"), "(nil)")
	c2.do("SET", "b", "2")
	expect(t, "c1 GET b (written by c2 after its flush)", c1.do("GET", "b"), `"2"`)
	c1.do("SELECT", "3")
	c1.do("SET", "x", "1")
	expect(t, "c2 FLUSHALL", c2.do("FLUSHALL"), "+OK")
	expect(t, "c1 (db 3) GET x after FLUSHALL", c1.do("GET", "x"), "(nil)")
	expect(t, "c1 DBSIZE", c1.do("DBSIZE"), ":0")
}

func TestDemoC10FlushIsModification(t *testing.T) {
	s := startDemo(t, "")
	defer s.stop()
	c1, c2 := s.dial(t), s.dial(t)
	c1.do("SET", "a", "1")
	c1.do("WATCH", "a")
	c2.do("FLUSHDB")
	c1.do("MULTI")
	c1.do("PING")
	r := c1.do("EXEC")
	if r == "[+PONG]" {
		t.Errorf("EXEC ran although the watched key was flushed by another client")
	}
}

func TestDemoC19FlushPersisted(t *testing.T) {
	dir, _ := os.MkdirTemp("", "rdflush")
	defer os.RemoveAll(dir)
	base := filepath.Join(dir, "db")
	s := startDemo(t, base)
	c := s.dial(t)
	c.do("SET", "a", "1")
	s.stop()
	s2 := startDemo(t, base)
	c2 := s2.dial(t)
	expect(t, "GET a after first restart", c2.do("GET", "a"), `"1"`)
	c2.do("FLUSHDB")
	s2.stop()
	s3 := startDemo(t, base)
	defer s3.stop()
	c3 := s3.dial(t)
	expect(t, "GET a after FLUSHDB and restart", c3.do("GET", "a"), "(nil)")
}
