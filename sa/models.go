package main

// Models extracted from the source on every run (DESIGN §2.2). Lazily computed, cached per Prog.

import (
	"fmt"
	"go/ast"
	"go/constant"
	"go/token"
	"go/types"
	"sort"
	"strconv"

	"golang.org/x/tools/go/ssa"
)

type Models struct {
	p *Prog

	handlers     map[string]*ssa.Function // M1 token -> handler
	handlerPos   map[string]token.Pos
	handlerErr   error
	handlersDone bool

	grammar     *Grammar
	grammarErr  error
	grammarDone bool

	locks *LockModel

	reach map[*ssa.Function]map[*ssa.Function]bool
}

// curProg: the program under analysis (one at a time per process), for helpers that have no context parameter.
var curProg *Prog

func newModels(p *Prog) *Models {
	curProg = p
	return &Models{p: p, reach: map[*ssa.Function]map[*ssa.Function]bool{}}
}

// globalInit returns the initialiser expression of a package-level variable.
func (p *Prog) globalInit(name string) ast.Expr {
	for _, f := range p.Pkg.Syntax {
		for _, d := range f.Decls {
			gd, ok := d.(*ast.GenDecl)
			if !ok || gd.Tok != token.VAR {
				continue
			}
			for _, sp := range gd.Specs {
				vs := sp.(*ast.ValueSpec)
				for i, n := range vs.Names {
					if n.Name == name && i < len(vs.Values) {
						return vs.Values[i]
					}
				}
			}
		}
	}
	return nil
}

// stringKeyedLiteral reads a `map[string]T{ "k": v, ... }` literal.
func (p *Prog) stringKeyedLiteral(e ast.Expr) (keys []string, vals []ast.Expr, ok bool) {
	cl, isCl := e.(*ast.CompositeLit)
	if !isCl {
		return nil, nil, false
	}
	for _, el := range cl.Elts {
		kv, isKv := el.(*ast.KeyValueExpr)
		if !isKv {
			return nil, nil, false
		}
		tv, has := p.Pkg.TypesInfo.Types[kv.Key]
		if !has || tv.Value == nil || tv.Value.Kind() != constant.String {
			return nil, nil, false
		}
		keys = append(keys, constant.StringVal(tv.Value))
		vals = append(vals, kv.Value)
	}
	return keys, vals, true
}

// Handlers is model M1: command token -> handler function, read from the handlerTable literal.
func (m *Models) Handlers() (map[string]*ssa.Function, error) {
	if m.handlersDone {
		return m.handlers, m.handlerErr
	}
	m.handlersDone = true
	p := m.p
	// the table is identified by type: the package-level map[string]cmdHandler literal
	var init ast.Expr
	var name string
	for _, mem := range p.SPkg.Members {
		g, ok := mem.(*ssa.Global)
		if !ok {
			continue
		}
		mt, ok := deref(g.Type()).Underlying().(*types.Map)
		if !ok {
			continue
		}
		nt, ok := mt.Elem().(*types.Named)
		if !ok {
			continue
		}
		if _, isSig := nt.Underlying().(*types.Signature); !isSig || nt.Obj().Pkg() != p.Pkg.Types {
			continue
		}
		// the command table is keyed by the command token (a string); other tables of functions (e.g. a state
		// machine keyed by a state constant) are not handler tables. Among several, the largest one is the table.
		if kb, isBasic := mt.Key().Underlying().(*types.Basic); !isBasic || kb.Kind() != types.String {
			continue
		}
		if e := p.globalInit(g.Name()); e != nil {
			if init != nil {
				k1, _, ok1 := p.stringKeyedLiteral(init)
				k2, _, ok2 := p.stringKeyedLiteral(e)
				if ok1 && (!ok2 || len(k1) >= len(k2)) {
					continue
				}
			}
			init, name = e, g.Name()
		}
	}
	if init == nil {
		m.handlerErr = fmt.Errorf("no package-level map[string]<func type> literal (handler table) found")
		return nil, m.handlerErr
	}
	keys, vals, ok := p.stringKeyedLiteral(init)
	if !ok {
		m.handlerErr = fmt.Errorf("%s is not a literal with constant string keys", name)
		return nil, m.handlerErr
	}
	m.handlers = map[string]*ssa.Function{}
	m.handlerPos = map[string]token.Pos{}
	for i, k := range keys {
		id, isId := vals[i].(*ast.Ident)
		if !isId {
			m.handlerErr = fmt.Errorf("%s[%q] is not a function identifier", name, k)
			return nil, m.handlerErr
		}
		fo, isFn := p.Pkg.TypesInfo.Uses[id].(*types.Func)
		if !isFn {
			m.handlerErr = fmt.Errorf("%s[%q] does not resolve to a function", name, k)
			return nil, m.handlerErr
		}
		fn := p.SSA.FuncValue(fo)
		if fn == nil {
			m.handlerErr = fmt.Errorf("%s[%q]: no SSA function", name, k)
			return nil, m.handlerErr
		}
		m.handlers[k] = fn
		m.handlerPos[k] = vals[i].Pos()
	}
	if len(m.handlers) < 130 {
		m.handlerErr = fmt.Errorf("handler table has %d tokens, floor is 130", len(m.handlers))
	}
	return m.handlers, m.handlerErr
}

// HandlerTokens returns the sorted tokens, and for each handler function the tokens mapped to it.
func (m *Models) HandlerTokens() ([]string, map[*ssa.Function][]string) {
	h, _ := m.Handlers()
	var toks []string
	by := map[*ssa.Function][]string{}
	for t, f := range h {
		toks = append(toks, t)
		by[f] = append(by[f], t)
	}
	sort.Strings(toks)
	for _, v := range by {
		sort.Strings(v)
	}
	return toks, by
}

// boolTable reads a `map[string]bool{...}` global literal (e.g. unqueuedCmdTable).
func (p *Prog) boolTable(name string) (map[string]bool, bool) {
	e := p.globalInit(name)
	if e == nil {
		return nil, false
	}
	keys, vals, ok := p.stringKeyedLiteral(e)
	if !ok {
		return nil, false
	}
	out := map[string]bool{}
	for i, k := range keys {
		tv := p.Pkg.TypesInfo.Types[vals[i]]
		out[k] = tv.Value != nil && tv.Value.Kind() == constant.Bool && constant.BoolVal(tv.Value)
	}
	return out, true
}

// Reach computes the set of functions reachable from fn in the VTA call graph (including fn).
func (m *Models) Reach(fn *ssa.Function) map[*ssa.Function]bool {
	if r, ok := m.reach[fn]; ok {
		return r
	}
	r := map[*ssa.Function]bool{}
	var stack []*ssa.Function
	stack = append(stack, fn)
	for len(stack) > 0 {
		f := stack[len(stack)-1]
		stack = stack[:len(stack)-1]
		if r[f] {
			continue
		}
		r[f] = true
		// call sites resolved by Prog.Callees: static callee or the VTA set, with the calls that higher-order helpers make
		// through their function-valued parameter attributed to the helpers' call sites (load.go, liftHigherOrder)
		for _, in := range instrsOf(f) {
			ci, ok := in.(ssa.CallInstruction)
			if !ok {
				continue
			}
			if _, isGo := in.(*ssa.Go); isGo {
				continue // a new goroutine is a root of its own
			}
			for _, g := range m.p.Callees(ci) {
				if !r[g] && m.p.InPkg(g) {
					stack = append(stack, g)
				}
			}
		}
	}
	m.reach[fn] = r
	return r
}

// ReachRO: like Reach, for rules that ask what a command can reach (not what is held meanwhile): the calls a locking
// template makes through its function parameters count at the template's call sites.
func (m *Models) ReachRO(fn *ssa.Function) map[*ssa.Function]bool {
	r := map[*ssa.Function]bool{}
	stack := []*ssa.Function{fn}
	for len(stack) > 0 {
		f := stack[len(stack)-1]
		stack = stack[:len(stack)-1]
		if r[f] {
			continue
		}
		r[f] = true
		for _, in := range instrsOf(f) {
			ci, ok := in.(ssa.CallInstruction)
			if !ok {
				continue
			}
			if _, isGo := in.(*ssa.Go); isGo {
				continue
			}
			for _, g := range m.p.CalleesReach(ci) {
				if !r[g] && m.p.InPkg(g) {
					stack = append(stack, g)
				}
			}
		}
	}
	return r
}

// constString returns the value of a constant string SSA value.
func constString(v ssa.Value) (string, bool) {
	c, ok := v.(*ssa.Const)
	if !ok || c.Value == nil || c.Value.Kind() != constant.String {
		return "", false
	}
	return constant.StringVal(c.Value), true
}

func constInt(v ssa.Value) (int64, bool) {
	c, ok := v.(*ssa.Const)
	if !ok || c.Value == nil || c.Value.Kind() != constant.Int {
		return 0, false
	}
	n, exact := constant.Int64Val(c.Value)
	return n, exact
}

func quote(s string) string { return strconv.Quote(s) }

// intMapLiteralValues: g is a package-level map initialised by a literal whose values are all integer constants, and the
// package never writes to it; the values.
func (p *Prog) intMapLiteralValues(g *ssa.Global) ([]int64, bool) {
	e := p.globalInit(g.Name())
	cl, ok := e.(*ast.CompositeLit)
	if !ok {
		return nil, false
	}
	var out []int64
	for _, el := range cl.Elts {
		kv, ok := el.(*ast.KeyValueExpr)
		if !ok {
			return nil, false
		}
		tv := p.Pkg.TypesInfo.Types[kv.Value]
		if tv.Value == nil || tv.Value.Kind() != constant.Int {
			return nil, false
		}
		k, exact := constant.Int64Val(tv.Value)
		if !exact {
			return nil, false
		}
		out = append(out, k)
	}
	// never written: no MapUpdate / delete on a load of g
	for _, fn := range p.SrcFuncs() {
		for _, in := range instrsOf(fn) {
			switch x := in.(type) {
			case *ssa.MapUpdate:
				if u, ok := x.Map.(*ssa.UnOp); ok && u.X == ssa.Value(g) {
					return nil, false
				}
			case *ssa.Store:
				if x.Addr == ssa.Value(g) && fn.Name() != "init" {
					return nil, false
				}
			}
		}
	}
	return out, len(out) > 0
}
