package main

// R-payload-own — a key's payload object belongs to that key alone.

import (
	"fmt"
	"go/token"
	"go/types"
	"sort"

	"golang.org/x/tools/go/ssa"
)

const textPayloadOwn = "R-payload-own: every value stored into storeKey.payload is an object created by the storing command (a new dictionary/list/byte slice, a clone, the result of a function all of whose returns are such objects) or derives from the same key's previous payload (in-place growth); it is never the payload object of another key — two keys sharing one dictionary or list change together (SUNIONSTORE dst src; SADD dst x would add x to src)"

type ownCtx struct {
	seen map[ssa.Value]bool
	c    *Ctx
	memo map[string]int // fn#idx -> 0 unknown(in progress) 1 fresh 2 not
	fPay *types.Var
	// skKey: while an installing helper's payload parameter is judged at a call site, the key name (in the caller's
	// terms) of the key object the helper installs into
	skKey ssa.Value
}

// sameKey: a is the key object the payload is installed into, or another object of the same key name.
func (o *ownCtx) sameKey(a, sk ssa.Value) bool {
	if sk != nil && (sameBase(a, sk) || sameKeyName(a, sk)) {
		return true
	}
	return o.skKey != nil && keyNameArg(a) == o.skKey
}

// ownedValue: v is a newly created object (or nil), or derives from the payload of sk itself.
func (o *ownCtx) ownedValue(v ssa.Value, sk ssa.Value, depth int, why *string) bool {
	if depth > 12 {
		*why = "value flow too deep to follow"
		return false
	}
	switch x := v.(type) {
	case *ssa.Const:
		return true
	case *ssa.Alloc, *ssa.MakeSlice, *ssa.MakeMap, *ssa.MakeChan:
		return true
	case *ssa.MakeInterface:
		return o.ownedValue(x.X, sk, depth+1, why)
	case *ssa.ChangeType:
		return o.ownedValue(x.X, sk, depth+1, why)
	case *ssa.ChangeInterface:
		return o.ownedValue(x.X, sk, depth+1, why)
	case *ssa.Convert:
		// string <-> []byte conversions allocate; numeric ones carry no reference
		return true
	case *ssa.TypeAssert:
		return o.ownedValue(x.X, sk, depth+1, why)
	case *ssa.Slice:
		return o.ownedValue(x.X, sk, depth+1, why)
	case *ssa.BinOp:
		return true // string concatenation etc.: a new value
	case *ssa.Phi:
		if o.seen[x] {
			return true
		}
		o.seen[x] = true
		for _, e := range x.Edges {
			if !o.ownedValue(e, sk, depth, why) {
				return false
			}
		}
		return true
	case *ssa.Extract:
		if call, ok := x.Tuple.(*ssa.Call); ok {
			return o.ownedCall(call, x.Index, sk, depth, why)
		}
	case *ssa.Call:
		return o.ownedCall(x, 0, sk, depth, why)
	case *ssa.UnOp:
		if x.Op != token.MUL {
			return true
		}
		switch a := x.X.(type) {
		case *ssa.Alloc:
			// local variable cell
			n := 0
			for _, r := range referrers(a) {
				if st, ok := r.(*ssa.Store); ok && st.Addr == ssa.Value(a) {
					n++
					if !o.ownedValue(st.Val, sk, depth+1, why) {
						return false
					}
				}
			}
			return n > 0
		case *ssa.FieldAddr:
			if fieldOf(a) == o.fPay {
				if o.sameKey(a.X, sk) {
					return true // the same key's previous payload
				}
				*why = "it is the payload object of another key (" + a.X.Name() + ")"
				return false
			}
			// a field of a fresh object
			if isFreshDeep(a.X, 0) {
				return true
			}
		case *ssa.IndexAddr:
			if isFreshDeep(a.X, 0) {
				return true
			}
		}
	case *ssa.FreeVar:
		if isFresh(x) {
			return true
		}
	case *ssa.Parameter:
		// judged at the call sites of the function (one level)
		fn := x.Parent()
		idx := -1
		for i, p := range fn.Params {
			if p == x {
				idx = i
			}
		}
		node := o.c.CG.Nodes[fn]
		if node == nil || len(node.In) == 0 || idx < 0 {
			*why = "it is parameter " + x.Name() + " of a function without visible callers"
			return false
		}
		// the key the helper installs into, named by one of its parameters: at the call site the same key's own payload
		// may be handed in (read, change, install again under the same name)
		kidx := -1
		if sk != nil {
			if kn, ok := keyNameArg(sk).(*ssa.Parameter); ok {
				for i, p := range fn.Params {
					if p == kn {
						kidx = i
					}
				}
			}
		}
		for _, e := range node.In {
			args := e.Site.Common().Args
			if e.Site.Common().IsInvoke() || idx >= len(args) {
				*why = "parameter " + x.Name() + " through a dynamic call"
				return false
			}
			old := o.skKey
			o.skKey = nil
			if kidx >= 0 && kidx < len(args) {
				o.skKey = args[kidx]
			}
			ok := o.ownedValue(args[idx], nil, depth+3, why)
			o.skKey = old
			if !ok {
				return false
			}
		}
		return true
	}
	if *why == "" {
		*why = fmt.Sprintf("its origin (%T %s) is not a newly created object", v, v.Name())
	}
	return false
}

// sameKeyName: both storeKey values were obtained from store-layer calls for the same key-name value (the old and
// the new object of one key: the old one is dropped when the new one is installed).
func sameKeyName(a, b ssa.Value) bool {
	ka, kb := keyNameArg(a), keyNameArg(b)
	return ka != nil && ka == kb
}

func keyNameArg(v ssa.Value) ssa.Value {
	for i := 0; i < 4; i++ {
		switch x := v.(type) {
		case *ssa.Extract:
			v = x.Tuple
			continue
		case *ssa.Phi:
			var r ssa.Value
			for _, e := range x.Edges {
				if k := keyNameArg(e); k != nil {
					if r != nil && r != k {
						return nil
					}
					r = k
				} else if !isNilConst(e) {
					return nil
				}
			}
			return r
		case *ssa.Call:
			if x.Call.StaticCallee() == nil {
				return nil
			}
			for _, a := range x.Call.Args {
				if b, ok := a.Type().Underlying().(*types.Basic); ok && b.Kind() == types.String {
					return a
				}
			}
			return nil
		}
		break
	}
	return nil
}

func (o *ownCtx) ownedCall(call *ssa.Call, idx int, sk ssa.Value, depth int, why *string) bool {
	if b, ok := call.Call.Value.(*ssa.Builtin); ok {
		switch b.Name() {
		case "append":
			// may return the first argument's array
			return o.ownedValue(call.Call.Args[0], sk, depth+1, why)
		}
		return true
	}
	g := call.Call.StaticCallee()
	if g == nil {
		*why = "it is the result of a dynamic call"
		// closures passed as `op`: all possible callees
		cs := o.c.CalleesData(call)
		if len(cs) == 0 {
			return false
		}
		for _, h := range cs {
			if !o.returnsOwned(h, idx, depth, why) {
				return false
			}
		}
		*why = ""
		return true
	}
	if !o.c.InPkg(g) {
		return true // library results (strconv, fmt, bytes...) are new values
	}
	// typed accessor of the receiver's payload: the result is the payload of the key object passed as receiver
	if len(g.Params) > 0 && len(call.Call.Args) > 0 && o.payloadAccessor(g, idx) {
		recv := call.Call.Args[0]
		if o.sameKey(recv, sk) {
			return true
		}
		*why = "it is the payload object of another key (through " + fnName(g) + ")"
		return false
	}
	return o.returnsOwned(g, idx, depth, why)
}

// payloadAccessor: every return value #idx of g is nil or the payload of g's receiver.
func (o *ownCtx) payloadAccessor(g *ssa.Function, idx int) bool {
	if len(g.Blocks) == 0 {
		return false
	}
	var isPay func(v ssa.Value, d int) (pay bool, ok bool)
	isPay = func(v ssa.Value, d int) (bool, bool) {
		if d > 6 {
			return false, false
		}
		switch x := v.(type) {
		case *ssa.Const:
			return false, true
		case *ssa.TypeAssert:
			return isPay(x.X, d+1)
		case *ssa.Extract:
			return isPay(x.Tuple, d+1)
		case *ssa.Phi:
			any := false
			for _, e := range x.Edges {
				p, ok := isPay(e, d+1)
				if !ok {
					return false, false
				}
				any = any || p
			}
			return any, true
		case *ssa.UnOp:
			if fa, ok := x.X.(*ssa.FieldAddr); ok && fieldOf(fa) == o.fPay && fa.X == ssa.Value(g.Params[0]) {
				return true, true
			}
		}
		return false, false
	}
	found := false
	for _, b := range g.Blocks {
		ret, ok := b.Instrs[len(b.Instrs)-1].(*ssa.Return)
		if !ok || idx >= len(ret.Results) {
			continue
		}
		p, ok := isPay(ret.Results[idx], 0)
		if !ok {
			return false
		}
		found = found || p
	}
	return found
}

func (o *ownCtx) returnsOwned(g *ssa.Function, idx int, depth int, why *string) bool {
	k := fmt.Sprintf("%s#%d", fnName(g), idx)
	switch o.memo[k] {
	case 1:
		return true
	case 2:
		*why = "result of " + fnName(g) + " which can return an existing object"
		return false
	case 3:
		return true // recursion: assume
	}
	o.memo[k] = 3
	if len(g.Blocks) == 0 {
		o.memo[k] = 2
		*why = "result of " + fnName(g) + " (no body)"
		return false
	}
	for _, b := range g.Blocks {
		ret, ok := b.Instrs[len(b.Instrs)-1].(*ssa.Return)
		if !ok || idx >= len(ret.Results) {
			continue
		}
		w := ""
		if !o.ownedValue(ret.Results[idx], nil, depth+2, &w) {
			o.memo[k] = 2
			*why = fmt.Sprintf("%s can return an existing object at %s: %s", fnName(g), o.c.Pos(ret.Pos()), w)
			return false
		}
	}
	o.memo[k] = 1
	return true
}

func rulePayloadOwn(c *Ctx) {
	c.S.Rule("R-payload-own", textPayloadOwn, 10)
	fPay := c.Field("storeKey", "payload")
	if fPay == nil {
		c.S.Undecided("R-payload-own", "anchor", "-", "storeKey.payload not found")
		return
	}
	o := &ownCtx{c: c, memo: map[string]int{}, fPay: fPay, seen: map[ssa.Value]bool{}}
	dead := map[string]bool{}
	for _, d := range c.M.Muts().dead {
		dead[d] = true
	}
	for _, fn := range c.SrcFuncs() {
		if dead[fnName(fn)] {
			continue
		}
		n := 0
		for _, in := range instrsOf(fn) {
			st, ok := isStoreTo(in, fPay)
			if !ok {
				continue
			}
			n++
			key := fmt.Sprintf("%s:payload#%d", fnName(fn), n)
			fa := st.Addr.(*ssa.FieldAddr)
			why := ""
			o.seen = map[ssa.Value]bool{}
			if o.ownedValue(st.Val, fa.X, 0, &why) {
				c.S.OK("R-payload-own", key, c.Pos(st.Pos()), "the stored object is new or the key's own")
			} else {
				c.S.Bad("R-payload-own", key, c.Pos(st.Pos()), fmt.Sprintf("%s installs a payload that may be shared with another key: %s", fnName(fn), why))
			}
		}
	}
}

const textOperandLoop = "R-C05-operand-loop: a set-algebra worker (result *redisDict, looping over its key-name operands) answers before it has looked at every operand only to report a failure: it never returns the partially accumulated result from inside the loop — a missing operand is an empty set, and the operands after it still count — and not the empty set either (the absorbing case of an intersection, a missing first operand of a difference): Redis 7 examines every operand before it answers, so a wrong-typed key behind a missing one is WRONGTYPE"

func ruleOperandLoop(c *Ctx) {
	c.S.Rule("R-C05-operand-loop", textOperandLoop, 1)
	for _, fn := range c.SrcFuncs() {
		res := fn.Signature.Results()
		if fn.Blocks == nil || res.Len() < 1 {
			continue
		}
		// a worker that yields the computed set, or the resolver that yields the operand sets for it
		rt := res.At(0).Type()
		if sl, isSl := rt.Underlying().(*types.Slice); isSl {
			rt = sl.Elem()
		}
		if p, ok := rt.(*types.Pointer); !ok || !c.isPkgType(p.Elem(), "redisDict") {
			continue
		}
		// loops over a []string parameter
		n := 0
		for _, h := range fn.Blocks {
			ifi, ok := h.Instrs[len(h.Instrs)-1].(*ssa.If)
			if !ok {
				continue
			}
			bo, ok := ifi.Cond.(*ssa.BinOp)
			if !ok || bo.Op != token.LSS {
				continue
			}
			lc, ok := bo.Y.(*ssa.Call)
			if !ok {
				continue
			}
			if b, isB := lc.Call.Value.(*ssa.Builtin); !isB || b.Name() != "len" {
				continue
			}
			par, ok := lc.Call.Args[0].(*ssa.Parameter)
			if !ok {
				continue
			}
			if sl, isSl := par.Type().Underlying().(*types.Slice); !isSl || sl.Elem().String() != "string" {
				continue
			}
			if !blockInCycle(h) {
				continue
			}
			n++
			body := h.Succs[0]
			key := fmt.Sprintf("%s:loop-over-%s#%d", fnName(fn), par.Name(), n)
			bad := ""
			exit := h.Succs[1]
			for _, b := range fn.Blocks {
				ret, ok := b.Instrs[len(b.Instrs)-1].(*ssa.Return)
				if !ok {
					continue
				}
				inLoop := b == body || body.Dominates(b)
				if !inLoop && (b == exit || exit.Dominates(b)) {
					continue // after the loop ran to its end
				}
				if !inLoop && n > 1 {
					continue // judged against the first loop over the operands
				}
				// failure exit?
				fail := false
				for i := 1; i < len(ret.Results); i++ {
					for _, leaf := range phiLeaves(ret.Results[i], map[ssa.Value]bool{}) {
						if k, ok := leaf.(*ssa.Const); ok && k.Value != nil && k.Value.String() == "true" {
							fail = true
						}
					}
				}
				if fail {
					continue
				}
				for _, leaf := range phiLeaves(ret.Results[0], map[ssa.Value]bool{}) {
					if isNilConst(leaf) || isEmptyDictCall(leaf) {
						if bad == "" {
							bad = fmt.Sprintf("%s answers with the empty set at %s before it has looked at every operand in %s: Redis 7 examines them all first, so a wrong-typed key behind a missing one is still WRONGTYPE (SINTER nokey str)", fnName(fn), c.Pos(ret.Pos()), par.Name())
						}
						continue
					}
					if inLoop {
						bad = fmt.Sprintf("%s returns from inside the loop over %s at %s with the accumulated result (%s): the remaining operands are ignored", fnName(fn), par.Name(), c.Pos(ret.Pos()), leaf.Name())
					}
				}
			}
			if bad == "" {
				c.S.OK("R-C05-operand-loop", key, c.Pos(c.InstrPos(ifi)), "every answer that is not a failure is given after the loop over the operands ran to its end")
			} else {
				c.S.Bad("R-C05-operand-loop", key, c.Pos(c.InstrPos(ifi)), bad)
			}
		}
	}
}

func phiLeaves(v ssa.Value, seen map[ssa.Value]bool) []ssa.Value {
	if seen[v] {
		return nil
	}
	seen[v] = true
	if p, ok := v.(*ssa.Phi); ok {
		var out []ssa.Value
		for _, e := range p.Edges {
			out = append(out, phiLeaves(e, seen)...)
		}
		return out
	}
	return []ssa.Value{v}
}

const textStoreNonEmpty = "R-store-nonempty: a dictionary or list that was computed elsewhere (the result of a set-algebra worker, a sort, ...) is installed as a key's payload only on the non-zero side of a test of its count — an empty result deletes the destination instead of leaving an empty aggregate behind (EXISTS 1, TYPE set for a set without members)"

func ruleStoreNonEmpty(c *Ctx) {
	c.S.Rule("R-store-nonempty", textStoreNonEmpty, 1)
	fPay := c.Field("storeKey", "payload")
	fDictCount, fListCount := c.Field("redisDict", "count"), c.Field("storeList", "count")
	if fPay == nil || fDictCount == nil || fListCount == nil {
		c.S.Undecided("R-store-nonempty", "anchor", "-", "storeKey.payload / redisDict.count / storeList.count not found")
		return
	}
	dead := map[string]bool{}
	for _, d := range c.M.Muts().dead {
		dead[d] = true
	}
	for _, fn := range c.SrcFuncs() {
		if dead[fnName(fn)] {
			continue
		}
		if loaderExempt(fn) {
			continue
		}
		n := 0
		for _, in := range instrsOf(fn) {
			st, ok := isStoreTo(in, fPay)
			if !ok {
				continue
			}
			v := st.Val
			if mi, ok := v.(*ssa.MakeInterface); ok {
				v = mi.X
			}
			p, ok := v.Type().(*types.Pointer)
			if !ok || !(c.isPkgType(p.Elem(), "redisDict") || c.isPkgType(p.Elem(), "storeList")) {
				continue
			}
			n++
			key := fmt.Sprintf("%s:install#%d", fnName(fn), n)
			if isEmptyDictCall(v) || isFresh(v) {
				c.S.Trivial("R-store-nonempty", key, c.Pos(st.Pos()), "created empty here and filled by this function (A4-nonempty-create)")
				continue
			}
			if g, isCall := v.(*ssa.Call); isCall {
				// a copy of an existing aggregate: a method of the aggregate type that returns a new object of the same type
				// (`sl.clone()`, `rebuildDict(src)`: its only argument is the aggregate that is copied)
				if cal := g.Call.StaticCallee(); cal != nil && len(g.Call.Args) == 1 && types.Identical(g.Call.Args[0].Type(), v.Type()) && returnsFreshObject(cal, 0) {
					c.S.Trivial("R-store-nonempty", key, c.Pos(st.Pos()), "a clone of an existing (non-empty) aggregate")
					continue
				}
			}
			guarded := false
			emptySideKeeps := false
			for _, b := range fn.Blocks {
				ifi, ok := b.Instrs[len(b.Instrs)-1].(*ssa.If)
				if !ok {
					continue
				}
				bo, ok := ifi.Cond.(*ssa.BinOp)
				if !ok {
					continue
				}
				isCount := func(x ssa.Value) bool {
					u, ok := x.(*ssa.UnOp)
					if !ok {
						return false
					}
					fa, ok := u.X.(*ssa.FieldAddr)
					return ok && (fieldOf(fa) == fDictCount || fieldOf(fa) == fListCount) && fa.X == v
				}
				zero := func(x ssa.Value) bool { k, ok := constInt(x); return ok && k == 0 }
				var nonZeroSucc *ssa.BasicBlock
				switch {
				case isCount(bo.X) && zero(bo.Y) && bo.Op == token.EQL:
					nonZeroSucc = b.Succs[1]
				case isCount(bo.X) && zero(bo.Y) && (bo.Op == token.NEQ || bo.Op == token.GTR):
					nonZeroSucc = b.Succs[0]
				}
				if nonZeroSucc != nil && len(nonZeroSucc.Preds) == 1 && (nonZeroSucc == st.Block() || nonZeroSucc.Dominates(st.Block())) {
					guarded = true
					// the empty side removes the destination on every path (whatever it held before)
					zeroSucc := b.Succs[0]
					if zeroSucc == nonZeroSucc {
						zeroSucc = b.Succs[1]
					}
					if !mustRemoveKey(c, zeroSucc, nonZeroSucc) {
						emptySideKeeps = true
					}
				}
			}
			if guarded && emptySideKeeps {
				c.S.Bad("R-store-nonempty", key, c.Pos(st.Pos()), fmt.Sprintf("%s: when the computed aggregate is empty some path returns without removing the destination from the keyspace: the old value (of whatever type) survives a STORE whose result is empty", fnName(fn)))
			} else if guarded {
				c.S.OK("R-store-nonempty", key, c.Pos(st.Pos()), "installed only when its count is not zero; the empty side removes the destination")
			} else {
				c.S.Bad("R-store-nonempty", key, c.Pos(st.Pos()), fmt.Sprintf("%s installs a computed %s as payload without testing that it is not empty: an empty result leaves an empty key behind", fnName(fn), p.Elem().String()))
			}
		}
	}
}

const textSelfMove = "R-C05-self-move: a function that takes a member out of the dictionary found under one key-name parameter and puts the same member into the dictionary of another key-name parameter compares the two key names (or the two dictionaries): inserting an existing member is a no-op, so with source = destination the removal would simply lose the member"

func ruleSelfMove(c *Ctx) {
	c.S.Rule("R-C05-self-move", textSelfMove, 1)
	mm := c.M.Muts()
	isStr := func(v ssa.Value) bool {
		b, ok := v.Type().Underlying().(*types.Basic)
		return ok && b.Kind() == types.String
	}
	// functions that insert into the dictionary found under their key-name parameter (index)
	inserts := map[*ssa.Function]bool{}
	for _, fn := range c.SrcFuncs() {
		for _, s := range mm.sites[fn] {
			if s.Kind == "dict-store" && !s.Keyspace {
				inserts[fn] = true
			}
		}
	}
	n := 0
	for _, fn := range c.SrcFuncs() {
		// nested removes in this function: directly, or through a helper that removes from the dictionary it is given
		var remRecv ssa.Value
		for _, s := range mm.sites[fn] {
			if s.Kind == "dict-remove" && !s.Keyspace {
				if rc, ok := s.In.(*ssa.Call); ok && len(rc.Call.Args) > 0 {
					remRecv = rc.Call.Args[0]
				}
			}
		}
		if remRecv == nil {
			for _, in := range instrsOf(fn) {
				call, ok := in.(*ssa.Call)
				if !ok {
					continue
				}
				g := call.Call.StaticCallee()
				if g == nil || g == fn {
					continue
				}
				for _, s := range mm.sites[g] {
					if s.Kind != "dict-remove" || s.Keyspace {
						continue
					}
					rc, ok := s.In.(*ssa.Call)
					if !ok || len(rc.Call.Args) == 0 {
						continue
					}
					for k, q := range g.Params {
						if rc.Call.Args[0] == ssa.Value(q) && k < len(call.Call.Args) {
							remRecv = call.Call.Args[k]
						}
					}
				}
			}
		}
		if remRecv == nil {
			continue
		}
		var strParams []*ssa.Parameter
		for _, p := range fn.Params {
			if isStr(p) {
				strParams = append(strParams, p)
			}
		}
		if len(strParams) < 2 {
			continue
		}
		// an insertion through a callee keyed by a different string parameter than the lookups of the removed dictionary
		var insCall *ssa.Call
		var insKey *ssa.Parameter
		for _, in := range instrsOf(fn) {
			call, ok := in.(*ssa.Call)
			if !ok {
				continue
			}
			g := call.Call.StaticCallee()
			if g == nil || !inserts[g] {
				continue
			}
			for _, a := range call.Call.Args {
				if p, ok := a.(*ssa.Parameter); ok && isStr(p) {
					insCall, insKey = call, p
				}
			}
		}
		if insCall == nil {
			continue
		}
		// key parameter of the removed dictionary: the receiver chain of the remove leads to a lookup call with a string parameter
		var remKey *ssa.Parameter
		{
			v := remRecv
			for d := 0; d < 6 && remKey == nil; d++ {
				switch x := v.(type) {
				case *ssa.Extract:
					v = x.Tuple
				case *ssa.Call:
					for _, a := range x.Call.Args {
						if p, ok := a.(*ssa.Parameter); ok && isStr(p) {
							remKey = p
						}
					}
					if remKey == nil && len(x.Call.Args) > 0 {
						v = x.Call.Args[0]
					} else {
						d = 6
					}
				default:
					d = 6
				}
			}
		}
		if remKey == nil || remKey == insKey {
			continue
		}
		n++
		key := fmt.Sprintf("%s:%s->%s", fnName(fn), remKey.Name(), insKey.Name())
		compared := false
		for _, in := range instrsOf(fn) {
			if bo, ok := in.(*ssa.BinOp); ok && (bo.Op == token.EQL || bo.Op == token.NEQ) {
				if (bo.X == ssa.Value(remKey) && bo.Y == ssa.Value(insKey)) || (bo.X == ssa.Value(insKey) && bo.Y == ssa.Value(remKey)) {
					compared = true
				}
			}
		}
		if compared {
			c.S.OK("R-C05-self-move", key, c.Pos(insCall.Pos()), "the two key names are compared")
		} else {
			c.S.Bad("R-C05-self-move", key, c.Pos(insCall.Pos()), fmt.Sprintf("%s inserts the member into the dictionary under %s and removes it from the one under %s without ever comparing the two names: with %s = %s the insertion is a no-op and the removal loses the member", fnName(fn), insKey.Name(), remKey.Name(), remKey.Name(), insKey.Name()))
		}
	}
	if n == 0 {
		c.S.Undecided("R-C05-self-move", "instances", "-", "no function moves a member between the dictionaries of two key names (SMOVE expected)")
	}
}

const textDictReaders = "R-dict-readers-pure: a method of the dictionary that writes its storage — an element of the bucket array, the bucket field itself, the element count, or an append into a slice sharing the bucket array (buckets[:0]) — is one of the insert/remove primitives or is reachable only from them (rehash); lookups, iterators, random picks and clones never modify the table they read (HRANDFIELD, SRANDMEMBER, HGETALL… are read-only commands)"

func ruleDictReadersPure(c *Ctx) {
	c.S.Rule("R-dict-readers-pure", textDictReaders, 5)
	mm := c.M.Muts()
	fBuckets, fCount := c.Field("redisDict", "buckets"), c.Field("redisDict", "count")
	if fBuckets == nil || fCount == nil {
		c.S.Undecided("R-dict-readers-pure", "anchors", "-", "redisDict.buckets / count not found")
		return
	}
	sharesBuckets := func(v ssa.Value) bool {
		for i := 0; i < 4; i++ {
			if _, f := loadedField(v); f == fBuckets {
				return true
			}
			sl, ok := v.(*ssa.Slice)
			if !ok {
				return false
			}
			v = sl.X
		}
		return false
	}
	writes := map[*ssa.Function]string{}
	var methods []*ssa.Function
	for _, fn := range c.SrcFuncs() {
		if fn.Signature.Recv() == nil || !c.isPkgType(fn.Signature.Recv().Type(), "redisDict") || len(fn.Params) == 0 {
			continue
		}
		methods = append(methods, fn)
		recv := fn.Params[0]
		for _, in := range instrsOf(fn) {
			switch x := in.(type) {
			case *ssa.Store:
				if ia, ok := x.Addr.(*ssa.IndexAddr); ok && sharesBuckets(ia.X) {
					if base, _ := loadedField(stripSlices(ia.X)); base == ssa.Value(recv) {
						writes[fn] = "stores into an element of the receiver's bucket array"
					}
				}
				if fa, ok := x.Addr.(*ssa.FieldAddr); ok && fa.X == ssa.Value(recv) && (fieldOf(fa) == fBuckets || fieldOf(fa) == fCount) {
					writes[fn] = "assigns the receiver's " + fieldOf(fa).Name()
				}
			case *ssa.Call:
				if b, ok := x.Call.Value.(*ssa.Builtin); ok && b.Name() == "append" && len(x.Call.Args) > 0 {
					if aliasesBuckets(x.Call.Args[0], recv, sharesBuckets, map[ssa.Value]bool{}) {
						writes[fn] = "appends into a slice that shares the receiver's bucket array"
					}
				}
			}
		}
	}
	prim := func(f *ssa.Function) bool { return mm.dictStore[f] || mm.dictRem[f] }
	// allowed writers: primitives, and writers all of whose callers are allowed writers
	allowed := map[*ssa.Function]bool{}
	for f := range writes {
		if prim(f) {
			allowed[f] = true
		}
	}
	for _, f := range c.SrcFuncs() {
		if prim(f) {
			allowed[f] = true
		}
	}
	for changed := true; changed; {
		changed = false
		// (helpers between a primitive and the writer — store → growApart → rehash — are allowed in the same way)
		for _, f := range c.SrcFuncs() {
			if allowed[f] {
				continue
			}
			node := c.CG.Nodes[f]
			if node == nil || len(node.In) == 0 {
				continue
			}
			ok := true
			for _, e := range node.In {
				if !allowed[e.Caller.Func] {
					ok = false
				}
			}
			if ok {
				allowed[f] = true
				changed = true
			}
		}
	}
	sort.Slice(methods, func(i, j int) bool { return fnName(methods[i]) < fnName(methods[j]) })
	for _, fn := range methods {
		key := fnName(fn) + ":storage"
		why, w := writes[fn]
		switch {
		case !w:
			c.S.OK("R-dict-readers-pure", key, c.Pos(fn.Pos()), "does not write the table")
		case allowed[fn]:
			c.S.OK("R-dict-readers-pure", key, c.Pos(fn.Pos()), "an insert/remove primitive, or reachable only from them")
		default:
			c.S.Bad("R-dict-readers-pure", key, c.Pos(fn.Pos()), fmt.Sprintf("%s %s although it is not an insert/remove primitive and is called from outside them: a read of the hash or set corrupts the table (fields become unreachable or are listed twice)", fnName(fn), why))
		}
	}
}

func stripSlices(v ssa.Value) ssa.Value {
	for i := 0; i < 4; i++ {
		sl, ok := v.(*ssa.Slice)
		if !ok {
			return v
		}
		v = sl.X
	}
	return v
}

// aliasesBuckets: v is (through slicing, phis and local variable cells) a slice of the receiver's bucket array.
func aliasesBuckets(v ssa.Value, recv ssa.Value, shares func(ssa.Value) bool, seen map[ssa.Value]bool) bool {
	if v == nil || seen[v] {
		return false
	}
	seen[v] = true
	switch x := v.(type) {
	case *ssa.Slice:
		if shares(x.X) {
			base, _ := loadedField(stripSlices(x.X))
			return base == recv
		}
		return aliasesBuckets(x.X, recv, shares, seen)
	case *ssa.Phi:
		for _, e := range x.Edges {
			if aliasesBuckets(e, recv, shares, seen) {
				return true
			}
		}
	case *ssa.UnOp:
		if al, ok := x.X.(*ssa.Alloc); ok {
			for _, r := range referrers(al) {
				if st, ok := r.(*ssa.Store); ok && st.Addr == ssa.Value(al) && aliasesBuckets(st.Val, recv, shares, seen) {
					return true
				}
			}
		}
	case *ssa.Call:
		// append(x, ...) may return x's array
		if b, ok := x.Call.Value.(*ssa.Builtin); ok && b.Name() == "append" && len(x.Call.Args) > 0 {
			return aliasesBuckets(x.Call.Args[0], recv, shares, seen)
		}
	}
	return false
}

// mustRemoveKey: every path from `from` to a return (not entering `avoid`) passes a removal from the keyspace dictionary.
func mustRemoveKey(c *Ctx, from, avoid *ssa.BasicBlock) bool {
	mm := c.M.Muts()
	removes := func(b *ssa.BasicBlock) bool {
		for _, in := range b.Instrs {
			call, ok := in.(ssa.CallInstruction)
			if !ok {
				continue
			}
			cal := call.Common().StaticCallee()
			if cal != nil && mm.dictRem[cal] && len(call.Common().Args) > 0 {
				if _, rf := loadedField(call.Common().Args[0]); rf == mm.fKeyspace {
					return true
				}
			}
		}
		return false
	}
	seen := map[*ssa.BasicBlock]bool{}
	stack := []*ssa.BasicBlock{from}
	for len(stack) > 0 {
		b := stack[len(stack)-1]
		stack = stack[:len(stack)-1]
		if seen[b] || b == avoid {
			continue
		}
		seen[b] = true
		if removes(b) {
			continue
		}
		if _, ok := b.Instrs[len(b.Instrs)-1].(*ssa.Return); ok {
			return false
		}
		stack = append(stack, b.Succs...)
	}
	return true
}

const textSameKeyOrder = "R-same-key-order: in a function that takes two key names, the removal of one name from the keyspace never follows the store under the other name unless the two names are compared: with source = destination the store overwrites the entry with the same object and the removal then deletes the key (RENAME k k)"

func ruleSameKeyOrder(c *Ctx) {
	c.S.Rule("R-same-key-order", textSameKeyOrder, 1)
	mm := c.M.Muts()
	n := 0
	for _, fn := range c.SrcFuncs() {
		type ksCall struct {
			call ssa.CallInstruction
			key  *ssa.Parameter
		}
		var stores, removes []ksCall
		for _, in := range instrsOf(fn) {
			call, ok := in.(ssa.CallInstruction)
			if !ok {
				continue
			}
			cal := call.Common().StaticCallee()
			if cal == nil || len(call.Common().Args) < 2 || !(mm.dictStore[cal] || mm.dictRem[cal]) {
				continue
			}
			if _, rf := loadedField(call.Common().Args[0]); rf != mm.fKeyspace {
				continue
			}
			p, ok := call.Common().Args[1].(*ssa.Parameter)
			if !ok {
				continue
			}
			if mm.dictStore[cal] {
				stores = append(stores, ksCall{call, p})
			} else {
				removes = append(removes, ksCall{call, p})
			}
		}
		if len(stores) == 0 || len(removes) == 0 {
			continue
		}
		for _, s := range stores {
			for _, r := range removes {
				if s.key == r.key {
					continue
				}
				n++
				key := fmt.Sprintf("%s:store(%s)/remove(%s)", fnName(fn), s.key.Name(), r.key.Name())
				after := (s.call.Block() == r.call.Block() && instrIndex(r.call) > instrIndex(s.call)) ||
					(s.call.Block() != r.call.Block() && plainReachAvoid(s.call.Block(), r.call.Block(), nil))
				compared := false
				for _, in := range instrsOf(fn) {
					if bo, ok := in.(*ssa.BinOp); ok && (bo.Op == token.EQL || bo.Op == token.NEQ) {
						if (bo.X == ssa.Value(s.key) && bo.Y == ssa.Value(r.key)) || (bo.X == ssa.Value(r.key) && bo.Y == ssa.Value(s.key)) {
							compared = true
						}
					}
				}
				if after && !compared {
					c.S.Bad("R-same-key-order", key, c.Pos(r.call.Pos()), fmt.Sprintf("%s removes %s from the keyspace after it stored under %s and never compares the two names: with both equal the key is lost", fnName(fn), r.key.Name(), s.key.Name()))
				} else {
					c.S.OK("R-same-key-order", key, c.Pos(r.call.Pos()), "the source name is removed before the destination is stored (or the names are compared)")
				}
			}
		}
	}
	if n == 0 {
		c.S.Undecided("R-same-key-order", "instances", "-", "no function stores and removes keyspace entries under two different name parameters (the rename primitive was expected)")
	}
}

const textReplaceTTL = "R-replace-clears-ttl: a command that replaces the value of a key never does so by assigning a new payload to the existing key object while leaving its deadline alone: a payload stored into a key object that was not created by the storing function either derives from that object's own previous payload (an in-place change keeps the deadline) or is accompanied by a store of the object's expiresAt — SET, GETSET, MSET, the STORE forms and BITOP clear the deadline of the destination"

func ruleReplaceClearsTTL(c *Ctx) {
	c.S.Rule("R-replace-clears-ttl", textReplaceTTL, 8)
	fPay, fExp := c.Field("storeKey", "payload"), c.Field("storeKey", "expiresAt")
	if fPay == nil || fExp == nil {
		c.S.Undecided("R-replace-clears-ttl", "anchor", "-", "storeKey.payload / expiresAt not found")
		return
	}
	o := &ownCtx{c: c, memo: map[string]int{}, fPay: fPay, seen: map[ssa.Value]bool{}}
	dead := map[string]bool{}
	for _, d := range c.M.Muts().dead {
		dead[d] = true
	}
	for _, fn := range c.SrcFuncs() {
		if dead[fnName(fn)] {
			continue
		}
		if loaderExempt(fn) {
			continue
		}
		n := 0
		for _, in := range instrsOf(fn) {
			st, ok := isStoreTo(in, fPay)
			if !ok {
				continue
			}
			n++
			key := fmt.Sprintf("%s:payload#%d", fnName(fn), n)
			fa := st.Addr.(*ssa.FieldAddr)
			if freshKeyObject(fa.X) {
				c.S.Trivial("R-replace-clears-ttl", key, c.Pos(st.Pos()), "a key object created here: its deadline is whatever this function sets")
				continue
			}
			// in-place: derived from the same object's payload
			inPlace := derivesFromOwnPayload(st.Val, fa.X, fPay, 0)
			_ = o
			if inPlace {
				c.S.OK("R-replace-clears-ttl", key, c.Pos(st.Pos()), "in-place change of the same key's value: the deadline is kept")
				continue
			}
			setsTTL := false
			for _, in2 := range instrsOf(fn) {
				st2, ok := isStoreTo(in2, fExp)
				if !ok {
					continue
				}
				fa2 := st2.Addr.(*ssa.FieldAddr)
				if sameBase(fa2.X, fa.X) && (instrDominates(in2, in) || instrDominates(in, in2)) {
					setsTTL = true
				}
			}
			if setsTTL {
				c.S.OK("R-replace-clears-ttl", key, c.Pos(st.Pos()), "the deadline of the object is set together with the new payload")
			} else {
				c.S.Bad("R-replace-clears-ttl", key, c.Pos(st.Pos()), fmt.Sprintf("%s replaces the payload of an existing key object without touching its deadline: the new value inherits the TTL of the value it replaced and vanishes with it", fnName(fn)))
			}
		}
	}
}

// freshKeyObject: the key object was created by this function (constructor call, allocation, clone).
func freshKeyObject(v ssa.Value) bool {
	if isFresh(v) {
		return true
	}
	switch x := v.(type) {
	case *ssa.Call:
		if g := x.Call.StaticCallee(); g != nil && returnsFreshAlloc(g) {
			return true
		}
	case *ssa.Phi:
		for _, e := range x.Edges {
			if !freshKeyObject(e) {
				return false
			}
		}
		return len(x.Edges) > 0
	case *ssa.UnOp:
		if al, ok := x.X.(*ssa.Alloc); ok {
			k := 0
			for _, r := range referrers(al) {
				if st, ok := r.(*ssa.Store); ok && st.Addr == ssa.Value(al) {
					k++
					if !freshKeyObject(st.Val) {
						return false
					}
				}
			}
			return k > 0
		}
	}
	return false
}

// derivesFromOwnPayload: the value is computed from a load of sk.payload of the same key object.
func derivesFromOwnPayload(v ssa.Value, sk ssa.Value, fPay *types.Var, d int) bool {
	if d > 10 || v == nil {
		return false
	}
	switch x := v.(type) {
	case *ssa.MakeInterface:
		return derivesFromOwnPayload(x.X, sk, fPay, d+1)
	case *ssa.TypeAssert:
		return derivesFromOwnPayload(x.X, sk, fPay, d+1)
	case *ssa.Extract:
		return derivesFromOwnPayload(x.Tuple, sk, fPay, d+1)
	case *ssa.Slice:
		return derivesFromOwnPayload(x.X, sk, fPay, d+1)
	case *ssa.Convert:
		return derivesFromOwnPayload(x.X, sk, fPay, d+1)
	case *ssa.ChangeType:
		return derivesFromOwnPayload(x.X, sk, fPay, d+1)
	case *ssa.Phi:
		for _, e := range x.Edges {
			if derivesFromOwnPayload(e, sk, fPay, d+1) {
				return true
			}
		}
	case *ssa.Call:
		for _, a := range x.Call.Args {
			if derivesFromOwnPayload(a, sk, fPay, d+1) {
				return true
			}
		}
	case *ssa.UnOp:
		if fa, ok := x.X.(*ssa.FieldAddr); ok && fieldOf(fa) == fPay {
			return sameBase(fa.X, sk)
		}
		if al, ok := x.X.(*ssa.Alloc); ok {
			for _, r := range referrers(al) {
				if st, ok := r.(*ssa.Store); ok && st.Addr == ssa.Value(al) && derivesFromOwnPayload(st.Val, sk, fPay, d+1) {
					return true
				}
			}
		}
	}
	return false
}

// ---------------------------------------------------------------- R-inplace-keeps-ttl

const textInplaceTTL = "R-inplace-keeps-ttl: where a function computes a key's new value from the same key's previous value (APPEND, SETRANGE, SETBIT …: a change in place) and installs it in a key object it creates, the deadline it gives the new object on the paths through that computation is the previous object's deadline — a change in place keeps the TTL; only a replacement clears it"

// derivesFromKeyPayload: the value is computed from the payload of some key object stored under the same key name as sk.
// Returns the instruction that reads that payload, and appends to *chain the blocks every path that computes the value
// this way passes through (the blocks of the instructions of the derivation; for a phi the predecessor of the edge taken).
func derivesFromKeyPayload(o *ownCtx, v ssa.Value, sk ssa.Value, d int, chain *[]*ssa.BasicBlock) ssa.Instruction {
	if d > 12 || v == nil {
		return nil
	}
	note := func(src ssa.Instruction) ssa.Instruction {
		if src != nil {
			if in, ok := v.(ssa.Instruction); ok && in.Block() != nil {
				*chain = append(*chain, in.Block())
			}
		}
		return src
	}
	rec := func(x ssa.Value) ssa.Instruction { return note(derivesFromKeyPayload(o, x, sk, d+1, chain)) }
	switch x := v.(type) {
	case *ssa.MakeInterface:
		return rec(x.X)
	case *ssa.TypeAssert:
		return rec(x.X)
	case *ssa.Slice:
		return rec(x.X)
	case *ssa.ChangeType:
		return rec(x.X)
	case *ssa.Convert:
		return rec(x.X) // []byte <-> string, numeric conversions
	case *ssa.Extract:
		return rec(x.Tuple)
	case *ssa.BinOp:
		if r := rec(x.X); r != nil { // old value + increment
			return r
		}
		return rec(x.Y)
	case *ssa.Phi:
		for i, e := range x.Edges {
			if r := derivesFromKeyPayload(o, e, sk, d+1, chain); r != nil {
				*chain = append(*chain, x.Block().Preds[i])
				return r
			}
		}
	case *ssa.Call:
		if g := x.Call.StaticCallee(); g != nil && len(x.Call.Args) > 0 && len(g.Params) > 0 && o.c.InPkg(g) && o.payloadAccessor(g, 0) {
			if sameKeyName(x.Call.Args[0], sk) {
				return note(x)
			}
			return nil
		}
		if b, ok := x.Call.Value.(*ssa.Builtin); ok && b.Name() == "append" {
			for _, a := range x.Call.Args {
				if r := rec(a); r != nil {
					return r
				}
			}
		}
		// library conversions (strconv.ParseFloat(string(old)), strconv.FormatFloat(v), fmt.Sprintf("%d", v)): the
		// result is computed from the arguments
		if g := x.Call.StaticCallee(); g != nil && !o.c.InPkg(g) {
			for _, a := range x.Call.Args {
				if r := rec(a); r != nil {
					return r
				}
			}
		}
	case *ssa.UnOp:
		if fa, ok := x.X.(*ssa.FieldAddr); ok && fieldOf(fa) == o.fPay {
			if sameKeyName(fa.X, sk) {
				return note(x)
			}
			return nil
		}
		// a local variable: any value stored into it
		if al, ok := x.X.(*ssa.Alloc); ok {
			for _, r := range referrers(al) {
				if st, ok := r.(*ssa.Store); ok && st.Addr == ssa.Value(al) {
					if src := derivesFromKeyPayload(o, st.Val, sk, d+1, chain); src != nil {
						*chain = append(*chain, st.Block())
						return src
					}
				}
			}
		}
	case *ssa.Alloc:
		// the backing array of a variadic call (fmt.Sprintf("%d", v)): what is stored into its elements
		for _, r := range referrers(x) {
			if ia, ok := r.(*ssa.IndexAddr); ok {
				for _, r2 := range referrers(ia) {
					if st, ok := r2.(*ssa.Store); ok && st.Addr == ssa.Value(ia) {
						if src := derivesFromKeyPayload(o, st.Val, sk, d+1, chain); src != nil {
							*chain = append(*chain, st.Block())
							return src
						}
					}
				}
			}
		}
	}
	return nil
}

func ruleInplaceKeepsTTL(c *Ctx) {
	c.S.Rule("R-inplace-keeps-ttl", textInplaceTTL, 1)
	fPay, fExp := c.Field("storeKey", "payload"), c.Field("storeKey", "expiresAt")
	if fPay == nil || fExp == nil {
		c.S.Undecided("R-inplace-keeps-ttl", "anchor", "-", "storeKey.payload / expiresAt not found")
		return
	}
	o := &ownCtx{c: c, memo: map[string]int{}, fPay: fPay, seen: map[ssa.Value]bool{}}
	oldDeadline := func(v ssa.Value, sk ssa.Value) bool {
		v = stripValue(v)
		if u, ok := v.(*ssa.UnOp); ok {
			if fa, ok := u.X.(*ssa.FieldAddr); ok && fieldOf(fa) == fExp {
				return sameKeyName(outerBase(fa.X), sk)
			}
		}
		return false
	}
	n := 0
	for _, fn := range c.SrcFuncs() {
		if loaderExempt(fn) {
			continue
		}
		k := 0
		for _, in := range instrsOf(fn) {
			st, ok := isStoreTo(in, fPay)
			if !ok {
				continue
			}
			sk := st.Addr.(*ssa.FieldAddr).X
			if !freshKeyObject(sk) || keyNameArg(sk) == nil {
				continue
			}
			// the leaves of the stored value that are computed from the same key's previous payload
			// the reads of the same key's previous payload the stored value is computed from: every path that changes the
			// value in place passes through that read
			type inPl struct {
				src   ssa.Instruction
				chain []*ssa.BasicBlock
			}
			var inPlace []inPl
			seenSrc := map[ssa.Instruction]bool{}
			for _, leaf := range phiLeaves(stripValue(st.Val), map[ssa.Value]bool{}) {
				var chain []*ssa.BasicBlock
				if src := derivesFromKeyPayload(o, leaf, sk, 0, &chain); src != nil && !seenSrc[src] {
					seenSrc[src] = true
					inPlace = append(inPlace, inPl{src, chain})
				}
			}
			if len(inPlace) == 0 {
				continue
			}
			// the deadline stored into the same new object
			var exp *ssa.Store
			for _, in2 := range instrsOf(fn) {
				if st2, ok := isStoreTo(in2, fExp); ok && sameBase(st2.Addr.(*ssa.FieldAddr).X, sk) {
					exp = st2
				}
			}
			for _, ip := range inPlace {
				li := ip.src
				if li.Block() == nil {
					continue
				}
				k++
				n++
				key := fmt.Sprintf("%s:in-place#%d", fnName(fn), k)
				if exp == nil {
					c.S.Bad("R-inplace-keeps-ttl", key, c.Pos(st.Pos()), fmt.Sprintf("%s installs a value computed from the key's previous value in a new key object and never gives that object the previous deadline", fnName(fn)))
					continue
				}
				// the paths that change the value in place pass through every block of the derivation; an edge p→m of a
				// phi lies on such a path iff every one of those blocks comes before the edge (is p or reaches p) or after
				// it (is m or is reached from m)
				reach := map[*ssa.BasicBlock]map[*ssa.BasicBlock]bool{}
				reaches := func(a, b *ssa.BasicBlock) bool {
					if reach[a] == nil {
						reach[a] = reachableFrom(a, nil)
						if !blockInCycle(a) {
							delete(reach[a], a)
						}
					}
					return reach[a][b]
				}
				onInPlacePath := func(p, m *ssa.BasicBlock) bool {
					for _, w := range ip.chain {
						before := w == p || reaches(w, p)
						after := w == m || reaches(m, w)
						if !before && !after {
							return false
						}
					}
					return true
				}
				var leaves []ssa.Value
				seen := map[ssa.Value]bool{}
				var collect func(v ssa.Value)
				collect = func(v ssa.Value) {
					if seen[v] {
						return
					}
					seen[v] = true
					phi, ok := v.(*ssa.Phi)
					if !ok {
						leaves = append(leaves, v)
						return
					}
					for i, e := range phi.Edges {
						if onInPlacePath(phi.Block().Preds[i], phi.Block()) {
							collect(e)
						}
					}
				}
				collect(stripValue(exp.Val))
				bad := ""
				for _, l := range leaves {
					if !oldDeadline(l, sk) {
						bad = l.Name()
						if cst, ok := l.(*ssa.Const); ok {
							bad = cst.String()
						}
						if p, ok := l.(*ssa.Parameter); ok {
							bad = "parameter " + p.Name()
						}
						if g, ok := stripValue(l).(*ssa.UnOp); ok {
							if gl, ok := g.X.(*ssa.Global); ok {
								bad = "global " + gl.Name()
							}
						}
					}
				}
				if bad == "" {
					c.S.OK("R-inplace-keeps-ttl", key, c.Pos(st.Pos()), "the new object gets the previous object's deadline on the paths that change the value in place")
				} else {
					c.S.Bad("R-inplace-keeps-ttl", key, c.Pos(exp.Pos()), fmt.Sprintf("%s computes the new value from the key's previous value (%s) but the new key object can get a deadline that is not the previous one (%s): the change in place drops (or replaces) the key's TTL", fnName(fn), c.Pos(c.InstrPos(li)), bad))
				}
			}
		}
	}
	if n == 0 {
		c.S.Trivial("R-inplace-keeps-ttl", "none", "-", "no function installs a value computed from the same key's previous value in a new key object")
	}
}
