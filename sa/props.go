package main

func init() {
	register(&PropSpec{
		ID:          "C16",
		Explanation: "A1 lockset",
		Rules:       []func(*Ctx){ruleA1("A1-guarded", anyClass)},
	})
}
