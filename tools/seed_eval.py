#!/usr/bin/env python3
"""Evaluates seeded mutations: for each seed directory with patch.diff + demo_test.go, in a scratch copy
of /repo HEAD (never /repo itself): demo passes without the patch, patch applies/builds, demo fails with
it, existing suite passes with it; then runs every claimed check against the patched copy and records
which rules report an unlisted violation. Writes meta.json next to the patch.

usage: seed_eval.py <seed_dir> [<seed_dir>...]     (seed_dir has patch.diff, demo_test.go, optional meta.json)
"""
import json, os, subprocess, sys, tempfile, shutil, re

ENV = dict(os.environ, GOFLAGS="-mod=mod", GOPROXY="off", GOSUMDB="off", GOTOOLCHAIN="local", GOWORK="off")
VERIF = "/verif"
import threading
PORTS = threading.Lock()  # the suite and the demos use fixed TCP ports: one at a time


def sh(cmd, cwd=None, timeout=900, env=None):
    try:
        p = subprocess.run(cmd, shell=True, cwd=cwd, env=env or ENV, capture_output=True, text=True, timeout=timeout)
        return p.returncode, p.stdout + p.stderr
    except subprocess.TimeoutExpired as e:
        return 124, "TIMEOUT"


def claimed():
    m = json.load(open(os.path.join(VERIF, "MANIFEST.json")))
    return [c["property_id"] for c in m["checks"]]


def evaluate(seed):
    seed = os.path.abspath(seed)
    meta_path = os.path.join(seed, "meta.json")
    meta = json.load(open(meta_path)) if os.path.exists(meta_path) else {}
    seed = os.path.abspath(seed)
    patch = os.path.join(seed, "patch.diff")
    demo = os.path.join(seed, "demo_test.go")
    test = meta.get("test", "TestSeed")
    flags = meta.get("go_test_flags", "")
    d = tempfile.mkdtemp(prefix="seedeval.", dir="/tmp")
    try:
        sh(f"rsync -a --exclude .git /repo/ {d}/")
        shutil.copy(demo, os.path.join(d, "zz_seed_demo_test.go"))
        PORTS.acquire()
        rc0, out0 = sh(f"go test -vet=off -count=1 -timeout 120s -run '^{test}$' {flags} .", cwd=d)
        PORTS.release()
        clean_pass = rc0 == 0
        rc, out = sh(f"git init -q . ; git apply {patch}", cwd=d)
        if rc != 0:
            meta["status"] = "patch does not apply to the current /repo HEAD: " + out.strip()[:200]
            json.dump(meta, open(meta_path, "w"), indent=1)
            return meta
        rc, out = sh("go build ./...", cwd=d)
        if rc != 0:
            meta["status"] = "does not build"
            json.dump(meta, open(meta_path, "w"), indent=1)
            return meta
        fails = 0
        runs = int(meta.get("demo_runs", 1))
        PORTS.acquire()
        for _ in range(runs):
            rc1, out1 = sh(f"go test -vet=off -count=1 -timeout 120s -run '^{test}$' {flags} .", cwd=d)
            if rc1 != 0:
                fails += 1
        os.remove(os.path.join(d, "zz_seed_demo_test.go"))
        base = set(json.load(open("/root/.vp/BASELINE.json"))["stable_pass"])
        for attempt in range(4):  # the pinned suite = the 68 tests of BASELINE.json (TestRedisUnblock, which hangs now and then on the unchanged tree, is not one of them)
            rc2, out2 = sh("go test -json -vet=off -count=1 -timeout 90s .", cwd=d, timeout=150)
            st = {}
            for l in out2.splitlines():
                try:
                    e = json.loads(l)
                except Exception:
                    continue
                if e.get("Test") and e.get("Action") in ("pass", "fail"):
                    st[e["Package"] + "::" + e["Test"]] = e["Action"]
            bad = [b for b in base if st.get(b) != "pass"]
            if rc2 == 0 or not bad:
                rc2 = 0
                break
            out2 = "baseline tests not passing: " + ", ".join(sorted(bad)[:6])  # the repo's suite has flaky tests (TestRedisUnblock hangs, TestRedisBLMoveStress shares a rand.Rand): a deterministic failure fails all four attempts
        PORTS.release()
        meta["suite_failure_tail"] = "" if rc2 == 0 else out2[-600:]
        # run the checks against the patched copy
        sv = tempfile.mkdtemp(prefix="seedverif.", dir="/tmp")
        shutil.copy(os.path.join(VERIF, "known_findings.json"), sv)
        shutil.copy(os.path.join(VERIF, "properties.jsonl"), sv)
        caught = {}
        env = dict(ENV, VERIF_DIR=sv)
        rdbin = os.environ.get("RDCHECK_BIN", VERIF + "/bin/rdcheck")
        rc3, out3 = sh(f"{rdbin} all -root {d}", env=env, timeout=1800)
        cur = []
        for line in out3.splitlines():
            m = re.match(r"^   (VIOLATED|UNDECIDED)\s+(\S+)", line)
            if m:
                cur.append(m.group(2))
                continue
            m = re.match(r"^(C\d+): obligations=", line)
            if m:
                if cur and m.group(1) in claimed():
                    caught[m.group(1)] = {"rules": sorted(set(k.split(":")[0] for k in cur)), "n": len(cur), "first": cur[:2]}
                cur = []
        if rc3 != 0 and not caught:
            caught["?"] = {"rules": ["checker-error"], "n": 0, "first": [out3[-300:]]}
        shutil.rmtree(sv, ignore_errors=True)
        meta.update({
            "confirmed": {
                "demo_passes_on_clean_head": clean_pass,
                "demo_fails_with_patch": f"{fails}/{runs}",
                "existing_suite_passes_with_patch": rc2 == 0,
                "commands": [f"go test -vet=off -count=1 -run '^{test}$' {flags} .  (clean copy, then patched copy)",
                             "go test -vet=off -count=1 .  (patched copy)",
                             "rdcheck check -property <each claimed> -tier quick -root <patched copy>"],
            },
            "caught_by": caught,
            "status": "caught" if caught else "missed",
        })
        if not clean_pass or fails == 0 or rc2 != 0:
            meta["status"] += " (demonstration not confirmed: clean=%s fails=%d/%d suite=%s)" % (clean_pass, fails, runs, rc2 == 0)
        json.dump(meta, open(meta_path, "w"), indent=1)
        return meta
    finally:
        shutil.rmtree(d, ignore_errors=True)


def one(s):
    m = evaluate(s.rstrip("/"))
    print(os.path.basename(s.rstrip("/")), "->", m.get("status"), {k: v["rules"] for k, v in m.get("caught_by", {}).items()}, flush=True)


if __name__ == "__main__":
    from concurrent.futures import ThreadPoolExecutor
    with ThreadPoolExecutor(int(os.environ.get("SEED_JOBS", "4"))) as ex:
        list(ex.map(one, sys.argv[1:]))
