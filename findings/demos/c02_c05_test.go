package redisemu

import "testing"

func TestDemoC02UpperCaseMsetnx(t *testing.T) {
	s := startDemo(t, "")
	defer s.stop()
	c := s.dial(t)
	c.do("SET", "a", "1")
	expect(t, "MSETNX a 2 b 3 with a existing", c.do("MSETNX", "a", "2", "b", "3"), ":0")
	expect(t, "GET a", c.do("GET", "a"), `"1"`)
	expect(t, "GET b", c.do("GET", "b"), "(nil)")
	expect(t, "SETNX a 9 with a existing", c.do("SETNX", "a", "9"), ":0")
	expect(t, "GET a", c.do("GET", "a"), `"1"`)
}

func TestDemoC04HincrbyNegative(t *testing.T) {
	s := startDemo(t, "")
	defer s.stop()
	c := s.dial(t)
	c.do("HSET", "h", "n", "-10")
	expect(t, "HINCRBY h n 3 on -10", c.do("HINCRBY", "h", "n", "3"), ":-7")
	c.do("HSET", "h", "m", "10")
	expect(t, "HINCRBY h m -3 on 10", c.do("HINCRBY", "h", "m", "-3"), ":7")
}

func TestDemoC04Hsetnx(t *testing.T) {
	s := startDemo(t, "")
	defer s.stop()
	c := s.dial(t)
	c.do("HSET", "h", "f", "1")
	expect(t, "HSETNX h f 2 on an existing field", c.do("HSETNX", "h", "f", "2"), ":0")
	expect(t, "HGET h f", c.do("HGET", "h", "f"), `"1"`)
}

func TestDemoC03LmoveSameKey(t *testing.T) {
	s := startDemo(t, "")
	defer s.stop()
	c := s.dial(t)
	c.do("RPUSH", "l", "x")
	expect(t, "LMOVE l l LEFT RIGHT on a one-element list", c.do("LMOVE", "l", "l", "LEFT", "RIGHT"), `"x"`)
	expect(t, "LRANGE l 0 -1", c.do("LRANGE", "l", "0", "-1"), `["x"]`)
	c.do("RPUSH", "m", "a", "b", "c")
	c.do("LMOVE", "m", "m", "LEFT", "RIGHT")
	expect(t, "LRANGE m after rotating a,b,c", c.do("LRANGE", "m", "0", "-1"), `["b" "c" "a"]`)
	c.do("LMOVE", "m", "m", "LEFT", "LEFT")
	expect(t, "LRANGE m after LEFT LEFT", c.do("LRANGE", "m", "0", "-1"), `["b" "c" "a"]`)
	c.do("RPOPLPUSH", "m", "m")
	expect(t, "LRANGE m after RPOPLPUSH m m", c.do("LRANGE", "m", "0", "-1"), `["a" "b" "c"]`)
}

func TestDemoC06CopyList(t *testing.T) {
	s := startDemo(t, "")
	defer s.stop()
	c := s.dial(t)
	c.do("RPUSH", "l", "a", "b", "c")
	c.do("EXPIRE", "l", "1000")
	expect(t, "COPY l l2", c.do("COPY", "l", "l2"), ":1")
	expect(t, "LRANGE l2 0 -1", c.do("LRANGE", "l2", "0", "-1"), `["a" "b" "c"]`)
	expect(t, "LLEN l2", c.do("LLEN", "l2"), ":3")
	c.do("RPUSH", "l2", "d")
	expect(t, "LRANGE l after pushing to the copy", c.do("LRANGE", "l", "0", "-1"), `["a" "b" "c"]`)
}

func TestDemoC06CopyHashSet(t *testing.T) {
	s := startDemo(t, "")
	defer s.stop()
	c := s.dial(t)
	c.do("HSET", "h", "f", "1")
	c.send("COPY", "h", "h2")
	r := c.read(2e9)
	expect(t, "COPY h h2 (hash)", r, ":1")
	expect(t, "HGET h2 f", c.do("HGET", "h2", "f"), `"1"`)
	c.do("SADD", "s", "m")
	expect(t, "COPY s s2 (set)", c.do("COPY", "s", "s2"), ":1")
	expect(t, "SISMEMBER s2 m", c.do("SISMEMBER", "s2", "m"), ":1")
	c.do("HSET", "h2", "f", "2")
	expect(t, "HGET h f after changing the copy", c.do("HGET", "h", "f"), `"1"`)
}
