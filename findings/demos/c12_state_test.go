package redisemu

import (
	"sync"
	"testing"
	"time"
)

// C12: the capture state of a blocked connection is inspected by CLIENT LIST (isBlocked) and changed by
// CLIENT UNBLOCK / a closing in-process client (unblock) from other goroutines. Two of them at the same
// time must not wedge the state machine: afterwards the blocked command must still be able to end.
func TestDemoC12ConcurrentChecksWedgeCapture(t *testing.T) {
	s := startDemo(t, "")
	defer s.stop()
	c := s.dial(t)
	c.do("PING")

	var cs *clientState
	processAllClients(func(id int64, x *clientState) { cs = x })
	if cs == nil {
		t.Fatal("no client registered")
	}

	for round := 0; round < 200; round++ {
		cs.capture()
		var wg sync.WaitGroup
		for g := 0; g < 4; g++ {
			wg.Add(1)
			go func() {
				defer wg.Done()
				for i := 0; i < 2000; i++ {
					cs.isBlocked()
				}
			}()
		}
		done := make(chan struct{})
		go func() { wg.Wait(); cs.releaseCapture(); close(done) }()
		select {
		case <-done:
		case <-time.After(10 * time.Second):
			t.Fatalf("round %d: the capture state is stuck at %d (CS_CHECKING=%d): the blocked command can never end", round, cs.blocked, CS_CHECKING)
		}
	}
}
