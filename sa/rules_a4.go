package main

import (
	"fmt"
	"go/token"
	"go/types"
	"strings"

	"golang.org/x/tools/go/ssa"
)

// ---------------------------------------------------------------- events

// dirtyEvent: the keyspace dictionary of a database is marked dirty.
func (m *Models) dirtyEvent() Event {
	mm := m.Muts()
	setsDirty := map[*ssa.Function]bool{}
	for fn := range mm.dictStore {
		setsDirty[fn] = m.dictSetsDirty(fn)
	}
	for fn := range mm.dictRem {
		setsDirty[fn] = m.dictSetsDirty(fn)
	}
	return func(in ssa.Instruction) bool {
		switch x := in.(type) {
		case *ssa.Store:
			fa, ok := x.Addr.(*ssa.FieldAddr)
			if !ok || fieldOf(fa) != mm.fDirty {
				return false
			}
			c, ok := x.Val.(*ssa.Const)
			if !ok || c.Value == nil || c.Value.String() != "true" {
				return false
			}
			_, bf := loadedField(fa.X)
			return bf == mm.fKeyspace
		case ssa.CallInstruction:
			cal := x.Common().StaticCallee()
			if cal == nil || !setsDirty[cal] || len(x.Common().Args) == 0 {
				return false
			}
			_, rf := loadedField(x.Common().Args[0])
			return rf == mm.fKeyspace
		}
		return false
	}
}

// dictSetsDirty: a redisDict mutator stores true into receiver.dirty on every path on which it changes count.
func (m *Models) dictSetsDirty(fn *ssa.Function) bool {
	mm := m.Muts()
	fCount := m.p.Field("redisDict", "count")
	if len(fn.Params) == 0 {
		return false
	}
	isDirtyStore := func(in ssa.Instruction) bool {
		st, ok := in.(*ssa.Store)
		if !ok {
			return false
		}
		fa, ok := st.Addr.(*ssa.FieldAddr)
		if !ok || fieldOf(fa) != mm.fDirty || fa.X != fn.Params[0] {
			return false
		}
		c, ok := st.Val.(*ssa.Const)
		return ok && c.Value != nil && c.Value.String() == "true"
	}
	cm := &CoverModel{m: m, mm: mm, isEvent: isDirtyStore, always: map[*ssa.Function]bool{}}
	found := false
	for _, in := range instrsOf(fn) {
		st, ok := in.(*ssa.Store)
		if !ok {
			continue
		}
		if fa, ok := st.Addr.(*ssa.FieldAddr); ok && fieldOf(fa) == fCount {
			found = true
			if !cm.covered(in) {
				return false
			}
		}
	}
	return found
}

// versionEvent: the object under a key gets a fresh version id, or the key leaves the keyspace.
func (m *Models) versionEvent() Event {
	mm := m.Muts()
	return func(in ssa.Instruction) bool {
		switch x := in.(type) {
		case *ssa.Store:
			fa, ok := x.Addr.(*ssa.FieldAddr)
			// a new id for an object, or a whole new keyspace (every key vanishes)
			return ok && (fieldOf(fa) == mm.fID || fieldOf(fa) == mm.fKeyspace)
		case ssa.CallInstruction:
			cal := x.Common().StaticCallee()
			if cal == nil || !mm.dictRem[cal] || len(x.Common().Args) == 0 {
				return false
			}
			_, rf := loadedField(x.Common().Args[0])
			return rf == mm.fKeyspace
		}
		return false
	}
}

// emptyEvent: a branch on `X.count` against zero whose "empty" side removes the key from the keyspace.
func (m *Models) emptyEvent() Event {
	mm := m.Muts()
	p := m.p
	fLC := p.Field("storeList", "count")
	fDC := p.Field("redisDict", "count")
	isCount := func(v ssa.Value) bool {
		_, f := loadedField(v)
		return f != nil && (f == fLC || f == fDC)
	}
	isZero := func(v ssa.Value, n int64) bool {
		c, ok := constInt(v)
		return ok && c == n
	}
	removesKey := func(b *ssa.BasicBlock) bool {
		for _, bb := range b.Parent().Blocks {
			if bb != b && !b.Dominates(bb) {
				continue
			}
			for _, in := range bb.Instrs {
				c, ok := in.(ssa.CallInstruction)
				if !ok {
					continue
				}
				cal := c.Common().StaticCallee()
				if cal != nil && mm.dictRem[cal] && len(c.Common().Args) > 0 {
					if _, rf := loadedField(c.Common().Args[0]); rf == mm.fKeyspace {
						return true
					}
				}
			}
		}
		return false
	}
	// emptySide: index of the successor taken when the tested value is zero (-1: not such a test)
	emptySide := func(b *ssa.BinOp, isVal func(ssa.Value) bool) int {
		switch {
		case isVal(b.X) && isZero(b.Y, 0):
			switch b.Op {
			case token.EQL, token.LEQ:
				return 0
			case token.NEQ, token.GTR:
				return 1
			}
		case isVal(b.X) && isZero(b.Y, 1):
			switch b.Op {
			case token.LSS:
				return 0
			case token.GEQ:
				return 1
			}
		case isZero(b.X, 0) && isVal(b.Y):
			switch b.Op {
			case token.EQL, token.GEQ:
				return 0
			case token.NEQ, token.LSS:
				return 1
			}
		}
		return -1
	}
	// a helper that receives the aggregate's count as a parameter, tests it against zero and removes the key on the
	// empty side ("removeKeyIfEmpty(keyName, list.count)")
	helperMemo := map[string]bool{}
	emptyHelper := func(g *ssa.Function, idx int) bool {
		k := fmt.Sprintf("%s#%d", fnName(g), idx)
		if v, ok := helperMemo[k]; ok {
			return v
		}
		r := false
		if idx < len(g.Params) {
			par := g.Params[idx]
			for _, blk := range g.Blocks {
				ifi, ok := blk.Instrs[len(blk.Instrs)-1].(*ssa.If)
				if !ok {
					continue
				}
				bo, ok := ifi.Cond.(*ssa.BinOp)
				if !ok {
					continue
				}
				es := emptySide(bo, func(v ssa.Value) bool { return v == ssa.Value(par) })
				if es < 0 {
					continue
				}
				succ := blk.Succs[es]
				if len(succ.Preds) == 1 && removesKey(succ) {
					r = true
				}
			}
		}
		helperMemo[k] = r
		return r
	}
	return func(in ssa.Instruction) bool {
		if call, isCall := in.(*ssa.Call); isCall {
			if g := call.Call.StaticCallee(); g != nil && p.InPkg(g) {
				for i, a := range call.Call.Args {
					if isCount(a) && emptyHelper(g, i) {
						return true
					}
				}
			}
			return false
		}
		ifi, ok := in.(*ssa.If)
		if !ok {
			return false
		}
		b, ok := ifi.Cond.(*ssa.BinOp)
		if !ok {
			return false
		}
		emptySucc := -1
		switch {
		case isCount(b.X) && isZero(b.Y, 0):
			switch b.Op {
			case token.EQL, token.LEQ:
				emptySucc = 0
			case token.NEQ, token.GTR:
				emptySucc = 1
			}
		case isCount(b.X) && isZero(b.Y, 1):
			switch b.Op {
			case token.LSS:
				emptySucc = 0
			case token.GEQ:
				emptySucc = 1
			}
		case isZero(b.X, 0) && isCount(b.Y):
			switch b.Op {
			case token.EQL, token.GEQ:
				emptySucc = 0
			case token.NEQ, token.LSS:
				emptySucc = 1
			}
		}
		if emptySucc < 0 {
			return false
		}
		succ := ifi.Block().Succs[emptySucc]
		if len(succ.Preds) != 1 {
			return false
		}
		return removesKey(succ)
	}
}

// ---------------------------------------------------------------- rules

type a4opts struct {
	forwardOnly bool // the event must follow the site
	keyBySite   bool // one obligation per site (contexts listed in the detail) instead of per (context, site)
	keyByFn     bool // one violated obligation per function that contains uncovered sites
	pruneNF     bool // see CoverModel.pruneNotFound
}

func ruleA4(ruleID, text string, ev func(*Models) Event, sel func(*MutSite) bool, floor int, opt ...a4opts) func(*Ctx) {
	var o a4opts
	if len(opt) > 0 {
		o = opt[0]
	}
	return func(c *Ctx) {
		c.S.Rule(ruleID, text, floor)
		mm := c.M.Muts()
		for _, e := range mm.errs {
			c.S.Undecided(ruleID, "model:"+e, "-", e)
		}
		if len(mm.errs) > 0 {
			return
		}
		cm := c.M.newCover(ev(c.M), o.pruneNF)
		cm.forwardOnly = o.forwardOnly
		bad := map[*MutSite]bool{}
		seen := map[string]bool{}
		for _, l := range cm.Uncovered(sel) {
			bad[l.site] = true
			key := fnName(l.at) + ":" + l.site.key()
			if o.keyBySite {
				key = l.site.key()
			}
			if o.keyByFn {
				key = fnName(l.site.Fn)
			}
			if seen[key] {
				continue
			}
			seen[key] = true
			c.S.Bad(ruleID, key, c.Pos(c.InstrPos(l.site.In)),
				fmt.Sprintf("%s in %s is not accompanied by the covering event on some path through the critical section of %s%s",
					strings.TrimSuffix(l.site.What, "#2"), fnName(l.site.Fn), fnName(l.at), chainString(l.chain)))
		}
		for _, s := range mm.all {
			if (sel != nil && !sel(s)) || bad[s] {
				continue
			}
			c.S.OK(ruleID, s.key(), c.Pos(c.InstrPos(s.In)), "covering event on every path through the site (or through every call site of the helper)")
		}
	}
}

const textA4Dirty = "A4-dirty: every mutation site of database state (stores to storeKey/storeList/listItem fields of shared objects, dictionary store/remove) has, on every entry→exit path through it and inside the same hold of the database lock, an event that marks the database's keyspace dirty (setDirty, or store/remove on the keyspace dictionary itself) — otherwise the periodic/final save skips the change"

const textA4Version = "A4-version: every mutation site of database state has, on every path through it inside the same critical section, an event that gives the key a new version id (new/move/copy store key) or removes the key — otherwise WATCH cannot see the modification at EXEC"

func selNotID(mm *MutModel) func(*MutSite) bool {
	return func(s *MutSite) bool { return s.Field != mm.fID }
}

func ruleA4Dirty(c *Ctx) {
	ruleA4("A4-dirty", textA4Dirty, (*Models).dirtyEvent, nil, 40)(c)
}

func ruleA4Version(c *Ctx) {
	mm := c.M.Muts()
	ruleA4("A4-version", textA4Version, (*Models).versionEvent, func(s *MutSite) bool { return s.Field == nil || s.Field != mm.fID }, 40, a4opts{keyByFn: true, pruneNF: true})(c)
}

const textA4Empty = "A4-empty: after every site that can shrink an aggregate (list count decrement, removal from a hash/set dictionary) every path to the end of the critical section passes a branch on that aggregate's count against zero whose empty side removes the key from the keyspace — a list, hash or set never exists empty"

func ruleA4Empty(c *Ctx) {
	ruleA4("A4-empty", textA4Empty, (*Models).emptyEvent, func(s *MutSite) bool { return s.Shrinks }, 5, a4opts{forwardOnly: true})(c)
}

var _ = token.ADD

// ---------------------------------------------------------------- A4-nonempty-create

const textNonEmptyCreate = "A4-nonempty-create: when a key is created with a fresh empty list, hash or set as its value, every path from the creation to the end of the critical section inserts an element into that aggregate (loops whose every iteration inserts are assumed to run at least once: the grammar guarantees non-empty argument lists) — otherwise a command that ends up doing nothing leaves an empty key behind"

func ruleNonEmptyCreate(c *Ctx) {
	c.S.Rule("A4-nonempty-create", textNonEmptyCreate, 4)
	mm := c.M.Muts()
	if len(mm.errs) > 0 {
		c.S.Undecided("A4-nonempty-create", "model", "-", mm.errs[0])
		return
	}
	p := c.Prog
	fPayload := p.Field("storeKey", "payload")
	fCount := p.Field("storeList", "count")
	// functions that insert into a list they are given
	listInsert := map[*ssa.Function]bool{}
	for _, fn := range c.SrcFuncs() {
		for _, s := range mm.sites[fn] {
			if s.Field == fCount && !s.Shrinks {
				listInsert[fn] = true
			}
		}
	}
	dictGet := map[*ssa.Function]bool{}
	for _, fn := range c.SrcFuncs() {
		if fn.Signature.Recv() != nil && p.isPkgType(fn.Signature.Recv().Type(), "redisDict") && fn.Signature.Results().Len() == 2 && !mm.dictStore[fn] && !mm.dictRem[fn] {
			dictGet[fn] = true
		}
	}
	isInsert := func(in ssa.Instruction) bool {
		call, ok := in.(ssa.CallInstruction)
		if !ok {
			return false
		}
		cal := call.Common().StaticCallee()
		if cal == nil {
			return false
		}
		if listInsert[cal] {
			return true
		}
		if mm.dictStore[cal] && len(call.Common().Args) > 0 {
			_, rf := loadedField(call.Common().Args[0])
			return rf != mm.fKeyspace // insertion into a nested dictionary
		}
		return false
	}
	// creation sites: store of a fresh empty aggregate as a key's payload
	var sites []*MutSite
	for _, fn := range c.SrcFuncs() {
		for _, s := range mm.sites[fn] {
			if s.Field != fPayload {
				continue
			}
			st := s.In.(*ssa.Store)
			v := st.Val
			if mi, ok := v.(*ssa.MakeInterface); ok {
				v = mi.X
			}
			if !(p.isPkgType(v.Type(), "storeList") || p.isPkgType(v.Type(), "redisDict")) {
				continue
			}
			if !(isFresh(v) || mm.freshDict(v)) {
				continue
			}
			sites = append(sites, s)
		}
	}
	cm := c.M.newCover(isInsert)
	cm.forwardOnly = true
	cm.assumeLoopsRun = true
	// a lookup in a dictionary that was created on this very path finds nothing
	cm.pruneEdge = func(a, b *ssa.BasicBlock) bool {
		ifi, ok := a.Instrs[len(a.Instrs)-1].(*ssa.If)
		if !ok {
			return false
		}
		ex, ok := ifi.Cond.(*ssa.Extract)
		if !ok || ex.Index != 1 {
			return false
		}
		call, ok := ex.Tuple.(*ssa.Call)
		if !ok || !dictGet[call.Call.StaticCallee()] || len(call.Call.Args) == 0 {
			return false
		}
		recv := call.Call.Args[0]
		mayBeFresh := mm.freshDict(recv)
		if phi, isPhi := recv.(*ssa.Phi); isPhi {
			for _, e := range phi.Edges {
				if mm.freshDict(e) {
					mayBeFresh = true
				}
			}
		}
		// the dictionary may come from a helper that creates it when the key is missing (ensureHashTable…): on the path
		// that follows the creation in that helper the dictionary is the new, empty one
		var hcall *ssa.Call
		hidx := 0
		if ex2, ok := recv.(*ssa.Extract); ok {
			hcall, _ = ex2.Tuple.(*ssa.Call)
			hidx = ex2.Index
		} else if c2, ok := recv.(*ssa.Call); ok {
			hcall = c2
		}
		if hcall != nil && !mayBeFresh {
			if g := hcall.Call.StaticCallee(); g != nil && p.InPkg(g) {
				for _, gb := range g.Blocks {
					if ret, ok := gb.Instrs[len(gb.Instrs)-1].(*ssa.Return); ok && hidx < len(ret.Results) {
						for _, leaf := range phiLeaves(ret.Results[hidx], map[ssa.Value]bool{}) {
							if mm.freshDict(leaf) {
								mayBeFresh = true
							}
						}
					}
				}
			}
		}
		return mayBeFresh && a.Succs[0] == b // the "found" edge
	}
	sel := map[*MutSite]bool{}
	for _, s := range sites {
		sel[s] = true
	}
	bad := map[*MutSite]bool{}
	seen := map[string]bool{}
	// a template that runs a function it was given between the creation and the insertion
	// (`updateField(key, field, next func(old string, exists bool) (string, status))`): whether the path without an insertion
	// exists depends on what that function answers for a field that is not there — not decided here
	viaCallback := func(s *MutSite) bool {
		after := reachableFrom(s.In.Block(), nil)
		for _, in := range instrsOf(s.Fn) {
			call, ok := in.(*ssa.Call)
			if !ok || !(after[call.Block()] || call.Block() == s.In.Block()) {
				continue
			}
			if p, isParam := call.Call.Value.(*ssa.Parameter); isParam {
				if _, isSig := p.Type().Underlying().(*types.Signature); isSig {
					return true
				}
			}
		}
		return false
	}
	for _, l := range cm.Uncovered(func(s *MutSite) bool { return sel[s] }) {
		bad[l.site] = true
		key := fnName(l.at) + ":" + l.site.key()
		if seen[key] {
			continue
		}
		seen[key] = true
		if viaCallback(l.site) {
			c.S.Trivial("A4-nonempty-create", key, c.Pos(c.InstrPos(l.site.In)), "not decided: between the creation and the insertion the function runs a callback it was given, and the exit without an insertion depends on the callback's answer")
			continue
		}
		c.S.Bad("A4-nonempty-create", key, c.Pos(c.InstrPos(l.site.In)),
			fmt.Sprintf("%s creates a key with an empty aggregate and some path through %s%s ends the critical section without inserting an element: the key exists empty (EXISTS 1, TYPE list/hash/set)", fnName(l.site.Fn), fnName(l.at), chainString(l.chain)))
	}
	for _, s := range sites {
		if !bad[s] {
			c.S.OK("A4-nonempty-create", s.key(), c.Pos(c.InstrPos(s.In)), "an insertion follows on every path (directly or in every caller)")
		}
	}
}

const textFreshID = "R-C10-fresh-id: every version id given to a key object is the value of the database's object counter read after the counter was incremented for this very assignment (or a parameter that receives such a value at every call site): two different objects — e.g. a key and the object renamed onto it — never carry the same id, so a WATCH taken on the old object sees the change"

func ruleFreshID(c *Ctx) {
	c.S.Rule("R-C10-fresh-id", textFreshID, 3)
	fID := c.Field("storeKey", "id")
	fCtr := c.Field("dataStore", "dataObjectNumber")
	if fID == nil || fCtr == nil {
		c.S.Undecided("R-C10-fresh-id", "anchors", "-", "storeKey.id / dataStore.dataObjectNumber not found")
		return
	}
	var freshAt func(v ssa.Value, at ssa.Instruction, depth int) (bool, string)
	freshAt = func(v ssa.Value, at ssa.Instruction, depth int) (bool, string) {
		if depth > 3 {
			return false, "value flow too deep"
		}
		for {
			if cv, ok := v.(*ssa.Convert); ok {
				v = cv.X
				continue
			}
			break
		}
		switch x := v.(type) {
		case *ssa.UnOp:
			fa, ok := x.X.(*ssa.FieldAddr)
			if !ok || fieldOf(fa) != fCtr {
				return false, "it is not read from the object counter"
			}
			// an increment of the counter dominates this read, and no other id assignment lies between them
			fn := x.Parent()
			for _, in := range instrsOf(fn) {
				st, ok := isStoreTo(in, fCtr)
				if !ok || !instrDominates(in, x) {
					continue
				}
				bo, ok := st.Val.(*ssa.BinOp)
				if !ok || bo.Op != token.ADD {
					continue
				}
				if k, isC := constInt(bo.Y); !isC || k < 1 {
					continue
				}
				// another id store between the increment and this read would take the same value
				clash := false
				for _, in2 := range instrsOf(fn) {
					if st2, ok := isStoreTo(in2, fID); ok && in2 != at && instrDominates(in, in2) && instrDominates(in2, x) {
						_ = st2
						clash = true
					}
				}
				if !clash {
					return true, ""
				}
			}
			return false, "the counter is read before it is incremented (the id of the newest existing object is handed out again)"
		case *ssa.Parameter:
			fn := x.Parent()
			idx := -1
			for i, q := range fn.Params {
				if q == x {
					idx = i
				}
			}
			node := c.CG.Nodes[fn]
			if node == nil || idx < 0 || len(node.In) == 0 {
				return false, "parameter without visible callers"
			}
			for _, e := range node.In {
				cc := e.Site.Common()
				if cc.IsInvoke() || idx >= len(cc.Args) {
					return false, "parameter passed through a dynamic call"
				}
				if ok, why := freshAt(cc.Args[idx], e.Site, depth+1); !ok {
					return false, "argument at " + c.Pos(e.Site.Pos()) + ": " + why
				}
			}
			return true, ""
		case *ssa.Call:
			// an allocator: a function of the package whose every return hands out the counter's value after its increment
			g := x.Call.StaticCallee()
			if g == nil || g.Blocks == nil || !c.InPkg(g) || g.Signature.Results().Len() != 1 {
				return false, "it is the result of a call that is not an id allocator"
			}
			k := 0
			for _, in := range instrsOf(g) {
				if ret, ok := in.(*ssa.Return); ok {
					k++
					if ok, why := freshAt(ret.Results[0], ret, depth+1); !ok {
						return false, fnName(g) + " returns a value that is not fresh: " + why
					}
				}
			}
			return k > 0, "allocator without return"
		}
		return false, fmt.Sprintf("its origin (%T) is not the object counter", v)
	}
	n := 0
	for _, fn := range c.SrcFuncs() {
		if loaderExempt(fn) {
			continue
		}
		k := 0
		for _, in := range instrsOf(fn) {
			st, ok := isStoreTo(in, fID)
			if !ok {
				continue
			}
			k++
			n++
			key := fmt.Sprintf("%s:id#%d", fnName(fn), k)
			if ok, why := freshAt(st.Val, in, 0); ok {
				c.S.OK("R-C10-fresh-id", key, c.Pos(st.Pos()), "the id is the counter's value after its increment")
			} else {
				c.S.Bad("R-C10-fresh-id", key, c.Pos(st.Pos()), fmt.Sprintf("%s assigns a version id that is not freshly allocated: %s — EXEC does not notice that the watched key was replaced", fnName(fn), why))
			}
		}
	}
	if n == 0 {
		c.S.Undecided("R-C10-fresh-id", "sites", "-", "no assignment of storeKey.id found")
	}
	// the counter itself only ever grows: every store to it outside the loader and outside the construction of a new
	// database stores (its own value + a positive constant). A counter that is set back (by a flush, say) hands out the
	// ids of objects that connections have already watched.
	for _, fn := range c.SrcFuncs() {
		if loaderExempt(fn) {
			continue
		}
		k := 0 // numbered per function: the order of the files is not the same in every run
		for _, in := range instrsOf(fn) {
			st, ok := isStoreTo(in, fCtr)
			if !ok {
				continue
			}
			fa := st.Addr.(*ssa.FieldAddr)
			if isFreshDeep(fa.X, 0) {
				continue // a database object under construction
			}
			k++
			key := fmt.Sprintf("%s:counter#%d", fnName(fn), k)
			grows := false
			if bo, ok := st.Val.(*ssa.BinOp); ok && bo.Op == token.ADD {
				if inc, isC := constInt(bo.Y); isC && inc >= 1 {
					if u, ok := bo.X.(*ssa.UnOp); ok {
						if fa2, ok := u.X.(*ssa.FieldAddr); ok && fieldOf(fa2) == fCtr && sameBase(fa2.X, fa.X) {
							grows = true
						}
					}
				}
			}
			if grows {
				c.S.OK("R-C10-fresh-id", key, c.Pos(st.Pos()), "the counter is incremented")
			} else {
				c.S.Bad("R-C10-fresh-id", key, c.Pos(st.Pos()), fmt.Sprintf("%s assigns the object counter a value that is not (counter + a positive constant): the counter can go back, and a key created afterwards gets the version id a connection recorded with WATCH before — its EXEC runs although the key was replaced", fnName(fn)))
			}
		}
	}
}
