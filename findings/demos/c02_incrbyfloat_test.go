package redisemu

import "testing"

// C02: INCRBYFLOAT refuses a sum that is not finite and leaves the value as it was.
func TestDemoC02IncrByFloatOverflow(t *testing.T) {
	s := startDemo(t, "")
	defer s.stop()
	c := s.dial(t)
	c.do("SET", "k", "1e308")
	expect(t, "INCRBYFLOAT k 1e308", c.do("INCRBYFLOAT", "k", "1e308"), "-ERR increment would produce NaN or Infinity")
	expect(t, "the value is unchanged", c.do("GET", "k"), "\"1e308\"")
	c.do("SET", "i", "inf")
	expect(t, "INCRBYFLOAT on a stored inf", c.do("INCRBYFLOAT", "i", "1"), "-ERR increment would produce NaN or Infinity")
	expect(t, "the value is unchanged", c.do("GET", "i"), "\"inf\"")
	expect(t, "an ordinary increment", c.do("INCRBYFLOAT", "n", "1.5"), "\"1.5\"")
}
