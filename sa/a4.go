package main

// A4 — mutation coverage. One model of "mutation sites of database state" (M6) and a generic path
// rule: a covering event E must lie on every entry→exit path through the site, inside the critical
// section that contains it. Sites in helpers that run under a caller's lock are lifted to the callers.

import (
	"fmt"
	"go/token"
	"go/types"
	"sort"
	"strings"

	"golang.org/x/tools/go/ssa"
)

type MutSite struct {
	In    ssa.Instruction
	Fn    *ssa.Function
	What  string // "store storeKey.expiresAt", "call (*redisDict).remove [nested]", ...
	Kind  string // field | dict-store | dict-remove
	Field *types.Var
	// for dictionary calls
	Keyspace bool // receiver is dataStore.data
	Shrinks  bool // can reduce the element count of an aggregate (list.count--, nested remove)
	// EffectAt: when the site is a call whose boolean result says whether anything changed and that
	// result is only used as a branch condition, the mutation is attributed to the "changed" successor.
	EffectAt *ssa.BasicBlock
}

// start returns the point after which the mutation has certainly happened.
func (s *MutSite) start() (*ssa.BasicBlock, int) {
	if s.EffectAt != nil {
		return s.EffectAt, 0
	}
	return s.In.Block(), instrIndex(s.In) + 1
}

func (s *MutSite) key() string { return fnName(s.Fn) + ":" + s.What }

type MutModel struct {
	m         *Models
	sites     map[*ssa.Function][]*MutSite
	all       []*MutSite
	dictStore map[*ssa.Function]bool // redisDict methods that insert/overwrite
	dictRem   map[*ssa.Function]bool // redisDict methods that remove
	errs      []string
	dead      []string   // functions with no path from any root (their sites are not obligations)
	fKeyspace *types.Var // dataStore.data
	fDirty    *types.Var // redisDict.dirty
	fID       *types.Var // storeKey.id
}

var mutModels = map[*Models]*MutModel{}

// m6Fields lists the fields whose stores are mutations of database state (M6).
var m6Fields = map[string][]string{
	"storeKey":  {"flags", "payload", "expiresAt", "id"},
	"storeList": {"head", "tail", "count"},
	"listItem":  {"next", "prev", "element"},
	"dataStore": {"data"}, // replacing the whole keyspace (flush)
}

// loaderExempt: functions whose stores are not mutations by commands — the snapshot loader and the helpers it is split
// into install the state read from disk at start-up; there is nothing to save or to version. They are recognised by
// what they do, not by name: they decode the snapshot stream (call (*gob.Decoder).Decode or receive the decoder).
const loaderExemptWhy = "the loader installs the state read from disk at start-up; there is nothing to save or to version"

func isGobDecoder(t types.Type) bool {
	n, ok := deref(t).(*types.Named)
	return ok && n.Obj().Name() == "Decoder" && n.Obj().Pkg() != nil && n.Obj().Pkg().Path() == "encoding/gob"
}

var loaderMemo = map[*ssa.Function]bool{}

func loaderExempt(fn *ssa.Function) bool {
	if v, ok := loaderMemo[fn]; ok {
		return v
	}
	r := false
	for _, p := range fn.Params {
		if isGobDecoder(p.Type()) {
			r = true
		}
	}
	for _, in := range instrsOf(fn) {
		if call, ok := in.(ssa.CallInstruction); ok {
			if g := call.Common().StaticCallee(); g != nil && g.Name() == "Decode" && g.Signature.Recv() != nil && isGobDecoder(g.Signature.Recv().Type()) {
				r = true
			}
		}
	}
	loaderMemo[fn] = r
	return r
}

// isFreshDeep extends isFresh to objects reachable only through fields of a fresh object.
func isFreshDeep(v ssa.Value, depth int) bool {
	if isFresh(v) {
		return true
	}
	if depth > 3 {
		return false
	}
	u, ok := v.(*ssa.UnOp)
	if !ok || u.Op != token.MUL {
		return false
	}
	fa, ok := u.X.(*ssa.FieldAddr)
	if !ok || !isFreshDeep(fa.X, depth+1) {
		return false
	}
	// every store into this field of this (fresh) object must store a fresh value (or nil)
	okAll := true
	found := false
	for _, in := range instrsOf(fa.Parent()) {
		st, isSt := in.(*ssa.Store)
		if !isSt {
			continue
		}
		fa2, isFa := st.Addr.(*ssa.FieldAddr)
		if !isFa || fa2.Field != fa.Field || !sameBase(fa2.X, fa.X) {
			continue
		}
		found = true
		if c, isC := st.Val.(*ssa.Const); isC && c.Value == nil {
			continue
		}
		if !isFreshDeep(st.Val, depth+1) {
			okAll = false
		}
	}
	return found && okAll
}

func sameBase(a, b ssa.Value) bool {
	a, b = outerBase(a), outerBase(b)
	if a == b {
		return true
	}
	return sameValue(a, b)
}

func (m *Models) Muts() *MutModel {
	if mm, ok := mutModels[m]; ok {
		return mm
	}
	p := m.p
	mm := &MutModel{m: m, sites: map[*ssa.Function][]*MutSite{}, dictStore: map[*ssa.Function]bool{}, dictRem: map[*ssa.Function]bool{}}
	mutModels[m] = mm
	mm.fKeyspace = p.Field("dataStore", "data")
	mm.fDirty = p.Field("redisDict", "dirty")
	mm.fID = p.Field("storeKey", "id")
	if mm.fKeyspace == nil || mm.fDirty == nil || mm.fID == nil {
		mm.errs = append(mm.errs, "anchor fields dataStore.data / redisDict.dirty / storeKey.id not found")
		return mm
	}
	tracked := map[*types.Var]string{}
	for tn, fs := range m6Fields {
		for _, f := range fs {
			v := p.Field(tn, f)
			if v == nil {
				mm.errs = append(mm.errs, fmt.Sprintf("M6 field %s.%s not found", tn, f))
				continue
			}
			tracked[v] = tn + "." + f
		}
	}
	// dictionary mutators: methods of redisDict that write buckets elements / count, classified by the
	// direction in which they change `count`
	fCount := p.Field("redisDict", "count")
	fBuckets := p.Field("redisDict", "buckets")
	for _, fn := range p.SrcFuncs() {
		if fn.Signature.Recv() == nil || !p.isPkgType(fn.Signature.Recv().Type(), "redisDict") {
			continue
		}
		inc, dec, wr := false, false, false
		for _, in := range instrsOf(fn) {
			st, ok := in.(*ssa.Store)
			if !ok {
				continue
			}
			if fa, ok := st.Addr.(*ssa.FieldAddr); ok && fieldOf(fa) == fCount {
				if b, ok := st.Val.(*ssa.BinOp); ok {
					if b.Op == token.ADD {
						inc = true
					} else if b.Op == token.SUB {
						dec = true
					}
				}
			}
			if ia, ok := st.Addr.(*ssa.IndexAddr); ok {
				if _, f := loadedField(ia.X); f == fBuckets {
					wr = true
				}
			}
		}
		if wr && inc && !dec {
			mm.dictStore[fn] = true
		}
		if wr && dec && !inc {
			mm.dictRem[fn] = true
		}
	}
	if len(mm.dictStore) == 0 || len(mm.dictRem) == 0 {
		mm.errs = append(mm.errs, "redisDict insert/remove methods not identified")
	}
	live := map[*ssa.Function]bool{}
	for _, r := range m.Req().roots {
		for f := range m.Reach(r) {
			live[f] = true
		}
	}
	// handlers reach everything through the dispatch site of their own goroutine root; add them explicitly
	if hs, err := m.Handlers(); err == nil {
		for _, h := range hs {
			for f := range m.Reach(h) {
				live[f] = true
			}
		}
	}
	for _, fn := range p.SrcFuncs() {
		// the dictionary's own methods are the primitive; their stores are not sites
		if fn.Signature.Recv() != nil && p.isPkgType(fn.Signature.Recv().Type(), "redisDict") {
			continue
		}
		if !live[fn] {
			mm.dead = append(mm.dead, fnName(fn))
			continue
		}
		if loaderExempt(fn) {
			continue
		}
		for _, in := range instrsOf(fn) {
			switch x := in.(type) {
			case *ssa.Store:
				fa, ok := x.Addr.(*ssa.FieldAddr)
				if !ok {
					continue
				}
				f := fieldOf(fa)
				name, ok := tracked[f]
				if !ok || isFreshDeep(fa.X, 0) {
					continue
				}
				s := &MutSite{In: x, Fn: fn, What: "store " + name, Kind: "field", Field: f}
				if name == "storeList.count" {
					if b, ok := x.Val.(*ssa.BinOp); ok && b.Op == token.SUB {
						s.Shrinks = true
						s.What = "decrement storeList.count"
					} else if b, ok := x.Val.(*ssa.BinOp); !ok || b.Op != token.ADD {
						// any other assignment (count = 0, count = n) can make the list empty as well
						s.Shrinks = true
						s.What = "assign storeList.count"
					}
				}
				mm.sites[fn] = append(mm.sites[fn], s)
			case *ssa.Call:
				cal := x.Call.StaticCallee()
				if cal == nil || !(mm.dictStore[cal] || mm.dictRem[cal]) || len(x.Call.Args) == 0 {
					continue
				}
				recv := x.Call.Args[0]
				if isFreshDeep(recv, 0) || mm.freshDict(recv) {
					continue
				}
				_, rf := loadedField(recv)
				ks := rf == mm.fKeyspace
				s := &MutSite{In: x, Fn: fn, Keyspace: ks}
				where := "nested"
				if ks {
					where = "keyspace"
				}
				if mm.dictRem[cal] {
					s.Kind, s.Shrinks = "dict-remove", !ks
				} else {
					s.Kind = "dict-store"
				}
				s.What = fmt.Sprintf("call %s [%s]", fnName(cal), where)
				if mm.dictRem[cal] {
					s.EffectAt = changedSuccessor(x)
				}
				mm.sites[fn] = append(mm.sites[fn], s)
			}
		}
		// disambiguate equal descriptions inside one function by ordinal
		cnt := map[string]int{}
		for _, s := range mm.sites[fn] {
			cnt[s.What]++
			if cnt[s.What] > 1 {
				s.What = fmt.Sprintf("%s#%d", s.What, cnt[s.What])
			}
		}
		mm.all = append(mm.all, mm.sites[fn]...)
	}
	return mm
}

// changedSuccessor: call result (bool "something was removed") used solely as an If condition.
func changedSuccessor(c *ssa.Call) *ssa.BasicBlock {
	if b, ok := c.Type().Underlying().(*types.Basic); !ok || b.Kind() != types.Bool {
		return nil
	}
	var theIf *ssa.If
	neg := false
	for _, r := range referrers(c) {
		switch x := r.(type) {
		case *ssa.If:
			if theIf != nil {
				return nil
			}
			theIf = x
		case *ssa.UnOp:
			if x.Op != token.NOT {
				return nil
			}
			for _, rr := range referrers(x) {
				if i, ok := rr.(*ssa.If); ok && theIf == nil {
					theIf, neg = i, true
				} else {
					return nil
				}
			}
		case *ssa.DebugRef:
		default:
			return nil
		}
	}
	if theIf == nil || theIf.Block() != c.Block() {
		return nil
	}
	idx := 0
	if neg {
		idx = 1
	}
	succ := theIf.Block().Succs[idx]
	if len(succ.Preds) != 1 {
		return nil
	}
	return succ
}

// freshDict: the receiver is a dictionary created in this function (newRedisDict()/clone() result).
func (mm *MutModel) freshDict(v ssa.Value) bool {
	seen := map[ssa.Value]bool{}
	var rec func(v ssa.Value) bool
	rec = func(v ssa.Value) bool {
		if seen[v] {
			return true
		}
		seen[v] = true
		switch x := v.(type) {
		case *ssa.Call:
			cal := x.Call.StaticCallee()
			return cal != nil && returnsFreshAlloc(cal)
		case *ssa.Phi:
			for _, e := range x.Edges {
				if !rec(e) {
					return false
				}
			}
			return true
		case *ssa.UnOp:
			// load of a local variable cell: all stores must be fresh dicts
			if al, ok := x.X.(*ssa.Alloc); ok && x.Op == token.MUL {
				n := 0
				for _, r := range referrers(al) {
					if st, ok := r.(*ssa.Store); ok && st.Addr == al {
						n++
						if !rec(st.Val) {
							return false
						}
					}
				}
				return n > 0
			}
			// … or of a variable of the enclosing function captured by this closure (a visitor passed to forEach that
			// works on the result dictionary of its parent): the cell in the parent, judged the same way
			if fv, ok := x.X.(*ssa.FreeVar); ok && x.Op == token.MUL {
				fn := fv.Parent()
				if fn.Parent() == nil {
					return false
				}
				for i, f2 := range fn.FreeVars {
					if f2 != fv {
						continue
					}
					for _, in := range instrsOf(fn.Parent()) {
						mc, ok := in.(*ssa.MakeClosure)
						if !ok || mc.Fn != ssa.Value(fn) || i >= len(mc.Bindings) {
							continue
						}
						al, ok := mc.Bindings[i].(*ssa.Alloc)
						if !ok {
							return false
						}
						n := 0
						for _, r := range referrers(al) {
							if st, ok := r.(*ssa.Store); ok && st.Addr == ssa.Value(al) {
								n++
								if !rec(st.Val) {
									return false
								}
							}
						}
						return n > 0
					}
				}
				return false
			}
		}
		return isFresh(v)
	}
	return rec(v)
}

// returnsFreshAlloc: every return value #0 of fn is an object allocated in fn.
func returnsFreshAlloc(fn *ssa.Function) bool {
	if len(fn.Blocks) == 0 {
		return false
	}
	n := 0
	for _, b := range fn.Blocks {
		ret, ok := b.Instrs[len(b.Instrs)-1].(*ssa.Return)
		if !ok || len(ret.Results) == 0 {
			continue
		}
		n++
		if !isFresh(ret.Results[0]) {
			return false
		}
	}
	return n > 0
}

// returnsFreshObject: as returnsFreshAlloc, also when the object comes from a constructor (`dup := newRedisDict()`).
func returnsFreshObject(fn *ssa.Function, depth int) bool {
	if fn == nil || len(fn.Blocks) == 0 || depth > 3 {
		return false
	}
	n := 0
	for _, b := range fn.Blocks {
		ret, ok := b.Instrs[len(b.Instrs)-1].(*ssa.Return)
		if !ok || len(ret.Results) == 0 {
			continue
		}
		n++
		for _, leaf := range phiLeaves(ret.Results[0], map[ssa.Value]bool{}) {
			if isFresh(leaf) {
				continue
			}
			if call, ok := leaf.(*ssa.Call); ok && returnsFreshObject(call.Call.StaticCallee(), depth+1) {
				continue
			}
			return false
		}
	}
	return n > 0
}

// ---------------------------------------------------------------- events and the path rule

// Event decides whether an instruction is a covering event (directly).
type Event func(in ssa.Instruction) bool

type CoverModel struct {
	m       *Models
	mm      *MutModel
	isEvent Event
	always  map[*ssa.Function]bool // every entry→return path performs E
	// forwardOnly: the event must come after the site (emptiness checks); otherwise before or after.
	forwardOnly bool
	// pruneNotFound: do not follow the "key not found" edge of a keyspace lookup (there is no object to
	// give a version to; callers pass the key of the object they modify)
	pruneNotFound bool
	// assumeLoopsRun: a loop every iteration of which performs E is assumed to run at least once (range
	// loops over argument lists the grammar guarantees to be non-empty)
	assumeLoopsRun bool
	// pruneEdge: extra, site-specific infeasible edges
	pruneEdge func(a, b *ssa.BasicBlock) bool
	// resultPrune: edges that are infeasible because of what the call at resultCall returned when it performed the
	// mutation; valid only until the call is executed again (the next loop iteration gets new results)
	resultPrune func(a, b *ssa.BasicBlock) bool
	resultCall  ssa.Instruction
}

// loopExitEdge: a->b leaves a loop headed at a whose body performs E on every iteration.
func (cm *CoverModel) loopExitEdge(a, b *ssa.BasicBlock) bool {
	if !cm.assumeLoopsRun || len(a.Succs) != 2 {
		return false
	}
	other := a.Succs[0]
	if other == b {
		other = a.Succs[1]
	}
	// other side must loop back to a, b must not
	if !reachableFrom(other, nil)[a] || reachableFrom(b, nil)[a] {
		return false
	}
	// every way from `other` back to a passes E
	type pt struct{ b *ssa.BasicBlock }
	seen := map[*ssa.BasicBlock]bool{}
	stack := []*ssa.BasicBlock{other}
	for len(stack) > 0 {
		cur := stack[len(stack)-1]
		stack = stack[:len(stack)-1]
		if seen[cur] {
			continue
		}
		seen[cur] = true
		blocked := false
		for _, in := range cur.Instrs {
			if cm.eventAt(in) {
				blocked = true
				break
			}
		}
		if blocked {
			continue
		}
		for _, s := range cur.Succs {
			if cm.pruneEdge != nil && cm.pruneEdge(cur, s) {
				continue
			}
			if s == a {
				return false // an iteration without E exists
			}
			stack = append(stack, s)
		}
	}
	return true
}

// nilResultsAfter: result indexes of fn that are certainly nil on every return reachable from `in`
// (the mutation and an error result exclude each other).
// boolResultsAfter: boolean results of fn that have one fixed value on every return reachable from `in` (e.g. the
// wrongType flag of a helper is false whenever the helper created the key).
func boolResultsAfter(in ssa.Instruction) map[int]bool {
	fn := in.Parent()
	out := map[int]bool{}
	res := fn.Signature.Results()
	for i := 0; i < res.Len(); i++ {
		bt, ok := res.At(i).Type().Underlying().(*types.Basic)
		if !ok || bt.Kind() != types.Bool {
			continue
		}
		n, val, same := 0, false, true
		for b := range reachableFrom(in.Block(), nil) {
			ret, ok := b.Instrs[len(b.Instrs)-1].(*ssa.Return)
			if !ok || i >= len(ret.Results) {
				continue
			}
			v := ret.Results[i]
			// the values the result can have on the ways from `in` to this return: a phi of the return block contributes
			// the edges whose predecessor lies behind `in`
			cands := []ssa.Value{v}
			if phi, isPhi := v.(*ssa.Phi); isPhi && phi.Block() == b {
				cands = nil
				after := reachableFrom(in.Block(), nil)
				for ei, e := range phi.Edges {
					if pr := b.Preds[ei]; pr == in.Block() || after[pr] {
						cands = append(cands, e)
					}
				}
			}
			for _, cv := range cands {
				var t, known bool
				if k, isC := cv.(*ssa.Const); isC && k.Value != nil {
					t, known = k.Value.String() == "true", true
				} else if tv, ok := dominatingTruths(b)[cv]; ok {
					t, known = tv, true
				}
				if !known {
					same = false
					break
				}
				if n > 0 && t != val {
					same = false
					break
				}
				val = t
				n++
			}
			if !same {
				break
			}
		}
		if same && n > 0 {
			out[i] = val
		}
	}
	return out
}

func nilResultsAfter(in ssa.Instruction) map[int]bool {
	fn := in.Parent()
	out := map[int]bool{}
	res := fn.Signature.Results()
	for i := 0; i < res.Len(); i++ {
		switch res.At(i).Type().Underlying().(type) {
		case *types.Pointer, *types.Interface:
		default:
			continue
		}
		all := true
		n := 0
		for b := range reachableFrom(in.Block(), nil) {
			ret, ok := b.Instrs[len(b.Instrs)-1].(*ssa.Return)
			if !ok || i >= len(ret.Results) {
				continue
			}
			n++
			v := ret.Results[i]
			if isNilConst(v) || knownNilIn(v, b) || knownNilIn(v, in.Block()) {
				continue // (an SSA value tested nil before the mutation is still nil at the return)
			}
			all = false
		}
		if all && n > 0 {
			out[i] = true
		}
	}
	return out
}

// knownNilIn: v is known to be nil in block blk by a dominating test.
func knownNilIn(v ssa.Value, blk *ssa.BasicBlock) bool {
	for _, d := range blk.Parent().Blocks {
		nn := nonNilSucc(d, v)
		if nn == nil {
			continue
		}
		nilSide := d.Succs[0]
		if nilSide == nn {
			nilSide = d.Succs[1]
		}
		if len(nilSide.Preds) == 1 && (nilSide == blk || nilSide.Dominates(blk)) {
			return true
		}
	}
	return false
}

// notFoundEdge: edge a->b is the false edge of `if exists` where exists is result #1 of a lookup
// returning (*storeKey, bool).
func (cm *CoverModel) notFoundEdge(a, b *ssa.BasicBlock) bool {
	if !cm.pruneNotFound {
		return false
	}
	ifi, ok := a.Instrs[len(a.Instrs)-1].(*ssa.If)
	if !ok || a.Succs[0] == a.Succs[1] {
		return false
	}
	cond := ifi.Cond
	neg := false
	if u, ok := cond.(*ssa.UnOp); ok && u.Op == token.NOT {
		cond, neg = u.X, true
	}
	ex, ok := cond.(*ssa.Extract)
	if !ok || ex.Index != 1 {
		return false
	}
	call, ok := ex.Tuple.(*ssa.Call)
	if !ok {
		return false
	}
	res := call.Call.Signature().Results()
	if res.Len() != 2 || !cm.m.p.isPkgType(res.At(0).Type(), "storeKey") {
		return false
	}
	notFound := a.Succs[1]
	if neg {
		notFound = a.Succs[0]
	}
	return b == notFound
}

func (m *Models) newCover(ev Event, prune ...bool) *CoverModel {
	cm := &CoverModel{m: m, mm: m.Muts(), isEvent: ev, always: map[*ssa.Function]bool{}}
	cm.pruneNotFound = len(prune) > 0 && prune[0]
	// least fix-point of alwaysE
	for changed := true; changed; {
		changed = false
		for _, fn := range m.p.SrcFuncs() {
			if cm.always[fn] {
				continue
			}
			if !cm.exitReachableWithoutE(fn, fn.Blocks[0], 0) {
				cm.always[fn] = true
				changed = true
			}
		}
	}
	return cm
}

// eventAt: the instruction is E, or a call all of whose callees always perform E.
func (cm *CoverModel) eventAt(in ssa.Instruction) bool {
	if cm.isEvent(in) {
		return true
	}
	switch x := in.(type) {
	case *ssa.Call:
		cals := cm.m.p.Callees(x)
		if len(cals) == 0 {
			return false
		}
		for _, g := range cals {
			if !cm.always[g] {
				return false
			}
		}
		return true
	case *ssa.RunDefers:
		for _, in2 := range instrsOf(in.Parent()) {
			if d, ok := in2.(*ssa.Defer); ok && (d.Block() == in.Block() || d.Block().Dominates(in.Block())) {
				if cm.isEvent(d) {
					return true
				}
				cals := cm.m.p.Callees(d)
				all := len(cals) > 0
				for _, g := range cals {
					if !cm.always[g] {
						all = false
					}
				}
				if all {
					return true
				}
			}
		}
	}
	return false
}

// exitReachableWithoutE: starting before instruction idx of block b, can a Return be reached
// without executing E?
func (cm *CoverModel) exitReachableWithoutE(fn *ssa.Function, b *ssa.BasicBlock, idx int) bool {
	type pt struct {
		b  *ssa.BasicBlock
		i  int
		ph int
	}
	seenPh := [2]map[*ssa.BasicBlock]bool{{}, {}}
	stack := []pt{{b, idx, 0}}
	// branch decisions that every path to the start point has already taken (dominating edges): a later branch on the
	// same condition value cannot go the other way (two variants merged behind a boolean parameter)
	known := dominatingTruths(b)
	// … unless the condition can be evaluated again after the start point (a loop condition: same SSA value, new
	// outcome in the next iteration)
	if len(known) > 0 {
		after := reachableFrom(b, nil)
		for cond := range known {
			if ins, ok := cond.(ssa.Instruction); ok && ins.Block() != nil && after[ins.Block()] {
				delete(known, cond)
			}
		}
	}
	contradicts := func(from, to *ssa.BasicBlock) bool {
		ifi, ok := from.Instrs[len(from.Instrs)-1].(*ssa.If)
		if !ok || len(known) == 0 {
			return false
		}
		cond, neg := ifi.Cond, false
		for {
			u, isU := cond.(*ssa.UnOp)
			if !isU || u.Op != token.NOT {
				break
			}
			cond, neg = u.X, !neg
		}
		t, ok := known[cond]
		if !ok {
			return false
		}
		takenTrue := (from.Succs[0] == to) != neg
		return takenTrue != t
	}
	for len(stack) > 0 {
		cur := stack[len(stack)-1]
		stack = stack[:len(stack)-1]
		blocked := false
		for i := cur.i; i < len(cur.b.Instrs); i++ {
			in := cur.b.Instrs[i]
			if cm.eventAt(in) {
				blocked = true
				break
			}
			if _, isRet := in.(*ssa.Return); isRet {
				return true
			}
		}
		if blocked {
			continue
		}
		for _, s := range cur.b.Succs {
			if contradicts(cur.b, s) {
				continue
			}
			if cm.notFoundEdge(cur.b, s) || cm.loopExitEdge(cur.b, s) || (cm.pruneEdge != nil && cm.pruneEdge(cur.b, s)) {
				continue
			}
			ph := cur.ph
			if ph == 0 && cm.resultPrune != nil && cm.resultPrune(cur.b, s) {
				continue
			}
			if cm.resultCall != nil && s == cm.resultCall.Block() {
				ph = 1 // the call runs again: its results are new
			}
			if !seenPh[ph][s] {
				seenPh[ph][s] = true
				stack = append(stack, pt{s, 0, ph})
			}
		}
	}
	return false
}

// entryReachesWithoutE: can instruction `in` be reached from the function entry without executing E?
func (cm *CoverModel) entryReachesWithoutE(in ssa.Instruction) bool {
	type pt struct {
		b *ssa.BasicBlock
		i int // scan instructions [0,i) backwards
	}
	tb := in.Block()
	ti := instrIndex(in)
	seen := map[*ssa.BasicBlock]bool{}
	stack := []pt{{tb, ti}}
	for len(stack) > 0 {
		cur := stack[len(stack)-1]
		stack = stack[:len(stack)-1]
		blocked := false
		for i := cur.i - 1; i >= 0; i-- {
			if cm.eventAt(cur.b.Instrs[i]) {
				blocked = true
				break
			}
		}
		if blocked {
			continue
		}
		if cur.b.Index == 0 {
			return true
		}
		for _, pr := range cur.b.Preds {
			if !seen[pr] && !cm.notFoundEdge(pr, cur.b) {
				seen[pr] = true
				stack = append(stack, pt{pr, len(pr.Instrs)})
			}
		}
	}
	return false
}

// covered: every entry→exit path through `in` contains E (E at `in` itself counts).
func (cm *CoverModel) covered(in ssa.Instruction) bool {
	return cm.coveredFrom(in, in.Block(), instrIndex(in)+1)
}

// coveredFrom: as covered, but the effect of `in` starts at (b, idx).
func (cm *CoverModel) coveredFrom(in ssa.Instruction, b *ssa.BasicBlock, idx int) bool {
	if cm.eventAt(in) {
		return true
	}
	if !cm.forwardOnly && !cm.entryReachesWithoutE(in) {
		return true
	}
	return !cm.exitReachableWithoutE(in.Parent(), b, idx)
}

// coveredWithNilResults: as covered, for a call site whose callee performed the mutation: the results
// in nilRes are nil then, so the caller's branches on "result != nil" are not taken.
func (cm *CoverModel) coveredWithResults(in ssa.Instruction, nilRes map[int]bool, boolRes map[int]bool) bool {
	call, ok := in.(*ssa.Call)
	if !ok || len(boolRes) == 0 {
		return cm.coveredWithNilResults(in, nilRes)
	}
	// boolean results with a fixed value after the mutation: branches on them cannot go the other way
	fixed := map[ssa.Value]bool{}
	if call.Call.Signature().Results().Len() == 1 {
		if t, ok := boolRes[0]; ok {
			fixed[call] = t
		}
	}
	for _, rr := range referrers(call) {
		if ex, ok := rr.(*ssa.Extract); ok {
			if t, ok := boolRes[ex.Index]; ok {
				fixed[ex] = t
			}
		}
	}
	boolPrune := func(a, b *ssa.BasicBlock) bool {
		ifi, ok := a.Instrs[len(a.Instrs)-1].(*ssa.If)
		if !ok {
			return false
		}
		cond, neg := ifi.Cond, false
		for {
			u, isU := cond.(*ssa.UnOp)
			if !isU || u.Op != token.NOT {
				break
			}
			cond, neg = u.X, !neg
		}
		t, ok := fixed[cond]
		if !ok {
			// the result kept in a local cell (a named result of the caller) and re-loaded
			for fv, ft := range fixed {
				if sameStatus(cond, fv) {
					t, ok = ft, true
				}
			}
		}
		if !ok {
			return false
		}
		takenTrue := (a.Succs[0] == b) != neg
		return takenTrue != t
	}
	return cm.coveredWithNilResultsAnd(in, nilRes, boolPrune)
}

func (cm *CoverModel) coveredWithNilResults(in ssa.Instruction, nilRes map[int]bool) bool {
	return cm.coveredWithNilResultsAnd(in, nilRes, nil)
}

func (cm *CoverModel) coveredWithNilResultsAnd(in ssa.Instruction, nilRes map[int]bool, extra func(a, b *ssa.BasicBlock) bool) bool {
	call, ok := in.(*ssa.Call)
	if !ok || (len(nilRes) == 0 && extra == nil) {
		return cm.covered(in)
	}
	var vals []ssa.Value
	if call.Call.Signature().Results().Len() == 1 && nilRes[0] {
		vals = append(vals, call)
	}
	for _, rr := range referrers(call) {
		if ex, ok := rr.(*ssa.Extract); ok && nilRes[ex.Index] {
			vals = append(vals, ex)
		}
	}
	// a variable assigned from the result on this branch (`x, err = f()` in one arm of an if): the phi that merges it
	// with the other arm has this value on every path that starts at the call
	for _, v := range append([]ssa.Value{}, vals...) {
		for _, r := range referrers(v) {
			phi, ok := r.(*ssa.Phi)
			if !ok {
				continue
			}
			for i, e := range phi.Edges {
				pr := phi.Block().Preds[i]
				if e == v && (pr == call.Block() || call.Block().Dominates(pr)) {
					vals = append(vals, phi)
				}
			}
		}
	}
	oldP, oldC := cm.resultPrune, cm.resultCall
	cm.resultCall = call
	cm.resultPrune = func(a, b *ssa.BasicBlock) bool {
		if extra != nil && extra(a, b) {
			return true
		}
		for _, v := range vals {
			if nn := nonNilSucc(a, v); nn != nil && nn == b {
				return true // the "result is non-nil" edge is infeasible after the mutation
			}
		}
		return false
	}
	defer func() { cm.resultPrune, cm.resultCall = oldP, oldC }()
	return cm.covered(in)
}

func (cm *CoverModel) coveredSite(s *MutSite) bool {
	b, i := s.start()
	return cm.coveredFrom(s.In, b, i)
}

// Uncovered lifts uncovered sites to the function that holds the database lock around them (or to a
// root). Result: reporting function -> original sites (with the call chain).
type lifted struct {
	site  *MutSite
	at    *ssa.Function // where it is reported
	chain []string
}

func (cm *CoverModel) Uncovered(sel func(*MutSite) bool) []lifted {
	p := cm.m.p
	lm := cm.m.Locks()
	rm := cm.m.Req()
	// callers index
	type csite struct {
		in     ssa.Instruction
		caller *ssa.Function
	}
	callersOf := map[*ssa.Function][]csite{}
	for _, fn := range p.SrcFuncs() {
		for _, cs := range rm.calls[fn] {
			if cs.isGo || cs.cut {
				continue
			}
			for _, g := range cs.callees {
				callersOf[g] = append(callersOf[g], csite{cs.in, fn})
			}
		}
	}
	// callers that no root reaches (helpers kept around unused) are not paths of the program
	deadFn := map[string]bool{}
	for _, d := range cm.mm.dead {
		deadFn[d] = true
	}
	for g, cs := range callersOf {
		var liveCs []csite
		for _, c := range cs {
			if !deadFn[fnName(enclosing(c.caller))] {
				liveCs = append(liveCs, c)
			}
		}
		callersOf[g] = liveCs
	}
	var out []lifted
	for _, s := range cm.mm.all {
		if sel != nil && !sel(s) {
			continue
		}
		if cm.coveredSite(s) {
			continue
		}
		// walk up while the lock is not held locally
		type frame struct {
			in    ssa.Instruction
			chain []string
		}
		visited := map[ssa.Instruction]bool{}
		work := []frame{{s.In, nil}}
		for len(work) > 0 {
			fr := work[0]
			work = work[1:]
			if visited[fr.in] {
				continue
			}
			visited[fr.in] = true
			fn := fr.in.Parent()
			held := lm.DB >= 0 && lm.LocallyHeld(fr.in).has(lm.DB)
			cs := callersOf[fn]
			if held || len(cs) == 0 || rm.rootWhy[fn] != "" {
				out = append(out, lifted{site: s, at: fn, chain: fr.chain})
				continue
			}
			nilRes := nilResultsAfter(fr.in)
			boolRes := boolResultsAfter(fr.in)
			for _, c := range cs {
				if loaderExempt(c.caller) {
					continue // a list/dictionary helper used by the snapshot loader: nothing to version or to mark dirty there
				}
				if cm.coveredWithResults(c.in, nilRes, boolRes) {
					continue
				}
				ch := append(append([]string{}, fr.chain...), fmt.Sprintf("%s [%s]", fnName(c.caller), p.Pos(p.InstrPos(c.in))))
				work = append(work, frame{c.in, ch})
			}
		}
	}
	sort.Slice(out, func(i, j int) bool {
		if fnName(out[i].at) != fnName(out[j].at) {
			return fnName(out[i].at) < fnName(out[j].at)
		}
		return out[i].site.key() < out[j].site.key()
	})
	return out
}

func chainString(ch []string) string {
	if len(ch) == 0 {
		return ""
	}
	// chain is innermost-first; print outermost first
	rev := make([]string, len(ch))
	for i, c := range ch {
		rev[len(ch)-1-i] = c
	}
	return " via " + strings.Join(rev, " -> ")
}

// dominatingTruths: truth values of branch conditions fixed by the edges that dominate block b.
func dominatingTruths(b *ssa.BasicBlock) map[ssa.Value]bool {
	out := map[ssa.Value]bool{}
	fn := b.Parent()
	for _, d := range fn.Blocks {
		ifi, ok := d.Instrs[len(d.Instrs)-1].(*ssa.If)
		if !ok || d == b || !d.Dominates(b) {
			continue
		}
		for i, s := range d.Succs {
			if len(s.Preds) != 1 || !(s == b || s.Dominates(b)) {
				continue
			}
			cond, truth := ifi.Cond, i == 0
			for {
				u, isU := cond.(*ssa.UnOp)
				if !isU || u.Op != token.NOT {
					break
				}
				cond, truth = u.X, !truth
			}
			out[cond] = truth
		}
	}
	return out
}
