# what is claimed right now (edited as checks become clean on the unchanged tree)
T = "custom static analysis over go/types + go/ssa + VTA call graph"
NOTE = ("trusted base: go/types, go/ssa and the VTA call graph of golang.org/x/tools v0.29.0; the lock-class abstraction (classes, not instances); "
        "the frozen guarded-by / role tables in the checker; anchors (type and field names) must resolve or the check fails. "
        "The check decides the named structural clauses for every site/path of the current source; it does not execute the emulator and does not decide reply values.")
def L(txt):
    return "structural necessary condition decided exhaustively over all sites/paths of the current source (level other): " + txt
CLAIMED = {
 "C06": {"technique": T + ": forward must-pass path rule (A4-empty) + handler/grammar agreement (A7)",
         "text": L("no site that can shrink a list/hash/set reaches the end of its critical section without the emptiness test that removes the key; options of keyspace commands are producible by the grammar"), "note": NOTE},
 "C07": {"technique": T + ": who-may-call / filter rule over keyspace readers (A6)",
         "text": L("every read of the keyspace goes through the expiry filter, an expiry-testing iteration, or the snapshot writer"), "note": NOTE},
 "C08": {"technique": T + ": interprocedural lockset (guarded-by) for the database class + lock-balanced (may-held at return)",
         "text": L("every access to database state holds the database mutex on every call path from every root; no function leaks the mutex"), "note": NOTE},
 "C09": {"technique": T + ": must-pass-through, dominance and reachability rules on the MULTI/EXEC code",
         "text": L("reset on every EXEC/DISCARD exit, queue-only while MULTI, replay under the exclusive hold, inert error branches, abort mark, no non-re-entrant lock in replayable handlers"), "note": NOTE},
 "C10": {"technique": T + ": mutation-site coverage path rule (A4-version)",
         "text": L("every mutation site of database state is accompanied on every path by a new version id or the removal of the key"), "note": NOTE},
 "C13": {"technique": T + ": abstract interpretation of handlers against the command grammar read from the embedded spec (A7)",
         "text": L("every panicking type assertion on command arguments and every panicking key-switch default is unreachable for every command token"), "note": NOTE},
 "C16": {"technique": T + ": interprocedural lockset, atomic/immutable/confinement modes, taint of registry values, append-alias and payload-byte rules (A1)",
         "text": L("every access to a shared field in the guarded-by table is protected according to its mode on every call path"), "note": NOTE},
 "C19": {"technique": T + ": mutation-site coverage path rule (A4-dirty)",
         "text": L("every mutation site of database state marks the database dirty on every path inside its critical section"), "note": NOTE},
}
PENDING = {}
