#!/usr/bin/env python3
"""Runs every seeded change (and reverted fix) against every claimed property with the self-test battery
(`rdcheck selftest -allprops`, scratch copies, one process per variant) and rewrites `caught_by` / `status`
in seeded/<id>/meta.json. Development tool."""
import json, os, re, subprocess, collections
env = dict(os.environ, GOFLAGS='-mod=mod', GOPROXY='off', GOSUMDB='off', GOTOOLCHAIN='local', RDCHECK_JOBS=os.environ.get('RDCHECK_JOBS', '6'))
out = subprocess.run(['/verif/bin/rdcheck', 'selftest', '-allprops'], cwd='/verif', env=env, capture_output=True, text=True).stdout
open('/tmp/selftest_allprops.txt', 'w').write(out)
fired = collections.defaultdict(dict); status = collections.defaultdict(set)
for l in out.splitlines():
    p = l.split()
    if len(p) < 3 or not (p[0].startswith('seed-') or p[0].startswith('revert-')):
        continue
    status[p[0]].add(p[2])
    if p[2] == 'fired':
        fired[p[0]][p[1]] = p[3].split(',') if len(p) > 3 else []
for v in sorted(status):
    if not v.startswith('seed-'):
        continue
    d = '/verif/seeded/' + v[5:]
    mp = d + '/meta.json'
    meta = json.load(open(mp))
    if status[v] == {'stale'}:
        meta['status'] = 'stale: the patch no longer applies to /repo HEAD'
    else:
        meta['caught_by'] = {p: {'rules': r} for p, r in sorted(fired[v].items())}
        conf = meta.get('confirmed', {})
        ok = conf.get('demo_passes_on_clean_head') and not str(conf.get('demo_fails_with_patch', '0/')).startswith('0/') and conf.get('existing_suite_passes_with_patch')
        meta['status'] = ('caught' if fired[v] else 'missed') + ('' if ok or not conf else ' (demonstration not confirmed)')
        own = meta.get('property')
        meta['caught_by_own_property'] = own in fired[v]
    json.dump(meta, open(mp, 'w'), indent=1)
    print(v, meta['status'], ' '.join(f"{p}:{','.join(r)}" for p, r in sorted(fired[v].items())))
