package main




func runSelfTests(verifDir, root, prop string) map[string]any { return nil }

func cmdSelftest(args []string) int { return 0 }
